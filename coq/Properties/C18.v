(* C18 — Title-casing only changes letter case and is idempotent.
   This file pins the statements; it contains nothing but `exact` (and vm_compute Examples).

   The model (Model/TitleCase.v) is make_title_case over abstract tokens, as the code is since 41fa706
   (the proper-noun block copies a canonical character only over a case variant of itself, or the
   straight apostrophe over a curly one).  `lower`, `upper`, `is_lowercase` (char::to_lowercase /
   to_uppercase / is_lowercase) and the two dictionary methods are universally quantified; what the
   theorems need to know about them is stated as named laws, each monitored on the real code:
     lower_ascii_law / upper_ascii_law   the mappings do not depend on the ASCII case of the argument
     apostrophes_caseless                ' and the three curly apostrophes have no case variant but themselves
     ascii_variant_closed                a case variant of an ASCII letter is an ASCII letter
     lowercase_fixed                     to_lowercase fixes is_lowercase characters
     apostrophes_lower_fixed             to_lowercase fixes the four apostrophes
     dict_case_insensitive               the two look-ups do not see case / apostrophe style (WordId)
   case_variant lower upper a c := lower a = lower c /\ upper a = upper c  (what is_case_variant computes).
   toks_ok n toks is the C02 token invariant: spans in bounds of a text of length n, ordered,
   disjoint, word-like tokens non-empty.  History/C18History.v: the code before 41fa706 (FC18a/FC18b). *)
Require Import Base Overlap Tables_lexer Lexer Condense LexerProofs C18LexStable C18PassesIC C18LexDots C18LexAlnum C18LexCurly.
Require Import Base Tables_titlecase TitleCase TitleCaseProofs C18History C18Str C18StrProofs.
From Coq Require Import Sorting.Sorted Lia.

(* no panic: for tokens satisfying the C02 invariant, provided the canonical spelling the
   dictionary returns for a word is at least as long as the word (H_canon_len; the harness
   monitors equality of lengths, on every lookup and over the whole curated dictionary).
   correct_caps[idx] is still indexed before the guard of the copy, so the premise is still needed *)
Theorem C18_total : forall lower upper is_lowercase dict_canon dict_meta toks src,
  toks_ok (length src) toks ->
  (forall w cc, dict_canon w = Some cc -> length w <= length cc) ->
  exists out, make_title_case lower upper is_lowercase dict_canon dict_meta toks src = Ok out.
Proof. exact mtc_total. Qed.
Check C18_total : forall lower upper is_lowercase dict_canon dict_meta toks src,
  toks_ok (length src) toks ->
  (forall w cc, dict_canon w = Some cc -> length w <= length cc) ->
  exists out, make_title_case lower upper is_lowercase dict_canon dict_meta toks src = Ok out.
Print Assumptions C18_total.

(* the same with H_canon_len derived from how the dictionary finds a word: the canonical spelling
   found for w has the same folded form (char_to_normalized, then to_lowercase: the pre-image of
   WordId) as w, each of its characters lower-cases to exactly one character, and to_lowercase never
   yields the empty string — the three facts the harness monitors (every look-up; every entry of the
   curated dictionary; all code points) *)
Theorem C18_total_word_id : forall lower upper is_lowercase dict_canon dict_meta toks src,
  toks_ok (length src) toks ->
  (forall c, lower c <> []) ->
  (forall w cc, dict_canon w = Some cc ->
                fold_word lower cc = fold_word lower w /\
                Forall (fun c => length (lower (normalize_char c)) = 1) cc) ->
  exists out, make_title_case lower upper is_lowercase dict_canon dict_meta toks src = Ok out.
Proof. exact mtc_total_word_id. Qed.
Check C18_total_word_id : forall lower upper is_lowercase dict_canon dict_meta toks src,
  toks_ok (length src) toks ->
  (forall c, lower c <> []) ->
  (forall w cc, dict_canon w = Some cc ->
                fold_word lower cc = fold_word lower w /\
                Forall (fun c => length (lower (normalize_char c)) = 1) cc) ->
  exists out, make_title_case lower upper is_lowercase dict_canon dict_meta toks src = Ok out.
Print Assumptions C18_total_word_id.

(* the output has the length of the hull of the tokens — for ANY token list: text outside the hull
   is dropped (Markdown: "A\n" gives "A") and an empty token list gives the empty string *)
Theorem C18_length : forall lower upper is_lowercase dict_canon dict_meta toks src out,
  make_title_case lower upper is_lowercase dict_canon dict_meta toks src = Ok out ->
  length out = hull_end toks - hull_start toks.
Proof. exact mtc_length. Qed.
Check C18_length : forall lower upper is_lowercase dict_canon dict_meta toks src out,
  make_title_case lower upper is_lowercase dict_canon dict_meta toks src = Ok out ->
  length out = hull_end toks - hull_start toks.
Print Assumptions C18_length.

(* hence: when the tokens tile the text (PlainEnglish), input and output have the same length *)
Theorem C18_length_tiling : forall lower upper is_lowercase dict_canon dict_meta toks src out,
  make_title_case lower upper is_lowercase dict_canon dict_meta toks src = Ok out ->
  hull_start toks = 0 -> hull_end toks = length src ->
  length out = length src.
Proof. exact mtc_length_tiling. Qed.
Check C18_length_tiling : forall lower upper is_lowercase dict_canon dict_meta toks src out,
  make_title_case lower upper is_lowercase dict_canon dict_meta toks src = Ok out ->
  hull_start toks = 0 -> hull_end toks = length src ->
  length out = length src.
Print Assumptions C18_length_tiling.

(* CASE ONLY, at the strength of the property text, for ANY token list (overlapping, unordered, ...):
   output character k is a case variant of the source character at hull_start + k (same to_lowercase
   and same to_uppercase mapping), or it is the straight apostrophe standing for a curly one inside a
   word-like token for which the proper-noun block found a canonical spelling that has the straight
   apostrophe at that offset.  No exception is left: before 41fa706 a KELVIN SIGN became K here.
   (first_start = start of the first token, the anchor of the code's index arithmetic; equal to
   hull_start under the token invariant.) *)
Theorem C18_case_only : forall lower upper is_lowercase dict_canon dict_meta,
  lower_ascii_law lower -> upper_ascii_law upper -> apostrophes_caseless lower upper ->
  forall toks src out,
  make_title_case lower upper is_lowercase dict_canon dict_meta toks src = Ok out ->
  forall k c, nth_error out k = Some c ->
    exists a, nth_error src (hull_start toks + k) = Some a /\
      (case_variant lower upper a c \/
       (In a tc_canonical_apostrophe_from /\ c = tc_canonical_apostrophe_to /\
        exists w cc,
          In w toks /\ tok_word_like w = true /\ canon_for dict_canon w src = Ok (Some cc) /\
          tstart w <= first_start toks + k < tend w /\
          nth_error cc (first_start toks + k - tstart w) = Some tc_canonical_apostrophe_to)).
Proof. exact mtc_case_only. Qed.
Check C18_case_only : forall lower upper is_lowercase dict_canon dict_meta,
  lower_ascii_law lower -> upper_ascii_law upper -> apostrophes_caseless lower upper ->
  forall toks src out,
  make_title_case lower upper is_lowercase dict_canon dict_meta toks src = Ok out ->
  forall k c, nth_error out k = Some c ->
    exists a, nth_error src (hull_start toks + k) = Some a /\
      (case_variant lower upper a c \/
       (In a tc_canonical_apostrophe_from /\ c = tc_canonical_apostrophe_to /\
        exists w cc,
          In w toks /\ tok_word_like w = true /\ canon_for dict_canon w src = Ok (Some cc) /\
          tstart w <= first_start toks + k < tend w /\
          nth_error cc (first_start toks + k - tstart w) = Some tc_canonical_apostrophe_to)).
Print Assumptions C18_case_only.

(* FIRST UPPER, the clause of the property text: where the first word-like token starts, the output
   never has an ASCII lower-case letter, and it has an ASCII upper-case letter whenever the token
   starts with an ASCII letter (the guarded copy can only put a case variant of that letter there) *)
Theorem C18_first_upper : forall lower upper is_lowercase dict_canon dict_meta toks src out w0 rest,
  ascii_variant_closed lower upper ->
  toks_ok (length src) toks ->
  make_title_case lower upper is_lowercase dict_canon dict_meta toks src = Ok out ->
  filter tok_word_like toks = w0 :: rest ->
  exists a c,
    nth_error src (tstart w0) = Some a /\ nth_error out (tstart w0 - first_start toks) = Some c /\
    is_ascii_lower c = false /\ (is_ascii_alpha a = true -> is_ascii_upper c = true).
Proof. exact mtc_first_upper. Qed.
Check C18_first_upper : forall lower upper is_lowercase dict_canon dict_meta toks src out w0 rest,
  ascii_variant_closed lower upper ->
  toks_ok (length src) toks ->
  make_title_case lower upper is_lowercase dict_canon dict_meta toks src = Ok out ->
  filter tok_word_like toks = w0 :: rest ->
  exists a c,
    nth_error src (tstart w0) = Some a /\ nth_error out (tstart w0 - first_start toks) = Some c /\
    is_ascii_lower c = false /\ (is_ascii_alpha a = true -> is_ascii_upper c = true).
Print Assumptions C18_first_upper.

(* ... exactly: to_ascii_uppercase of the token's first character, or of the first character of the
   canonical spelling when the guarded copy took it (canon_pick) *)
Theorem C18_first_upper_exact : forall lower upper is_lowercase dict_canon dict_meta toks src out w0 rest,
  toks_ok (length src) toks ->
  make_title_case lower upper is_lowercase dict_canon dict_meta toks src = Ok out ->
  filter tok_word_like toks = w0 :: rest ->
  exists oc a b,
    canon_for dict_canon w0 src = Ok oc /\ nth_error src (tstart w0) = Some a /\
    match oc with
    | Some cc => exists b0, nth_error cc 0 = Some b0 /\ b = canon_pick lower upper a b0
    | None => b = a
    end /\
    nth_error out (tstart w0 - first_start toks) = Some (ascii_upper b).
Proof. exact mtc_first_upper_exact. Qed.
Check C18_first_upper_exact : forall lower upper is_lowercase dict_canon dict_meta toks src out w0 rest,
  toks_ok (length src) toks ->
  make_title_case lower upper is_lowercase dict_canon dict_meta toks src = Ok out ->
  filter tok_word_like toks = w0 :: rest ->
  exists oc a b,
    canon_for dict_canon w0 src = Ok oc /\ nth_error src (tstart w0) = Some a /\
    match oc with
    | Some cc => exists b0, nth_error cc 0 = Some b0 /\ b = canon_pick lower upper a b0
    | None => b = a
    end /\
    nth_error out (tstart w0 - first_start toks) = Some (ascii_upper b).
Print Assumptions C18_first_upper_exact.

(* to_ascii_uppercase of an ASCII letter is an ASCII upper-case letter, of anything else the
   character itself; it is never an ASCII lower-case letter *)
Theorem C18_ascii_upper_spec : forall c,
  is_ascii_lower (ascii_upper c) = false /\
  (is_ascii_alpha c = true -> is_ascii_upper (ascii_upper c) = true) /\
  (is_ascii_lower c = false -> ascii_upper c = c).
Proof. exact ascii_upper_spec. Qed.
Check C18_ascii_upper_spec : forall c,
  is_ascii_lower (ascii_upper c) = false /\
  (is_ascii_alpha c = true -> is_ascii_upper (ascii_upper c) = true) /\
  (is_ascii_lower c = false -> ascii_upper c = c).
Print Assumptions C18_ascii_upper_spec.

(* the tie to the source (table regenerated from title_case.rs / token_kind.rs / char_string.rs on
   every run): characters of the output are only ever written through to_ascii_uppercase /
   to_ascii_lowercase (one char to one char) or by the GUARDED copy of the canonical spelling
   (is_case_variant = same to_lowercase and same to_uppercase; straight over curly apostrophe), the
   unguarded copy is gone; the first and the last word-like token are forced upper; the word-like
   kinds and the special conjunctions are the ones the model and the harness use *)
Theorem C18_source_shape : 
  tc_uses_unicode_case_on_output = false /\ tc_ascii_upper_sites = 1 /\ tc_ascii_lower_sites = 1 /\
  tc_output_index_writes = 2 /\
  tc_canonical_copy_guarded = true /\ tc_canonical_copy_unguarded_present = false /\
  tc_case_variant_is_lower_and_upper = true /\
  tc_canonical_apostrophe_to = 39%N /\ tc_canonical_apostrophe_from = [8217; 8216; 65287]%N /\
  tc_first_last_forced = true /\
  tc_token_kind_count = 12 /\ tc_word_like_codes = [0; 6; 8; 2; 3] /\
  tc_special_conjunctions = [[97; 110; 100]; [98; 117; 116]; [102; 111; 114]; [111; 114]; [110; 111; 114]]%N /\
  tc_short_preposition_max = 4 /\
  tc_normalize_table = [(8217, 39); (8216, 39); (65287, 39)]%N.
Proof. exact tc_source_shape. Qed.
Check C18_source_shape : 
  tc_uses_unicode_case_on_output = false /\ tc_ascii_upper_sites = 1 /\ tc_ascii_lower_sites = 1 /\
  tc_output_index_writes = 2 /\
  tc_canonical_copy_guarded = true /\ tc_canonical_copy_unguarded_present = false /\
  tc_case_variant_is_lower_and_upper = true /\
  tc_canonical_apostrophe_to = 39%N /\ tc_canonical_apostrophe_from = [8217; 8216; 65287]%N /\
  tc_first_last_forced = true /\
  tc_token_kind_count = 12 /\ tc_word_like_codes = [0; 6; 8; 2; 3] /\
  tc_special_conjunctions = [[97; 110; 100]; [98; 117; 116]; [102; 111; 114]; [111; 114]; [110; 111; 114]]%N /\
  tc_short_preposition_max = 4 /\
  tc_normalize_table = [(8217, 39); (8216, 39); (65287, 39)]%N.
Print Assumptions C18_source_shape.

(* IDEMPOTENCE of make_title_case: a second pass over the same token list returns its input
   unchanged.  Premises: the C02 token invariant; the tokens tile the text (PlainEnglish; otherwise
   the output is shorter than the input and cannot carry the same spans); the laws above.  The
   former premise H_case_stable about the dictionary's answers on the output is gone — they follow
   from C18_case_only and dict_case_insensitive.
   `_partial`: what is MISSING for the property on make_title_case_str is that re-lexing the output
   yields the same token list (Lexer.v is not part of this model); the theorem reuses `toks`.  The
   harness counts how often the real lexer re-tokenises differently (H_case_stable:violated) and
   evaluates idempotence of make_title_case_str itself as the oracle *)
Theorem C18_idempotent_partial : forall lower upper is_lowercase dict_canon dict_meta,
  lower_ascii_law lower -> upper_ascii_law upper ->
  forall toks src out,
  apostrophes_caseless lower upper ->
  lowercase_fixed lower is_lowercase -> apostrophes_lower_fixed lower ->
  dict_case_insensitive lower upper is_lowercase dict_canon dict_meta ->
  toks_ok (length src) toks ->
  hull_start toks = 0 -> hull_end toks = length src ->
  make_title_case lower upper is_lowercase dict_canon dict_meta toks src = Ok out ->
  make_title_case lower upper is_lowercase dict_canon dict_meta toks out = Ok out.
Proof. exact mtc_idempotent_tokens. Qed.
Check C18_idempotent_partial : forall lower upper is_lowercase dict_canon dict_meta,
  lower_ascii_law lower -> upper_ascii_law upper ->
  forall toks src out,
  apostrophes_caseless lower upper ->
  lowercase_fixed lower is_lowercase -> apostrophes_lower_fixed lower ->
  dict_case_insensitive lower upper is_lowercase dict_canon dict_meta ->
  toks_ok (length src) toks ->
  hull_start toks = 0 -> hull_end toks = length src ->
  make_title_case lower upper is_lowercase dict_canon dict_meta toks src = Ok out ->
  make_title_case lower upper is_lowercase dict_canon dict_meta toks out = Ok out.
Print Assumptions C18_idempotent_partial.

(* the whole property text on a token list, in one statement (char_rel = the disjunction of
   C18_case_only): the conversion succeeds, keeps the length, changes characters only as allowed,
   starts the first word-like token upper-case, and a second pass over the same tokens is the identity *)
Theorem C18_title_case_on_tokens : forall lower upper is_lowercase dict_canon dict_meta toks src,
  lower_ascii_law lower -> upper_ascii_law upper -> apostrophes_caseless lower upper ->
  ascii_variant_closed lower upper -> lowercase_fixed lower is_lowercase -> apostrophes_lower_fixed lower ->
  dict_case_insensitive lower upper is_lowercase dict_canon dict_meta ->
  (forall w cc, dict_canon w = Some cc -> length w <= length cc) ->
  toks_ok (length src) toks -> hull_start toks = 0 -> hull_end toks = length src ->
  exists out,
    make_title_case lower upper is_lowercase dict_canon dict_meta toks src = Ok out /\
    length out = length src /\
    (forall k c, nth_error out k = Some c ->
       exists a, nth_error src k = Some a /\ char_rel lower upper dict_canon toks src k a c) /\
    (forall w0 rest, filter tok_word_like toks = w0 :: rest ->
       exists a c, nth_error src (tstart w0) = Some a /\ nth_error out (tstart w0) = Some c /\
                   is_ascii_lower c = false /\ (is_ascii_alpha a = true -> is_ascii_upper c = true)) /\
    make_title_case lower upper is_lowercase dict_canon dict_meta toks out = Ok out.
Proof. exact mtc_property. Qed.
Check C18_title_case_on_tokens : forall lower upper is_lowercase dict_canon dict_meta toks src,
  lower_ascii_law lower -> upper_ascii_law upper -> apostrophes_caseless lower upper ->
  ascii_variant_closed lower upper -> lowercase_fixed lower is_lowercase -> apostrophes_lower_fixed lower ->
  dict_case_insensitive lower upper is_lowercase dict_canon dict_meta ->
  (forall w cc, dict_canon w = Some cc -> length w <= length cc) ->
  toks_ok (length src) toks -> hull_start toks = 0 -> hull_end toks = length src ->
  exists out,
    make_title_case lower upper is_lowercase dict_canon dict_meta toks src = Ok out /\
    length out = length src /\
    (forall k c, nth_error out k = Some c ->
       exists a, nth_error src k = Some a /\ char_rel lower upper dict_canon toks src k a c) /\
    (forall w0 rest, filter tok_word_like toks = w0 :: rest ->
       exists a c, nth_error src (tstart w0) = Some a /\ nth_error out (tstart w0) = Some c /\
                   is_ascii_lower c = false /\ (is_ascii_alpha a = true -> is_ascii_upper c = true)) /\
    make_title_case lower upper is_lowercase dict_canon dict_meta toks out = Ok out.
Print Assumptions C18_title_case_on_tokens.

(* ================= phase 3: the lexer half and the statement about STRINGS ================= *)
(* THE LEXER HALF (phase 3), over C02's frozen Lexer.v / Condense.v, for ANY Unicode tables u.
   The lexer is not case-insensitive (see C18_relex_unstable_witness), so the statement is about PLAIN texts:
   every character is a word character (wchar: lingual, alphabetic, not numeric, not punctuation), a
   blank (tab, newline, space), a punctuation / quote character other than  . @ : [ ' ’ ‘ ＇ , or a character
   no sub-lexer claims (ochar: not lingual, not numeric, no ASCII letter or digit); no ASCII digit.
   Rw u a c := a = c \/ (wchar u a /\ wchar u c) \/ (ochar u a /\ ochar u c).  If two plain texts differ only
   in which word character (resp. unclaimed character) stands at a position, Document::new_plain_english (PlainEnglish::parse + all passes of Document::parse)
   gives the SAME token list — spans, kinds, payloads *)
Theorem C18_lex_case_stable : forall u (s s' : text),
  Forall2 (Rw u) s s' -> Plain u s -> Plain u s' -> document_plain u s' = document_plain u s.
Proof. exact document_plain_congr. Qed.
Check C18_lex_case_stable : forall u (s s' : text),
  Forall2 (Rw u) s s' -> Plain u s -> Plain u s' -> document_plain u s' = document_plain u s.
Print Assumptions C18_lex_case_stable.

(* make_title_case_str ABOUT STRINGS (Model/C18Str.v: title_case_str = Document::new_from_vec with PlainEnglish
   — C02's lexer and passes, then the dictionary metadata of every Word — followed by make_title_case).
   No panic, for EVERY text, under H_canon_len alone: the token invariant is no longer a premise, it is
   C02's theorem document_plain_tiling *)
Theorem C18_str_total : forall u lower upper is_lowercase dict_canon dict_meta (src : text),
  (forall w cc, dict_canon w = Some cc -> length w <= length cc) ->
  exists out, title_case_str u lower upper is_lowercase dict_canon dict_meta src = Ok out.
Proof. exact str_total. Qed.
Check C18_str_total : forall u lower upper is_lowercase dict_canon dict_meta (src : text),
  (forall w cc, dict_canon w = Some cc -> length w <= length cc) ->
  exists out, title_case_str u lower upper is_lowercase dict_canon dict_meta src = Ok out.
Print Assumptions C18_str_total.

(* same length, for EVERY text, no premise *)
Theorem C18_str_length : forall u lower upper is_lowercase dict_canon dict_meta (src out : text),
  title_case_str u lower upper is_lowercase dict_canon dict_meta src = Ok out -> length out = length src.
Proof. exact str_length. Qed.
Check C18_str_length : forall u lower upper is_lowercase dict_canon dict_meta (src out : text),
  title_case_str u lower upper is_lowercase dict_canon dict_meta src = Ok out -> length out = length src.
Print Assumptions C18_str_length.

(* only the case of letters changes, for EVERY text: output character k is a case variant of input character
   k, or the straight apostrophe over a curly one (tc_rel) *)
Theorem C18_str_case_only : forall u lower upper is_lowercase dict_canon dict_meta (src out : text),
  lower_ascii_law lower -> upper_ascii_law upper -> apostrophes_caseless lower upper ->
  title_case_str u lower upper is_lowercase dict_canon dict_meta src = Ok out ->
  forall k c, nth_error out k = Some c ->
    exists a, nth_error src k = Some a /\
      (case_variant lower upper a c \/ (In a tc_canonical_apostrophe_from /\ c = tc_canonical_apostrophe_to)).
Proof. exact str_case_only. Qed.
Check C18_str_case_only : forall u lower upper is_lowercase dict_canon dict_meta (src out : text),
  lower_ascii_law lower -> upper_ascii_law upper -> apostrophes_caseless lower upper ->
  title_case_str u lower upper is_lowercase dict_canon dict_meta src = Ok out ->
  forall k c, nth_error out k = Some c ->
    exists a, nth_error src k = Some a /\
      (case_variant lower upper a c \/ (In a tc_canonical_apostrophe_from /\ c = tc_canonical_apostrophe_to)).
Print Assumptions C18_str_case_only.

(* the first word-like token of the document starts upper-case when it starts with an ASCII letter, for EVERY text *)
Theorem C18_str_first_upper : forall u lower upper is_lowercase dict_canon dict_meta (src out : text) toks w0 rest,
  ascii_variant_closed lower upper ->
  title_case_str u lower upper is_lowercase dict_canon dict_meta src = Ok out ->
  document_tokens u dict_meta src = Ok toks -> filter tok_word_like toks = w0 :: rest ->
  exists a c, nth_error src (tstart w0) = Some a /\ nth_error out (tstart w0) = Some c /\
              is_ascii_lower c = false /\ (is_ascii_alpha a = true -> is_ascii_upper c = true).
Proof. exact str_first_upper. Qed.
Check C18_str_first_upper : forall u lower upper is_lowercase dict_canon dict_meta (src out : text) toks w0 rest,
  ascii_variant_closed lower upper ->
  title_case_str u lower upper is_lowercase dict_canon dict_meta src = Ok out ->
  document_tokens u dict_meta src = Ok toks -> filter tok_word_like toks = w0 :: rest ->
  exists a c, nth_error src (tstart w0) = Some a /\ nth_error out (tstart w0) = Some c /\
              is_ascii_lower c = false /\ (is_ascii_alpha a = true -> is_ascii_upper c = true).
Print Assumptions C18_str_first_upper.

(* IDEMPOTENCE of make_title_case_str for EVERY text, from the residue H_relex: the title-cased text yields
   the same document tokens (spans, kinds, Word metadata).  `_partial`: H_relex is not a theorem for all
   texts — it is FALSE for some (C18_relex_unstable_witness) — so it stays a premise, monitored on every
   generated title (H_case_stable); for plain texts it is proved (C18_str_relex_plain) *)
Theorem C18_str_idempotent_partial : forall u lower upper is_lowercase dict_canon dict_meta (src out : text),
  lower_ascii_law lower -> upper_ascii_law upper -> apostrophes_caseless lower upper ->
  lowercase_fixed lower is_lowercase -> apostrophes_lower_fixed lower ->
  dict_case_insensitive lower upper is_lowercase dict_canon dict_meta ->
  title_case_str u lower upper is_lowercase dict_canon dict_meta src = Ok out ->
  document_tokens u dict_meta out = document_tokens u dict_meta src ->
  title_case_str u lower upper is_lowercase dict_canon dict_meta out = Ok out.
Proof. exact str_idempotent_partial. Qed.
Check C18_str_idempotent_partial : forall u lower upper is_lowercase dict_canon dict_meta (src out : text),
  lower_ascii_law lower -> upper_ascii_law upper -> apostrophes_caseless lower upper ->
  lowercase_fixed lower is_lowercase -> apostrophes_lower_fixed lower ->
  dict_case_insensitive lower upper is_lowercase dict_canon dict_meta ->
  title_case_str u lower upper is_lowercase dict_canon dict_meta src = Ok out ->
  document_tokens u dict_meta out = document_tokens u dict_meta src ->
  title_case_str u lower upper is_lowercase dict_canon dict_meta out = Ok out.
Print Assumptions C18_str_idempotent_partial.

(* H_relex PROVED for plain, case-stable texts: plain_stable_text u lower upper s := every character a of s
   is in the plain class and is CASE-STABLE — each case variant c of a is a itself, or a and c are both word
   characters, or both characters no sub-lexer claims (with the real tables: every plain character except
   U+A7D2..U+A7D5, whose case pairs std knows while unicode-script does not know their script; the harness
   recomputes the exceptions from all code points on every run).  One new contract (monitored on every Word
   of every title): dict_meta_case_insensitive — get_word_metadata itself, not only after to_lower, does not
   see case / apostrophe style *)
Theorem C18_str_relex_plain : forall u lower upper is_lowercase dict_canon dict_meta (src out : text),
  lower_ascii_law lower -> upper_ascii_law upper -> apostrophes_caseless lower upper ->
  dict_meta_case_insensitive lower upper dict_meta ->
  plain_stable_text u lower upper src ->
  title_case_str u lower upper is_lowercase dict_canon dict_meta src = Ok out ->
  document_tokens u dict_meta out = document_tokens u dict_meta src /\ plain_text u out = true.
Proof. exact str_relex_plain. Qed.
Check C18_str_relex_plain : forall u lower upper is_lowercase dict_canon dict_meta (src out : text),
  lower_ascii_law lower -> upper_ascii_law upper -> apostrophes_caseless lower upper ->
  dict_meta_case_insensitive lower upper dict_meta ->
  plain_stable_text u lower upper src ->
  title_case_str u lower upper is_lowercase dict_canon dict_meta src = Ok out ->
  document_tokens u dict_meta out = document_tokens u dict_meta src /\ plain_text u out = true.
Print Assumptions C18_str_relex_plain.

(* IDEMPOTENCE of make_title_case_str on plain texts — no premise about the lexer or the tokens *)
Theorem C18_str_idempotent_plain : forall u lower upper is_lowercase dict_canon dict_meta (src out : text),
  lower_ascii_law lower -> upper_ascii_law upper -> apostrophes_caseless lower upper ->
  lowercase_fixed lower is_lowercase -> apostrophes_lower_fixed lower ->
  dict_case_insensitive lower upper is_lowercase dict_canon dict_meta ->
  dict_meta_case_insensitive lower upper dict_meta ->
  plain_stable_text u lower upper src ->
  title_case_str u lower upper is_lowercase dict_canon dict_meta src = Ok out ->
  title_case_str u lower upper is_lowercase dict_canon dict_meta out = Ok out.
Proof. exact str_idempotent_plain. Qed.
Check C18_str_idempotent_plain : forall u lower upper is_lowercase dict_canon dict_meta (src out : text),
  lower_ascii_law lower -> upper_ascii_law upper -> apostrophes_caseless lower upper ->
  lowercase_fixed lower is_lowercase -> apostrophes_lower_fixed lower ->
  dict_case_insensitive lower upper is_lowercase dict_canon dict_meta ->
  dict_meta_case_insensitive lower upper dict_meta ->
  plain_stable_text u lower upper src ->
  title_case_str u lower upper is_lowercase dict_canon dict_meta src = Ok out ->
  title_case_str u lower upper is_lowercase dict_canon dict_meta out = Ok out.
Print Assumptions C18_str_idempotent_plain.

(* the whole property text, about STRINGS, for a plain text: the conversion succeeds, keeps the length, every
   output character is a case variant of the input character (a plain text has no curly apostrophe), the first
   word-like token starts upper-case when it starts with an ASCII letter, and converting again changes nothing *)
Theorem C18_str_title_case_plain : forall u lower upper is_lowercase dict_canon dict_meta (src : text),
  lower_ascii_law lower -> upper_ascii_law upper -> apostrophes_caseless lower upper ->
  ascii_variant_closed lower upper -> lowercase_fixed lower is_lowercase -> apostrophes_lower_fixed lower ->
  dict_case_insensitive lower upper is_lowercase dict_canon dict_meta ->
  (forall w cc, dict_canon w = Some cc -> length w <= length cc) ->
  dict_meta_case_insensitive lower upper dict_meta ->
  plain_stable_text u lower upper src ->
  exists out,
    title_case_str u lower upper is_lowercase dict_canon dict_meta src = Ok out /\
    length out = length src /\
    (forall k c, nth_error out k = Some c -> exists a, nth_error src k = Some a /\ case_variant lower upper a c) /\
    (forall toks w0 rest, document_tokens u dict_meta src = Ok toks -> filter tok_word_like toks = w0 :: rest ->
       exists a c, nth_error src (tstart w0) = Some a /\ nth_error out (tstart w0) = Some c /\
                   is_ascii_lower c = false /\ (is_ascii_alpha a = true -> is_ascii_upper c = true)) /\
    title_case_str u lower upper is_lowercase dict_canon dict_meta out = Ok out.
Proof. exact str_property_plain. Qed.
Check C18_str_title_case_plain : forall u lower upper is_lowercase dict_canon dict_meta (src : text),
  lower_ascii_law lower -> upper_ascii_law upper -> apostrophes_caseless lower upper ->
  ascii_variant_closed lower upper -> lowercase_fixed lower is_lowercase -> apostrophes_lower_fixed lower ->
  dict_case_insensitive lower upper is_lowercase dict_canon dict_meta ->
  (forall w cc, dict_canon w = Some cc -> length w <= length cc) ->
  dict_meta_case_insensitive lower upper dict_meta ->
  plain_stable_text u lower upper src ->
  exists out,
    title_case_str u lower upper is_lowercase dict_canon dict_meta src = Ok out /\
    length out = length src /\
    (forall k c, nth_error out k = Some c -> exists a, nth_error src k = Some a /\ case_variant lower upper a c) /\
    (forall toks w0 rest, document_tokens u dict_meta src = Ok toks -> filter tok_word_like toks = w0 :: rest ->
       exists a c, nth_error src (tstart w0) = Some a /\ nth_error out (tstart w0) = Some c /\
                   is_ascii_lower c = false /\ (is_ascii_alpha a = true -> is_ascii_upper c = true)) /\
    title_case_str u lower upper is_lowercase dict_canon dict_meta out = Ok out.
Print Assumptions C18_str_title_case_plain.

(* FC18c — IDEMPOTENCE of make_title_case_str REFUTED for arbitrary texts (the faithful end-to-end model violates
   the property; the witness replayed on the implementation is the known finding FC18c): with the ASCII
   restriction of Unicode and a dictionary in which `ss` is a proper noun spelt `SS`, "ss.a'b" becomes "SS.A'b"
   and that becomes "SS.A'B" — the first pass lexes Word(ss) Period Word(a'b), its output lexes
   Hostname(SS.A) Apostrophe Word(b), so the second pass finds a new last word to capitalise.  All monitored
   contracts hold for the instance; only the residue H_relex of C18_str_idempotent_partial fails.  The real
   function with the curated dictionary: "ss.a'b" -> "SS.A'b" -> "SS.A'B", "on ss.it's up" -> "On SS.It's Up"
   -> "On SS.It'S Up" (corpus/C18/relex.json).  Cause: lex_plural_digit wants a lower-case `s`; proposed patch
   fixes/FC18c_plural_digit_case.diff *)
Theorem C18_str_idempotent_refuted : exists u lower upper is_lowercase dict_canon dict_meta (src out out2 : text),
    lower_ascii_law lower /\ upper_ascii_law upper /\ apostrophes_caseless lower upper /\
    ascii_variant_closed lower upper /\ lowercase_fixed lower is_lowercase /\ apostrophes_lower_fixed lower /\
    dict_case_insensitive lower upper is_lowercase dict_canon dict_meta /\
    dict_meta_case_insensitive lower upper dict_meta /\
    (forall w cc, dict_canon w = Some cc -> length w <= length cc) /\
    title_case_str u lower upper is_lowercase dict_canon dict_meta src = Ok out /\
    title_case_str u lower upper is_lowercase dict_canon dict_meta out = Ok out2 /\
    out2 <> out /\
    document_tokens u dict_meta out <> document_tokens u dict_meta src.
Proof. exact str_idempotent_refuted. Qed.
Check C18_str_idempotent_refuted : exists u lower upper is_lowercase dict_canon dict_meta (src out out2 : text),
    lower_ascii_law lower /\ upper_ascii_law upper /\ apostrophes_caseless lower upper /\
    ascii_variant_closed lower upper /\ lowercase_fixed lower is_lowercase /\ apostrophes_lower_fixed lower /\
    dict_case_insensitive lower upper is_lowercase dict_canon dict_meta /\
    dict_meta_case_insensitive lower upper dict_meta /\
    (forall w cc, dict_canon w = Some cc -> length w <= length cc) /\
    title_case_str u lower upper is_lowercase dict_canon dict_meta src = Ok out /\
    title_case_str u lower upper is_lowercase dict_canon dict_meta out = Ok out2 /\
    out2 <> out /\
    document_tokens u dict_meta out <> document_tokens u dict_meta src.
Print Assumptions C18_str_idempotent_refuted.

(* ================= phase 4: the passes for every text, the lexer with periods ================= *)
(* THE PASSES of Document::parse ARE ASCII-CASE-BLIND (phase 4), for ANY token list t0 (no invariant) and any two texts
   that agree position by position up to the ASCII-letter key (ickey c = the lower-case letter of an ASCII letter, 0
   for any other character; Ric a c := ickey a = ickey c): same result of all passes (condense_spaces ... match_quotes,
   the look-up loop), panics included.  The passes read the text only through NumberSuffix::from_chars (every casing is
   in its table: proved against the regenerated table), eq_ignore_ascii_case against etc/vs/et/al, and lengths *)
Theorem C18_passes_case_blind : forall (src src' : text), Forall2 Ric src src' -> forall t0, document_passes src' t0 = document_passes src t0.
Proof. exact document_passes_ic. Qed.
Check C18_passes_case_blind : forall (src src' : text), Forall2 Ric src src' -> forall t0, document_passes src' t0 = document_passes src t0.
Print Assumptions C18_passes_case_blind.

(* H_relex REDUCED TO THE LEXER, for EVERY text: when PlainEnglish::parse alone (no pass, no dictionary) cuts the
   title-cased text like the text, the document tokens — all passes, Word metadata — are the same.  New law (monitored
   over all code points): ascii_case_faithful — case variants have the same ASCII-letter key *)
Theorem C18_str_relex_of_lexer : forall u lower upper is_lowercase dict_canon dict_meta (src out : text),
  lower_ascii_law lower -> upper_ascii_law upper -> apostrophes_caseless lower upper ->
  ascii_case_faithful lower upper -> dict_meta_case_insensitive lower upper dict_meta ->
  title_case_str u lower upper is_lowercase dict_canon dict_meta src = Ok out ->
  plain_parse u out = plain_parse u src ->
  document_tokens u dict_meta out = document_tokens u dict_meta src.
Proof. exact str_relex_of_lexer. Qed.
Check C18_str_relex_of_lexer : forall u lower upper is_lowercase dict_canon dict_meta (src out : text),
  lower_ascii_law lower -> upper_ascii_law upper -> apostrophes_caseless lower upper ->
  ascii_case_faithful lower upper -> dict_meta_case_insensitive lower upper dict_meta ->
  title_case_str u lower upper is_lowercase dict_canon dict_meta src = Ok out ->
  plain_parse u out = plain_parse u src ->
  document_tokens u dict_meta out = document_tokens u dict_meta src.
Print Assumptions C18_str_relex_of_lexer.

(* IDEMPOTENCE for EVERY text from the residue H_relex_lex about the lexer alone (weaker than H_relex of
   C18_str_idempotent_partial; `_partial`: H_relex_lex is false for the FC18c texts, see C18_str_idempotent_refuted) *)
Theorem C18_str_idempotent_lexer_partial : forall u lower upper is_lowercase dict_canon dict_meta (src out : text),
  lower_ascii_law lower -> upper_ascii_law upper -> apostrophes_caseless lower upper ->
  lowercase_fixed lower is_lowercase -> apostrophes_lower_fixed lower -> ascii_case_faithful lower upper ->
  dict_case_insensitive lower upper is_lowercase dict_canon dict_meta ->
  dict_meta_case_insensitive lower upper dict_meta ->
  title_case_str u lower upper is_lowercase dict_canon dict_meta src = Ok out ->
  plain_parse u out = plain_parse u src ->
  title_case_str u lower upper is_lowercase dict_canon dict_meta out = Ok out.
Proof. exact str_idempotent_lexer_partial. Qed.
Check C18_str_idempotent_lexer_partial : forall u lower upper is_lowercase dict_canon dict_meta (src out : text),
  lower_ascii_law lower -> upper_ascii_law upper -> apostrophes_caseless lower upper ->
  lowercase_fixed lower is_lowercase -> apostrophes_lower_fixed lower -> ascii_case_faithful lower upper ->
  dict_case_insensitive lower upper is_lowercase dict_canon dict_meta ->
  dict_meta_case_insensitive lower upper dict_meta ->
  title_case_str u lower upper is_lowercase dict_canon dict_meta src = Ok out ->
  plain_parse u out = plain_parse u src ->
  title_case_str u lower upper is_lowercase dict_canon dict_meta out = Ok out.
Print Assumptions C18_str_idempotent_lexer_partial.

(* THE LEXER HALF WITH PERIODS (phase 4), any Unicode tables u.  Dotted u s: every character is a word character other
   than an ASCII digit, a blank, a punctuation / quote character other than @ : [ ' and the curly apostrophes — the
   PERIOD IS ALLOWED, so hostnames, initialisms, ellipses, Latin abbreviations are inside —, or a character no
   sub-lexer claims; no ASCII digit; and NO occurrence of the FC18c pattern  [A-Za-z] [sS] [.-] [A-Za-z0-9.-]
   (ctx_ok).  Rl u a c: a = c, or both word characters with the same ASCII-letter key (an ASCII letter may only change
   case), or both unclaimed characters.  Then PlainEnglish::parse and Document::new_plain_english give the same
   tokens.  The excluded pattern is exactly what lex_plural_digit + lex_hostname_token make case-sensitive (FC18c) *)
Theorem C18_lex_dots_stable : forall u (s s' : text),
  Forall2 (Rl u) s s' -> Dotted u s -> Dotted u s' ->
  plain_parse u s' = plain_parse u s /\ document_plain u s' = document_plain u s.
Proof. exact lex_dots_stable. Qed.
Check C18_lex_dots_stable : forall u (s s' : text),
  Forall2 (Rl u) s s' -> Dotted u s -> Dotted u s' ->
  plain_parse u s' = plain_parse u s /\ document_plain u s' = document_plain u s.
Print Assumptions C18_lex_dots_stable.

(* H_relex PROVED for dotted, case-stable texts (dotted_stable_text: Dotted + every character case-stable in the sense
   of the class); the output is dotted again *)
Theorem C18_str_relex_dotted : forall u lower upper is_lowercase dict_canon dict_meta (src out : text),
  lower_ascii_law lower -> upper_ascii_law upper -> apostrophes_caseless lower upper ->
  ascii_case_faithful lower upper -> dict_meta_case_insensitive lower upper dict_meta ->
  dotted_stable_text u lower upper src ->
  title_case_str u lower upper is_lowercase dict_canon dict_meta src = Ok out ->
  document_tokens u dict_meta out = document_tokens u dict_meta src /\ dotted_text u out = true.
Proof. exact str_relex_dotted. Qed.
Check C18_str_relex_dotted : forall u lower upper is_lowercase dict_canon dict_meta (src out : text),
  lower_ascii_law lower -> upper_ascii_law upper -> apostrophes_caseless lower upper ->
  ascii_case_faithful lower upper -> dict_meta_case_insensitive lower upper dict_meta ->
  dotted_stable_text u lower upper src ->
  title_case_str u lower upper is_lowercase dict_canon dict_meta src = Ok out ->
  document_tokens u dict_meta out = document_tokens u dict_meta src /\ dotted_text u out = true.
Print Assumptions C18_str_relex_dotted.

(* IDEMPOTENCE of make_title_case_str on dotted texts — no premise about the lexer or the tokens *)
Theorem C18_str_idempotent_dotted : forall u lower upper is_lowercase dict_canon dict_meta (src out : text),
  lower_ascii_law lower -> upper_ascii_law upper -> apostrophes_caseless lower upper ->
  lowercase_fixed lower is_lowercase -> apostrophes_lower_fixed lower -> ascii_case_faithful lower upper ->
  dict_case_insensitive lower upper is_lowercase dict_canon dict_meta ->
  dict_meta_case_insensitive lower upper dict_meta ->
  dotted_stable_text u lower upper src ->
  title_case_str u lower upper is_lowercase dict_canon dict_meta src = Ok out ->
  title_case_str u lower upper is_lowercase dict_canon dict_meta out = Ok out.
Proof. exact str_idempotent_dotted. Qed.
Check C18_str_idempotent_dotted : forall u lower upper is_lowercase dict_canon dict_meta (src out : text),
  lower_ascii_law lower -> upper_ascii_law upper -> apostrophes_caseless lower upper ->
  lowercase_fixed lower is_lowercase -> apostrophes_lower_fixed lower -> ascii_case_faithful lower upper ->
  dict_case_insensitive lower upper is_lowercase dict_canon dict_meta ->
  dict_meta_case_insensitive lower upper dict_meta ->
  dotted_stable_text u lower upper src ->
  title_case_str u lower upper is_lowercase dict_canon dict_meta src = Ok out ->
  title_case_str u lower upper is_lowercase dict_canon dict_meta out = Ok out.
Print Assumptions C18_str_idempotent_dotted.

(* the WHOLE property text, about strings, for a dotted text *)
Theorem C18_str_title_case_dotted : forall u lower upper is_lowercase dict_canon dict_meta (src : text),
  lower_ascii_law lower -> upper_ascii_law upper -> apostrophes_caseless lower upper ->
  ascii_variant_closed lower upper -> lowercase_fixed lower is_lowercase -> apostrophes_lower_fixed lower ->
  ascii_case_faithful lower upper ->
  dict_case_insensitive lower upper is_lowercase dict_canon dict_meta ->
  (forall w cc, dict_canon w = Some cc -> length w <= length cc) ->
  dict_meta_case_insensitive lower upper dict_meta ->
  dotted_stable_text u lower upper src ->
  exists out,
    title_case_str u lower upper is_lowercase dict_canon dict_meta src = Ok out /\
    length out = length src /\
    (forall k c, nth_error out k = Some c -> exists a, nth_error src k = Some a /\ case_variant lower upper a c) /\
    (forall toks w0 rest, document_tokens u dict_meta src = Ok toks -> filter tok_word_like toks = w0 :: rest ->
       exists a c, nth_error src (tstart w0) = Some a /\ nth_error out (tstart w0) = Some c /\
                   is_ascii_lower c = false /\ (is_ascii_alpha a = true -> is_ascii_upper c = true)) /\
    title_case_str u lower upper is_lowercase dict_canon dict_meta out = Ok out.
Proof. exact str_property_dotted. Qed.
Check C18_str_title_case_dotted : forall u lower upper is_lowercase dict_canon dict_meta (src : text),
  lower_ascii_law lower -> upper_ascii_law upper -> apostrophes_caseless lower upper ->
  ascii_variant_closed lower upper -> lowercase_fixed lower is_lowercase -> apostrophes_lower_fixed lower ->
  ascii_case_faithful lower upper ->
  dict_case_insensitive lower upper is_lowercase dict_canon dict_meta ->
  (forall w cc, dict_canon w = Some cc -> length w <= length cc) ->
  dict_meta_case_insensitive lower upper dict_meta ->
  dotted_stable_text u lower upper src ->
  exists out,
    title_case_str u lower upper is_lowercase dict_canon dict_meta src = Ok out /\
    length out = length src /\
    (forall k c, nth_error out k = Some c -> exists a, nth_error src k = Some a /\ case_variant lower upper a c) /\
    (forall toks w0 rest, document_tokens u dict_meta src = Ok toks -> filter tok_word_like toks = w0 :: rest ->
       exists a c, nth_error src (tstart w0) = Some a /\ nth_error out (tstart w0) = Some c /\
                   is_ascii_lower c = false /\ (is_ascii_alpha a = true -> is_ascii_upper c = true)) /\
    title_case_str u lower upper is_lowercase dict_canon dict_meta out = Ok out.
Print Assumptions C18_str_title_case_dotted.

(* ================= phase 5: DIGITS, periods and the straight apostrophe ================= *)
(* lex_number does not see the ASCII case of letters (the only letter of the float grammar is the exponent mark,
   read as `e` or `E`): for ANY Unicode tables and ANY two texts related by Rl — no class, no pattern.  Unbounded:
   parse_f64 / longest_float by induction over the related texts *)
Theorem C18_lex_number_case_blind : forall u (s s' : text), Forall2 (Rl u) s s' -> lex_number u s' = lex_number u s.
Proof. exact lex_number_congr. Qed.
Check C18_lex_number_case_blind : forall u (s s' : text), Forall2 (Rl u) s s' -> lex_number u s' = lex_number u s.
Print Assumptions C18_lex_number_case_blind.

(* THE LEXER HALF WITH DIGITS AND THE APOSTROPHE, for ANY Unicode tables.  Alnum u s: every character is a word
   character (not an ASCII digit), an ASCII digit the tables call numeric, a blank, a punctuation / quote character
   other than  @ [ ‘ ＇  — PERIOD, STRAIGHT APOSTROPHE, (phase 6) the CURLY APOSTROPHE U+2019 and (phase 7) the COLON ALLOWED, the substring :// excluded at every position —, or a character no sub-lexer claims; and at no
   position that follows the start of the text or a character that is NOT a word character (look-behind; the lexer never
   starts a token at an ASCII letter or digit right after a word character: alnum_lex_binv inside the proof) one of
     Q_plural  [A-Za-z0-9][sS] + LA, first character a DIGIT, or lex_hostname_token answers from there (= FC18c)
     Q_apos    [A-Za-z0-9]['’][sS] + LA   (phase 6: also with U+2019, so that the class is closed under ’ -> ')
     Q_hex     0[xX][0-9A-Fa-f]
   where LA = end of text or a character that is neither a word character nor a digit.  Then PlainEnglish::parse and
   Document::new_plain_english give the same tokens for two such texts related by Rl (number payloads included).
   Every pattern is witnessed by a pair the lexer cuts differently (C18_alnum_patterns_witnessed) *)
Theorem C18_lex_alnum_stable : forall u (s s' : text),
  Forall2 (Rl u) s s' -> Alnum u s -> Alnum u s' ->
  plain_parse u s' = plain_parse u s /\ document_plain u s' = document_plain u s.
Proof. exact lex_alnum_stable. Qed.
Check C18_lex_alnum_stable : forall u (s s' : text),
  Forall2 (Rl u) s s' -> Alnum u s -> Alnum u s' ->
  plain_parse u s' = plain_parse u s /\ document_plain u s' = document_plain u s.
Print Assumptions C18_lex_alnum_stable.

(* the class contains the plain class of phase 3 and the dotted class of phase 4 *)
Theorem C18_alnum_contains_plain_dotted : forall u (s : text),
  plain_text u s = true \/ dotted_text u s = true -> alnum_text u s = true.
Proof. exact alnum_contains. Qed.
Check C18_alnum_contains_plain_dotted : forall u (s : text),
  plain_text u s = true \/ dotted_text u s = true -> alnum_text u s = true.
Print Assumptions C18_alnum_contains_plain_dotted.

(* H_relex PROVED for case-stable texts of the class; the output is in the class again *)
Theorem C18_str_relex_alnum : forall u lower upper is_lowercase dict_canon dict_meta (src out : text),
  lower_ascii_law lower -> upper_ascii_law upper -> apostrophes_caseless lower upper ->
  ascii_case_faithful lower upper -> dict_meta_case_insensitive lower upper dict_meta ->
  apostrophe_in_class u ->
  alnum_stable_text u lower upper src ->
  title_case_str u lower upper is_lowercase dict_canon dict_meta src = Ok out ->
  document_tokens u dict_meta out = document_tokens u dict_meta src /\ alnum_text u out = true.
Proof. exact str_relex_alnum. Qed.
Check C18_str_relex_alnum : forall u lower upper is_lowercase dict_canon dict_meta (src out : text),
  lower_ascii_law lower -> upper_ascii_law upper -> apostrophes_caseless lower upper ->
  ascii_case_faithful lower upper -> dict_meta_case_insensitive lower upper dict_meta ->
  apostrophe_in_class u ->
  alnum_stable_text u lower upper src ->
  title_case_str u lower upper is_lowercase dict_canon dict_meta src = Ok out ->
  document_tokens u dict_meta out = document_tokens u dict_meta src /\ alnum_text u out = true.
Print Assumptions C18_str_relex_alnum.

(* IDEMPOTENCE of make_title_case_str on the class — no premise about the lexer or the tokens *)
Theorem C18_str_idempotent_alnum : forall u lower upper is_lowercase dict_canon dict_meta (src out : text),
  lower_ascii_law lower -> upper_ascii_law upper -> apostrophes_caseless lower upper ->
  lowercase_fixed lower is_lowercase -> apostrophes_lower_fixed lower -> ascii_case_faithful lower upper ->
  dict_case_insensitive lower upper is_lowercase dict_canon dict_meta ->
  dict_meta_case_insensitive lower upper dict_meta ->
  apostrophe_in_class u ->
  alnum_stable_text u lower upper src ->
  title_case_str u lower upper is_lowercase dict_canon dict_meta src = Ok out ->
  title_case_str u lower upper is_lowercase dict_canon dict_meta out = Ok out.
Proof. exact str_idempotent_alnum. Qed.
Check C18_str_idempotent_alnum : forall u lower upper is_lowercase dict_canon dict_meta (src out : text),
  lower_ascii_law lower -> upper_ascii_law upper -> apostrophes_caseless lower upper ->
  lowercase_fixed lower is_lowercase -> apostrophes_lower_fixed lower -> ascii_case_faithful lower upper ->
  dict_case_insensitive lower upper is_lowercase dict_canon dict_meta ->
  dict_meta_case_insensitive lower upper dict_meta ->
  apostrophe_in_class u ->
  alnum_stable_text u lower upper src ->
  title_case_str u lower upper is_lowercase dict_canon dict_meta src = Ok out ->
  title_case_str u lower upper is_lowercase dict_canon dict_meta out = Ok out.
Print Assumptions C18_str_idempotent_alnum.

(* the WHOLE property text, about strings, for a text of the class *)
Theorem C18_str_title_case_alnum : forall u lower upper is_lowercase dict_canon dict_meta (src : text),
  lower_ascii_law lower -> upper_ascii_law upper -> apostrophes_caseless lower upper ->
  ascii_variant_closed lower upper -> lowercase_fixed lower is_lowercase -> apostrophes_lower_fixed lower ->
  ascii_case_faithful lower upper ->
  dict_case_insensitive lower upper is_lowercase dict_canon dict_meta ->
  (forall w cc, dict_canon w = Some cc -> length w <= length cc) ->
  dict_meta_case_insensitive lower upper dict_meta ->
  apostrophe_in_class u ->
  alnum_stable_text u lower upper src ->
  exists out,
    title_case_str u lower upper is_lowercase dict_canon dict_meta src = Ok out /\
    length out = length src /\
    (forall k c, nth_error out k = Some c -> exists a, nth_error src k = Some a /\
       (case_variant lower upper a c \/ (a = 8217%N /\ c = 39%N))) /\
    (forall toks w0 rest, document_tokens u dict_meta src = Ok toks -> filter tok_word_like toks = w0 :: rest ->
       exists a c, nth_error src (tstart w0) = Some a /\ nth_error out (tstart w0) = Some c /\
                   is_ascii_lower c = false /\ (is_ascii_alpha a = true -> is_ascii_upper c = true)) /\
    title_case_str u lower upper is_lowercase dict_canon dict_meta out = Ok out.
Proof. exact str_property_alnum. Qed.
Check C18_str_title_case_alnum : forall u lower upper is_lowercase dict_canon dict_meta (src : text),
  lower_ascii_law lower -> upper_ascii_law upper -> apostrophes_caseless lower upper ->
  ascii_variant_closed lower upper -> lowercase_fixed lower is_lowercase -> apostrophes_lower_fixed lower ->
  ascii_case_faithful lower upper ->
  dict_case_insensitive lower upper is_lowercase dict_canon dict_meta ->
  (forall w cc, dict_canon w = Some cc -> length w <= length cc) ->
  dict_meta_case_insensitive lower upper dict_meta ->
  apostrophe_in_class u ->
  alnum_stable_text u lower upper src ->
  exists out,
    title_case_str u lower upper is_lowercase dict_canon dict_meta src = Ok out /\
    length out = length src /\
    (forall k c, nth_error out k = Some c -> exists a, nth_error src k = Some a /\
       (case_variant lower upper a c \/ (a = 8217%N /\ c = 39%N))) /\
    (forall toks w0 rest, document_tokens u dict_meta src = Ok toks -> filter tok_word_like toks = w0 :: rest ->
       exists a c, nth_error src (tstart w0) = Some a /\ nth_error out (tstart w0) = Some c /\
                   is_ascii_lower c = false /\ (is_ascii_alpha a = true -> is_ascii_upper c = true)) /\
    title_case_str u lower upper is_lowercase dict_canon dict_meta out = Ok out.
Print Assumptions C18_str_title_case_alnum.

(* PHASE 6: THE CURLY APOSTROPHE.  Title-casing writes ' over U+2019 inside a known proper noun (the guarded copy).
   Ra a c: a = c, or a = U+2019 and c = '.  For ANY Unicode tables, two texts of the alnum class (which now
   contains U+2019 and excludes Q_apos in both spellings) related by Ra are cut alike by PlainEnglish::parse and by
   Document::new_plain_english: both apostrophes are Punctuation::Apostrophe, one character, no word / hostname /
   float character; lex_number reads only the longest prefix of float characters, the same list in both texts;
   lex_plural_digit's `'s` branch (the only place that tells them apart) is the excluded pattern.
   Witnesses: C18_curly_patterns_witnessed *)
Theorem C18_lex_curly_stable : forall u (s s' : text),
  Forall2 Ra s s' -> Alnum u s -> Alnum u s' ->
  plain_parse u s' = plain_parse u s /\ document_plain u s' = document_plain u s.
Proof. exact lex_curly_stable. Qed.
Check C18_lex_curly_stable : forall u (s s' : text),
  Forall2 Ra s s' -> Alnum u s -> Alnum u s' ->
  plain_parse u s' = plain_parse u s /\ document_plain u s' = document_plain u s.
Print Assumptions C18_lex_curly_stable.

(* both changes title-casing can make at once: Rl4 u a c = Rl u a c (case) or (a = U+2019 and c = ') *)
Theorem C18_lex_alnum4_stable : forall u (s s' : text),
  Forall2 (Rl4 u) s s' -> Alnum u s -> Alnum u s' ->
  plain_parse u s' = plain_parse u s /\ document_plain u s' = document_plain u s.
Proof. exact lex_alnum4_stable. Qed.
Check C18_lex_alnum4_stable : forall u (s s' : text),
  Forall2 (Rl4 u) s s' -> Alnum u s -> Alnum u s' ->
  plain_parse u s' = plain_parse u s /\ document_plain u s' = document_plain u s.
Print Assumptions C18_lex_alnum4_stable.

(* the class is closed under Rl4 as soon as the image consists of characters of the class (the patterns are invariant) *)
Theorem C18_alnum_closed_rl4 : forall u (s s' : text),
  Forall2 (Rl4 u) s s' -> Alnum u s -> Forall (fun c => char3 u c = true) s' -> Alnum u s'.
Proof. exact alnum_closed_rl4. Qed.
Check C18_alnum_closed_rl4 : forall u (s s' : text),
  Forall2 (Rl4 u) s s' -> Alnum u s -> Forall (fun c => char3 u c = true) s' -> Alnum u s'.
Print Assumptions C18_alnum_closed_rl4.

(* ---------- non-vacuity ---------- *)
(* "the wordpress of a" -> "The WordPress of A" over an example dictionary that finds words by their
   folded form: EVERY hypothesis of every theorem above holds on it (the seven laws for all
   characters / words, token invariant, tiling, H_canon_len), first/last/determiner/preposition/
   proper-noun paths are all exercised, and the second pass is the identity *)
Example C18_nonvacuous :
  lower_ascii_law ex_lower /\ upper_ascii_law ex_upper /\ apostrophes_caseless ex_lower ex_upper /\
  ascii_variant_closed ex_lower ex_upper /\ lowercase_fixed ex_lower ex_islower /\
  apostrophes_lower_fixed ex_lower /\ dict_case_insensitive ex_lower ex_upper ex_islower ex_canon ex_meta /\
  toks_ok (length ex_src) ex_toks /\ hull_start ex_toks = 0 /\ hull_end ex_toks = length ex_src /\
  (forall w cc, ex_canon w = Some cc -> length w <= length cc) /\
  make_title_case ex_lower ex_upper ex_islower ex_canon ex_meta ex_toks ex_src = Ok ex_out /\
  make_title_case ex_lower ex_upper ex_islower ex_canon ex_meta ex_toks ex_out = Ok ex_out /\
  ex_out <> ex_src.
Proof.
  split; [exact ex_lower_ascii_law|]. split; [exact ex_upper_ascii_law|]. split; [exact ex_apostrophes_caseless|].
  split; [exact ex_ascii_variant_closed|]. split; [exact ex_lowercase_fixed|].
  split; [exact ex_apostrophes_lower_fixed|]. split; [exact ex_dict_case_insensitive|].
  split; [exact ex_toks_ok|]. split; [reflexivity|]. split; [reflexivity|]. split; [exact ex_canon_len|].
  split; [vm_compute; reflexivity|]. split; [vm_compute; reflexivity|]. discriminate.
Qed.

(* H_canon_len is needed: a proper-noun token of 3 characters ("i" + U+0307 + "x") whose canonical
   spelling has 2 ("İx" — same lower-cased form, the only Unicode character whose to_lowercase is two
   characters) makes `correct_caps[idx]` panic (the index is evaluated before the guard); the real
   function panics on the same input with a hand-made dictionary (corpus/C18/edge.json, synthetic
   stream) — the curated dictionary has no such entry (swept on every run) *)
Example C18_canon_len_needed :
  let src := [105; 775; 120]%N in
  let toks := [mktok (mkspan 0 3) (KWord (Some (mkmeta true false false)))] in
  toks_ok (length src) toks /\
  make_title_case ex_lower ex_upper ex_islower (fun _ => Some [304; 120]%N) (fun _ => None) toks src = Panic PIndex.
Proof.
  cbv zeta. split; [|vm_compute; reflexivity].
  split; [repeat constructor|]. repeat constructor; cbn; lia.
Qed.

(* text outside the hull of the tokens is dropped (Markdown front-end: "A\n" -> "A"); an empty token
   list gives the empty string whatever the text *)
Example C18_hull_only :
  make_title_case ex_lower ex_upper ex_islower ex_canon ex_meta [mktok (mkspan 0 1) (KWord None)] [97; 10]%N = Ok [65]%N /\
  make_title_case ex_lower ex_upper ex_islower ex_canon ex_meta [] [97; 10]%N = Ok [].
Proof. split; vm_compute; reflexivity. Qed.

(* the guard at work: a curly apostrophe is replaced by the canonical straight one, a character that
   is no case variant of the canonical character is left alone ("o’Xrien" with canonical "O'Brien":
   O and ' are taken, X stays) *)
Example C18_guarded_copy :
  let canon := fun _ : text => Some [79; 39; 66; 114; 105; 101; 110]%N in
  make_title_case ex_lower ex_upper ex_islower canon (fun _ => None)
                  [mktok (mkspan 0 7) (KWord (Some (mkmeta true false false)))]
                  [111; 8217; 88; 114; 105; 101; 110]%N
  = Ok [79; 39; 88; 114; 105; 101; 110]%N.
Proof. vm_compute. reflexivity. Qed.

(* REGRESSION, former known class FC18a/FC18b ("b the.Kelvin" with U+212A, facts dumped from the real
   code): the KELVIN SIGN is left alone and a second pass is the identity *)
Example C18_kelvin_regression :
  run_title_case kw_chars kw_canon kw_meta kw_toks kw_src = Ok kw_out /\
  run_title_case kw_chars kw_canon kw_meta kw_toks kw_out = Ok kw_out /\
  run_missing_keys kw_chars kw_canon kw_meta kw_toks kw_src = false /\
  run_missing_keys kw_chars kw_canon kw_meta kw_toks kw_out = false /\
  nth_error kw_src 6 = Some 8490%N /\ nth_error kw_out 6 = Some 8490%N.
Proof. exact kelvin_regression. Qed.

(* HISTORY (History/C18History.v, about make_title_case_old = the code BEFORE 41fa706, not the
   current tree): on the same input the old code turned U+212A into U+004B, which is no case variant
   of it, and the result re-lexed to tokens on which a second pass changed it again *)
Example C18_old_refuted :
  run_title_case_old kw_chars_old kw_canon kw_meta kw_toks kw_src = Ok kw_out_old /\
  run_title_case_old kw_chars_old kw_canon kw_meta kw_toks2_old kw_out_old = Ok kw_out2_old /\
  kw_out2_old <> kw_out_old /\
  nth_error kw_src 6 = Some 8490%N /\ nth_error kw_out_old 6 = Some 75%N.
Proof. destruct kelvin_old_refuted as (H1 & H2 & H3 & H4 & H5 & _). repeat split; assumption. Qed.

(* ---------- non-vacuity of the string-level theorems ---------- *)
(* the ASCII restriction of Unicode (LexerProofs.ascii_uni) and the example dictionary satisfy the two new
   contracts for ALL characters / words; "the wordpress of a" is a plain text, its document tokens are
   ex_toks (so the token-level Example above is the same run), make_title_case_str gives "The WordPress of A"
   and, applied again, the same *)
Example C18_str_nonvacuous :
  plain_case_closed ascii_uni ex_lower ex_upper /\ dict_meta_case_insensitive ex_lower ex_upper ex_meta /\
  plain_stable_text ascii_uni ex_lower ex_upper ex_src /\
  plain_text ascii_uni ex_src = true /\
  document_tokens ascii_uni ex_meta ex_src = Ok ex_toks /\
  title_case_str ascii_uni ex_lower ex_upper ex_islower ex_canon ex_meta ex_src = Ok ex_out /\
  title_case_str ascii_uni ex_lower ex_upper ex_islower ex_canon ex_meta ex_out = Ok ex_out /\
  ex_out <> ex_src.
Proof.
  split; [exact ex_plain_case_closed|]. split; [exact ex_dict_meta_case_insensitive|].
  split; [exact ex_plain_stable|].
  destruct ex_str_run as (H1 & H2 & H3 & H4). repeat split; try assumption. discriminate.
Qed.

(* two plain texts related by Rw: "ab, cd" and "AB, Cd" lex alike (hypotheses of C18_lex_case_stable) *)
Example C18_lex_case_stable_nonvacuous :
  let s := [97; 98; 44; 32; 99; 100]%N in let s' := [65; 66; 44; 32; 67; 100]%N in
  plain_text ascii_uni s = true /\ plain_text ascii_uni s' = true /\
  forallb (fun p => (fst p =? snd p)%N || (wchar ascii_uni (fst p) && wchar ascii_uni (snd p))) (combine s s') = true /\
  document_plain ascii_uni s' = document_plain ascii_uni s /\ s' <> s.
Proof. cbv zeta. repeat split; try (vm_compute; reflexivity). discriminate. Qed.

(* THE LEXER IS CASE-SENSITIVE — the residue of C18_str_idempotent_partial is not vacuous.  Dictionary:
   `ss` is a proper noun with canonical spelling `SS` (the curated dictionary has such entries).
   "ss.s" lexes as Word Period Word (lex_plural_digit takes `ss` because a lower-case s precedes the dot);
   its title case "SS.S" lexes as ONE Hostname, so `document_tokens out = document_tokens src` FAILS — and
   yet converting again changes nothing (a Hostname only has its first character upper-cased).  Not a
   finding: make_title_case_str is idempotent here; the real lexer shows the same (harness:
   H_case_stable:violated, corpus/C18/relex.json) *)
Example C18_relex_unstable_witness :
  title_case_str ascii_uni ex_lower ex_upper ex_islower wit_canon wit_meta wit_src = Ok wit_out /\
  document_tokens ascii_uni wit_meta wit_src
    = Ok [mktok (mkspan 0 2) (KWord (Some (mkmeta true false false))); mktok (mkspan 2 3) KPunct;
          mktok (mkspan 3 4) (KWord None)] /\
  document_tokens ascii_uni wit_meta wit_out = Ok [mktok (mkspan 0 4) KHostname] /\
  plain_text ascii_uni wit_src = false /\
  title_case_str ascii_uni ex_lower ex_upper ex_islower wit_canon wit_meta wit_out = Ok wit_out.
Proof. exact relex_unstable_witness. Qed.

(* ---------- non-vacuity, phase 4 ---------- *)
(* the passes at work on a text and its upper-case twin: "1st et al." / "1ST ET AL." — the token list of the first
   text, run through the passes with either text: same result, and the passes did condense something
   (number suffix, Latin abbreviation) *)
Example C18_passes_case_blind_nonvacuous :
  let s := [49; 115; 116; 32; 101; 116; 32; 97; 108; 46]%N in
  let s' := [49; 83; 84; 32; 69; 84; 32; 65; 76; 46]%N in
  forallb (fun p => (ickey (fst p) =? ickey (snd p))%N) (combine s s') = true /\ s' <> s /\
  exists t0 t9, plain_parse ascii_uni s = Ok t0 /\ document_passes s t0 = Ok t9 /\ document_passes s' t0 = Ok t9 /\
                length t9 < length t0.
Proof.
  cbv zeta. split; [vm_compute; reflexivity|]. split; [discriminate|].
  eexists. eexists. split; [vm_compute; reflexivity|]. split; [vm_compute; reflexivity|].
  split; [vm_compute; reflexivity|]. vm_compute. lia.
Qed.

(* the new law and the closure of the dotted class hold for the ASCII restriction + example dictionary (all
   characters); "the wordpress. a.b is. etc." is dotted and not plain, has a Hostname token, its title case differs
   from it, is a fixed point, yields the same document tokens and is dotted again *)
Example C18_dotted_nonvacuous :
  ascii_case_faithful ex_lower ex_upper /\ dotted_case_closed ascii_uni ex_lower ex_upper /\
  dotted_stable_text ascii_uni ex_lower ex_upper dot_src /\
  exists out,
    plain_text ascii_uni dot_src = false /\ dotted_text ascii_uni dot_src = true /\
    title_case_str ascii_uni ex_lower ex_upper ex_islower ex_canon ex_meta dot_src = Ok out /\ out <> dot_src /\
    title_case_str ascii_uni ex_lower ex_upper ex_islower ex_canon ex_meta out = Ok out /\
    document_tokens ascii_uni ex_meta out = document_tokens ascii_uni ex_meta dot_src /\
    dotted_text ascii_uni out = true /\
    existsb (fun t => match tkind_ t with KHostname => true | _ => false end)
            (match document_tokens ascii_uni ex_meta dot_src with Ok ts => ts | Panic _ => [] end) = true.
Proof.
  split; [exact ex_ascii_case_faithful|]. split; [exact ex_dotted_case_closed|]. split; [exact ex_dotted_stable|].
  exact ex_dotted_run.
Qed.

(* two dotted texts related by Rl: "as. b.c" and "AS. B.c" lex alike (a sentence end after `as`, a hostname) *)
Example C18_lex_dots_nonvacuous :
  let s := [97; 115; 46; 32; 98; 46; 99]%N in let s' := [65; 83; 46; 32; 66; 46; 99]%N in
  dotted_text ascii_uni s = true /\ dotted_text ascii_uni s' = true /\
  forallb (fun p => (fst p =? snd p)%N || (wch ascii_uni (fst p) && wch ascii_uni (snd p) && (ickey (fst p) =? ickey (snd p))%N))
          (combine s s') = true /\
  plain_parse ascii_uni s' = plain_parse ascii_uni s /\ s' <> s /\
  existsb (fun t => match Lexer.tkind_of t with Lexer.KHostname => true | _ => false end)
          (match plain_parse ascii_uni s with Ok ts => ts | Panic _ => [] end) = true.
Proof. cbv zeta. repeat split; try (vm_compute; reflexivity). discriminate. Qed.

(* THE EXCLUDED PATTERN IS THE KNOWN FINDING: both FC18c witnesses (C18_str_idempotent_refuted: ss.a'b,
   C18_relex_unstable_witness: ss.s) carry it (ctx_ok = false) — ss.s consists of characters of the class only,
   so the pattern alone excludes it *)
Example C18_fc18c_outside_classes :
  dotted_text ascii_uni ref_src = false /\ ctx_ok ref_src = false /\ forallb (char2 ascii_uni) wit_src = true /\
  dotted_text ascii_uni wit_src = false /\ ctx_ok wit_src = false.
Proof. exact fc18c_outside. Qed.

(* case_stable is needed (U+A7D2..U+A7D5 with the present crates): see C18StrProofs.case_stable_needed *)
Example C18_case_stable_needed :
  plain_text toy_uni [42963%N] = true /\ plain_text toy_uni [42962%N] = true /\
  wchar toy_uni 42963 = true /\ ochar toy_uni 42962 = true /\
  document_plain toy_uni [42963%N] = Ok [Lexer.mktok (mkspan 0 1) Lexer.KWord] /\
  document_plain toy_uni [42962%N] = Ok [Lexer.mktok (mkspan 0 1) Lexer.KUnlintable].
Proof. exact case_stable_needed. Qed.

(* phase 5.  The closure of the class holds for the ASCII restriction + example dictionary (all characters);
   "the 2nd wordpress isn't v1.5e3. a.b 0xg 1e5 of 3'sa" is in the class, neither plain nor dotted, has Number tokens,
   its title case differs from it, is a fixed point, yields the same document tokens and is in the class again *)
Example C18_alnum_nonvacuous :
  ascii_case_faithful ex_lower ex_upper /\ alnum_case_closed ascii_uni ex_lower ex_upper /\
  alnum_stable_text ascii_uni ex_lower ex_upper alnum_src /\
  exists out,
    plain_text ascii_uni alnum_src = false /\ dotted_text ascii_uni alnum_src = false /\ alnum_text ascii_uni alnum_src = true /\
    title_case_str ascii_uni ex_lower ex_upper ex_islower ex_canon ex_meta alnum_src = Ok out /\ out <> alnum_src /\
    title_case_str ascii_uni ex_lower ex_upper ex_islower ex_canon ex_meta out = Ok out /\
    document_tokens ascii_uni ex_meta out = document_tokens ascii_uni ex_meta alnum_src /\
    alnum_text ascii_uni out = true /\
    existsb (fun t => match tkind_ t with KNumber => true | _ => false end)
            (match document_tokens ascii_uni ex_meta alnum_src with Ok ts => ts | Panic _ => [] end) = true.
Proof.
  split; [exact ex_ascii_case_faithful|]. split; [exact ex_alnum_case_closed|]. split; [exact ex_alnum_stable|].
  exact ex_alnum_run.
Qed.

(* two texts of the class related by Rl: "1e5 john's a.b 2nd" and "1E5 JOHN'S A.B 2ND" lex alike (a float with an exponent,
   a possessive after a word character, a hostname, a suffix); lex_number alone: "2e3x" / "2E3X" *)
Example C18_lex_alnum_nonvacuous :
  let s := [49; 101; 53; 32; 106; 111; 104; 110; 39; 115; 32; 97; 46; 98; 32; 50; 110; 100]%N in
  let s' := [49; 69; 53; 32; 74; 79; 72; 78; 39; 83; 32; 65; 46; 66; 32; 50; 78; 68]%N in
  alnum_text ascii_uni s = true /\ alnum_text ascii_uni s' = true /\
  forallb (fun p => (fst p =? snd p)%N || (wch ascii_uni (fst p) && wch ascii_uni (snd p) && (ickey (fst p) =? ickey (snd p))%N))
          (combine s s') = true /\
  plain_parse ascii_uni s' = plain_parse ascii_uni s /\ s' <> s /\
  existsb (fun t => match Lexer.tkind_of t with Lexer.KNumber _ => true | _ => false end)
          (match plain_parse ascii_uni s with Ok ts => ts | Panic _ => [] end) = true /\
  lex_number ascii_uni [50; 69; 51; 88]%N = lex_number ascii_uni [50; 101; 51; 120]%N /\
  lex_number ascii_uni [50; 101; 51; 120]%N <> None.
Proof. cbv zeta. repeat split; try (vm_compute; reflexivity); try discriminate. Qed.

(* EVERY EXCLUDED PATTERN IS WITNESSED by two texts related by ASCII case that PlainEnglish::parse cuts differently:
   `1s` / `1S` (Q_plural, digit), `as.b` / `AS.B` (Q_plural, hostname = FC18c), `a's` / `A'S` (Q_apos), `0x1` / `0X1` (Q_hex) *)
Example C18_alnum_patterns_witnessed :
  (forallb (char3 ascii_uni) [49; 115]%N = true /\ q_plural ascii_uni [49; 115]%N = true /\
   plain_parse ascii_uni [49; 83]%N <> plain_parse ascii_uni [49; 115]%N) /\
  (forallb (char3 ascii_uni) [97; 115; 46; 98]%N = true /\ q_plural ascii_uni [97; 115; 46; 98]%N = true /\
   plain_parse ascii_uni [65; 83; 46; 66]%N <> plain_parse ascii_uni [97; 115; 46; 98]%N) /\
  (forallb (char3 ascii_uni) [97; 39; 115]%N = true /\ q_apos ascii_uni [97; 39; 115]%N = true /\
   plain_parse ascii_uni [65; 39; 83]%N <> plain_parse ascii_uni [97; 39; 115]%N) /\
  (forallb (char3 ascii_uni) [48; 120; 49]%N = true /\ q_hex [48; 120; 49]%N = true /\
   plain_parse ascii_uni [48; 88; 49]%N <> plain_parse ascii_uni [48; 120; 49]%N).
Proof. exact alnum_patterns_witnessed. Qed.

(* what the class admits beyond the dotted class without digits (`as-is`, `as.b.`: the hostname clause is stated with
   lex_hostname_token itself) and through the look-behind (`john's`, `this.is`, `mp3s`); the same patterns at the start
   of the text or after a blank stay excluded.  Both FC18c witnesses are outside *)
Example C18_alnum_refines :
  (alnum_text ascii_uni [97; 115; 45; 105; 115]%N = true /\ dotted_text ascii_uni [97; 115; 45; 105; 115]%N = false /\
   alnum_text ascii_uni [97; 115; 46; 98; 46]%N = true /\ dotted_text ascii_uni [97; 115; 46; 98; 46]%N = false /\
   alnum_text ascii_uni [106; 111; 104; 110; 39; 115]%N = true /\
   alnum_text ascii_uni [116; 104; 105; 115; 46; 105; 115]%N = true /\ dotted_text ascii_uni [116; 104; 105; 115; 46; 105; 115]%N = false /\
   alnum_text ascii_uni [109; 112; 51; 115]%N = true /\
   alnum_text ascii_uni [32; 97; 39; 115]%N = false /\ alnum_text ascii_uni [105; 115; 46; 105; 115]%N = false /\
   alnum_text ascii_uni [32; 51; 115]%N = false) /\
  alnum_text ascii_uni ref_src = false /\ alnum_text ascii_uni wit_src = false.
Proof. split; [exact alnum_refines_dotted|]. split; vm_compute; reflexivity. Qed.

(* ---------- phase 6: the curly apostrophe ---------- *)
(* "the wordpress isn’t john’s" and the same text with the FIRST apostrophe straightened *)
Definition curly_s : text :=
  [116; 104; 101; 32; 119; 111; 114; 100; 112; 114; 101; 115; 115; 32; 105; 115; 110; 8217; 116; 32; 106; 111; 104; 110; 8217; 115]%N.
Definition curly_s' : text :=
  [116; 104; 101; 32; 119; 111; 114; 100; 112; 114; 101; 115; 115; 32; 105; 115; 110; 39; 116; 32; 106; 111; 104; 110; 8217; 115]%N.
Example C18_lex_curly_nonvacuous :
  apostrophe_in_class ascii_uni /\ Forall2 Ra curly_s curly_s' /\ curly_s' <> curly_s /\
  alnum_text ascii_uni curly_s = true /\ alnum_text ascii_uni curly_s' = true /\
  plain_parse ascii_uni curly_s' = plain_parse ascii_uni curly_s /\
  (exists ts, plain_parse ascii_uni curly_s = Ok ts /\ length ts = 11).
Proof.
  split; [vm_compute; reflexivity|]. split.
  { unfold curly_s, curly_s'. repeat (constructor; [first [left; reflexivity | right; split; reflexivity]|]). constructor. }
  split; [intros H; vm_compute in H; discriminate|].
  split; [vm_compute; reflexivity|]. split; [vm_compute; reflexivity|]. split; [vm_compute; reflexivity|].
  eexists. split; vm_compute; reflexivity.
Qed.

(* the excluded pattern is needed: `a’s` is Word Apostrophe Word, `a's` one Word (lex_plural_digit); and U+2018 must
   stay outside the class: `a‘b` has an Unlintable token where `a'b` has an Apostrophe *)
Example C18_curly_patterns_witnessed :
  (Forall2 Ra [97; 8217; 115]%N [97; 39; 115]%N /\ forallb (char3 ascii_uni) [97; 8217; 115]%N = true /\
   q_apos ascii_uni [97; 8217; 115]%N = true /\ alnum_text ascii_uni [97; 8217; 115]%N = false /\
   plain_parse ascii_uni [97; 39; 115]%N <> plain_parse ascii_uni [97; 8217; 115]%N) /\
  (char3 ascii_uni 8216 = false /\ char3 ascii_uni 65287 = false /\
   plain_parse ascii_uni [97; 39; 98]%N <> plain_parse ascii_uni [97; 8216; 98]%N).
Proof.
  split.
  - split; [repeat (constructor; [first [left; reflexivity | right; split; reflexivity]|]); constructor|].
    split; [vm_compute; reflexivity|]. split; [vm_compute; reflexivity|]. split; [vm_compute; reflexivity|].
    intros H; vm_compute in H; discriminate.
  - split; [vm_compute; reflexivity|]. split; [vm_compute; reflexivity|]. intros H; vm_compute in H; discriminate.
Qed.

(* the string-level theorems on a text WITH curly apostrophes: in the stable class, changes, fixed point afterwards,
   output in the class.  (The example dictionary has no proper noun with an apostrophe: the straightening step itself
   is exercised by C18_lex_curly_nonvacuous at the lexer level and by the harness on the curated dictionary.) *)
Example C18_curly_str_nonvacuous :
  alnum_stable_text ascii_uni ex_lower ex_upper curly_s /\
  exists out,
    title_case_str ascii_uni ex_lower ex_upper ex_islower ex_canon ex_meta curly_s = Ok out /\ out <> curly_s /\
    title_case_str ascii_uni ex_lower ex_upper ex_islower ex_canon ex_meta out = Ok out /\
    document_tokens ascii_uni ex_meta out = document_tokens ascii_uni ex_meta curly_s /\
    alnum_text ascii_uni out = true.
Proof.
  split; [apply alnum_stable_of_closed; [exact ex_alnum_case_closed|vm_compute; reflexivity]|].
  eexists. split; [vm_compute; reflexivity|]. split; [intros H; vm_compute in H; discriminate|].
  split; [vm_compute; reflexivity|]. split; vm_compute; reflexivity.
Qed.

(* ---------- phase 7: the colon inside the class ---------- *)
(* `:` is a character of the class now (bad3 = @ [ ‘ ＇); excluded, at every position, is the substring `://`
   (q_url, a conjunct of ctx_ok3; invariant under Rl and Ra since `:` and `/` are punctuation characters).
   On such a text lex_url declines at EVERY cursor position the parse loop reaches: the characters after the first
   colon of the remaining text are not `//`, which is the first thing lex_ip_schemepart asks for.  The scheme test
   (valid_scheme_char: is_ascii_alphabetic / is_ascii_digit / . - +) is never the reason, so nothing case-dependent is
   used.  All theorems about the class (C18_lex_alnum_stable, C18_lex_curly_stable, C18_lex_alnum4_stable,
   C18_alnum_closed_rl4, C18_str_relex_alnum, C18_str_idempotent_alnum, C18_str_title_case_alnum) now speak about this
   wider class: their statements are unchanged, alnum_text / Alnum / St mean more. *)
Theorem C18_alnum_url_declines : forall u prev (s : list N), St u prev s -> lex_url u s = None.
Proof. exact url_none3. Qed.
Check C18_alnum_url_declines : forall u prev (s : list N), St u prev s -> lex_url u s = None.
Print Assumptions C18_alnum_url_declines.

(* "re: the wordpress 10:30" *)
Definition colon_s : text :=
  [114; 101; 58; 32; 116; 104; 101; 32; 119; 111; 114; 100; 112; 114; 101; 115; 115; 32; 49; 48; 58; 51; 48]%N.
(* non-vacuity: the colon is a character of the class, the text is in the stable class (St holds at its start, so the
   theorem above applies), title-casing changes it, the result is a fixed point with the same document tokens and in
   the class; `a://b` (a Url token for the lexer) and `x ://` are outside, `a:/b` and `a:b` inside *)
Example C18_colon_nonvacuous :
  char3 ascii_uni 58 = true /\ St ascii_uni None colon_s /\
  alnum_stable_text ascii_uni ex_lower ex_upper colon_s /\
  (exists out,
    title_case_str ascii_uni ex_lower ex_upper ex_islower ex_canon ex_meta colon_s = Ok out /\ out <> colon_s /\
    title_case_str ascii_uni ex_lower ex_upper ex_islower ex_canon ex_meta out = Ok out /\
    document_tokens ascii_uni ex_meta out = document_tokens ascii_uni ex_meta colon_s /\
    alnum_text ascii_uni out = true) /\
  alnum_text ascii_uni [97; 58; 47; 47; 98]%N = false /\ alnum_text ascii_uni [120; 32; 58; 47; 47]%N = false /\
  lex_url ascii_uni [97; 58; 47; 47; 98]%N = Some (5, Lexer.KUrl) /\
  alnum_text ascii_uni [97; 58; 47; 98]%N = true /\ alnum_text ascii_uni [97; 58; 98]%N = true.
Proof.
  split; [vm_compute; reflexivity|]. split; [apply Alnum_St, alnum_text_Alnum; vm_compute; reflexivity|].
  split; [apply alnum_stable_of_closed; [exact ex_alnum_case_closed|vm_compute; reflexivity]|].
  split.
  { eexists. split; [vm_compute; reflexivity|]. split; [intros H; vm_compute in H; discriminate|].
    split; [vm_compute; reflexivity|]. split; vm_compute; reflexivity. }
  repeat split; vm_compute; reflexivity.
Qed.
