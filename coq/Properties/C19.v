(* C19 — The statistics log reads back exactly what was written, append after append.
   This file pins the statements; it contains nothing but `exact`.
   Vocabulary (Model/JsonEscape.v, Model/Stats.v): bytes = list N; ser_str / de_str = serde_json writing / reading
   one JSON string (UTF-8 + the ESCAPE table + parse_str); lines = BufRead::lines; write / read / sessions =
   Stats::write / Stats::read / append-mode sessions over an abstract record with serde as (ser, de);
   ge32 b = 32 <= b; line_ok l = no LF in l and l does not end in CR; terminated f = f empty or ends in LF. *)
Require Import Base JsonEscape Stats Tables_statslog StatsProofs.
Local Open Scope N_scope.

(* ---------- escaping ---------- *)
(* whatever the text (every list of code points, control / astral / unpaired values included), the JSON string
   serde_json writes for it contains no byte below 0x20 — in particular no LF and no CR *)
Theorem C19_escape_no_control : forall s : text, Forall ge32 (ser_str s).
Proof. exact ser_str_ge32. Qed.
Check C19_escape_no_control : forall s : text, Forall ge32 (ser_str s).
Print Assumptions C19_escape_no_control.

Theorem C19_escape_no_newline : forall s : text, ~ In 10 (ser_str s) /\ ~ In 13 (ser_str s).
Proof. exact ser_str_no_lf_cr. Qed.
Check C19_escape_no_newline : forall s : text, ~ In 10 (ser_str s) /\ ~ In 13 (ser_str s).
Print Assumptions C19_escape_no_newline.

(* the byte-level core, for ALL byte lists: what the ESCAPE table writes, parse_str reads back, and stops
   exactly at the closing quote *)
Theorem C19_escape_bytes_roundtrip : forall bs rest : bytes,
  unescape_body (escape_bytes bs ++ 34 :: rest) = Some (bs, rest).
Proof. exact unescape_escape. Qed.
Check C19_escape_bytes_roundtrip : forall bs rest : bytes,
  unescape_body (escape_bytes bs ++ 34 :: rest) = Some (bs, rest).
Print Assumptions C19_escape_bytes_roundtrip.

(* UTF-8: every Rust string (a list of Unicode scalar values) survives encode + validate/decode *)
Theorem C19_utf8_roundtrip : forall s : text, Forall scalar s -> utf8_dec (utf8_enc s) = Some s.
Proof. exact utf8_roundtrip. Qed.
Check C19_utf8_roundtrip : forall s : text, Forall scalar s -> utf8_dec (utf8_enc s) = Some s.
Print Assumptions C19_utf8_roundtrip.

(* escaping is injective, in the strong form: the reader inverts the writer on every Rust string *)
Theorem C19_escape_injective : forall s : text, Forall scalar s -> de_str (ser_str s) = Some s.
Proof. exact de_ser_str. Qed.
Check C19_escape_injective : forall s : text, Forall scalar s -> de_str (ser_str s) = Some s.
Print Assumptions C19_escape_injective.

Theorem C19_escape_distinct : forall s1 s2 : text,
  Forall scalar s1 -> Forall scalar s2 -> ser_str s1 = ser_str s2 -> s1 = s2.
Proof. exact ser_str_injective. Qed.
Check C19_escape_distinct : forall s1 s2 : text,
  Forall scalar s1 -> Forall scalar s2 -> ser_str s1 = ser_str s2 -> s1 = s2.
Print Assumptions C19_escape_distinct.

(* the tie of the escape model to the code: its classes are the 256 entries of serde_json's ESCAPE table,
   re-read from the pinned serde_json sources on every run *)
Theorem C19_escape_table_is_serdes :
  length serde_escape_table = 256%nat /\
  forallb (fun i => escape_class (N.of_nat i) =? nth i serde_escape_table 999) (seq 0 256) = true.
Proof. exact escape_class_matches_serde_table. Qed.
Check C19_escape_table_is_serdes :
  length serde_escape_table = 256%nat /\
  forallb (fun i => escape_class (N.of_nat i) =? nth i serde_escape_table 999) (seq 0 256) = true.
Print Assumptions C19_escape_table_is_serdes.

(* ---------- framing ---------- *)
(* BufRead::lines gives back LF-terminated lines that contain no LF and do not end in CR *)
Theorem C19_lines_roundtrip : forall ls : list bytes,
  Forall line_ok ls -> lines (flat_map (fun l => l ++ [10]) ls) = ls.
Proof. exact lines_roundtrip. Qed.
Check C19_lines_roundtrip : forall ls : list bytes,
  Forall line_ok ls -> lines (flat_map (fun l => l ++ [10]) ls) = ls.
Print Assumptions C19_lines_roundtrip.

(* appending to a file that is empty or ends in LF never disturbs the lines already there *)
Theorem C19_lines_append : forall f g : bytes, terminated f -> lines (f ++ g) = lines f ++ lines g.
Proof. exact lines_app. Qed.
Check C19_lines_append : forall f g : bytes, terminated f -> lines (f ++ g) = lines f ++ lines g.
Print Assumptions C19_lines_append.

(* the framing half of the serde contract follows from the SHAPE of what serde writes for a record: fixed
   fragments of printable ASCII (monitored on every real record) and strings through ser_str *)
Theorem C19_record_line_from_shape : forall ps : list piece,
  forallb lit_okb ps = true -> Forall ge32 (render ps) /\ line_ok (render ps).
Proof. exact (fun ps H => conj (render_ge32 ps H) (ge32_line_ok (render ps) (render_ge32 ps H))). Qed.
Check C19_record_line_from_shape : forall ps : list piece,
  forallb lit_okb ps = true -> Forall ge32 (render ps) /\ line_ok (render ps).
Print Assumptions C19_record_line_from_shape.

(* ---------- the log, over serde's contract for the records in `valid` ---------- *)
Theorem C19_roundtrip : forall (record : Type) (ser : record -> bytes) (de : bytes -> option record) (valid : record -> Prop),
  (forall r, valid r -> de (ser r) = Some r) -> (forall r, valid r -> line_ok (ser r)) ->
  forall rs, Forall valid rs -> read record de (write record ser rs) = Some rs.
Proof. exact log_roundtrip. Qed.
Check C19_roundtrip : forall (record : Type) (ser : record -> bytes) (de : bytes -> option record) (valid : record -> Prop),
  (forall r, valid r -> de (ser r) = Some r) -> (forall r, valid r -> line_ok (ser r)) ->
  forall rs, Forall valid rs -> read record de (write record ser rs) = Some rs.
Print Assumptions C19_roundtrip.

Theorem C19_append : forall (record : Type) (ser : record -> bytes) (de : bytes -> option record) (valid : record -> Prop),
  (forall r, valid r -> de (ser r) = Some r) -> (forall r, valid r -> line_ok (ser r)) ->
  forall a b, Forall valid a -> Forall valid b ->
  read record de (write record ser a ++ write record ser b) = Some (a ++ b).
Proof. exact log_append. Qed.
Check C19_append : forall (record : Type) (ser : record -> bytes) (de : bytes -> option record) (valid : record -> Prop),
  (forall r, valid r -> de (ser r) = Some r) -> (forall r, valid r -> line_ok (ser r)) ->
  forall a b, Forall valid a -> Forall valid b ->
  read record de (write record ser a ++ write record ser b) = Some (a ++ b).
Print Assumptions C19_append.

(* any number of append sessions (harper-ls opens the file with O_APPEND at every shutdown), starting from
   an empty / missing file *)
Theorem C19_append_sessions : forall (record : Type) (ser : record -> bytes) (de : bytes -> option record) (valid : record -> Prop),
  (forall r, valid r -> de (ser r) = Some r) -> (forall r, valid r -> line_ok (ser r)) ->
  forall ss, Forall (Forall valid) ss -> read record de (sessions record ser [] ss) = Some (concat ss).
Proof. exact log_sessions. Qed.
Check C19_append_sessions : forall (record : Type) (ser : record -> bytes) (de : bytes -> option record) (valid : record -> Prop),
  (forall r, valid r -> de (ser r) = Some r) -> (forall r, valid r -> line_ok (ser r)) ->
  forall ss, Forall (Forall valid) ss -> read record de (sessions record ser [] ss) = Some (concat ss).
Print Assumptions C19_append_sessions.

(* ... and starting from ANY existing log that reads back as `old` and is empty or ends in LF (the documented
   expectation of Stats::write), whatever wrote it *)
Theorem C19_append_to_existing : forall (record : Type) (ser : record -> bytes) (de : bytes -> option record) (valid : record -> Prop),
  (forall r, valid r -> de (ser r) = Some r) -> (forall r, valid r -> line_ok (ser r)) ->
  forall file old ss, terminated file -> read record de file = Some old -> Forall (Forall valid) ss ->
  read record de (sessions record ser file ss) = Some (old ++ concat ss).
Proof. exact log_sessions_any. Qed.
Check C19_append_to_existing : forall (record : Type) (ser : record -> bytes) (de : bytes -> option record) (valid : record -> Prop),
  (forall r, valid r -> de (ser r) = Some r) -> (forall r, valid r -> line_ok (ser r)) ->
  forall file old ss, terminated file -> read record de file = Some old -> Forall (Forall valid) ss ->
  read record de (sessions record ser file ss) = Some (old ++ concat ss).
Print Assumptions C19_append_to_existing.

(* that expectation is an invariant of the sessions themselves *)
Theorem C19_log_stays_terminated : forall (record : Type) (ser : record -> bytes) file ss,
  terminated file -> terminated (sessions record ser file ss).
Proof. exact sessions_terminated. Qed.
Check C19_log_stays_terminated : forall (record : Type) (ser : record -> bytes) file ss,
  terminated file -> terminated (sessions record ser file ss).
Print Assumptions C19_log_stays_terminated.

(* with the framing half discharged by the shape theorem: only `de (ser r) = Some r` (serde's value round
   trip) and "fragments are printable" (monitored) remain as hypotheses *)
Theorem C19_roundtrip_shaped : forall (record : Type) (shape : record -> list piece) (de : bytes -> option record) (valid : record -> Prop),
  (forall r, valid r -> de (render (shape r)) = Some r) -> (forall r, valid r -> forallb lit_okb (shape r) = true) ->
  forall file old ss, terminated file -> read record de file = Some old -> Forall (Forall valid) ss ->
  read record de (sessions record (fun r => render (shape r)) file ss) = Some (old ++ concat ss).
Proof. exact sessions_shaped. Qed.
Check C19_roundtrip_shaped : forall (record : Type) (shape : record -> list piece) (de : bytes -> option record) (valid : record -> Prop),
  (forall r, valid r -> de (render (shape r)) = Some r) -> (forall r, valid r -> forallb lit_okb (shape r) = true) ->
  forall file old ss, terminated file -> read record de file = Some old -> Forall (Forall valid) ss ->
  read record de (sessions record (fun r => render (shape r)) file ss) = Some (old ++ concat ss).
Print Assumptions C19_roundtrip_shaped.

(* a closed instance with NO hypothesis left: a log whose records are arbitrary Rust strings *)
Theorem C19_strings_log : forall sss : list (list text),
  Forall (Forall (Forall scalar)) sss -> read text de_str (sessions text ser_str [] sss) = Some (concat sss).
Proof. exact strings_log_sessions. Qed.
Check C19_strings_log : forall sss : list (list text),
  Forall (Forall (Forall scalar)) sss -> read text de_str (sessions text ser_str [] sss) = Some (concat sss).
Print Assumptions C19_strings_log.

(* ---------- the records of the property: made from text (since b5c1992 + abf6ba7: no exception left) ----------
   record = harper_stats::Record; from_text r = r is a configuration update or was made by RecordKind::from_lint
   from a lexed + linted text; numbers r = the f64 values of the Number tokens of r's context; finite = is_finite.
   Hypotheses (each monitored on the implementation in every run and pinned by C19_source_shape):
     lexer  every Number made from text is finite (lex_number accepts only is_finite() candidates; lex_hex_number
            converts a u64; no other code builds a Number; JSON cannot denote a non-finite number);
     value  serde_json reads back the record it wrote when its Numbers are finite (derive + float_roundtrip) —
            before abf6ba7 this also needed "every Number is one serde_json re-reads exactly" (F29);
     shape  what serde writes outside string literals is printable ASCII.
   Conclusion, for ALL lists of such records, whatever characters their captured text contains: *)
Theorem C19_text_records_roundtrip : forall (record : Type) (shape : record -> list piece) (de : bytes -> option record)
  (F : Type) (finite : F -> Prop) (numbers : record -> list F) (from_text : record -> Prop),
  (forall r, from_text r -> Forall finite (numbers r)) ->
  (forall r, Forall finite (numbers r) -> de (render (shape r)) = Some r) ->
  (forall r, Forall finite (numbers r) -> forallb lit_okb (shape r) = true) ->
  forall rs, Forall from_text rs -> read record de (write record (fun r => render (shape r)) rs) = Some rs.
Proof. exact text_records_roundtrip. Qed.
Check C19_text_records_roundtrip : forall (record : Type) (shape : record -> list piece) (de : bytes -> option record)
  (F : Type) (finite : F -> Prop) (numbers : record -> list F) (from_text : record -> Prop),
  (forall r, from_text r -> Forall finite (numbers r)) ->
  (forall r, Forall finite (numbers r) -> de (render (shape r)) = Some r) ->
  (forall r, Forall finite (numbers r) -> forallb lit_okb (shape r) = true) ->
  forall rs, Forall from_text rs -> read record de (write record (fun r => render (shape r)) rs) = Some rs.
Print Assumptions C19_text_records_roundtrip.

Theorem C19_text_records_append : forall (record : Type) (shape : record -> list piece) (de : bytes -> option record)
  (F : Type) (finite : F -> Prop) (numbers : record -> list F) (from_text : record -> Prop),
  (forall r, from_text r -> Forall finite (numbers r)) ->
  (forall r, Forall finite (numbers r) -> de (render (shape r)) = Some r) ->
  (forall r, Forall finite (numbers r) -> forallb lit_okb (shape r) = true) ->
  forall a b, Forall from_text a -> Forall from_text b ->
  read record de (write record (fun r => render (shape r)) a ++ write record (fun r => render (shape r)) b) = Some (a ++ b).
Proof. exact text_records_append. Qed.
Check C19_text_records_append : forall (record : Type) (shape : record -> list piece) (de : bytes -> option record)
  (F : Type) (finite : F -> Prop) (numbers : record -> list F) (from_text : record -> Prop),
  (forall r, from_text r -> Forall finite (numbers r)) ->
  (forall r, Forall finite (numbers r) -> de (render (shape r)) = Some r) ->
  (forall r, Forall finite (numbers r) -> forallb lit_okb (shape r) = true) ->
  forall a b, Forall from_text a -> Forall from_text b ->
  read record de (write record (fun r => render (shape r)) a ++ write record (fun r => render (shape r)) b) = Some (a ++ b).
Print Assumptions C19_text_records_append.

(* any number of append sessions onto any well-terminated log that reads back as `old` *)
Theorem C19_text_records_sessions : forall (record : Type) (shape : record -> list piece) (de : bytes -> option record)
  (F : Type) (finite : F -> Prop) (numbers : record -> list F) (from_text : record -> Prop),
  (forall r, from_text r -> Forall finite (numbers r)) ->
  (forall r, Forall finite (numbers r) -> de (render (shape r)) = Some r) ->
  (forall r, Forall finite (numbers r) -> forallb lit_okb (shape r) = true) ->
  forall file old ss, terminated file -> read record de file = Some old -> Forall (Forall from_text) ss ->
  read record de (sessions record (fun r => render (shape r)) file ss) = Some (old ++ concat ss).
Proof. exact text_records_sessions. Qed.
Check C19_text_records_sessions : forall (record : Type) (shape : record -> list piece) (de : bytes -> option record)
  (F : Type) (finite : F -> Prop) (numbers : record -> list F) (from_text : record -> Prop),
  (forall r, from_text r -> Forall finite (numbers r)) ->
  (forall r, Forall finite (numbers r) -> de (render (shape r)) = Some r) ->
  (forall r, Forall finite (numbers r) -> forallb lit_okb (shape r) = true) ->
  forall file old ss, terminated file -> read record de file = Some old -> Forall (Forall from_text) ss ->
  read record de (sessions record (fun r => render (shape r)) file ss) = Some (old ++ concat ss).
Print Assumptions C19_text_records_sessions.

(* ---------- outside the contract: what one line that serde does not read back as written does ----------
   No record made from text is outside the contract any more (F16 fixed by b5c1992, F29 by abf6ba7).  The two
   theorems stay as the exact description of what the reverse of either fix brings back (the reverse-fix
   mutation tests show precisely these effects), and of what a line damaged by another writer does. *)
(* one record whose line serde_json rejects (before b5c1992: a lint whose context held a Number with a non-finite
   value, written with `null` — F16) makes Stats::read reject the WHOLE log, the valid records around it included *)
Theorem C19_one_bad_line_loses_all : forall (record : Type) (ser : record -> bytes) (de : bytes -> option record) (valid : record -> Prop),
  (forall r, valid r -> de (ser r) = Some r) -> (forall r, valid r -> line_ok (ser r)) ->
  forall a r b, Forall valid a -> ~ In 10 (ser r) -> de (strip_cr (ser r)) = None ->
  read record de (write record ser (a ++ r :: b)) = None.
Proof. exact one_bad_line_loses_all. Qed.
Check C19_one_bad_line_loses_all : forall (record : Type) (ser : record -> bytes) (de : bytes -> option record) (valid : record -> Prop),
  (forall r, valid r -> de (ser r) = Some r) -> (forall r, valid r -> line_ok (ser r)) ->
  forall a r b, Forall valid a -> ~ In 10 (ser r) -> de (strip_cr (ser r)) = None ->
  read record de (write record ser (a ++ r :: b)) = None.
Print Assumptions C19_one_bad_line_loses_all.

(* HISTORY, not a statement about the current code: the three lines harper-stats wrote BEFORE b5c1992 for
   (config update, the lint on `1e999TH`, config update) with serde_json's verdicts; with the lint record the
   log was unreadable, without it the other two read back.  (Was Theorem C19_nonfinite_refuted; the text now
   lexes as 1e99 + 9TH and corpus/C19/f16.json passes the oracle.) *)
Example C19_nonfinite_old_refuted :
  snd (run_sessions f16_table [] [[f16_good1; f16_bad]; [f16_good2]]) = None /\
  snd (run_sessions f16_table [] [[f16_good1]; [f16_good2]]) = Some [0; 2].
Proof. exact f16_witness. Qed.

(* a record that serde_json reads back as a different record (before abf6ba7: a Number whose shortest decimal
   form serde_json's default float parser did not parse exactly — F29) comes back altered, in place; the log is
   otherwise intact — so read (write rs) <> Some rs *)
Theorem C19_drifting_line_alters_the_log : forall (record : Type) (ser : record -> bytes) (de : bytes -> option record) (valid : record -> Prop),
  (forall r, valid r -> de (ser r) = Some r) -> (forall r, valid r -> line_ok (ser r)) ->
  forall a r r' b, Forall valid a -> Forall valid b -> line_ok (ser r) -> de (ser r) = Some r' -> r' <> r ->
  read record de (write record ser (a ++ r :: b)) = Some (a ++ r' :: b) /\
  read record de (write record ser (a ++ r :: b)) <> Some (a ++ r :: b).
Proof. exact (fun record ser de valid H1 H2 a r r' b Ha Hb Hl Hd Hne => conj (drifting_line_changes_the_log record ser de valid H1 H2 a r r' b Ha Hb Hl Hd) (drifting_line_refutes_roundtrip record ser de valid H1 H2 a r r' b Ha Hb Hl Hd Hne)). Qed.
Check C19_drifting_line_alters_the_log : forall (record : Type) (ser : record -> bytes) (de : bytes -> option record) (valid : record -> Prop),
  (forall r, valid r -> de (ser r) = Some r) -> (forall r, valid r -> line_ok (ser r)) ->
  forall a r r' b, Forall valid a -> Forall valid b -> line_ok (ser r) -> de (ser r) = Some r' -> r' <> r ->
  read record de (write record ser (a ++ r :: b)) = Some (a ++ r' :: b) /\
  read record de (write record ser (a ++ r :: b)) <> Some (a ++ r :: b).
Print Assumptions C19_drifting_line_alters_the_log.

(* ---------- summarize ---------- *)
(* total_applied = number of Lint records = sum of lint_counts; each kind has ONE entry whose count is the
   number of Lint records of that kind (each applied lint counted exactly once); final_config = the last
   configuration update (default if none); misspelled counts the Word(None) tokens of the contexts *)
Theorem C19_summary : forall (lintkind : Type) (kind_eqb : lintkind -> lintkind -> bool) (config : Type) (default_config : config),
  (forall a b, kind_eqb a b = true <-> a = b) ->
  forall rs : list (rkind lintkind config),
  let s := summarize lintkind kind_eqb config default_config rs in
  total_applied _ _ s = length (filter (is_lint lintkind config) rs) /\
  count_sum (lint_counts _ _ s) = total_applied _ _ s /\
  (forall k, get_count lintkind kind_eqb config s k = length (filter (has_kind lintkind kind_eqb config k) rs)) /\
  NoDup (map fst (lint_counts _ _ s)) /\
  final_config _ _ s = last_config lintkind config rs default_config /\
  (forall w, lookup text_eqb w (misspelled _ _ s) = length (filter (text_eqb w) (flat_map (words_of lintkind config) rs))) /\
  NoDup (map fst (misspelled _ _ s)).
Proof. exact summary_spec. Qed.
Check C19_summary : forall (lintkind : Type) (kind_eqb : lintkind -> lintkind -> bool) (config : Type) (default_config : config),
  (forall a b, kind_eqb a b = true <-> a = b) ->
  forall rs : list (rkind lintkind config),
  let s := summarize lintkind kind_eqb config default_config rs in
  total_applied _ _ s = length (filter (is_lint lintkind config) rs) /\
  count_sum (lint_counts _ _ s) = total_applied _ _ s /\
  (forall k, get_count lintkind kind_eqb config s k = length (filter (has_kind lintkind kind_eqb config k) rs)) /\
  NoDup (map fst (lint_counts _ _ s)) /\
  final_config _ _ s = last_config lintkind config rs default_config /\
  (forall w, lookup text_eqb w (misspelled _ _ s) = length (filter (text_eqb w) (flat_map (words_of lintkind config) rs))) /\
  NoDup (map fst (misspelled _ _ s)).
Print Assumptions C19_summary.

(* ---------- the source still has the shape the model mirrors (regenerated from /repo on every run) ---------- *)
Theorem C19_source_shape :
  forallb (fun e => snd e) stats_source_shape = true /\ length stats_source_shape = 11%nat.
Proof. exact stats_source_shape_ok. Qed.
Check C19_source_shape :
  forallb (fun e => snd e) stats_source_shape = true /\ length stats_source_shape = 11%nat.
Print Assumptions C19_source_shape.

(* ---------- non-vacuity ---------- *)
(* the hypotheses of the contract theorems are satisfiable on a non-trivial instance: C19_strings_log IS
   C19_append_sessions at record := text, ser := ser_str, de := de_str, valid := Forall scalar; concretely,
   two sessions of strings holding LF, CR LF, a quote, a backslash, NUL, U+2028 and an astral character: *)
Example C19_nonvacuous_strings :
  let s1 := [[97; 10; 98]; [13; 10]] in let s2 := [[34; 92; 0]; [8232; 128512]; []] in
  Forall (Forall (Forall scalar)) [s1; s2] /\
  ~ In 10 (ser_str [97; 10; 98]) /\
  lines (sessions text ser_str [] [s1; s2]) = map ser_str (s1 ++ s2) /\
  read text de_str (sessions text ser_str [] [s1; s2]) = Some (s1 ++ s2).
Proof.
  cbv zeta. split; [|split; [|split]].
  - repeat constructor; unfold scalar; lia.
  - vm_compute. intuition discriminate.
  - vm_compute. reflexivity.
  - vm_compute. reflexivity.
Qed.

(* the serialised form of a string with every kind of escape, byte for byte *)
Example C19_escape_example :
  ser_str [97; 10; 34; 92; 0; 31; 233; 128512] =
  [34; 97; 92; 110; 92; 34; 92; 92; 92; 117; 48; 48; 48; 48; 92; 117; 48; 48; 49; 102; 195; 169; 240; 159; 152; 128; 34].
Proof. vm_compute. reflexivity. Qed.

(* the hypotheses of C19_text_records_* are satisfiable, non-degenerately (`finite` is a real restriction, the
   reader does reject what lies outside it): records = JSON strings, their "numbers" = their code points,
   finite = scalar value, made from text = a Rust string; on a two-session history holding `1e999TH` and LF *)
Example C19_text_records_nonvacuous :
  let shape := fun s : text => [Str s] in
  (forall r : text, Forall scalar r -> Forall scalar r) /\
  (forall r : text, Forall scalar r -> de_str (render (shape r)) = Some r) /\
  (forall r : text, Forall scalar r -> forallb lit_okb (shape r) = true) /\
  Forall (Forall (Forall scalar)) [[[49; 101; 57; 57; 57; 84; 72]; [10]]; [[34; 13]]] /\
  de_str (render (shape [55296])) <> Some [55296].
Proof.
  cbv zeta. split; [|split; [|split; [|split]]].
  - intros r H. exact H.
  - intros r H. unfold render. cbn [flat_map render_piece]. rewrite app_nil_r. apply de_ser_str, H.
  - intros r _. reflexivity.
  - repeat constructor; unfold scalar; lia.
  - vm_compute. discriminate.
Qed.

(* lines: CR LF, a bare CR inside a line, an empty line, an unterminated last line ending in CR (kept) *)
Example C19_lines_example :
  lines [97; 13; 10; 98; 13; 99; 10; 10; 100; 13] = [[97]; [98; 13; 99]; []; [100; 13]].
Proof. vm_compute. reflexivity. Qed.

(* summarize on two lints of one kind, one of another, two configuration updates *)
Example C19_summary_example :
  let s := run_summarize [RLint _ _ 3 [[97; 98]; [99]]; RConfig _ _ 5; RLint _ _ 3 []; RLint _ _ 1 [[97; 98]]; RConfig _ _ 7] in
  total_applied _ _ s = 3%nat /\ lint_counts _ _ s = [(3, 2%nat); (1, 1%nat)] /\ final_config _ _ s = 7 /\
  misspelled _ _ s = [([97; 98], 2%nat); ([99], 1%nat)].
Proof. vm_compute. repeat split; reflexivity. Qed.
