(* C19 — The statistics log reads back exactly what was written, append after append.
   This file pins the statements; it contains nothing but `exact`.
   Vocabulary (Model/JsonEscape.v, Model/Stats.v): bytes = list N; ser_str / de_str = serde_json writing / reading
   one JSON string (UTF-8 + the ESCAPE table + parse_str); lines = BufRead::lines; write / read / sessions =
   Stats::write / Stats::read / append-mode sessions over an abstract record with serde as (ser, de);
   ge32 b = 32 <= b; line_ok l = no LF in l and l does not end in CR; terminated f = f empty or ends in LF. *)
From Coq Require Import String Ascii.
From Coq Require Import List.
Require Import Base JsonEscape Stats Tables_statslog StatsProofs C19Record C19RecordProofs Lexer C19LexerFinite C19TextRecords Tables_statsrecord C19Schema.
Require Import Condense C19DocNumbers C19Concurrent C19ConcurrentProofs.
Require Import Tables_statssession C19Session C19SessionProofs.
From Coq Require Import ZArith.
Local Open Scope N_scope.

(* ---------- escaping ---------- *)
(* whatever the text (every list of code points, control / astral / unpaired values included), the JSON string
   serde_json writes for it contains no byte below 0x20 — in particular no LF and no CR *)
Theorem C19_escape_no_control : forall s : text, Forall ge32 (ser_str s).
Proof. exact ser_str_ge32. Qed.
Check C19_escape_no_control : forall s : text, Forall ge32 (ser_str s).
Print Assumptions C19_escape_no_control.

Theorem C19_escape_no_newline : forall s : text, ~ In 10 (ser_str s) /\ ~ In 13 (ser_str s).
Proof. exact ser_str_no_lf_cr. Qed.
Check C19_escape_no_newline : forall s : text, ~ In 10 (ser_str s) /\ ~ In 13 (ser_str s).
Print Assumptions C19_escape_no_newline.

(* the byte-level core, for ALL byte lists: what the ESCAPE table writes, parse_str reads back, and stops
   exactly at the closing quote *)
Theorem C19_escape_bytes_roundtrip : forall bs rest : bytes,
  unescape_body (escape_bytes bs ++ 34 :: rest) = Some (bs, rest).
Proof. exact unescape_escape. Qed.
Check C19_escape_bytes_roundtrip : forall bs rest : bytes,
  unescape_body (escape_bytes bs ++ 34 :: rest) = Some (bs, rest).
Print Assumptions C19_escape_bytes_roundtrip.

(* UTF-8: every Rust string (a list of Unicode scalar values) survives encode + validate/decode *)
Theorem C19_utf8_roundtrip : forall s : text, Forall scalar s -> utf8_dec (utf8_enc s) = Some s.
Proof. exact utf8_roundtrip. Qed.
Check C19_utf8_roundtrip : forall s : text, Forall scalar s -> utf8_dec (utf8_enc s) = Some s.
Print Assumptions C19_utf8_roundtrip.

(* escaping is injective, in the strong form: the reader inverts the writer on every Rust string *)
Theorem C19_escape_injective : forall s : text, Forall scalar s -> de_str (ser_str s) = Some s.
Proof. exact de_ser_str. Qed.
Check C19_escape_injective : forall s : text, Forall scalar s -> de_str (ser_str s) = Some s.
Print Assumptions C19_escape_injective.

Theorem C19_escape_distinct : forall s1 s2 : text,
  Forall scalar s1 -> Forall scalar s2 -> ser_str s1 = ser_str s2 -> s1 = s2.
Proof. exact ser_str_injective. Qed.
Check C19_escape_distinct : forall s1 s2 : text,
  Forall scalar s1 -> Forall scalar s2 -> ser_str s1 = ser_str s2 -> s1 = s2.
Print Assumptions C19_escape_distinct.

(* the tie of the escape model to the code: its classes are the 256 entries of serde_json's ESCAPE table,
   re-read from the pinned serde_json sources on every run *)
Theorem C19_escape_table_is_serdes :
  length serde_escape_table = 256%nat /\
  forallb (fun i => escape_class (N.of_nat i) =? nth i serde_escape_table 999) (seq 0 256) = true.
Proof. exact escape_class_matches_serde_table. Qed.
Check C19_escape_table_is_serdes :
  length serde_escape_table = 256%nat /\
  forallb (fun i => escape_class (N.of_nat i) =? nth i serde_escape_table 999) (seq 0 256) = true.
Print Assumptions C19_escape_table_is_serdes.

(* ---------- framing ---------- *)
(* BufRead::lines gives back LF-terminated lines that contain no LF and do not end in CR *)
Theorem C19_lines_roundtrip : forall ls : list bytes,
  Forall line_ok ls -> lines (flat_map (fun l => l ++ [10]) ls) = ls.
Proof. exact lines_roundtrip. Qed.
Check C19_lines_roundtrip : forall ls : list bytes,
  Forall line_ok ls -> lines (flat_map (fun l => l ++ [10]) ls) = ls.
Print Assumptions C19_lines_roundtrip.

(* appending to a file that is empty or ends in LF never disturbs the lines already there *)
Theorem C19_lines_append : forall f g : bytes, terminated f -> lines (f ++ g) = lines f ++ lines g.
Proof. exact lines_app. Qed.
Check C19_lines_append : forall f g : bytes, terminated f -> lines (f ++ g) = lines f ++ lines g.
Print Assumptions C19_lines_append.

(* the framing half of the serde contract follows from the SHAPE of what serde writes for a record: fixed
   fragments of printable ASCII (monitored on every real record) and strings through ser_str *)
Theorem C19_record_line_from_shape : forall ps : list piece,
  forallb lit_okb ps = true -> Forall ge32 (render ps) /\ line_ok (render ps).
Proof. exact (fun ps H => conj (render_ge32 ps H) (ge32_line_ok (render ps) (render_ge32 ps H))). Qed.
Check C19_record_line_from_shape : forall ps : list piece,
  forallb lit_okb ps = true -> Forall ge32 (render ps) /\ line_ok (render ps).
Print Assumptions C19_record_line_from_shape.

(* ---------- the log, over serde's contract for the records in `valid` ---------- *)
Theorem C19_roundtrip : forall (record : Type) (ser : record -> bytes) (de : bytes -> option record) (valid : record -> Prop),
  (forall r, valid r -> de (ser r) = Some r) -> (forall r, valid r -> line_ok (ser r)) ->
  forall rs, Forall valid rs -> read record de (write record ser rs) = Some rs.
Proof. exact log_roundtrip. Qed.
Check C19_roundtrip : forall (record : Type) (ser : record -> bytes) (de : bytes -> option record) (valid : record -> Prop),
  (forall r, valid r -> de (ser r) = Some r) -> (forall r, valid r -> line_ok (ser r)) ->
  forall rs, Forall valid rs -> read record de (write record ser rs) = Some rs.
Print Assumptions C19_roundtrip.

Theorem C19_append : forall (record : Type) (ser : record -> bytes) (de : bytes -> option record) (valid : record -> Prop),
  (forall r, valid r -> de (ser r) = Some r) -> (forall r, valid r -> line_ok (ser r)) ->
  forall a b, Forall valid a -> Forall valid b ->
  read record de (write record ser a ++ write record ser b) = Some (a ++ b).
Proof. exact log_append. Qed.
Check C19_append : forall (record : Type) (ser : record -> bytes) (de : bytes -> option record) (valid : record -> Prop),
  (forall r, valid r -> de (ser r) = Some r) -> (forall r, valid r -> line_ok (ser r)) ->
  forall a b, Forall valid a -> Forall valid b ->
  read record de (write record ser a ++ write record ser b) = Some (a ++ b).
Print Assumptions C19_append.

(* any number of append sessions (harper-ls opens the file with O_APPEND at every shutdown), starting from
   an empty / missing file *)
Theorem C19_append_sessions : forall (record : Type) (ser : record -> bytes) (de : bytes -> option record) (valid : record -> Prop),
  (forall r, valid r -> de (ser r) = Some r) -> (forall r, valid r -> line_ok (ser r)) ->
  forall ss, Forall (Forall valid) ss -> read record de (sessions record ser [] ss) = Some (concat ss).
Proof. exact log_sessions. Qed.
Check C19_append_sessions : forall (record : Type) (ser : record -> bytes) (de : bytes -> option record) (valid : record -> Prop),
  (forall r, valid r -> de (ser r) = Some r) -> (forall r, valid r -> line_ok (ser r)) ->
  forall ss, Forall (Forall valid) ss -> read record de (sessions record ser [] ss) = Some (concat ss).
Print Assumptions C19_append_sessions.

(* ... and starting from ANY existing log that reads back as `old` and is empty or ends in LF (the documented
   expectation of Stats::write), whatever wrote it *)
Theorem C19_append_to_existing : forall (record : Type) (ser : record -> bytes) (de : bytes -> option record) (valid : record -> Prop),
  (forall r, valid r -> de (ser r) = Some r) -> (forall r, valid r -> line_ok (ser r)) ->
  forall file old ss, terminated file -> read record de file = Some old -> Forall (Forall valid) ss ->
  read record de (sessions record ser file ss) = Some (old ++ concat ss).
Proof. exact log_sessions_any. Qed.
Check C19_append_to_existing : forall (record : Type) (ser : record -> bytes) (de : bytes -> option record) (valid : record -> Prop),
  (forall r, valid r -> de (ser r) = Some r) -> (forall r, valid r -> line_ok (ser r)) ->
  forall file old ss, terminated file -> read record de file = Some old -> Forall (Forall valid) ss ->
  read record de (sessions record ser file ss) = Some (old ++ concat ss).
Print Assumptions C19_append_to_existing.

(* that expectation is an invariant of the sessions themselves *)
Theorem C19_log_stays_terminated : forall (record : Type) (ser : record -> bytes) file ss,
  terminated file -> terminated (sessions record ser file ss).
Proof. exact sessions_terminated. Qed.
Check C19_log_stays_terminated : forall (record : Type) (ser : record -> bytes) file ss,
  terminated file -> terminated (sessions record ser file ss).
Print Assumptions C19_log_stays_terminated.

(* with the framing half discharged by the shape theorem: only `de (ser r) = Some r` (serde's value round
   trip) and "fragments are printable" (monitored) remain as hypotheses *)
Theorem C19_roundtrip_shaped : forall (record : Type) (shape : record -> list piece) (de : bytes -> option record) (valid : record -> Prop),
  (forall r, valid r -> de (render (shape r)) = Some r) -> (forall r, valid r -> forallb lit_okb (shape r) = true) ->
  forall file old ss, terminated file -> read record de file = Some old -> Forall (Forall valid) ss ->
  read record de (sessions record (fun r => render (shape r)) file ss) = Some (old ++ concat ss).
Proof. exact sessions_shaped. Qed.
Check C19_roundtrip_shaped : forall (record : Type) (shape : record -> list piece) (de : bytes -> option record) (valid : record -> Prop),
  (forall r, valid r -> de (render (shape r)) = Some r) -> (forall r, valid r -> forallb lit_okb (shape r) = true) ->
  forall file old ss, terminated file -> read record de file = Some old -> Forall (Forall valid) ss ->
  read record de (sessions record (fun r => render (shape r)) file ss) = Some (old ++ concat ss).
Print Assumptions C19_roundtrip_shaped.

(* a closed instance with NO hypothesis left: a log whose records are arbitrary Rust strings *)
Theorem C19_strings_log : forall sss : list (list text),
  Forall (Forall (Forall scalar)) sss -> read text de_str (sessions text ser_str [] sss) = Some (concat sss).
Proof. exact strings_log_sessions. Qed.
Check C19_strings_log : forall sss : list (list text),
  Forall (Forall (Forall scalar)) sss -> read text de_str (sessions text ser_str [] sss) = Some (concat sss).
Print Assumptions C19_strings_log.

(* ---------- the records of the property: made from text (since b5c1992 + abf6ba7: no exception left) ----------
   record = harper_stats::Record; from_text r = r is a configuration update or was made by RecordKind::from_lint
   from a lexed + linted text; numbers r = the f64 values of the Number tokens of r's context; finite = is_finite.
   Hypotheses (each monitored on the implementation in every run and pinned by C19_source_shape):
     lexer  every Number made from text is finite (lex_number accepts only is_finite() candidates; lex_hex_number
            converts a u64; no other code builds a Number; JSON cannot denote a non-finite number);
     value  serde_json reads back the record it wrote when its Numbers are finite (derive + float_roundtrip) —
            before abf6ba7 this also needed "every Number is one serde_json re-reads exactly" (F29);
     shape  what serde writes outside string literals is printable ASCII.
   Conclusion, for ALL lists of such records, whatever characters their captured text contains: *)
Theorem C19_text_records_roundtrip : forall (record : Type) (shape : record -> list piece) (de : bytes -> option record)
  (F : Type) (finite : F -> Prop) (numbers : record -> list F) (from_text : record -> Prop),
  (forall r, from_text r -> Forall finite (numbers r)) ->
  (forall r, Forall finite (numbers r) -> de (render (shape r)) = Some r) ->
  (forall r, Forall finite (numbers r) -> forallb lit_okb (shape r) = true) ->
  forall rs, Forall from_text rs -> read record de (write record (fun r => render (shape r)) rs) = Some rs.
Proof. exact text_records_roundtrip. Qed.
Check C19_text_records_roundtrip : forall (record : Type) (shape : record -> list piece) (de : bytes -> option record)
  (F : Type) (finite : F -> Prop) (numbers : record -> list F) (from_text : record -> Prop),
  (forall r, from_text r -> Forall finite (numbers r)) ->
  (forall r, Forall finite (numbers r) -> de (render (shape r)) = Some r) ->
  (forall r, Forall finite (numbers r) -> forallb lit_okb (shape r) = true) ->
  forall rs, Forall from_text rs -> read record de (write record (fun r => render (shape r)) rs) = Some rs.
Print Assumptions C19_text_records_roundtrip.

Theorem C19_text_records_append : forall (record : Type) (shape : record -> list piece) (de : bytes -> option record)
  (F : Type) (finite : F -> Prop) (numbers : record -> list F) (from_text : record -> Prop),
  (forall r, from_text r -> Forall finite (numbers r)) ->
  (forall r, Forall finite (numbers r) -> de (render (shape r)) = Some r) ->
  (forall r, Forall finite (numbers r) -> forallb lit_okb (shape r) = true) ->
  forall a b, Forall from_text a -> Forall from_text b ->
  read record de (write record (fun r => render (shape r)) a ++ write record (fun r => render (shape r)) b) = Some (a ++ b).
Proof. exact text_records_append. Qed.
Check C19_text_records_append : forall (record : Type) (shape : record -> list piece) (de : bytes -> option record)
  (F : Type) (finite : F -> Prop) (numbers : record -> list F) (from_text : record -> Prop),
  (forall r, from_text r -> Forall finite (numbers r)) ->
  (forall r, Forall finite (numbers r) -> de (render (shape r)) = Some r) ->
  (forall r, Forall finite (numbers r) -> forallb lit_okb (shape r) = true) ->
  forall a b, Forall from_text a -> Forall from_text b ->
  read record de (write record (fun r => render (shape r)) a ++ write record (fun r => render (shape r)) b) = Some (a ++ b).
Print Assumptions C19_text_records_append.

(* any number of append sessions onto any well-terminated log that reads back as `old` *)
Theorem C19_text_records_sessions : forall (record : Type) (shape : record -> list piece) (de : bytes -> option record)
  (F : Type) (finite : F -> Prop) (numbers : record -> list F) (from_text : record -> Prop),
  (forall r, from_text r -> Forall finite (numbers r)) ->
  (forall r, Forall finite (numbers r) -> de (render (shape r)) = Some r) ->
  (forall r, Forall finite (numbers r) -> forallb lit_okb (shape r) = true) ->
  forall file old ss, terminated file -> read record de file = Some old -> Forall (Forall from_text) ss ->
  read record de (sessions record (fun r => render (shape r)) file ss) = Some (old ++ concat ss).
Proof. exact text_records_sessions. Qed.
Check C19_text_records_sessions : forall (record : Type) (shape : record -> list piece) (de : bytes -> option record)
  (F : Type) (finite : F -> Prop) (numbers : record -> list F) (from_text : record -> Prop),
  (forall r, from_text r -> Forall finite (numbers r)) ->
  (forall r, Forall finite (numbers r) -> de (render (shape r)) = Some r) ->
  (forall r, Forall finite (numbers r) -> forallb lit_okb (shape r) = true) ->
  forall file old ss, terminated file -> read record de file = Some old -> Forall (Forall from_text) ss ->
  read record de (sessions record (fun r => render (shape r)) file ss) = Some (old ++ concat ss).
Print Assumptions C19_text_records_sessions.

(* ---------- outside the contract: what one line that serde does not read back as written does ----------
   No record made from text is outside the contract any more (F16 fixed by b5c1992, F29 by abf6ba7).  The two
   theorems stay as the exact description of what the reverse of either fix brings back (the reverse-fix
   mutation tests show precisely these effects), and of what a line damaged by another writer does. *)
(* one record whose line serde_json rejects (before b5c1992: a lint whose context held a Number with a non-finite
   value, written with `null` — F16) makes Stats::read reject the WHOLE log, the valid records around it included *)
Theorem C19_one_bad_line_loses_all : forall (record : Type) (ser : record -> bytes) (de : bytes -> option record) (valid : record -> Prop),
  (forall r, valid r -> de (ser r) = Some r) -> (forall r, valid r -> line_ok (ser r)) ->
  forall a r b, Forall valid a -> ~ In 10 (ser r) -> de (strip_cr (ser r)) = None ->
  read record de (write record ser (a ++ r :: b)) = None.
Proof. exact one_bad_line_loses_all. Qed.
Check C19_one_bad_line_loses_all : forall (record : Type) (ser : record -> bytes) (de : bytes -> option record) (valid : record -> Prop),
  (forall r, valid r -> de (ser r) = Some r) -> (forall r, valid r -> line_ok (ser r)) ->
  forall a r b, Forall valid a -> ~ In 10 (ser r) -> de (strip_cr (ser r)) = None ->
  read record de (write record ser (a ++ r :: b)) = None.
Print Assumptions C19_one_bad_line_loses_all.

(* HISTORY, not a statement about the current code: the three lines harper-stats wrote BEFORE b5c1992 for
   (config update, the lint on `1e999TH`, config update) with serde_json's verdicts; with the lint record the
   log was unreadable, without it the other two read back.  (Was Theorem C19_nonfinite_refuted; the text now
   lexes as 1e99 + 9TH and corpus/C19/f16.json passes the oracle.) *)
Example C19_nonfinite_old_refuted :
  snd (run_sessions f16_table [] [[f16_good1; f16_bad]; [f16_good2]]) = None /\
  snd (run_sessions f16_table [] [[f16_good1]; [f16_good2]]) = Some [0; 2].
Proof. exact f16_witness. Qed.

(* a record that serde_json reads back as a different record (before abf6ba7: a Number whose shortest decimal
   form serde_json's default float parser did not parse exactly — F29) comes back altered, in place; the log is
   otherwise intact — so read (write rs) <> Some rs *)
Theorem C19_drifting_line_alters_the_log : forall (record : Type) (ser : record -> bytes) (de : bytes -> option record) (valid : record -> Prop),
  (forall r, valid r -> de (ser r) = Some r) -> (forall r, valid r -> line_ok (ser r)) ->
  forall a r r' b, Forall valid a -> Forall valid b -> line_ok (ser r) -> de (ser r) = Some r' -> r' <> r ->
  read record de (write record ser (a ++ r :: b)) = Some (a ++ r' :: b) /\
  read record de (write record ser (a ++ r :: b)) <> Some (a ++ r :: b).
Proof. exact (fun record ser de valid H1 H2 a r r' b Ha Hb Hl Hd Hne => conj (drifting_line_changes_the_log record ser de valid H1 H2 a r r' b Ha Hb Hl Hd) (drifting_line_refutes_roundtrip record ser de valid H1 H2 a r r' b Ha Hb Hl Hd Hne)). Qed.
Check C19_drifting_line_alters_the_log : forall (record : Type) (ser : record -> bytes) (de : bytes -> option record) (valid : record -> Prop),
  (forall r, valid r -> de (ser r) = Some r) -> (forall r, valid r -> line_ok (ser r)) ->
  forall a r r' b, Forall valid a -> Forall valid b -> line_ok (ser r) -> de (ser r) = Some r' -> r' <> r ->
  read record de (write record ser (a ++ r :: b)) = Some (a ++ r' :: b) /\
  read record de (write record ser (a ++ r :: b)) <> Some (a ++ r :: b).
Print Assumptions C19_drifting_line_alters_the_log.

(* ---------- summarize ---------- *)
(* total_applied = number of Lint records = sum of lint_counts; each kind has ONE entry whose count is the
   number of Lint records of that kind (each applied lint counted exactly once); final_config = the last
   configuration update (default if none); misspelled counts the Word(None) tokens of the contexts *)
Theorem C19_summary : forall (lintkind : Type) (kind_eqb : lintkind -> lintkind -> bool) (config : Type) (default_config : config),
  (forall a b, kind_eqb a b = true <-> a = b) ->
  forall rs : list (rkind lintkind config),
  let s := summarize lintkind kind_eqb config default_config rs in
  total_applied _ _ s = length (filter (is_lint lintkind config) rs) /\
  count_sum (lint_counts _ _ s) = total_applied _ _ s /\
  (forall k, get_count lintkind kind_eqb config s k = length (filter (has_kind lintkind kind_eqb config k) rs)) /\
  NoDup (map fst (lint_counts _ _ s)) /\
  final_config _ _ s = last_config lintkind config rs default_config /\
  (forall w, lookup text_eqb w (misspelled _ _ s) = length (filter (text_eqb w) (flat_map (words_of lintkind config) rs))) /\
  NoDup (map fst (misspelled _ _ s)).
Proof. exact summary_spec. Qed.
Check C19_summary : forall (lintkind : Type) (kind_eqb : lintkind -> lintkind -> bool) (config : Type) (default_config : config),
  (forall a b, kind_eqb a b = true <-> a = b) ->
  forall rs : list (rkind lintkind config),
  let s := summarize lintkind kind_eqb config default_config rs in
  total_applied _ _ s = length (filter (is_lint lintkind config) rs) /\
  count_sum (lint_counts _ _ s) = total_applied _ _ s /\
  (forall k, get_count lintkind kind_eqb config s k = length (filter (has_kind lintkind kind_eqb config k) rs)) /\
  NoDup (map fst (lint_counts _ _ s)) /\
  final_config _ _ s = last_config lintkind config rs default_config /\
  (forall w, lookup text_eqb w (misspelled _ _ s) = length (filter (text_eqb w) (flat_map (words_of lintkind config) rs))) /\
  NoDup (map fst (misspelled _ _ s)).
Print Assumptions C19_summary.

(* ---------- the source still has the shape the model mirrors (regenerated from /repo on every run) ---------- *)
Theorem C19_source_shape :
  forallb (fun e => snd e) stats_source_shape = true /\ length stats_source_shape = 11%nat.
Proof. exact stats_source_shape_ok. Qed.
Check C19_source_shape :
  forallb (fun e => snd e) stats_source_shape = true /\ length stats_source_shape = 11%nat.
Print Assumptions C19_source_shape.


(* ==================== phase 3: the concrete Record, the lexer, summarize over modelled records ==================== *)
(* GOAL 1.  The concrete Record (Model/C19Record.v: Record / RecordKind / LintKind / LintGroupConfig / FatStringToken /
   TokenKind / Punctuation / Number / WordMetadata as serde's derives print them, over JsonEscape's strings).
   good r = r is a value of the Rust types (rust_value: Rust strings, integers in range, existing variants, BTreeMap keys
   increasing, a hyphenated uuid) and every Number of its context is finite.  float_rt = the ONLY hypothesis: on a finite
   float serde_json prints a non-empty text over [0-9+-.eE] and reads that text back as the same float.
   Then the reader inverts the writer, and the line has no byte below 0x20 (no LF; does not end in CR) *)
Theorem C19_record_value_roundtrip : forall (F : Type) (finite : F -> Prop) (print_f64 : F -> bytes) (parse_f64 : bytes -> option F),
  float_rt F finite print_f64 parse_f64 ->
  forall r : record F, good F finite print_f64 parse_f64 r ->
  de_record F finite print_f64 parse_f64 (ser_record F finite print_f64 parse_f64 r) = Some r /\
  Forall ge32 (ser_record F finite print_f64 parse_f64 r) /\ line_ok (ser_record F finite print_f64 parse_f64 r).
Proof. exact record_value_roundtrip. Qed.
Check C19_record_value_roundtrip : forall (F : Type) (finite : F -> Prop) (print_f64 : F -> bytes) (parse_f64 : bytes -> option F),
  float_rt F finite print_f64 parse_f64 ->
  forall r : record F, good F finite print_f64 parse_f64 r ->
  de_record F finite print_f64 parse_f64 (ser_record F finite print_f64 parse_f64 r) = Some r /\
  Forall ge32 (ser_record F finite print_f64 parse_f64 r) /\ line_ok (ser_record F finite print_f64 parse_f64 r).
Print Assumptions C19_record_value_roundtrip.

(* the log over the concrete Record: the `value` and `shape` contracts of C19_text_records_* are theorems now *)
Theorem C19_record_log_roundtrip : forall (F : Type) (finite : F -> Prop) (print_f64 : F -> bytes) (parse_f64 : bytes -> option F),
  float_rt F finite print_f64 parse_f64 ->
  forall rs, Forall (good F finite print_f64 parse_f64) rs ->
  read (record F) (de_record F finite print_f64 parse_f64) (write (record F) (ser_record F finite print_f64 parse_f64) rs) = Some rs.
Proof. exact record_log_roundtrip. Qed.
Check C19_record_log_roundtrip : forall (F : Type) (finite : F -> Prop) (print_f64 : F -> bytes) (parse_f64 : bytes -> option F),
  float_rt F finite print_f64 parse_f64 ->
  forall rs, Forall (good F finite print_f64 parse_f64) rs ->
  read (record F) (de_record F finite print_f64 parse_f64) (write (record F) (ser_record F finite print_f64 parse_f64) rs) = Some rs.
Print Assumptions C19_record_log_roundtrip.

(* a second batch after a first *)
Theorem C19_record_log_append : forall (F : Type) (finite : F -> Prop) (print_f64 : F -> bytes) (parse_f64 : bytes -> option F),
  float_rt F finite print_f64 parse_f64 ->
  forall a c, Forall (good F finite print_f64 parse_f64) a -> Forall (good F finite print_f64 parse_f64) c ->
  read (record F) (de_record F finite print_f64 parse_f64)
    (write (record F) (ser_record F finite print_f64 parse_f64) a ++ write (record F) (ser_record F finite print_f64 parse_f64) c) = Some (a ++ c).
Proof. exact record_log_append. Qed.
Check C19_record_log_append : forall (F : Type) (finite : F -> Prop) (print_f64 : F -> bytes) (parse_f64 : bytes -> option F),
  float_rt F finite print_f64 parse_f64 ->
  forall a c, Forall (good F finite print_f64 parse_f64) a -> Forall (good F finite print_f64 parse_f64) c ->
  read (record F) (de_record F finite print_f64 parse_f64)
    (write (record F) (ser_record F finite print_f64 parse_f64) a ++ write (record F) (ser_record F finite print_f64 parse_f64) c) = Some (a ++ c).
Print Assumptions C19_record_log_append.

(* any number of append sessions onto any well-terminated log that reads back as `old` *)
Theorem C19_record_log_sessions : forall (F : Type) (finite : F -> Prop) (print_f64 : F -> bytes) (parse_f64 : bytes -> option F),
  float_rt F finite print_f64 parse_f64 ->
  forall file old ss, terminated file -> read (record F) (de_record F finite print_f64 parse_f64) file = Some old ->
  Forall (Forall (good F finite print_f64 parse_f64)) ss ->
  read (record F) (de_record F finite print_f64 parse_f64) (sessions (record F) (ser_record F finite print_f64 parse_f64) file ss) = Some (old ++ concat ss).
Proof. exact record_log_sessions. Qed.
Check C19_record_log_sessions : forall (F : Type) (finite : F -> Prop) (print_f64 : F -> bytes) (parse_f64 : bytes -> option F),
  float_rt F finite print_f64 parse_f64 ->
  forall file old ss, terminated file -> read (record F) (de_record F finite print_f64 parse_f64) file = Some old ->
  Forall (Forall (good F finite print_f64 parse_f64)) ss ->
  read (record F) (de_record F finite print_f64 parse_f64) (sessions (record F) (ser_record F finite print_f64 parse_f64) file ss) = Some (old ++ concat ss).
Print Assumptions C19_record_log_sessions.

(* GOAL 2.  The `lexer` contract as a theorem about C02's Model/Lexer.v.  kind_finite k = if k is a Number, the correctly
   rounded f64 of its exact value is finite (Lexer.f64_finite, meaning: C02_f64_finite_spec) *)
Theorem C19_lex_number_finite : forall u src n k, lex_number u src = Some (n, k) -> kind_finite k.
Proof. exact lex_number_finite. Qed.
Check C19_lex_number_finite : forall u src n k, lex_number u src = Some (n, k) -> kind_finite k.
Print Assumptions C19_lex_number_finite.

(* a hex literal is a u64: below 2^64 < 2^1024 - 2^970 *)
Theorem C19_lex_hex_number_finite : forall u src n k, lex_hex_number u src = Some (n, k) -> kind_finite k.
Proof. exact lex_hex_number_finite. Qed.
Check C19_lex_hex_number_finite : forall u src n k, lex_hex_number u src = Some (n, k) -> kind_finite k.
Print Assumptions C19_lex_hex_number_finite.

(* PlainEnglish::parse as a whole (lex_token: no other sub-lexer makes a Number): every token, for every text and every Unicode table *)
Theorem C19_plain_parse_finite : forall u s ts, plain_parse u s = Ok ts -> Forall token_finite ts.
Proof. exact plain_parse_finite. Qed.
Check C19_plain_parse_finite : forall u s ts, plain_parse u s = Ok ts -> Forall token_finite ts.
Print Assumptions C19_plain_parse_finite.

(* THE PROPERTY for records made from text, with one hypothesis left.  A float is the exact value the modelled lexer gives a
   literal; text_record r = r is a value of the Rust types whose Number values are values of Number tokens of
   PlainEnglish::parse of some text (made_from_text).  `lexer`, `value`, `shape` of C19_text_records_* are discharged *)
Theorem C19_text_log_roundtrip : forall (u : uni) (print_f64 : lexval -> bytes) (parse_f64 : bytes -> option lexval),
  float_rt lexval lexval_finite print_f64 parse_f64 ->
  forall rs, Forall (text_record u print_f64 parse_f64) rs ->
  read (record lexval) (de_record lexval lexval_finite print_f64 parse_f64)
    (write (record lexval) (ser_record lexval lexval_finite print_f64 parse_f64) rs) = Some rs.
Proof. exact text_log_roundtrip. Qed.
Check C19_text_log_roundtrip : forall (u : uni) (print_f64 : lexval -> bytes) (parse_f64 : bytes -> option lexval),
  float_rt lexval lexval_finite print_f64 parse_f64 ->
  forall rs, Forall (text_record u print_f64 parse_f64) rs ->
  read (record lexval) (de_record lexval lexval_finite print_f64 parse_f64)
    (write (record lexval) (ser_record lexval lexval_finite print_f64 parse_f64) rs) = Some rs.
Print Assumptions C19_text_log_roundtrip.

(* writing a second batch after a first yields their concatenation *)
Theorem C19_text_log_append : forall (u : uni) (print_f64 : lexval -> bytes) (parse_f64 : bytes -> option lexval),
  float_rt lexval lexval_finite print_f64 parse_f64 ->
  forall a c, Forall (text_record u print_f64 parse_f64) a -> Forall (text_record u print_f64 parse_f64) c ->
  read (record lexval) (de_record lexval lexval_finite print_f64 parse_f64)
    (write (record lexval) (ser_record lexval lexval_finite print_f64 parse_f64) a ++
     write (record lexval) (ser_record lexval lexval_finite print_f64 parse_f64) c) = Some (a ++ c).
Proof. exact text_log_append. Qed.
Check C19_text_log_append : forall (u : uni) (print_f64 : lexval -> bytes) (parse_f64 : bytes -> option lexval),
  float_rt lexval lexval_finite print_f64 parse_f64 ->
  forall a c, Forall (text_record u print_f64 parse_f64) a -> Forall (text_record u print_f64 parse_f64) c ->
  read (record lexval) (de_record lexval lexval_finite print_f64 parse_f64)
    (write (record lexval) (ser_record lexval lexval_finite print_f64 parse_f64) a ++
     write (record lexval) (ser_record lexval lexval_finite print_f64 parse_f64) c) = Some (a ++ c).
Print Assumptions C19_text_log_append.

(* append after append *)
Theorem C19_text_log_sessions : forall (u : uni) (print_f64 : lexval -> bytes) (parse_f64 : bytes -> option lexval),
  float_rt lexval lexval_finite print_f64 parse_f64 ->
  forall file old ss, terminated file -> read (record lexval) (de_record lexval lexval_finite print_f64 parse_f64) file = Some old ->
  Forall (Forall (text_record u print_f64 parse_f64)) ss ->
  read (record lexval) (de_record lexval lexval_finite print_f64 parse_f64)
    (sessions (record lexval) (ser_record lexval lexval_finite print_f64 parse_f64) file ss) = Some (old ++ concat ss).
Proof. exact text_log_sessions. Qed.
Check C19_text_log_sessions : forall (u : uni) (print_f64 : lexval -> bytes) (parse_f64 : bytes -> option lexval),
  float_rt lexval lexval_finite print_f64 parse_f64 ->
  forall file old ss, terminated file -> read (record lexval) (de_record lexval lexval_finite print_f64 parse_f64) file = Some old ->
  Forall (Forall (text_record u print_f64 parse_f64)) ss ->
  read (record lexval) (de_record lexval lexval_finite print_f64 parse_f64)
    (sessions (record lexval) (ser_record lexval lexval_finite print_f64 parse_f64) file ss) = Some (old ++ concat ss).
Print Assumptions C19_text_log_sessions.

(* GOAL 3.  summarize over the modelled records (summary_of rs = Stats::summarize on what rkind_of extracts from each Record;
   lint_kinds rs = the kinds of the Lint records in order).  Each applied lint is counted exactly once: the count of a kind
   is its multiplicity, the total is the number of Lint records = the sum of the counts, one entry per kind *)
Theorem C19_summary_counts : forall (F : Type) (rs : list (record F)) (k : nat),
  get_count nat Nat.eqb config (summary_of F rs) k = count_occ Nat.eq_dec (lint_kinds F rs) k /\
  total_applied _ _ (summary_of F rs) = length (lint_kinds F rs) /\
  count_sum (lint_counts _ _ (summary_of F rs)) = length (lint_kinds F rs) /\
  NoDup (map fst (lint_counts _ _ (summary_of F rs))).
Proof. exact summary_counts. Qed.
Check C19_summary_counts : forall (F : Type) (rs : list (record F)) (k : nat),
  get_count nat Nat.eqb config (summary_of F rs) k = count_occ Nat.eq_dec (lint_kinds F rs) k /\
  total_applied _ _ (summary_of F rs) = length (lint_kinds F rs) /\
  count_sum (lint_counts _ _ (summary_of F rs)) = length (lint_kinds F rs) /\
  NoDup (map fst (lint_counts _ _ (summary_of F rs))).
Print Assumptions C19_summary_counts.

(* concatenated batches: the counts add up (multiset union) *)
Theorem C19_summary_counts_app : forall (F : Type) (a c : list (record F)) (k : nat),
  get_count nat Nat.eqb config (summary_of F (a ++ c)) k =
    (get_count nat Nat.eqb config (summary_of F a) k + get_count nat Nat.eqb config (summary_of F c) k)%nat /\
  total_applied _ _ (summary_of F (a ++ c)) = (total_applied _ _ (summary_of F a) + total_applied _ _ (summary_of F c))%nat.
Proof. exact summary_counts_app. Qed.
Check C19_summary_counts_app : forall (F : Type) (a c : list (record F)) (k : nat),
  get_count nat Nat.eqb config (summary_of F (a ++ c)) k =
    (get_count nat Nat.eqb config (summary_of F a) k + get_count nat Nat.eqb config (summary_of F c) k)%nat /\
  total_applied _ _ (summary_of F (a ++ c)) = (total_applied _ _ (summary_of F a) + total_applied _ _ (summary_of F c))%nat.
Print Assumptions C19_summary_counts_app.

(* the whole path: sessions appended to a log, read back, summarised — every lint applied in any session counted once *)
Theorem C19_summary_of_log : forall (F : Type) (finite : F -> Prop) (print_f64 : F -> bytes) (parse_f64 : bytes -> option F),
  float_rt F finite print_f64 parse_f64 ->
  forall file old ss, terminated file -> read (record F) (de_record F finite print_f64 parse_f64) file = Some old ->
  Forall (Forall (good F finite print_f64 parse_f64)) ss ->
  exists rs, read (record F) (de_record F finite print_f64 parse_f64) (sessions (record F) (ser_record F finite print_f64 parse_f64) file ss) = Some rs /\
    rs = old ++ concat ss /\
    forall k, get_count nat Nat.eqb config (summary_of F rs) k =
              (count_occ Nat.eq_dec (lint_kinds F old) k + count_occ Nat.eq_dec (lint_kinds F (concat ss)) k)%nat.
Proof. exact summary_of_log. Qed.
Check C19_summary_of_log : forall (F : Type) (finite : F -> Prop) (print_f64 : F -> bytes) (parse_f64 : bytes -> option F),
  float_rt F finite print_f64 parse_f64 ->
  forall file old ss, terminated file -> read (record F) (de_record F finite print_f64 parse_f64) file = Some old ->
  Forall (Forall (good F finite print_f64 parse_f64)) ss ->
  exists rs, read (record F) (de_record F finite print_f64 parse_f64) (sessions (record F) (ser_record F finite print_f64 parse_f64) file ss) = Some rs /\
    rs = old ++ concat ss /\
    forall k, get_count nat Nat.eqb config (summary_of F rs) k =
              (count_occ Nat.eq_dec (lint_kinds F old) k + count_occ Nat.eq_dec (lint_kinds F (concat ss)) k)%nat.
Print Assumptions C19_summary_of_log.

(* ---------- the model of the Record is the one the sources describe (regenerated from /repo on every run) ---------- *)
Section SchemaStatements.
Local Open Scope string_scope.
Local Open Scope list_scope.
(* every type behind a Record: struct / enum, container #[serde(..)] attributes, members in order with types / payloads and their attributes — as re-read by tools/tables/statsrecord.py — are what Model/C19Record.v was written against *)
Theorem C19_record_schema_is_sources :
  src_types = modelled_types.
Proof. exact schema_is_sources. Qed.
Check C19_record_schema_is_sources :
  src_types = modelled_types.
Print Assumptions C19_record_schema_is_sources.
(* the model's tables of variant names = the unit variants of the source enums in declaration order; the data-carrying variants and the tag attributes are the ones the model handles *)
Theorem C19_name_tables_are_sources :
  unit_variants "LintKind" = lintkind_names /\ unit_variants "NumberSuffix" = suffix_names /\
  unit_variants "Dialect" = dialect_names /\ unit_variants "Person" = person_names /\ unit_variants "Case" = case_names /\
  unit_variants "Degree" = degree_names /\ unit_variants "Currency" = currency_names /\
  unit_variants "Punctuation" = punct_unit_names /\ unit_variants "TokenKind" = tk_unit_names /\
  unit_variants "Tense" = [] /\
  (* every variant of those enums is a unit variant, except: *)
  map fst (filter (fun e => negb (String.eqb (snd e) "|")) (members_of "Punctuation" src_types)) = ["Quote"; "Currency"] /\
  map fst (filter (fun e => negb (String.eqb (snd e) "|")) (members_of "TokenKind" src_types)) = ["Word"; "Punctuation"; "Number"; "Space"; "Newline"] /\
  map fst (members_of "RecordKind" src_types) = ["Lint"; "LintConfigUpdate"] /\
  head_of "TokenKind" src_types = "enum|serde(tag=""kind"",content=""value"")" /\
  head_of "Punctuation" src_types = "enum|serde(tag=""kind"")" /\
  head_of "RecordKind" src_types = "enum|" /\ head_of "LintGroupConfig" src_types = "struct|serde(transparent)".
Proof. exact name_tables_are_sources. Qed.
Check C19_name_tables_are_sources :
  unit_variants "LintKind" = lintkind_names /\ unit_variants "NumberSuffix" = suffix_names /\
  unit_variants "Dialect" = dialect_names /\ unit_variants "Person" = person_names /\ unit_variants "Case" = case_names /\
  unit_variants "Degree" = degree_names /\ unit_variants "Currency" = currency_names /\
  unit_variants "Punctuation" = punct_unit_names /\ unit_variants "TokenKind" = tk_unit_names /\
  unit_variants "Tense" = [] /\
  (* every variant of those enums is a unit variant, except: *)
  map fst (filter (fun e => negb (String.eqb (snd e) "|")) (members_of "Punctuation" src_types)) = ["Quote"; "Currency"] /\
  map fst (filter (fun e => negb (String.eqb (snd e) "|")) (members_of "TokenKind" src_types)) = ["Word"; "Punctuation"; "Number"; "Space"; "Newline"] /\
  map fst (members_of "RecordKind" src_types) = ["Lint"; "LintConfigUpdate"] /\
  head_of "TokenKind" src_types = "enum|serde(tag=""kind"",content=""value"")" /\
  head_of "Punctuation" src_types = "enum|serde(tag=""kind"")" /\
  head_of "RecordKind" src_types = "enum|" /\ head_of "LintGroupConfig" src_types = "struct|serde(transparent)".
Print Assumptions C19_name_tables_are_sources.
(* the member names the model's writer emits for each struct = the field names of the source, in order *)
Theorem C19_struct_members_are_sources :
  enc c_noun (None, (None, None)) = obj (field_names "NounData") [nul; nul; nul] /\
  enc c_pronoun (None, (None, (None, None))) = obj (field_names "PronounData") [nul; nul; nul; nul] /\
  enc c_verb (None, (None, tt)) = obj (field_names "VerbData") [nul; nul; nul] /\
  enc c_adj None = obj (field_names "AdjectiveData") [nul] /\
  enc c_empty_struct tt = obj (field_names "AdverbData") [] /\ enc c_empty_struct tt = obj (field_names "ConjunctionData") [] /\
  enc c_wordid 7%N = obj (field_names "WordId") [jb "7"] /\
  enc c_wordmeta (None, (None, (None, (None, (None, (None, (None, (None, (false, (false, (false, None)))))))))))
    = obj (field_names "WordMetadata") [nul; nul; nul; nul; nul; nul; nul; nul; jb "false"; jb "false"; jb "false"; nul] /\
  enc (c_number bytes drv_finite (fun t => t) (fun t => Some t)) (jb "1.5", (None, (10%N, 2%N)))
    = obj (field_names "Number") [jb "1.5"; nul; jb "10"; jb "2"] /\
  (* Quote inside the internally tagged Punctuation: the tag first, then Quote's own fields *)
  enc c_punct (PQuote None) = obj ("kind" :: field_names "Quote") [jb """Quote"""; nul] /\
  enc (c_fattoken bytes drv_finite (fun t => t) (fun t => Some t)) ([]%list, TKUnit bytes 0)
    = obj (field_names "FatStringToken") [jb """"""; jb "{""kind"":""Decade""}"] /\
  (* the two members of RecordKind::Lint *)
  members_of "RecordKind" src_types = [("Lint", "{kind:LintKind,context:Vec<FatStringToken>,}|"); ("LintConfigUpdate", "(LintGroupConfig)|")] /\
  enc (c_rk_lint bytes drv_finite (fun t => t) (fun t => Some t)) (0%nat, []%list)
    = jb "{""Lint"":" ++ obj ["kind"; "context"] [jb """Spelling"""; jb "[]"] ++ jb "}" /\
  enc (c_record bytes drv_finite (fun t => t) (fun t => Some t)) (RKConfig bytes []%list, (0%Z, []%list))
    = obj (field_names "Record") [jb "{""LintConfigUpdate"":{}}"; jb "0"; jb """"""].
Proof. exact struct_members_are_sources. Qed.
Check C19_struct_members_are_sources :
  enc c_noun (None, (None, None)) = obj (field_names "NounData") [nul; nul; nul] /\
  enc c_pronoun (None, (None, (None, None))) = obj (field_names "PronounData") [nul; nul; nul; nul] /\
  enc c_verb (None, (None, tt)) = obj (field_names "VerbData") [nul; nul; nul] /\
  enc c_adj None = obj (field_names "AdjectiveData") [nul] /\
  enc c_empty_struct tt = obj (field_names "AdverbData") [] /\ enc c_empty_struct tt = obj (field_names "ConjunctionData") [] /\
  enc c_wordid 7%N = obj (field_names "WordId") [jb "7"] /\
  enc c_wordmeta (None, (None, (None, (None, (None, (None, (None, (None, (false, (false, (false, None)))))))))))
    = obj (field_names "WordMetadata") [nul; nul; nul; nul; nul; nul; nul; nul; jb "false"; jb "false"; jb "false"; nul] /\
  enc (c_number bytes drv_finite (fun t => t) (fun t => Some t)) (jb "1.5", (None, (10%N, 2%N)))
    = obj (field_names "Number") [jb "1.5"; nul; jb "10"; jb "2"] /\
  (* Quote inside the internally tagged Punctuation: the tag first, then Quote's own fields *)
  enc c_punct (PQuote None) = obj ("kind" :: field_names "Quote") [jb """Quote"""; nul] /\
  enc (c_fattoken bytes drv_finite (fun t => t) (fun t => Some t)) ([]%list, TKUnit bytes 0)
    = obj (field_names "FatStringToken") [jb """"""; jb "{""kind"":""Decade""}"] /\
  (* the two members of RecordKind::Lint *)
  members_of "RecordKind" src_types = [("Lint", "{kind:LintKind,context:Vec<FatStringToken>,}|"); ("LintConfigUpdate", "(LintGroupConfig)|")] /\
  enc (c_rk_lint bytes drv_finite (fun t => t) (fun t => Some t)) (0%nat, []%list)
    = jb "{""Lint"":" ++ obj ["kind"; "context"] [jb """Spelling"""; jb "[]"] ++ jb "}" /\
  enc (c_record bytes drv_finite (fun t => t) (fun t => Some t)) (RKConfig bytes []%list, (0%Z, []%list))
    = obj (field_names "Record") [jb "{""LintConfigUpdate"":{}}"; jb "0"; jb """"""].
Print Assumptions C19_struct_members_are_sources.
End SchemaStatements.

(* non-vacuity of the new theorems (proved in the proof files by vm_compute): the model prints the two records below exactly
   as harper-stats does (ex_lint_line / ex_cfg_line spell the real lines out), reads them back, two sessions, a count *)
Example C19_record_nonvacuous :
  float_rt bytes txt_finite (fun t => t) (fun t => Some t) /\
  good bytes txt_finite (fun t => t) (fun t => Some t) ex_lint /\ good bytes txt_finite (fun t => t) (fun t => Some t) ex_cfg /\
  drv_de (drv_ser ex_lint) = Some ex_lint /\ drv_de (drv_ser ex_cfg) = Some ex_cfg /\ ~ In 10 (drv_ser ex_lint) /\
  read (record bytes) drv_de (sessions (record bytes) drv_ser [] [[ex_cfg; ex_lint]; [ex_lint]]) = Some [ex_cfg; ex_lint; ex_lint] /\
  get_count nat Nat.eqb config (summary_of bytes [ex_cfg; ex_lint; ex_lint]) 0%nat = 2%nat.
Proof. exact (conj txt_float_rt (conj (proj1 ex_good) (conj (proj2 ex_good) record_examples))). Qed.
Example C19_lexer_nonvacuous :
  made_from_text ascii_digits_uni ex_text_record /\ Forall lexval_finite (numbers lexval ex_text_record) /\
  ~ lexval_finite (false, 1%N, 999%Z).
Proof. exact made_from_text_example. Qed.

(* ---------- non-vacuity ---------- *)
(* the hypotheses of the contract theorems are satisfiable on a non-trivial instance: C19_strings_log IS
   C19_append_sessions at record := text, ser := ser_str, de := de_str, valid := Forall scalar; concretely,
   two sessions of strings holding LF, CR LF, a quote, a backslash, NUL, U+2028 and an astral character: *)
Example C19_nonvacuous_strings :
  let s1 := [[97; 10; 98]; [13; 10]] in let s2 := [[34; 92; 0]; [8232; 128512]; []] in
  Forall (Forall (Forall scalar)) [s1; s2] /\
  ~ In 10 (ser_str [97; 10; 98]) /\
  lines (sessions text ser_str [] [s1; s2]) = map ser_str (s1 ++ s2) /\
  read text de_str (sessions text ser_str [] [s1; s2]) = Some (s1 ++ s2).
Proof.
  cbv zeta. split; [|split; [|split]].
  - repeat constructor; unfold scalar; lia.
  - vm_compute. intuition discriminate.
  - vm_compute. reflexivity.
  - vm_compute. reflexivity.
Qed.

(* the serialised form of a string with every kind of escape, byte for byte *)
Example C19_escape_example :
  ser_str [97; 10; 34; 92; 0; 31; 233; 128512] =
  [34; 97; 92; 110; 92; 34; 92; 92; 92; 117; 48; 48; 48; 48; 92; 117; 48; 48; 49; 102; 195; 169; 240; 159; 152; 128; 34].
Proof. vm_compute. reflexivity. Qed.

(* the hypotheses of C19_text_records_* are satisfiable, non-degenerately (`finite` is a real restriction, the
   reader does reject what lies outside it): records = JSON strings, their "numbers" = their code points,
   finite = scalar value, made from text = a Rust string; on a two-session history holding `1e999TH` and LF *)
Example C19_text_records_nonvacuous :
  let shape := fun s : text => [Str s] in
  (forall r : text, Forall scalar r -> Forall scalar r) /\
  (forall r : text, Forall scalar r -> de_str (render (shape r)) = Some r) /\
  (forall r : text, Forall scalar r -> forallb lit_okb (shape r) = true) /\
  Forall (Forall (Forall scalar)) [[[49; 101; 57; 57; 57; 84; 72]; [10]]; [[34; 13]]] /\
  de_str (render (shape [55296])) <> Some [55296].
Proof.
  cbv zeta. split; [|split; [|split; [|split]]].
  - intros r H. exact H.
  - intros r H. unfold render. cbn [flat_map render_piece]. rewrite app_nil_r. apply de_ser_str, H.
  - intros r _. reflexivity.
  - repeat constructor; unfold scalar; lia.
  - vm_compute. discriminate.
Qed.

(* lines: CR LF, a bare CR inside a line, an empty line, an unterminated last line ending in CR (kept) *)
Example C19_lines_example :
  lines [97; 13; 10; 98; 13; 99; 10; 10; 100; 13] = [[97]; [98; 13; 99]; []; [100; 13]].
Proof. vm_compute. reflexivity. Qed.

(* summarize on two lints of one kind, one of another, two configuration updates *)
Example C19_summary_example :
  let s := run_summarize [RLint _ _ 3 [[97; 98]; [99]]; RConfig _ _ 5; RLint _ _ 3 []; RLint _ _ 1 [[97; 98]]; RConfig _ _ 7] in
  total_applied _ _ s = 3%nat /\ lint_counts _ _ s = [(3, 2%nat); (1, 1%nat)] /\ final_config _ _ s = 7 /\
  misspelled _ _ s = [([97; 98], 2%nat); ([99], 1%nat)].
Proof. vm_compute. repeat split; reflexivity. Qed.

(* ================= phase 4 ================= *)

(* The passes of Document::parse between the lexer and the linters (C02's Model/Condense.v, all nine, in the order of the code)
   BUILD NO NUMBER: every Number token of Document::new_plain_english(s) has the sign, mantissa, exponent, radix and precision
   (same_value) of a Number token PlainEnglish::parse(s) made — only the suffix may differ (condense_number_suffixes).
   For every text and every Unicode table.  Replaces the source-shape flag the `lexer` clause rested on *)
Theorem C19_document_number_values : forall u s t0 ts, plain_parse u s = Ok t0 -> document_plain u s = Ok ts ->
  forall t nb, In t ts -> tkind_of t = KNumber nb ->
  exists t' nb0, In t' t0 /\ tkind_of t' = KNumber nb0 /\ same_value nb nb0.
Proof. exact document_number_values. Qed.
Check C19_document_number_values : forall u s t0 ts, plain_parse u s = Ok t0 -> document_plain u s = Ok ts ->
  forall t nb, In t ts -> tkind_of t = KNumber nb ->
  exists t' nb0, In t' t0 /\ tkind_of t' = KNumber nb0 /\ same_value nb nb0.
Print Assumptions C19_document_number_values.

(* the exact form, with totality: the document exists for every text, and each of its Numbers IS a lexer Number (all six members)
   or a lexer Number with the suffix member set *)
Theorem C19_document_numbers_suffixed : forall u s, exists t0 ts, plain_parse u s = Ok t0 /\ document_plain u s = Ok ts /\
  Forall (numbers_in (suffixed (lexed t0))) ts.
Proof. exact document_numbers_from_lexer. Qed.
Check C19_document_numbers_suffixed : forall u s, exists t0 ts, plain_parse u s = Ok t0 /\ document_plain u s = Ok ts /\
  Forall (numbers_in (suffixed (lexed t0))) ts.
Print Assumptions C19_document_numbers_suffixed.

(* hence every Number the linters (and RecordKind::from_lint) can see is finite — decimal and hexadecimal, no Unicode law *)
Theorem C19_document_plain_finite : forall u s ts, document_plain u s = Ok ts -> Forall token_finite ts.
Proof. exact document_plain_finite. Qed.
Check C19_document_plain_finite : forall u s ts, document_plain u s = Ok ts -> Forall token_finite ts.
Print Assumptions C19_document_plain_finite.

(* a record whose Number values are those of Number tokens of the DOCUMENT of some text is a record made from text *)
Theorem C19_made_from_document_text : forall u r, made_from_document u r -> made_from_text u r.
Proof. exact made_from_document_text. Qed.
Check C19_made_from_document_text : forall u r, made_from_document u r -> made_from_text u r.
Print Assumptions C19_made_from_document_text.

(* THE PROPERTY for records made from the document (doc_record r = value of the Rust types whose Number values are values of Number
   tokens of Document::new_plain_english(s) for some text s), under float_rt alone *)
Theorem C19_doc_log_roundtrip : forall (u : uni) (print_f64 : lexval -> bytes) (parse_f64 : bytes -> option lexval),
  float_rt lexval lexval_finite print_f64 parse_f64 ->
  forall rs, Forall (doc_record u print_f64 parse_f64) rs ->
  read (record lexval) (de_record lexval lexval_finite print_f64 parse_f64) (write (record lexval) (ser_record lexval lexval_finite print_f64 parse_f64) rs) = Some rs.
Proof. exact doc_log_roundtrip. Qed.
Check C19_doc_log_roundtrip : forall (u : uni) (print_f64 : lexval -> bytes) (parse_f64 : bytes -> option lexval),
  float_rt lexval lexval_finite print_f64 parse_f64 ->
  forall rs, Forall (doc_record u print_f64 parse_f64) rs ->
  read (record lexval) (de_record lexval lexval_finite print_f64 parse_f64) (write (record lexval) (ser_record lexval lexval_finite print_f64 parse_f64) rs) = Some rs.
Print Assumptions C19_doc_log_roundtrip.

(* a second batch after a first *)
Theorem C19_doc_log_append : forall (u : uni) (print_f64 : lexval -> bytes) (parse_f64 : bytes -> option lexval),
  float_rt lexval lexval_finite print_f64 parse_f64 ->
  forall a c, Forall (doc_record u print_f64 parse_f64) a -> Forall (doc_record u print_f64 parse_f64) c ->
  read (record lexval) (de_record lexval lexval_finite print_f64 parse_f64) (write (record lexval) (ser_record lexval lexval_finite print_f64 parse_f64) a ++ write (record lexval) (ser_record lexval lexval_finite print_f64 parse_f64) c) = Some (a ++ c).
Proof. exact doc_log_append. Qed.
Check C19_doc_log_append : forall (u : uni) (print_f64 : lexval -> bytes) (parse_f64 : bytes -> option lexval),
  float_rt lexval lexval_finite print_f64 parse_f64 ->
  forall a c, Forall (doc_record u print_f64 parse_f64) a -> Forall (doc_record u print_f64 parse_f64) c ->
  read (record lexval) (de_record lexval lexval_finite print_f64 parse_f64) (write (record lexval) (ser_record lexval lexval_finite print_f64 parse_f64) a ++ write (record lexval) (ser_record lexval lexval_finite print_f64 parse_f64) c) = Some (a ++ c).
Print Assumptions C19_doc_log_append.

(* append after append *)
Theorem C19_doc_log_sessions : forall (u : uni) (print_f64 : lexval -> bytes) (parse_f64 : bytes -> option lexval),
  float_rt lexval lexval_finite print_f64 parse_f64 ->
  forall file old ss, terminated file -> read (record lexval) (de_record lexval lexval_finite print_f64 parse_f64) file = Some old ->
  Forall (Forall (doc_record u print_f64 parse_f64)) ss ->
  read (record lexval) (de_record lexval lexval_finite print_f64 parse_f64) (sessions (record lexval) (ser_record lexval lexval_finite print_f64 parse_f64) file ss) = Some (old ++ concat ss).
Proof. exact doc_log_sessions. Qed.
Check C19_doc_log_sessions : forall (u : uni) (print_f64 : lexval -> bytes) (parse_f64 : bytes -> option lexval),
  float_rt lexval lexval_finite print_f64 parse_f64 ->
  forall file old ss, terminated file -> read (record lexval) (de_record lexval lexval_finite print_f64 parse_f64) file = Some old ->
  Forall (Forall (doc_record u print_f64 parse_f64)) ss ->
  read (record lexval) (de_record lexval lexval_finite print_f64 parse_f64) (sessions (record lexval) (ser_record lexval lexval_finite print_f64 parse_f64) file ss) = Some (old ++ concat ss).
Print Assumptions C19_doc_log_sessions.

(* CONCURRENT WRITERS — beyond the property (Model/C19Concurrent.v: std's BufWriter::write_all / flush_buf / flush, fragments in, one
   write(2) per chunk out).  BufWriter + flush is the identity on the byte stream, whatever the fragments and the capacity
   (was a trusted-base item) *)
Theorem C19_bufwriter_is_identity : forall cap frags, concat (bufwriter cap frags) = concat frags.
Proof. exact bufwriter_concat. Qed.
Check C19_bufwriter_is_identity : forall cap frags, concat (bufwriter cap frags) = concat frags.
Print Assumptions C19_bufwriter_is_identity.

(* a session of at most `cap` bytes reaches the file in ONE write(2) (none if it is empty) *)
Theorem C19_bufwriter_single_write : forall cap frags, (0 < cap)%nat -> (length (concat frags) <= cap)%nat ->
  bufwriter cap frags = chunk_of (concat frags).
Proof. exact bufwriter_single. Qed.
Check C19_bufwriter_single_write : forall cap frags, (0 < cap)%nat -> (length (concat frags) <= cap)%nat ->
  bufwriter cap frags = chunk_of (concat frags).
Print Assumptions C19_bufwriter_single_write.

(* BEYOND THE PROPERTY (concurrent writers).  GUARANTEED: two processes append the batches a and b at the same time (any fragmentation fa / fb of their bytes, any
   interleaving m of their write(2) calls): if each batch is at most `cap` (= 8192) bytes the log reads back as the old records,
   then one batch, then the other *)
Theorem C19_concurrent_small_batches : forall (F : Type) (finite : F -> Prop) (print_f64 : F -> bytes) (parse_f64 : bytes -> option F),
  float_rt F finite print_f64 parse_f64 ->
  forall cap file old a b fa fb m,
  (0 < cap)%nat -> terminated file -> read (record F) (de_record F finite print_f64 parse_f64) file = Some old ->
  Forall (good F finite print_f64 parse_f64) a -> Forall (good F finite print_f64 parse_f64) b ->
  concat fa = write (record F) (ser_record F finite print_f64 parse_f64) a ->
  concat fb = write (record F) (ser_record F finite print_f64 parse_f64) b ->
  (length (write (record F) (ser_record F finite print_f64 parse_f64) a) <= cap)%nat ->
  (length (write (record F) (ser_record F finite print_f64 parse_f64) b) <= cap)%nat ->
  Interleave (bufwriter cap fa) (bufwriter cap fb) m ->
  read (record F) (de_record F finite print_f64 parse_f64) (concurrent_file file m) = Some (old ++ a ++ b) \/
  read (record F) (de_record F finite print_f64 parse_f64) (concurrent_file file m) = Some (old ++ b ++ a).
Proof. exact record_concurrent_small. Qed.
Check C19_concurrent_small_batches : forall (F : Type) (finite : F -> Prop) (print_f64 : F -> bytes) (parse_f64 : bytes -> option F),
  float_rt F finite print_f64 parse_f64 ->
  forall cap file old a b fa fb m,
  (0 < cap)%nat -> terminated file -> read (record F) (de_record F finite print_f64 parse_f64) file = Some old ->
  Forall (good F finite print_f64 parse_f64) a -> Forall (good F finite print_f64 parse_f64) b ->
  concat fa = write (record F) (ser_record F finite print_f64 parse_f64) a ->
  concat fb = write (record F) (ser_record F finite print_f64 parse_f64) b ->
  (length (write (record F) (ser_record F finite print_f64 parse_f64) a) <= cap)%nat ->
  (length (write (record F) (ser_record F finite print_f64 parse_f64) b) <= cap)%nat ->
  Interleave (bufwriter cap fa) (bufwriter cap fb) m ->
  read (record F) (de_record F finite print_f64 parse_f64) (concurrent_file file m) = Some (old ++ a ++ b) \/
  read (record F) (de_record F finite print_f64 parse_f64) (concurrent_file file m) = Some (old ++ b ++ a).
Print Assumptions C19_concurrent_small_batches.

(* BEYOND THE PROPERTY (concurrent writers; C19 itself speaks of a second batch AFTER a first).  Refuted above the capacity: nine valid lint records (9 018 bytes) against one configuration update: A's
   BufWriter hands the batch over in two write(2) calls, the first ending 100 bytes into the ninth line; when B's only write(2)
   falls between them Stats::read rejects the WHOLE log — the record that was there before included — although either order of the
   two sessions one after the other reads back.  Line atomicity is not given by BufWriter flush boundaries *)
Theorem C19_concurrent_large_batch_refuted : Forall (good bytes txt_finite (fun t => t) (fun t => Some t)) w_a /\
  Forall (good bytes txt_finite (fun t => t) (fun t => Some t)) w_b /\
  concat w_fa = write (record bytes) (ser_record bytes txt_finite (fun t => t) (fun t => Some t)) w_a /\
  concat w_fb = write (record bytes) (ser_record bytes txt_finite (fun t => t) (fun t => Some t)) w_b /\
  terminated w_old /\ read (record bytes) (de_record bytes txt_finite (fun t => t) (fun t => Some t)) w_old = Some [ex_cfg] /\
  (bufwriter_capacity < length (write (record bytes) (ser_record bytes txt_finite (fun t => t) (fun t => Some t)) w_a))%nat /\
  Interleave (bufwriter bufwriter_capacity w_fa) (bufwriter bufwriter_capacity w_fb) w_m /\
  read (record bytes) (de_record bytes txt_finite (fun t => t) (fun t => Some t)) (concurrent_file w_old w_m) = None /\
  read (record bytes) (de_record bytes txt_finite (fun t => t) (fun t => Some t))
    (w_old ++ write (record bytes) (ser_record bytes txt_finite (fun t => t) (fun t => Some t)) w_a
           ++ write (record bytes) (ser_record bytes txt_finite (fun t => t) (fun t => Some t)) w_b) = Some ([ex_cfg] ++ w_a ++ w_b).
Proof. exact concurrent_large_batch_refuted. Qed.
Check C19_concurrent_large_batch_refuted : Forall (good bytes txt_finite (fun t => t) (fun t => Some t)) w_a /\
  Forall (good bytes txt_finite (fun t => t) (fun t => Some t)) w_b /\
  concat w_fa = write (record bytes) (ser_record bytes txt_finite (fun t => t) (fun t => Some t)) w_a /\
  concat w_fb = write (record bytes) (ser_record bytes txt_finite (fun t => t) (fun t => Some t)) w_b /\
  terminated w_old /\ read (record bytes) (de_record bytes txt_finite (fun t => t) (fun t => Some t)) w_old = Some [ex_cfg] /\
  (bufwriter_capacity < length (write (record bytes) (ser_record bytes txt_finite (fun t => t) (fun t => Some t)) w_a))%nat /\
  Interleave (bufwriter bufwriter_capacity w_fa) (bufwriter bufwriter_capacity w_fb) w_m /\
  read (record bytes) (de_record bytes txt_finite (fun t => t) (fun t => Some t)) (concurrent_file w_old w_m) = None /\
  read (record bytes) (de_record bytes txt_finite (fun t => t) (fun t => Some t))
    (w_old ++ write (record bytes) (ser_record bytes txt_finite (fun t => t) (fun t => Some t)) w_a
           ++ write (record bytes) (ser_record bytes txt_finite (fun t => t) (fun t => Some t)) w_b) = Some ([ex_cfg] ++ w_a ++ w_b).
Print Assumptions C19_concurrent_large_batch_refuted.

Example C19_concurrent_small_nonvacuous :
  let fa := [firstn 100 (drv_ser ex_lint); skipn 100 (drv_ser ex_lint) ++ [10%N]] in
  let fb := [firstn 10 (drv_ser ex_cfg); skipn 10 (drv_ser ex_cfg) ++ [10%N]] in
  concat fa = write (record bytes) (ser_record bytes txt_finite (fun t => t) (fun t => Some t)) [ex_lint] /\
  concat fb = write (record bytes) (ser_record bytes txt_finite (fun t => t) (fun t => Some t)) [ex_cfg] /\
  (length (write (record bytes) (ser_record bytes txt_finite (fun t => t) (fun t => Some t)) [ex_lint]) <= bufwriter_capacity)%nat /\
  (length (write (record bytes) (ser_record bytes txt_finite (fun t => t) (fun t => Some t)) [ex_cfg]) <= bufwriter_capacity)%nat /\
  bufwriter bufwriter_capacity fa = [write (record bytes) (ser_record bytes txt_finite (fun t => t) (fun t => Some t)) [ex_lint]] /\
  Interleave (bufwriter bufwriter_capacity fa) (bufwriter bufwriter_capacity fb)
             (interleave_by [false] (bufwriter bufwriter_capacity fa) (bufwriter bufwriter_capacity fb)) /\
  read (record bytes) (de_record bytes txt_finite (fun t => t) (fun t => Some t))
    (concurrent_file w_old (interleave_by [false] (bufwriter bufwriter_capacity fa) (bufwriter bufwriter_capacity fb)))
    = Some ([ex_cfg] ++ [ex_cfg] ++ [ex_lint]).
Proof. exact concurrent_small_example. Qed.
Example C19_document_numbers_nonvacuous :
  made_from_document LexerProofs.ascii_uni ex_doc_record /\
  document_plain LexerProofs.ascii_uni [48; 120; 49; 70; 32; 50; 110; 100]%N
  = Ok [mktok (mkspan 0 4) (KNumber (mknumber false 31 0%Z None 16 0)); mktok (mkspan 4 5) (KSpace 1);
        mktok (mkspan 5 8) (KNumber (mknumber false 2 0%Z (Some Tables_lexer.SufNd) 10 0))].
Proof. exact (conj made_from_document_example (proj2 document_numbers_example)). Qed.

(* ================= harper-ls session histories (Model/C19Session.v) ================= *)

(* the sites of harper-ls/src/backend.rs that touch the statistics, re-read from /repo on every run: save_stats() (which appends ALL
   records held in memory and drains nothing) is called from `shutdown` alone, once; records are made in execute_command alone.
   A new call site (seeded c19-5: did_save) makes this — and C19_ls_history_log_once, stated over the table — fail *)
Theorem C19_ls_stats_sites_are_sources : ls_save_stats_callers = ["shutdown"%string] /\ ls_save_stats_calls = 1%nat /\ ls_record_pushers = ["execute_command"%string] /\
  ls_stats_drained = false /\ ls_save_stats_reads_only = true.
Proof. exact ls_stats_sites_ok. Qed.
Check C19_ls_stats_sites_are_sources : ls_save_stats_callers = ["shutdown"%string] /\ ls_save_stats_calls = 1%nat /\ ls_record_pushers = ["execute_command"%string] /\
  ls_stats_drained = false /\ ls_save_stats_reads_only = true.
Print Assumptions C19_ls_stats_sites_are_sources.

(* the session model: any number of server processes one after the other on the same log, each any sequence of HarperRecordLint
   commands and other handlers (didOpen / didChange / didSave / didClose / configuration ...), then shutdown: the log grows by the
   lints applied, in order, each exactly once *)
Theorem C19_ls_history_appends_once : forall (A : Type) (ss : list (list (ls_event A))) (log : list A), Forall (no_shutdown A) ss ->
  ls_history A ["shutdown"%string] log ss = log ++ concat (map (recorded A) ss).
Proof. exact ls_history_appends_once. Qed.
Check C19_ls_history_appends_once : forall (A : Type) (ss : list (list (ls_event A))) (log : list A), Forall (no_shutdown A) ss ->
  ls_history A ["shutdown"%string] log ss = log ++ concat (map (recorded A) ss).
Print Assumptions C19_ls_history_appends_once.

(* with the call sites AS THE SOURCES HAVE THEM (the generated table), at the level of the file: after any session history Stats::read
   gives the old records followed by the lints applied, in order, each exactly once *)
Theorem C19_ls_history_log_once : forall (F : Type) (finite : F -> Prop) (print_f64 : F -> bytes) (parse_f64 : bytes -> option F),
  float_rt F finite print_f64 parse_f64 ->
  forall file old (ss : list (list (ls_event (record F)))),
  terminated file -> read (record F) (de_record F finite print_f64 parse_f64) file = Some old ->
  Forall (no_shutdown (record F)) ss ->
  Forall (Forall (good F finite print_f64 parse_f64)) (map (recorded (record F)) ss) ->
  read (record F) (de_record F finite print_f64 parse_f64)
    (file ++ write (record F) (ser_record F finite print_f64 parse_f64) (ls_history (record F) ls_save_stats_callers [] ss))
  = Some (old ++ concat (map (recorded (record F)) ss)).
Proof. exact ls_history_log_once. Qed.
Check C19_ls_history_log_once : forall (F : Type) (finite : F -> Prop) (print_f64 : F -> bytes) (parse_f64 : bytes -> option F),
  float_rt F finite print_f64 parse_f64 ->
  forall file old (ss : list (list (ls_event (record F)))),
  terminated file -> read (record F) (de_record F finite print_f64 parse_f64) file = Some old ->
  Forall (no_shutdown (record F)) ss ->
  Forall (Forall (good F finite print_f64 parse_f64)) (map (recorded (record F)) ss) ->
  read (record F) (de_record F finite print_f64 parse_f64)
    (file ++ write (record F) (ser_record F finite print_f64 parse_f64) (ls_history (record F) ls_save_stats_callers [] ss))
  = Some (old ++ concat (map (recorded (record F)) ss)).
Print Assumptions C19_ls_history_log_once.

Example C19_ls_second_call_site_duplicates :
  ls_history nat ["did_save"%string; "shutdown"%string] [] [[EvRecord nat 1%nat; EvHandler nat "did_save"%string; EvRecord nat 2%nat]] = [1; 1; 2]%nat /\
  ls_history nat ["shutdown"%string] [] [[EvRecord nat 1%nat; EvHandler nat "did_save"%string; EvRecord nat 2%nat]; [EvHandler nat "did_open"%string; EvRecord nat 3%nat]] = [1; 2; 3]%nat /\
  no_shutdown nat [EvRecord nat 1%nat; EvHandler nat "did_save"%string; EvRecord nat 2%nat].
Proof. exact ls_second_call_site_duplicates. Qed.
