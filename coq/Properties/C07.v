(* C07 — Words the user adds to a dictionary are accepted from then on and never lost.
   This file pins the statements; it contains nothing but `exact`.
   Model: Model/DictIO.v (the code AFTER the fix commits 87b8642, ebb53b3, f2dc537, ba0a239).  Unicode case
   mapping (is_lower, lower), the curated dictionary and the iteration order of the hash map are universally
   quantified; the only premise on them is that iteration is a permutation.  The `_refuted` theorems are
   concrete histories on which the faithful model violates the property text (findings that are still
   open); each is replayed on the implementation by the harness (corpus/C07).  The `_old_refuted` Examples
   are witnesses of the behaviour BEFORE the fix commits, over the `_old` definitions (history only). *)
Require Import Base DictIO DictIOProofs C07Ident C07IdentProofs C07Power C07PowerProofs C07Collide C07CollideProofs.
From Coq Require Import Permutation.

(* save then load: the dictionary read back is the dictionary written (as a map id -> spelling), for
   words without LF that do not end in CR, whatever order the hash map iterates in *)
Theorem C07_save_load : forall (is_lower : N -> bool) (lower : N -> list N) (iter_order : list word -> list word),
  (forall l : list word, Permutation (iter_order l) l) ->
  forall (p : path) (d : dict) (s : fsys),
  dict_wf is_lower lower d -> Forall line_safe (words_of d) ->
  exists d' : dict,
    load_dict is_lower lower p (save_dict iter_order p d s) = Some d' /\
    dict_equiv d' d /\ dict_wf is_lower lower d' /\ Forall line_safe (words_of d').
Proof. exact save_load. Qed.
Check C07_save_load : forall (is_lower : N -> bool) (lower : N -> list N) (iter_order : list word -> list word),
  (forall l : list word, Permutation (iter_order l) l) ->
  forall (p : path) (d : dict) (s : fsys),
  dict_wf is_lower lower d -> Forall line_safe (words_of d) ->
  exists d' : dict,
    load_dict is_lower lower p (save_dict iter_order p d s) = Some d' /\
    dict_equiv d' d /\ dict_wf is_lower lower d' /\ Forall line_safe (words_of d').
Print Assumptions C07_save_load.

(* accepted from then on AND never lost: after `AddWord sc w` every later check of a document in scope
   accepts w — through any further adds, checks, restarts and adds that DIE AT ANY CRASH POINT of save_dict
   (CrashAdd sc' w' i: the i-th crash state; op_safe only asks that added words are line-safe).
   Two classes remain excluded, each with its own _refuted witness below: a curated entry of another
   dialect (FC07b), a later add (completed or crashed) to the same file of another spelling with the same
   case-folded id (F15) — a spelling that differs only in the kind of apostrophe is harmless since ebb53b3. *)
Theorem C07_add_sequential : forall (is_lower : N -> bool) (lower : N -> list N) (curated : dict)
    (iter_order : list word -> list word),
  (forall l : list word, Permutation (iter_order l) l) ->
  forall (s0 : fsys) (h1 : list op) (sc : scope) (w : word) (h2 : list op) (u : url) (p : path),
  fs_ok is_lower lower s0 ->
  Forall op_safe (h1 ++ AddWord sc w :: h2) ->
  (forall e : entry, lookup (word_id is_lower lower w) curated = Some e -> snd e = true) ->
  target sc = Some p ->
  (forall (o : op) (sc' : scope) (w' : word),
     In o h2 -> op_add o = Some (sc', w') -> target sc' = Some p ->
     word_id is_lower lower w' = word_id is_lower lower w -> normalized w' = normalized w) ->
  p = UserP \/ (exists n : list N, file_dict_name u = Some n /\ p = FileP n) ->
  accepted is_lower lower
    (children is_lower lower curated (run_fs is_lower lower curated iter_order s0 (h1 ++ AddWord sc w :: h2)) u) w = true.
Proof. exact add_sequential. Qed.
Check C07_add_sequential : forall (is_lower : N -> bool) (lower : N -> list N) (curated : dict)
    (iter_order : list word -> list word),
  (forall l : list word, Permutation (iter_order l) l) ->
  forall (s0 : fsys) (h1 : list op) (sc : scope) (w : word) (h2 : list op) (u : url) (p : path),
  fs_ok is_lower lower s0 ->
  Forall op_safe (h1 ++ AddWord sc w :: h2) ->
  (forall e : entry, lookup (word_id is_lower lower w) curated = Some e -> snd e = true) ->
  target sc = Some p ->
  (forall (o : op) (sc' : scope) (w' : word),
     In o h2 -> op_add o = Some (sc', w') -> target sc' = Some p ->
     word_id is_lower lower w' = word_id is_lower lower w -> normalized w' = normalized w) ->
  p = UserP \/ (exists n : list N, file_dict_name u = Some n /\ p = FileP n) ->
  accepted is_lower lower
    (children is_lower lower curated (run_fs is_lower lower curated iter_order s0 (h1 ++ AddWord sc w :: h2)) u) w = true.
Print Assumptions C07_add_sequential.

(* a file-dictionary word leaves every check of a document with another dictionary file unchanged *)
Theorem C07_file_scope : forall (is_lower : N -> bool) (lower : N -> list N) (curated : dict)
    (iter_order : list word -> list word) (u0 : url) (n : list N) (w : word) (s : fsys) (u : url) (toks : list word),
  file_dict_name u0 = Some n -> file_dict_name u <> Some n ->
  lint is_lower lower curated (add_word is_lower lower iter_order (SFile u0) w s) u toks =
  lint is_lower lower curated s u toks.
Proof. exact file_scope. Qed.
Check C07_file_scope : forall (is_lower : N -> bool) (lower : N -> list N) (curated : dict)
    (iter_order : list word -> list word) (u0 : url) (n : list N) (w : word) (s : fsys) (u : url) (toks : list word),
  file_dict_name u0 = Some n -> file_dict_name u <> Some n ->
  lint is_lower lower curated (add_word is_lower lower iter_order (SFile u0) w s) u toks =
  lint is_lower lower curated s u toks.
Print Assumptions C07_file_scope.

(* the spelling verdict on a word with another id does not change ("all other lints unchanged", as far
   as the dictionary decides them; rule bodies are reached by the search only) *)
Theorem C07_other_words_unchanged : forall (is_lower : N -> bool) (lower : N -> list N) (curated : dict)
    (iter_order : list word -> list word),
  (forall l : list word, Permutation (iter_order l) l) ->
  forall (sc : scope) (w : word) (s : fsys) (u : url) (t : word),
  fs_ok is_lower lower s -> line_safe w ->
  word_id is_lower lower t <> word_id is_lower lower w ->
  word_id is_lower lower (to_lower is_lower lower t) <> word_id is_lower lower w ->
  accepted is_lower lower (children is_lower lower curated (add_word is_lower lower iter_order sc w s) u) t =
  accepted is_lower lower (children is_lower lower curated s u) t.
Proof. exact other_words_unchanged. Qed.
Check C07_other_words_unchanged : forall (is_lower : N -> bool) (lower : N -> list N) (curated : dict)
    (iter_order : list word -> list word),
  (forall l : list word, Permutation (iter_order l) l) ->
  forall (sc : scope) (w : word) (s : fsys) (u : url) (t : word),
  fs_ok is_lower lower s -> line_safe w ->
  word_id is_lower lower t <> word_id is_lower lower w ->
  word_id is_lower lower (to_lower is_lower lower t) <> word_id is_lower lower w ->
  accepted is_lower lower (children is_lower lower curated (add_word is_lower lower iter_order sc w s) u) t =
  accepted is_lower lower (children is_lower lower curated s u) t.
Print Assumptions C07_other_words_unchanged.

(* file_dict_name is injective (up to Path::components normalisation) on paths without '%' *)
Theorem C07_file_dict_name_inj : forall p q : list N,
  Forall no_pct (components p) -> Forall no_pct (components q) ->
  file_dict_name (FileUrl p) = file_dict_name (FileUrl q) -> components p = components q.
Proof. exact file_dict_name_inj. Qed.
Check C07_file_dict_name_inj : forall p q : list N,
  Forall no_pct (components p) -> Forall no_pct (components q) ->
  file_dict_name (FileUrl p) = file_dict_name (FileUrl q) -> components p = components q.
Print Assumptions C07_file_dict_name_inj.

(* F20 (open): /a/b and /a%b share the dictionary file a%b%, so a word added for one is accepted in the other *)
Theorem C07_file_dict_name_refuted : (components p_a_b <> components p_a_pct_b /\
   file_dict_name (FileUrl p_a_b) = file_dict_name (FileUrl p_a_pct_b)) /\
  (let s := run_fs a_is_lower a_lower [] id_order fs_empty [AddWord (SFile (FileUrl p_a_b)) w_zorgle] in
   accepted a_is_lower a_lower (children a_is_lower a_lower [] fs_empty (FileUrl p_a_pct_b)) w_zorgle = false /\
   accepted a_is_lower a_lower (children a_is_lower a_lower [] s (FileUrl p_a_pct_b)) w_zorgle = true).
Proof. exact (conj file_dict_name_refuted file_scope_refuted). Qed.
Check C07_file_dict_name_refuted : (components p_a_b <> components p_a_pct_b /\
   file_dict_name (FileUrl p_a_b) = file_dict_name (FileUrl p_a_pct_b)) /\
  (let s := run_fs a_is_lower a_lower [] id_order fs_empty [AddWord (SFile (FileUrl p_a_b)) w_zorgle] in
   accepted a_is_lower a_lower (children a_is_lower a_lower [] fs_empty (FileUrl p_a_pct_b)) w_zorgle = false /\
   accepted a_is_lower a_lower (children a_is_lower a_lower [] s (FileUrl p_a_pct_b)) w_zorgle = true).
Print Assumptions C07_file_dict_name_refuted.

(* save_dict as written (temporary sibling, flush, sync_all, rename): at EVERY crash point — after any prefix
   of the effects, with any prefix of the buffered bytes persisted — the dictionary file holds its old
   content or the complete new one *)
Theorem C07_crash_save : forall (p : path) (ws : list word) (s s' : fsys),
  In s' (crash_states None (s, []) (save_effects p ws)) ->
  fs_read p s' = fs_read p s \/ fs_read p s' = Some (Clean (serialize ws)).
Proof. exact crash_save. Qed.
Check C07_crash_save : forall (p : path) (ws : list word) (s s' : fsys),
  In s' (crash_states None (s, []) (save_effects p ws)) ->
  fs_read p s' = fs_read p s \/ fs_read p s' = Some (Clean (serialize ws)).
Print Assumptions C07_crash_save.

(* exactly what a crash during save_dict can leave in the dictionary file and in its temporary sibling:
   (old, sibling as before or a possibly torn prefix of the new text) or (complete new text, no sibling).
   This is the decision function the correspondence applies to what real kills leave on disk. *)
Theorem C07_crash_states_spec : forall (p : path) (ws : list word) (s : fsys) (obs obstmp : option content),
  crash_possibleb (fs_read p s) (fs_read (TmpP p) s) (serialize ws) obs obstmp = true <->
  (exists s' : fsys, In s' (crash_states None (s, []) (save_effects p ws)) /\
                     fs_read p s' = obs /\ fs_read (TmpP p) s' = obstmp).
Proof. exact crash_possibleb_spec. Qed.
Check C07_crash_states_spec : forall (p : path) (ws : list word) (s : fsys) (obs obstmp : option content),
  crash_possibleb (fs_read p s) (fs_read (TmpP p) s) (serialize ws) obs obstmp = true <->
  (exists s' : fsys, In s' (crash_states None (s, []) (save_effects p ws)) /\
                     fs_read p s' = obs /\ fs_read (TmpP p) s' = obstmp).
Print Assumptions C07_crash_states_spec.

(* the property's crash clause: a crash during an add reloads to the old dictionary or to the old
   dictionary plus the new word — at most the word being added is lost *)
Theorem C07_add_crash : forall (is_lower : N -> bool) (lower : N -> list N) (iter_order : list word -> list word),
  (forall l : list word, Permutation (iter_order l) l) ->
  forall (p : path) (w : word) (s s' : fsys),
  fs_ok is_lower lower s -> is_tmp p = false -> line_safe w ->
  In s' (crash_states None (s, [])
           (save_effects p (words_iter iter_order (append_word is_lower lower (dict_at is_lower lower p s) w)))) ->
  dict_at is_lower lower p s' = dict_at is_lower lower p s \/
  dict_equiv (dict_at is_lower lower p s') (append_word is_lower lower (dict_at is_lower lower p s) w).
Proof. exact add_crash. Qed.
Check C07_add_crash : forall (is_lower : N -> bool) (lower : N -> list N) (iter_order : list word -> list word),
  (forall l : list word, Permutation (iter_order l) l) ->
  forall (p : path) (w : word) (s s' : fsys),
  fs_ok is_lower lower s -> is_tmp p = false -> line_safe w ->
  In s' (crash_states None (s, [])
           (save_effects p (words_iter iter_order (append_word is_lower lower (dict_at is_lower lower p s) w)))) ->
  dict_at is_lower lower p s' = dict_at is_lower lower p s \/
  dict_equiv (dict_at is_lower lower p s') (append_word is_lower lower (dict_at is_lower lower p s) w).
Print Assumptions C07_add_crash.

(* F15 (open): add zorgle, then Zorgle: one entry is left and zorgle is reported again *)
Theorem C07_case_refuted : let s := run_fs a_is_lower a_lower [] id_order fs_empty [AddWord SUser w_zorgle; AddWord SUser w_Zorgle] in
  accepted a_is_lower a_lower (children a_is_lower a_lower []
     (run_fs a_is_lower a_lower [] id_order fs_empty [AddWord SUser w_zorgle]) u_doc) w_zorgle = true /\
  accepted a_is_lower a_lower (children a_is_lower a_lower [] s u_doc) w_zorgle = false /\
  option_map words_of (load_dict a_is_lower a_lower UserP s) = Some [w_Zorgle].
Proof. exact case_refuted. Qed.
Check C07_case_refuted : let s := run_fs a_is_lower a_lower [] id_order fs_empty [AddWord SUser w_zorgle; AddWord SUser w_Zorgle] in
  accepted a_is_lower a_lower (children a_is_lower a_lower []
     (run_fs a_is_lower a_lower [] id_order fs_empty [AddWord SUser w_zorgle]) u_doc) w_zorgle = true /\
  accepted a_is_lower a_lower (children a_is_lower a_lower [] s u_doc) w_zorgle = false /\
  option_map words_of (load_dict a_is_lower a_lower UserP s) = Some [w_Zorgle].
Print Assumptions C07_case_refuted.

(* FC07c (open): a "word" with a line feed reloads as two other words *)
Theorem C07_newline_refuted : option_map words_of (load_dict a_is_lower a_lower UserP
     (run_fs a_is_lower a_lower [] id_order fs_empty [AddWord SUser w_flurb_nl])) = Some [w_fl; w_urb].
Proof. exact newline_refuted. Qed.
Check C07_newline_refuted : option_map words_of (load_dict a_is_lower a_lower UserP
     (run_fs a_is_lower a_lower [] id_order fs_empty [AddWord SUser w_flurb_nl])) = Some [w_fl; w_urb].
Print Assumptions C07_newline_refuted.

(* FC07b (open): a word the curated dictionary lists for another dialect stays reported *)
Theorem C07_dialect_refuted : accepted a_is_lower a_lower
    (children a_is_lower a_lower cur_colour
       (run_fs a_is_lower a_lower cur_colour id_order fs_empty [AddWord SUser w_colour]) u_doc) w_colour = false.
Proof. exact dialect_refuted. Qed.
Check C07_dialect_refuted : accepted a_is_lower a_lower
    (children a_is_lower a_lower cur_colour
       (run_fs a_is_lower a_lower cur_colour id_order fs_empty [AddWord SUser w_colour]) u_doc) w_colour = false.
Print Assumptions C07_dialect_refuted.

(* the per-document linter cache: the hash of a child dictionary (sum of per-word hashes since f2dc537,
   modelled as the multiset of its words) changes with EVERY add that changes the dictionary — a new word,
   the empty word, a new spelling of a known id — for every pair of iteration orders, so update_document
   builds a new linter; and it is unchanged exactly when the add changes nothing *)
Theorem C07_merge_rebuild : forall (is_lower : N -> bool) (lower : N -> list N) (o1 o2 : list word -> list word),
  (forall l, Permutation (o1 l) l) -> (forall l, Permutation (o2 l) l) ->
  forall (d : dict) (w : word), dict_wf is_lower lower d ->
  (lookup (word_id is_lower lower w) d <> Some (w, true) ->
   child_hash_eqb (child_words o1 d) (child_words o2 (append_word is_lower lower d w)) = false) /\
  (lookup (word_id is_lower lower w) d = Some (w, true) ->
   append_word is_lower lower d w = d /\
   child_hash_eqb (child_words o1 d) (child_words o2 (append_word is_lower lower d w)) = true).
Proof. exact merge_rebuild. Qed.
Check C07_merge_rebuild : forall (is_lower : N -> bool) (lower : N -> list N) (o1 o2 : list word -> list word),
  (forall l, Permutation (o1 l) l) -> (forall l, Permutation (o2 l) l) ->
  forall (d : dict) (w : word), dict_wf is_lower lower d ->
  (lookup (word_id is_lower lower w) d <> Some (w, true) ->
   child_hash_eqb (child_words o1 d) (child_words o2 (append_word is_lower lower d w)) = false) /\
  (lookup (word_id is_lower lower w) d = Some (w, true) ->
   append_word is_lower lower d w = d /\
   child_hash_eqb (child_words o1 d) (child_words o2 (append_word is_lower lower d w)) = true).
Print Assumptions C07_merge_rebuild.

(* ... hence the server with its linter cache (run_cached: a linter per open document, rebuilt only when the
   child hashes differ) reports exactly what a server that reloads the dictionaries for every check reports
   (run — the semantics all theorems above are about), for every history *)
Theorem C07_cache_transparent : forall (is_lower : N -> bool) (lower : N -> list N) (curated : dict)
    (iter_order : list word -> list word),
  (forall l : list word, Permutation (iter_order l) l) ->
  forall (h : list op) (s : fsys),
  snd (run_cached is_lower lower curated iter_order (s, []) h) = snd (run is_lower lower curated iter_order s h) /\
  fst (fst (run_cached is_lower lower curated iter_order (s, []) h)) = run_fs is_lower lower curated iter_order s h.
Proof. exact cache_transparent_fresh. Qed.
Check C07_cache_transparent : forall (is_lower : N -> bool) (lower : N -> list N) (curated : dict)
    (iter_order : list word -> list word),
  (forall l : list word, Permutation (iter_order l) l) ->
  forall (h : list op) (s : fsys),
  snd (run_cached is_lower lower curated iter_order (s, []) h) = snd (run is_lower lower curated iter_order s h) /\
  fst (fst (run_cached is_lower lower curated iter_order (s, []) h)) = run_fs is_lower lower curated iter_order s h.
Print Assumptions C07_cache_transparent.

(* harper-wasm (since ba0a239): after any sequence of import_words the dictionary the linter checks with is
   the user dictionary (the one export_words shows) *)
Theorem C07_wasm_in_sync : forall (is_lower : N -> bool) (lower : N -> list N) (curated : dict) (imports : list (list word)),
  let st := fold_left (import_words is_lower lower) imports wasm_new in
  dict_equiv (w_lint st) (w_user st) /\
  (forall toks : list word,
     wasm_lint is_lower lower curated st toks =
     map (fun t : word => negb (accepted is_lower lower [curated; w_user st] t)) toks).
Proof. exact wasm_in_sync. Qed.
Check C07_wasm_in_sync : forall (is_lower : N -> bool) (lower : N -> list N) (curated : dict) (imports : list (list word)),
  let st := fold_left (import_words is_lower lower) imports wasm_new in
  dict_equiv (w_lint st) (w_user st) /\
  (forall toks : list word,
     wasm_lint is_lower lower curated st toks =
     map (fun t : word => negb (accepted is_lower lower [curated; w_user st] t)) toks).
Print Assumptions C07_wasm_in_sync.

(* ... and a word just imported is not reported, whatever was imported before (same two exclusions: curated
   entry of another dialect; a later word of the same import with the same id and another spelling) *)
Theorem C07_wasm_import_accepts : forall (is_lower : N -> bool) (lower : N -> list N) (curated : dict) (imports : list (list word))
    (ws : list word) (w : word),
  let st := import_words is_lower lower (fold_left (import_words is_lower lower) imports wasm_new) ws in
  (forall e : entry, lookup (word_id is_lower lower w) curated = Some e -> snd e = true) ->
  (exists pre post : list word,
     ws = pre ++ w :: post /\
     (forall w' : word, In w' post -> word_id is_lower lower w' = word_id is_lower lower w ->
        normalized w' = normalized w)) ->
  wasm_lint is_lower lower curated st [w] = [false].
Proof. exact wasm_import_accepts. Qed.
Check C07_wasm_import_accepts : forall (is_lower : N -> bool) (lower : N -> list N) (curated : dict) (imports : list (list word))
    (ws : list word) (w : word),
  let st := import_words is_lower lower (fold_left (import_words is_lower lower) imports wasm_new) ws in
  (forall e : entry, lookup (word_id is_lower lower w) curated = Some e -> snd e = true) ->
  (exists pre post : list word,
     ws = pre ++ w :: post /\
     (forall w' : word, In w' post -> word_id is_lower lower w' = word_id is_lower lower w ->
        normalized w' = normalized w)) ->
  wasm_lint is_lower lower curated st [w] = [false].
Print Assumptions C07_wasm_import_accepts.

(* add commands handled concurrently (since cfbe845: load-append-save under Backend::dict_write_lock): for EVERY
   schedule of polls the disk is the result of DictIO.run on the finished commands, one after the other, in the
   order in which they finished; no command finishes twice; the command holding the lock works on the dictionary
   as it is on disk.  So the sequential semantics of all theorems above covers overlapping add commands. *)
Theorem C07_locked_adds_serial : forall (is_lower : N -> bool) (lower : N -> list N) (curated : dict)
    (iter_order : list word -> list word) (cmds : list cmd) (s0 : fsys) (sched : list nat),
  let '(s, holder, ord) := run_locked is_lower lower iter_order cmds s0 sched in
  s = run_fs is_lower lower curated iter_order s0
        (map (fun i : nat => AddWord (fst (cmd_at cmds i)) (snd (cmd_at cmds i))) ord) /\
  NoDup ord /\
  match holder with
  | Some (j, d) => d = cmd_load is_lower lower (cmd_at cmds j) s /\ ~ In j ord
  | None => True
  end.
Proof. exact locked_adds_serial. Qed.
Check C07_locked_adds_serial : forall (is_lower : N -> bool) (lower : N -> list N) (curated : dict)
    (iter_order : list word -> list word) (cmds : list cmd) (s0 : fsys) (sched : list nat),
  let '(s, holder, ord) := run_locked is_lower lower iter_order cmds s0 sched in
  s = run_fs is_lower lower curated iter_order s0
        (map (fun i : nat => AddWord (fst (cmd_at cmds i)) (snd (cmd_at cmds i))) ord) /\
  NoDup ord /\
  match holder with
  | Some (j, d) => d = cmd_load is_lower lower (cmd_at cmds j) s /\ ~ In j ord
  | None => True
  end.
Print Assumptions C07_locked_adds_serial.

(* ... and a schedule that polls every command twice in a row finishes all of them (non-vacuity of the above) *)
Theorem C07_locked_adds_complete : forall (is_lower : N -> bool) (lower : N -> list N) (iter_order : list word -> list word)
    (cmds : list cmd) (s0 : fsys) (n : nat),
  n = length cmds ->
  snd (run_locked is_lower lower iter_order cmds s0 (flat_map (fun i : nat => [i; i]) (seq 0 n))) = seq 0 n.
Proof. exact locked_adds_complete. Qed.
Check C07_locked_adds_complete : forall (is_lower : N -> bool) (lower : N -> list N) (iter_order : list word -> list word)
    (cmds : list cmd) (s0 : fsys) (n : nat),
  n = length cmds ->
  snd (run_locked is_lower lower iter_order cmds s0 (flat_map (fun i : nat => [i; i]) (seq 0 n))) = seq 0 n.
Print Assumptions C07_locked_adds_complete.

(* ---- history: what the code did BEFORE the fix commits (over the `_old` definitions; not the current model) ---- *)
(* F14 (87b8642): File::create truncated the dictionary itself: the crash state after it reloads to the EMPTY dictionary *)
Example C07_crash_old_refuted :
  let s0 := run_fs a_is_lower a_lower [] id_order fs_empty [AddWord SUser w_alpha; AddWord SUser w_beta] in
  let ws := words_iter id_order (append_word a_is_lower a_lower (dict_at a_is_lower a_lower UserP s0) w_gamma) in
  option_map words_of (load_dict a_is_lower a_lower UserP s0) = Some [w_alpha; w_beta] /\
  exists i, (i <? length (crash_states None (s0, []) (save_effects_old UserP ws))) = true /\
            option_map words_of (load_dict a_is_lower a_lower UserP
               (nth i (crash_states None (s0, []) (save_effects_old UserP ws)) s0)) = Some [].
Proof. exact crash_old_refuted. Qed.
(* F15, wasm half (ba0a239): import Zorgle, then zorgle: the word count did not grow, the lint dictionary was not rebuilt *)
Example C07_wasm_resync_old_refuted :
  let st := import_words_old a_is_lower a_lower (import_words_old a_is_lower a_lower wasm_new [w_Zorgle]) [w_zorgle] in
  wasm_lint a_is_lower a_lower [] st [w_zorgle] = [true] /\ export_words id_order st = [w_zorgle].
Proof. exact wasm_resync_old_refuted. Qed.
(* FC07f (f2dc537): {aA, A} -> {Aa, A}: orders existed in which both hashed the stream "AaA" *)
Example C07_merge_rebuild_old_refuted :
  exists (d : dict) (w : word) (o1 o2 : list word -> list word),
    (forall l, Permutation (o1 l) l) /\ (forall l, Permutation (o2 l) l) /\
    words_of (append_word a_is_lower a_lower d w) <> words_of d /\
    child_stream_old o1 d = child_stream_old o2 (append_word a_is_lower a_lower d w).
Proof. exact merge_rebuild_old_refuted_same_id. Qed.

(* FC07g (cfbe845): without the lock, two user adds polled alternately: both finish, alpha is gone *)
Example C07_concurrent_old_refuted :
  let '(s, _, ord) := run_unlocked_old a_is_lower a_lower id_order cmds_ab fs_empty [0; 1; 0; 1] in
  ord = [0; 1] /\ option_map words_of (load_dict a_is_lower a_lower UserP s) = Some [w_beta].
Proof. exact concurrent_old_refuted. Qed.

(* ---- regression examples: the old witnesses under the current model ---- *)
(* FC07g: the same two commands under the lock, polled alternately: both words are there *)
Example C07_concurrent_example :
  let '(s, holder, ord) := run_locked a_is_lower a_lower id_order cmds_ab fs_empty [0; 1; 0; 1; 1; 0; 1] in
  ord = [0; 1] /\ holder = None /\ option_map words_of (load_dict a_is_lower a_lower UserP s) = Some [w_alpha; w_beta].
Proof. exact concurrent_example. Qed.
(* FC07a (ebb53b3): "blorf’s" (U+2019; normalisation changes it) is accepted once added, and so is "blorf's" *)
Example C07_apostrophe_accepted :
  line_safe w_blorfs /\ normalized w_blorfs <> w_blorfs /\
  accepted a_is_lower a_lower (children a_is_lower a_lower [] fs_empty u_doc) w_blorfs = false /\
  accepted a_is_lower a_lower (children a_is_lower a_lower []
     (run_fs a_is_lower a_lower [] id_order fs_empty [AddWord SUser w_blorfs]) u_doc) w_blorfs = true /\
  accepted a_is_lower a_lower (children a_is_lower a_lower []
     (run_fs a_is_lower a_lower [] id_order fs_empty [AddWord SUser w_blorfs]) u_doc) w_blorfs_ascii = true.
Proof. exact apostrophe_accepted. Qed.
(* F14: all 77 crash states of `add gamma` to {alpha, beta} reload to {alpha, beta} or {alpha, beta, gamma} *)
Example C07_crash_example :
  let s0 := run_fs a_is_lower a_lower [] id_order fs_empty [AddWord SUser w_alpha; AddWord SUser w_beta] in
  length (add_crash_states a_is_lower a_lower id_order SUser w_gamma s0) = 77 /\
  forallb (fun i => match option_map words_of (load_dict a_is_lower a_lower UserP
                            (run_fs a_is_lower a_lower [] id_order s0 [CrashAdd SUser w_gamma i])) with
                    | Some ws => perm_ofb ws [w_alpha; w_beta] || perm_ofb ws [w_alpha; w_beta; w_gamma]
                    | None => false end) (seq 0 80) = true.
Proof. exact crash_example. Qed.
(* F15 wasm: import Zorgle, then zorgle: zorgle is accepted *)
Example C07_wasm_resync_example :
  x_wasm tb_zorgle [] [WImport [w_Zorgle]; WImport [w_zorgle]; WLint [w_zorgle]; WExport]
  = [WONone; WONone; WOFlags [false]; WOWords [w_zorgle]].
Proof. exact wasm_resync_example. Qed.

(* ---- non-vacuity: the hypotheses of the positive theorems hold on non-trivial inputs ---- *)
Definition h_before : list op := [LintDoc u_doc [w_zorgle; w_alpha]; AddWord (SFile u_doc) w_beta; CrashAdd SUser w_gamma 9].
Definition h_after : list op :=
  [Restart; AddWord SUser w_alpha; CrashAdd SUser w_beta 30; AddWord (SFile u_doc) w_Zorgle; CrashAdd (SFile u_doc) w_gamma 3;
   LintDoc u_doc [w_zorgle]; Restart].
(* C07_add_sequential applies to this history with three crashed adds (premises discharged) ... *)
Example C07_add_sequential_applies :
  accepted a_is_lower a_lower
    (children a_is_lower a_lower [] (run_fs a_is_lower a_lower [] id_order fs_empty (h_before ++ AddWord SUser w_zorgle :: h_after)) u_doc)
    w_zorgle = true.
Proof.
  apply (C07_add_sequential a_is_lower a_lower [] id_order id_order_perm fs_empty h_before SUser w_zorgle h_after u_doc UserP).
  - apply fs_ok_empty.
  - repeat constructor.
  - intros e H. discriminate.
  - reflexivity.
  - intros o sc' w' Hin Ho Ht Hid. unfold h_after in Hin. cbn [In] in Hin.
    destruct Hin as [H|[H|[H|[H|[H|[H|[H|[]]]]]]]]; subst o; try discriminate; inversion Ho; subst; try discriminate;
      vm_compute in Hid; discriminate.
  - now left.
Qed.
(* ... and its conclusion is what the model computes, with and without the linter cache *)
Example C07_add_sequential_computes :
  snd (run a_is_lower a_lower [] id_order fs_empty (h_before ++ AddWord SUser w_zorgle :: h_after))
  = [[true; true]; []; []; []; []; []; []; []; []; [false]; []] /\
  snd (run_cached a_is_lower a_lower [] id_order (fs_empty, []) (h_before ++ AddWord SUser w_zorgle :: h_after))
  = [[true; true]; []; []; []; []; []; []; []; []; [false]; []].
Proof. vm_compute. split; reflexivity. Qed.
(* the apostrophe variant of the collision premise: a later add of "blorf's" does not disturb "blorf’s" *)
Example C07_add_sequential_apostrophe :
  accepted a_is_lower a_lower
    (children a_is_lower a_lower [] (run_fs a_is_lower a_lower [] id_order fs_empty ([] ++ AddWord SUser w_blorfs :: [AddWord SUser w_blorfs_ascii])) u_doc)
    w_blorfs = true.
Proof.
  apply (C07_add_sequential a_is_lower a_lower [] id_order id_order_perm fs_empty [] SUser w_blorfs [AddWord SUser w_blorfs_ascii] u_doc UserP).
  - apply fs_ok_empty.
  - repeat constructor.
  - intros e H. discriminate.
  - reflexivity.
  - intros o sc' w' [H|[]] Ho _ _. subst o. inversion Ho; subst. reflexivity.
  - now left.
Qed.
Example C07_save_load_example :
  let d := append_word a_is_lower a_lower (append_word a_is_lower a_lower [] w_zorgle) w_alpha in
  dict_wf a_is_lower a_lower d /\ Forall line_safe (words_of d) /\
  option_map words_of (load_dict a_is_lower a_lower UserP (save_dict (@rev word) UserP d fs_empty)) = Some [w_alpha; w_zorgle] /\
  fs_read (TmpP UserP) (save_dict (@rev word) UserP d fs_empty) = None.
Proof.
  split; [apply wf_append, wf_append, wf_nil|]. split; [repeat constructor|]. vm_compute. split; reflexivity.
Qed.
Example C07_file_dict_name_inj_example :
  Forall no_pct (components p_a_b) /\ components p_a_b = [[97%N]; [98%N]] /\ x_name p_a_b = Some [97; 37; 98; 37]%N /\
  x_name [47%N] = None.
Proof. split; [|split; [|split]]; [|reflexivity|reflexivity|reflexivity]. vm_compute. repeat constructor; intros [H|[]]; discriminate. Qed.
(* the crash decision function on observations: old + partial sibling, new without sibling are possible;
   a truncated dictionary, or the new dictionary next to a sibling, are not *)
Example C07_crash_states_example :
  let old := Some (Clean (serialize [w_alpha])) in
  let total := serialize [w_alpha; w_beta] in
  crash_possibleb old None total old None = true /\
  crash_possibleb old None total old (Some (Clean [97; 108]%N)) = true /\
  crash_possibleb old None total (Some (Clean total)) None = true /\
  crash_possibleb old None total (Some (Clean [])) None = false /\
  crash_possibleb old None total (Some (Clean [97; 108]%N)) None = false /\
  crash_possibleb old None total (Some (Clean total)) (Some (Clean total)) = false.
Proof. vm_compute. repeat split. Qed.
Example C07_merge_rebuild_example :
  let d := append_word a_is_lower a_lower (append_word a_is_lower a_lower [] [97; 65]%N) [65]%N in
  dict_wf a_is_lower a_lower d /\
  lookup (word_id a_is_lower a_lower [65; 97]%N) d <> Some ([65; 97]%N, true) /\
  child_stream_old (@rev word) d = child_stream_old id_order (append_word a_is_lower a_lower d [65; 97]%N) /\
  child_hash_eqb (child_words (@rev word) d) (child_words id_order (append_word a_is_lower a_lower d [65; 97]%N)) = false.
Proof. split; [apply wf_append, wf_append, wf_nil|]. vm_compute. split; [discriminate|split; reflexivity]. Qed.

(* ================================================================================================== *)
(*  source-code documents: the identifier dictionary in the per-document state (Model/C07Ident.v)       *)
(* ================================================================================================== *)

(* update_document as written after 6ece0c3 (base_dict / ident_dict / dict per open document; irun): after ANY history of
   adds, crashed adds, restarts, checks of plain and of source documents and the hidden updates the add commands make
   (IUpdate), the check of a source document u with identifiers ids is decided by the dictionary files AS THEY ARE NOW
   followed by the identifier dictionary of the text checked — an add re-merges the identifiers (none is lost) and the
   added word reaches the comments of the source file.  Premise: the language of a url does not change (well_kinded) *)
Theorem C07_ident_check : forall (is_lower : N -> bool) (lower : N -> list N) (curated : dict) (iter_order : list word -> list word),
  (forall l : list word, Permutation (iter_order l) l) ->
  forall (is_src : url -> bool) (h : list iop) (s : fsys) (u : url) (ids toks : list word),
  Forall (well_kinded is_src) h -> is_src u = true ->
  snd (irun is_lower lower curated iter_order (s, []) (h ++ [LintSrc u ids toks])) =
  snd (iref is_lower lower curated iter_order s h) ++
  [flags is_lower lower
     (children is_lower lower curated (run_fs is_lower lower curated iter_order s (ibase h)) u ++
      [ident_dict is_lower lower ids]) toks].
Proof. exact ident_check. Qed.
Check C07_ident_check : forall (is_lower : N -> bool) (lower : N -> list N) (curated : dict) (iter_order : list word -> list word),
  (forall l : list word, Permutation (iter_order l) l) ->
  forall (is_src : url -> bool) (h : list iop) (s : fsys) (u : url) (ids toks : list word),
  Forall (well_kinded is_src) h -> is_src u = true ->
  snd (irun is_lower lower curated iter_order (s, []) (h ++ [LintSrc u ids toks])) =
  snd (iref is_lower lower curated iter_order s h) ++
  [flags is_lower lower
     (children is_lower lower curated (run_fs is_lower lower curated iter_order s (ibase h)) u ++
      [ident_dict is_lower lower ids]) toks].
Print Assumptions C07_ident_check.

(* ... for every check of the history: the server with per-document state answers like the stateless reference iref
   (plain documents: [curated; user; file] loaded now; source documents: the same + identifiers), same disk *)
Theorem C07_ident_transparent : forall (is_lower : N -> bool) (lower : N -> list N) (curated : dict) (iter_order : list word -> list word),
  (forall l : list word, Permutation (iter_order l) l) ->
  forall (is_src : url -> bool) (h : list iop) (s : fsys) (c : icache),
  icache_ok is_lower lower curated is_src c ->
  Forall (well_kinded is_src) h ->
  snd (irun is_lower lower curated iter_order (s, c) h) = snd (iref is_lower lower curated iter_order s h) /\
  fst (fst (irun is_lower lower curated iter_order (s, c) h)) = fst (iref is_lower lower curated iter_order s h).
Proof. exact ident_transparent. Qed.
Check C07_ident_transparent : forall (is_lower : N -> bool) (lower : N -> list N) (curated : dict) (iter_order : list word -> list word),
  (forall l : list word, Permutation (iter_order l) l) ->
  forall (is_src : url -> bool) (h : list iop) (s : fsys) (c : icache),
  icache_ok is_lower lower curated is_src c ->
  Forall (well_kinded is_src) h ->
  snd (irun is_lower lower curated iter_order (s, c) h) = snd (iref is_lower lower curated iter_order s h) /\
  fst (fst (irun is_lower lower curated iter_order (s, c) h)) = fst (iref is_lower lower curated iter_order s h).
Print Assumptions C07_ident_transparent.

(* no identifier is lost: with the dictionary the check is made with (C07_ident_check) an identifier of the text is
   accepted whatever the dictionary files hold.  Premises: a curated entry at its id is of the right dialect (FC07b);
   no second identifier of the document has the same case-folded id and another spelling (F15 among identifiers) *)
Theorem C07_ident_kept : forall (is_lower : N -> bool) (lower : N -> list N) (curated : dict) (s : fsys) (u : url) (ids : list word) (i : word),
  In i ids ->
  (forall i' : word, In i' ids -> word_id is_lower lower i' = word_id is_lower lower i -> normalized i' = normalized i) ->
  (forall e : entry, lookup (word_id is_lower lower i) curated = Some e -> snd e = true) ->
  accepted is_lower lower (children is_lower lower curated s u ++ [ident_dict is_lower lower ids]) i = true.
Proof. exact ident_kept. Qed.
Check C07_ident_kept : forall (is_lower : N -> bool) (lower : N -> list N) (curated : dict) (s : fsys) (u : url) (ids : list word) (i : word),
  In i ids ->
  (forall i' : word, In i' ids -> word_id is_lower lower i' = word_id is_lower lower i -> normalized i' = normalized i) ->
  (forall e : entry, lookup (word_id is_lower lower i) curated = Some e -> snd e = true) ->
  accepted is_lower lower (children is_lower lower curated s u ++ [ident_dict is_lower lower ids]) i = true.
Print Assumptions C07_ident_kept.

(* accepted from then on in the comments of a source file too: C07_add_sequential for the dictionary a source document
   is checked with (the history may contain source checks and hidden updates; only its add commands touch the disk) *)
Theorem C07_ident_add_accepted : forall (is_lower : N -> bool) (lower : N -> list N) (curated : dict) (iter_order : list word -> list word),
  (forall l : list word, Permutation (iter_order l) l) ->
  forall (s0 : fsys) (h1 : list iop) (sc : scope) (w : word) (h2 : list iop) (u : url) (p : path) (ids : list word),
  fs_ok is_lower lower s0 ->
  Forall op_safe (ibase h1 ++ AddWord sc w :: ibase h2) ->
  (forall e : entry, lookup (word_id is_lower lower w) curated = Some e -> snd e = true) ->
  target sc = Some p ->
  (forall (o : op) (sc' : scope) (w' : word),
     In o (ibase h2) -> op_add o = Some (sc', w') -> target sc' = Some p ->
     word_id is_lower lower w' = word_id is_lower lower w -> normalized w' = normalized w) ->
  p = UserP \/ (exists n : list N, file_dict_name u = Some n /\ p = FileP n) ->
  accepted is_lower lower
    (children is_lower lower curated
       (run_fs is_lower lower curated iter_order s0 (ibase (h1 ++ IBase (AddWord sc w) :: h2))) u ++
     [ident_dict is_lower lower ids]) w = true.
Proof. exact ident_add_accepted. Qed.
Check C07_ident_add_accepted : forall (is_lower : N -> bool) (lower : N -> list N) (curated : dict) (iter_order : list word -> list word),
  (forall l : list word, Permutation (iter_order l) l) ->
  forall (s0 : fsys) (h1 : list iop) (sc : scope) (w : word) (h2 : list iop) (u : url) (p : path) (ids : list word),
  fs_ok is_lower lower s0 ->
  Forall op_safe (ibase h1 ++ AddWord sc w :: ibase h2) ->
  (forall e : entry, lookup (word_id is_lower lower w) curated = Some e -> snd e = true) ->
  target sc = Some p ->
  (forall (o : op) (sc' : scope) (w' : word),
     In o (ibase h2) -> op_add o = Some (sc', w') -> target sc' = Some p ->
     word_id is_lower lower w' = word_id is_lower lower w -> normalized w' = normalized w) ->
  p = UserP \/ (exists n : list N, file_dict_name u = Some n /\ p = FileP n) ->
  accepted is_lower lower
    (children is_lower lower curated
       (run_fs is_lower lower curated iter_order s0 (ibase (h1 ++ IBase (AddWord sc w) :: h2))) u ++
     [ident_dict is_lower lower ids]) w = true.
Print Assumptions C07_ident_add_accepted.

(* non-vacuity / tie example: source /m.rs with identifiers foo_bar, quxly; zorgle added to the user dictionary, alpha to
   the file dictionary, each followed by the command's hidden update; a plain document in between; with and without state *)
Example C07_ident_example :
  Forall (well_kinded is_src_ex) h_ident /\
  snd (irun a_is_lower a_lower [] id_order (fs_empty, []) h_ident) =
    [[false; true; true]; []; []; [false; false; true]; []; []; [false; false; false; false]; [true; false; true]] /\
  snd (iref a_is_lower a_lower [] id_order fs_empty h_ident) =
    [[false; true; true]; []; []; [false; false; true]; []; []; [false; false; false; false]; [true; false; true]].
Proof. exact ident_example. Qed.
Example C07_ident_kept_example :
  accepted a_is_lower a_lower (children a_is_lower a_lower [] fs_empty u_src ++ [ident_dict a_is_lower a_lower [w_foo_bar; w_quxly]]) w_foo_bar = true.
Proof.
  apply C07_ident_kept; [now left| |intros e H; discriminate].
  intros i' [H|[H|[]]] Hid; subst i'; [reflexivity|vm_compute in Hid; discriminate].
Qed.
(* history (6ece0c3): before the fix the second update of an unchanged source document dropped its identifiers *)
Example C07_ident_old_refuted :
  let nd := Some (ident_dict a_is_lower a_lower [w_foo_bar]) in
  let st1 := update_doc_old a_is_lower a_lower [] id_order [] fs_empty u_src nd in
  let st2 := update_doc_old a_is_lower a_lower [] id_order [(u_src, st1)] fs_empty u_src nd in
  flags a_is_lower a_lower (ds_dict st1) [w_foo_bar] = [false] /\
  flags a_is_lower a_lower (ds_dict st2) [w_foo_bar] = [true] /\
  let n1 := update_doc a_is_lower a_lower [] id_order [] fs_empty u_src nd in
  let n2 := update_doc a_is_lower a_lower [] id_order [(u_src, n1)] fs_empty u_src nd in
  flags a_is_lower a_lower (ds_dict n2) [w_foo_bar] = [false].
Proof. exact ident_old_refuted. Qed.

(* ================================================================================================== *)
(*  power loss: unsynced data and un-journalled renames (Model/C07Power.v)                              *)
(* ================================================================================================== *)

(* save_dict (temporary sibling, write, flush, sync_all, rename) from a file system at rest, POWER LOSS at any point (before
   the first effect or after any effect): whatever prefix of the pending name-space operations (link of <name>.tmp, the
   rename) the journal committed, and whatever the file system does to unsynced bytes (lossy: ANY function that returns
   fully synced data intact), the dictionary's name shows its old text (or is absent as before) or the complete new text *)
Theorem C07_power_crash_save : forall lossy : text -> text -> list content,
  synced_safe lossy ->
  forall (files : list (path * text)) (p : path) (ws : list word) (s : pfs) (c : option content),
  In s (preach (pfs_of files, None, []) (save_effects p ws)) ->
  pcrash_obs lossy s p c -> c = option_map Clean (fget p files) \/ c = Some (Clean (serialize ws)).
Proof. exact power_crash_save. Qed.
Check C07_power_crash_save : forall lossy : text -> text -> list content,
  synced_safe lossy ->
  forall (files : list (path * text)) (p : path) (ws : list word) (s : pfs) (c : option content),
  In s (preach (pfs_of files, None, []) (save_effects p ws)) ->
  pcrash_obs lossy s p c -> c = option_map Clean (fget p files) \/ c = Some (Clean (serialize ws)).
Print Assumptions C07_power_crash_save.

(* the sync_all is load-bearing: the same protocol WITHOUT it (save_effects_nosync), user dictionary {alpha, beta} at rest, add
   gamma: after the rename a power loss can commit the rename while none of the new inode's bytes are durable — the
   dictionary is an EMPTY file, neither the old nor the new text, and reloads to no word at all (alpha and beta lost) *)
Theorem C07_power_nosync_refuted : let s := fst (fst (prun (pfs_of pw_files, None, []) (save_effects_nosync UserP pw_new))) in
  In s (preach (pfs_of pw_files, None, []) (save_effects_nosync UserP pw_new)) /\
  pcrash_obs lossy_prefix s UserP (Some (Clean [])) /\
  Some (Clean []) <> option_map Clean (fget UserP pw_files) /\
  Some (Clean ([] : text)) <> Some (Clean (serialize pw_new)) /\
  x_load [] [] = [].
Proof. exact power_nosync_refuted. Qed.
Check C07_power_nosync_refuted : let s := fst (fst (prun (pfs_of pw_files, None, []) (save_effects_nosync UserP pw_new))) in
  In s (preach (pfs_of pw_files, None, []) (save_effects_nosync UserP pw_new)) /\
  pcrash_obs lossy_prefix s UserP (Some (Clean [])) /\
  Some (Clean []) <> option_map Clean (fget UserP pw_files) /\
  Some (Clean ([] : text)) <> Some (Clean (serialize pw_new)) /\
  x_load [] [] = [].
Print Assumptions C07_power_nosync_refuted.

(* the system-call order the harness monitors with strace on real saves (open <name>.tmp, write+, ONE fsync, rename, nothing
   after) is the order of save_effects, and the protocol without sync_all is rejected by the same decision function *)
Theorem C07_power_order : forall (p : path) (ws : list word), x_order_ok (flat_map sysc_of (save_effects p ws)) = true.
Proof. exact order_save. Qed.
Check C07_power_order : forall (p : path) (ws : list word), x_order_ok (flat_map sysc_of (save_effects p ws)) = true.
Print Assumptions C07_power_order.
Example C07_power_order_nosync : forall (p : path) (ws : list word), x_order_ok (flat_map sysc_of (save_effects_nosync p ws)) = false.
Proof. exact order_nosync. Qed.
(* non-vacuity: the concrete loss function (durable bytes + any prefix of the unsynced ones) keeps synced data and may lose
   all unsynced data; on {alpha, beta} + gamma the save goes through 12 states, completes with the new text visible and no
   sibling, and after it BOTH outcomes are still possible under a power loss (the rename is not durable before the journal
   commits: save_dict does not fsync the directory — a completed add may be reverted by a power loss, never torn) *)
Example C07_power_example :
  synced_safe lossy_prefix /\ may_lose_all lossy_prefix /\
  let st := prun (pfs_of pw_files, None, []) (save_effects UserP pw_new) in
  let s := fst (fst st) in
  length (preach (pfs_of pw_files, None, []) (save_effects UserP pw_new)) = 12 /\
  In s (preach (pfs_of pw_files, None, []) (save_effects UserP pw_new)) /\
  option_map (fun i => i_vol (ino_at i s)) (ns_get UserP (p_vis s)) = Some (serialize pw_new) /\
  ns_get (TmpP UserP) (p_vis s) = None /\
  pcrash_obs lossy_prefix s UserP (Some (Clean (serialize pw_new))) /\
  pcrash_obs lossy_prefix s UserP (Some (Clean (serialize [w_alpha; w_beta]))).
Proof. exact (conj lossy_prefix_safe (conj lossy_prefix_loses power_example)). Qed.

(* ================================================================================================== *)
(*  the open collision findings as exact classes (Model/C07Collide.v)                                   *)
(* ================================================================================================== *)

(* F20, exactly: two paths get the same dictionary file (or both none) iff their components, cut at every '%', give the
   same list of pieces — e.g. /a/b and /a%b (pieces a, b), /a%/b and /a/%b, /x%y%z and /x/y%z *)
Theorem C07_f20_class : forall p q : list N,
  file_dict_name (FileUrl p) = file_dict_name (FileUrl q) <-> pct_split (components p) = pct_split (components q).
Proof. exact f20_class. Qed.
Check C07_f20_class : forall p q : list N,
  file_dict_name (FileUrl p) = file_dict_name (FileUrl q) <-> pct_split (components p) = pct_split (components q).
Print Assumptions C07_f20_class.

(* ... decided by x_f20_collide, the classifier the harness applies to every pair of paths that share a dictionary file
   (a collision outside this class would be reported as a new failure; by this theorem there is none in the model) *)
Theorem C07_f20_class_dec : forall p q : list N,
  x_f20_collide p q = true <-> file_dict_name (FileUrl p) = file_dict_name (FileUrl q).
Proof. exact f20_class_dec. Qed.
Check C07_f20_class_dec : forall p q : list N,
  x_f20_collide p q = true <-> file_dict_name (FileUrl p) = file_dict_name (FileUrl q).
Print Assumptions C07_f20_class_dec.

(* F15 (reload side), exactly: after the adds pre ++ w :: post to one dictionary file (line-safe words, any start), w is among
   the words the file reloads to iff the LAST word of post with w's case-folded id, if there is one, is w itself *)
Theorem C07_f15_reload_class : forall (is_lower : N -> bool) (lower : N -> list N) (iter_order : list word -> list word),
  (forall l : list word, Permutation (iter_order l) l) ->
  forall (p : path) (s : fsys) (pre : list word) (w : word) (post : list word),
  fs_ok is_lower lower s -> is_tmp p = false -> Forall line_safe (pre ++ w :: post) ->
  In w (words_of (dict_at is_lower lower p (adds_to is_lower lower iter_order p (pre ++ w :: post) s))) <->
  (forall x : word, last_same_id is_lower lower (word_id is_lower lower w) post = Some x -> x = w).
Proof. exact f15_reload_class. Qed.
Check C07_f15_reload_class : forall (is_lower : N -> bool) (lower : N -> list N) (iter_order : list word -> list word),
  (forall l : list word, Permutation (iter_order l) l) ->
  forall (p : path) (s : fsys) (pre : list word) (w : word) (post : list word),
  fs_ok is_lower lower s -> is_tmp p = false -> Forall line_safe (pre ++ w :: post) ->
  In w (words_of (dict_at is_lower lower p (adds_to is_lower lower iter_order p (pre ++ w :: post) s))) <->
  (forall x : word, last_same_id is_lower lower (word_id is_lower lower w) post = Some x -> x = w).
Print Assumptions C07_f15_reload_class.

(* ... and that last word is the spelling the file holds instead *)
Theorem C07_f15_reload_winner : forall (is_lower : N -> bool) (lower : N -> list N) (iter_order : list word -> list word),
  (forall l : list word, Permutation (iter_order l) l) ->
  forall (p : path) (s : fsys) (pre : list word) (w : word) (post : list word) (x : word),
  fs_ok is_lower lower s -> is_tmp p = false -> Forall line_safe (pre ++ w :: post) ->
  last_same_id is_lower lower (word_id is_lower lower w) post = Some x ->
  In x (words_of (dict_at is_lower lower p (adds_to is_lower lower iter_order p (pre ++ w :: post) s))) /\
  word_id is_lower lower x = word_id is_lower lower w /\ In x post.
Proof. exact f15_reload_winner. Qed.
Check C07_f15_reload_winner : forall (is_lower : N -> bool) (lower : N -> list N) (iter_order : list word -> list word),
  (forall l : list word, Permutation (iter_order l) l) ->
  forall (p : path) (s : fsys) (pre : list word) (w : word) (post : list word) (x : word),
  fs_ok is_lower lower s -> is_tmp p = false -> Forall line_safe (pre ++ w :: post) ->
  last_same_id is_lower lower (word_id is_lower lower w) post = Some x ->
  In x (words_of (dict_at is_lower lower p (adds_to is_lower lower iter_order p (pre ++ w :: post) s))) /\
  word_id is_lower lower x = word_id is_lower lower w /\ In x post.
Print Assumptions C07_f15_reload_winner.
Example C07_f20_class_example :
  x_f20_collide p_a_b p_a_pct_b = true /\ x_f20_collide p_a_b [47; 97; 47; 99]%N = false /\
  x_f20_collide [47; 97; 37; 47; 98]%N [47; 97; 47; 37; 98]%N = true /\            (* /a%/b  vs  /a/%b *)
  x_f20_collide [47; 97; 47; 47; 98; 47]%N p_a_b = true /\                            (* /a//b/ is /a/b: the same file *)
  pct_split (components p_a_pct_b) = [[97]; [98]]%N.
Proof. vm_compute. repeat split. Qed.
Example C07_f15_reload_example :
  last_same_id a_is_lower a_lower (word_id a_is_lower a_lower w_zorgle) [w_alpha; w_Zorgle; w_beta] = Some w_Zorgle /\
  last_same_id a_is_lower a_lower (word_id a_is_lower a_lower w_zorgle) [w_Zorgle; w_zorgle] = Some w_zorgle /\
  last_same_id a_is_lower a_lower (word_id a_is_lower a_lower w_zorgle) [w_alpha] = None /\
  option_map words_of (load_dict a_is_lower a_lower UserP
     (adds_to a_is_lower a_lower id_order UserP ([] ++ w_zorgle :: [w_alpha; w_Zorgle; w_beta]) fs_empty)) = Some [w_Zorgle; w_alpha; w_beta].
Proof. vm_compute. repeat split. Qed.

(* ================================================================================================== *)
(*  phase 4: the remaining open findings as EXACT classes over the merged dictionary (Model/C07Class.v)  *)
(* ================================================================================================== *)
Require Import C07Class C07ClassProofs.

(* F15 (accept side), exactly: after the adds pre ++ w :: post to a dictionary in scope of u (line-safe words; any start, any
   curated dictionary, any other dictionary) w is REPORTED again iff the curated entry at its id is of another dialect (FC07b)
   or: the last later add with w's case-folded id is another spelling (f15_keepsb = false: it differs by more than the kind of
   apostrophe) AND no child has the lower-cased form of w AND no other child has w itself.  (Zorgle then zorgle: Zorgle stays
   accepted through the lower-cased form; zorgle then Zorgle: zorgle is reported.) *)
Theorem C07_f15_accept_class : forall (is_lower : N -> bool) (lower : N -> list N) (curated : dict) (iter_order : list word -> list word),
  (forall l : list word, Permutation (iter_order l) l) ->
  forall (p : path) (s : fsys) (pre : list word) (w : word) (post : list word) (u : url),
  fs_ok is_lower lower s -> is_tmp p = false -> Forall line_safe (pre ++ w :: post) ->
  p = UserP \/ (exists n : list N, file_dict_name u = Some n /\ p = FileP n) ->
  accepted is_lower lower (children is_lower lower curated (adds_to is_lower lower iter_order p (pre ++ w :: post) s) u) w = false <->
  dialect_okb is_lower lower curated w = false \/
  (f15_keepsb is_lower lower w post = false /\
   m_contains_exact is_lower lower (children is_lower lower curated (adds_to is_lower lower iter_order p (pre ++ w :: post) s) u)
     (to_lower is_lower lower w) = false /\
   (forall d : dict, In d (children is_lower lower curated (adds_to is_lower lower iter_order p (pre ++ w :: post) s) u) ->
      d <> dict_at is_lower lower p (adds_to is_lower lower iter_order p (pre ++ w :: post) s) ->
      contains_exact_word is_lower lower d w = false)).
Proof. exact f15_accept_class. Qed.
Check C07_f15_accept_class : forall (is_lower : N -> bool) (lower : N -> list N) (curated : dict) (iter_order : list word -> list word),
  (forall l : list word, Permutation (iter_order l) l) ->
  forall (p : path) (s : fsys) (pre : list word) (w : word) (post : list word) (u : url),
  fs_ok is_lower lower s -> is_tmp p = false -> Forall line_safe (pre ++ w :: post) ->
  p = UserP \/ (exists n : list N, file_dict_name u = Some n /\ p = FileP n) ->
  accepted is_lower lower (children is_lower lower curated (adds_to is_lower lower iter_order p (pre ++ w :: post) s) u) w = false <->
  dialect_okb is_lower lower curated w = false \/
  (f15_keepsb is_lower lower w post = false /\
   m_contains_exact is_lower lower (children is_lower lower curated (adds_to is_lower lower iter_order p (pre ++ w :: post) s) u)
     (to_lower is_lower lower w) = false /\
   (forall d : dict, In d (children is_lower lower curated (adds_to is_lower lower iter_order p (pre ++ w :: post) s) u) ->
      d <> dict_at is_lower lower p (adds_to is_lower lower iter_order p (pre ++ w :: post) s) ->
      contains_exact_word is_lower lower d w = false)).
Print Assumptions C07_f15_accept_class.

(* FC07b, exactly: C07_add_sequential WITHOUT its dialect premise — after AddWord sc w and any further history that is free of
   F15, the check of a document in scope accepts w iff the curated dictionary has no entry of another dialect at w's id
   (the first child of the merged dictionary wins for the metadata) *)
Theorem C07_fc07b_class : forall (is_lower : N -> bool) (lower : N -> list N) (curated : dict) (iter_order : list word -> list word),
  (forall l : list word, Permutation (iter_order l) l) ->
  forall (s0 : fsys) (h1 : list op) (sc : scope) (w : word) (h2 : list op) (u : url) (p : path),
  fs_ok is_lower lower s0 ->
  Forall op_safe (h1 ++ AddWord sc w :: h2) ->
  target sc = Some p ->
  (forall (o : op) (sc' : scope) (w' : word),
     In o h2 -> op_add o = Some (sc', w') -> target sc' = Some p ->
     word_id is_lower lower w' = word_id is_lower lower w -> normalized w' = normalized w) ->
  p = UserP \/ (exists n : list N, file_dict_name u = Some n /\ p = FileP n) ->
  accepted is_lower lower
    (children is_lower lower curated (run_fs is_lower lower curated iter_order s0 (h1 ++ AddWord sc w :: h2)) u) w =
  dialect_okb is_lower lower curated w.
Proof. exact fc07b_class. Qed.
Check C07_fc07b_class : forall (is_lower : N -> bool) (lower : N -> list N) (curated : dict) (iter_order : list word -> list word),
  (forall l : list word, Permutation (iter_order l) l) ->
  forall (s0 : fsys) (h1 : list op) (sc : scope) (w : word) (h2 : list op) (u : url) (p : path),
  fs_ok is_lower lower s0 ->
  Forall op_safe (h1 ++ AddWord sc w :: h2) ->
  target sc = Some p ->
  (forall (o : op) (sc' : scope) (w' : word),
     In o h2 -> op_add o = Some (sc', w') -> target sc' = Some p ->
     word_id is_lower lower w' = word_id is_lower lower w -> normalized w' = normalized w) ->
  p = UserP \/ (exists n : list N, file_dict_name u = Some n /\ p = FileP n) ->
  accepted is_lower lower
    (children is_lower lower curated (run_fs is_lower lower curated iter_order s0 (h1 ++ AddWord sc w :: h2)) u) w =
  dialect_okb is_lower lower curated w.
Print Assumptions C07_fc07b_class.

(* what the rule bodies see of a token t (get_word_metadata, get_correct_capitalization_of: the FIRST child with an entry at
   t's id) differs from what harper-core alone shows them ([curated] ++ idl; idl = the identifier dictionary of a source
   document, or nothing) iff the curated dictionary has no entry at t's id and the first of the user / file dictionaries that
   has one holds (x, default metadata) — x one of their words with t's id: t is a case variant of an ADDED word in scope — and
   the identifier dictionary does not say the same.  This is the harness's class `other-lints-changed:on-added-word`. *)
Theorem C07_view_class : forall (is_lower : N -> bool) (lower : N -> list N) (curated U F : dict) (idl : list dict) (t : word),
  dict_wf is_lower lower U -> dict_wf is_lower lower F ->
  m_get_meta is_lower lower ([curated; U; F] ++ idl) t <> m_get_meta is_lower lower ([curated] ++ idl) t <->
  lookup (word_id is_lower lower t) curated = None /\
  (exists x : word, first_uf is_lower lower U F t = Some (x, true) /\ word_id is_lower lower x = word_id is_lower lower t /\
     (In x (words_of U) \/ In x (words_of F)) /\ m_get_meta is_lower lower idl t <> Some (x, true)).
Proof. exact view_changes_iff. Qed.
Check C07_view_class : forall (is_lower : N -> bool) (lower : N -> list N) (curated U F : dict) (idl : list dict) (t : word),
  dict_wf is_lower lower U -> dict_wf is_lower lower F ->
  m_get_meta is_lower lower ([curated; U; F] ++ idl) t <> m_get_meta is_lower lower ([curated] ++ idl) t <->
  lookup (word_id is_lower lower t) curated = None /\
  (exists x : word, first_uf is_lower lower U F t = Some (x, true) /\ word_id is_lower lower x = word_id is_lower lower t /\
     (In x (words_of U) \/ In x (words_of F)) /\ m_get_meta is_lower lower idl t <> Some (x, true)).
Print Assumptions C07_view_class.

(* FC07e, exactly (plain document): the token metadata the rule predicates read changes (None -> Some default) for exactly the
   tokens that are case variants of an added word in scope and unknown to the curated dictionary *)
Theorem C07_fc07e_class : forall (is_lower : N -> bool) (lower : N -> list N) (curated U F : dict) (t : word),
  dict_wf is_lower lower U -> dict_wf is_lower lower F ->
  m_get_meta is_lower lower [curated; U; F] t <> m_get_meta is_lower lower [curated] t <->
  lookup (word_id is_lower lower t) curated = None /\
  (exists x : word, first_uf is_lower lower U F t = Some (x, true) /\ word_id is_lower lower x = word_id is_lower lower t /\
     (In x (words_of U) \/ In x (words_of F))).
Proof. exact fc07e_class. Qed.
Check C07_fc07e_class : forall (is_lower : N -> bool) (lower : N -> list N) (curated U F : dict) (t : word),
  dict_wf is_lower lower U -> dict_wf is_lower lower F ->
  m_get_meta is_lower lower [curated; U; F] t <> m_get_meta is_lower lower [curated] t <->
  lookup (word_id is_lower lower t) curated = None /\
  (exists x : word, first_uf is_lower lower U F t = Some (x, true) /\ word_id is_lower lower x = word_id is_lower lower t /\
     (In x (words_of U) \/ In x (words_of F))).
Print Assumptions C07_fc07e_class.

(* FC07d, exactly: SentenceCapitalization on a sentence-first token t (lower-case first letter), for ANY exemption function iu of
   the canonical spelling and any proper-noun flags of the curated entries: the lint DISAPPEARS against harper-core alone iff
   curated has no entry at t's id, the first of user / file with an entry spells it x with iu x (inner upper-case letter) and the
   identifier dictionary does not already silence it *)
Theorem C07_fc07d_disappears : forall (is_lower : N -> bool) (lower : N -> list N) (curated : dict) (iu cur_proper : word -> bool)
    (U F : dict) (idl : list dict) (t : word),
  dict_wf is_lower lower U -> dict_wf is_lower lower F ->
  cap_fires is_lower lower iu cur_proper curated idl t = true /\
  cap_fires is_lower lower iu cur_proper curated ([U; F] ++ idl) t = false <->
  lookup (word_id is_lower lower t) curated = None /\
  (exists x : word, first_uf is_lower lower U F t = Some (x, true) /\ word_id is_lower lower x = word_id is_lower lower t /\
     iu x = true /\ (forall e : entry, m_get_meta is_lower lower idl t = Some e -> iu (fst e) = false)).
Proof. exact fc07d_disappears. Qed.
Check C07_fc07d_disappears : forall (is_lower : N -> bool) (lower : N -> list N) (curated : dict) (iu cur_proper : word -> bool)
    (U F : dict) (idl : list dict) (t : word),
  dict_wf is_lower lower U -> dict_wf is_lower lower F ->
  cap_fires is_lower lower iu cur_proper curated idl t = true /\
  cap_fires is_lower lower iu cur_proper curated ([U; F] ++ idl) t = false <->
  lookup (word_id is_lower lower t) curated = None /\
  (exists x : word, first_uf is_lower lower U F t = Some (x, true) /\ word_id is_lower lower x = word_id is_lower lower t /\
     iu x = true /\ (forall e : entry, m_get_meta is_lower lower idl t = Some e -> iu (fst e) = false)).
Print Assumptions C07_fc07d_disappears.

(* FC07d-ident, exactly: the lint APPEARS iff curated has no entry, the identifier dictionary spells t's id with an inner
   upper-case letter (which silenced the lint) and the first of user / file — they come BEFORE the identifiers — spells it
   without one *)
Theorem C07_fc07d_appears : forall (is_lower : N -> bool) (lower : N -> list N) (curated : dict) (iu cur_proper : word -> bool)
    (U F : dict) (idl : list dict) (t : word),
  dict_wf is_lower lower U -> dict_wf is_lower lower F ->
  cap_fires is_lower lower iu cur_proper curated idl t = false /\
  cap_fires is_lower lower iu cur_proper curated ([U; F] ++ idl) t = true <->
  lookup (word_id is_lower lower t) curated = None /\
  (exists x : word, first_uf is_lower lower U F t = Some (x, true) /\ word_id is_lower lower x = word_id is_lower lower t /\
     iu x = false /\ (exists e : entry, m_get_meta is_lower lower idl t = Some e /\ iu (fst e) = true)).
Proof. exact fc07d_appears. Qed.
Check C07_fc07d_appears : forall (is_lower : N -> bool) (lower : N -> list N) (curated : dict) (iu cur_proper : word -> bool)
    (U F : dict) (idl : list dict) (t : word),
  dict_wf is_lower lower U -> dict_wf is_lower lower F ->
  cap_fires is_lower lower iu cur_proper curated idl t = false /\
  cap_fires is_lower lower iu cur_proper curated ([U; F] ++ idl) t = true <->
  lookup (word_id is_lower lower t) curated = None /\
  (exists x : word, first_uf is_lower lower U F t = Some (x, true) /\ word_id is_lower lower x = word_id is_lower lower t /\
     iu x = false /\ (exists e : entry, m_get_meta is_lower lower idl t = Some e /\ iu (fst e) = true)).
Print Assumptions C07_fc07d_appears.

(* ... so in a plain document (no identifier dictionary) it never appears: the fragment FC07d-ident is confined to source languages *)
Theorem C07_fc07d_plain_never_appears : forall (is_lower : N -> bool) (lower : N -> list N) (curated : dict) (iu cur_proper : word -> bool)
    (U F : dict) (t : word),
  dict_wf is_lower lower U -> dict_wf is_lower lower F ->
  ~ (cap_fires is_lower lower iu cur_proper curated [] t = false /\ cap_fires is_lower lower iu cur_proper curated [U; F] t = true).
Proof. exact fc07d_plain_never_appears. Qed.
Check C07_fc07d_plain_never_appears : forall (is_lower : N -> bool) (lower : N -> list N) (curated : dict) (iu cur_proper : word -> bool)
    (U F : dict) (t : word),
  dict_wf is_lower lower U -> dict_wf is_lower lower F ->
  ~ (cap_fires is_lower lower iu cur_proper curated [] t = false /\ cap_fires is_lower lower iu cur_proper curated [U; F] t = true).
Print Assumptions C07_fc07d_plain_never_appears.

(* non-vacuity: both orders of zorgle / Zorgle (computed; they agree with C07_f15_accept_class), FC07d in both directions *)
Example C07_f15_accept_example :
  f15_keepsb a_is_lower a_lower w_zorgle [w_Zorgle] = false /\
  accepted a_is_lower a_lower (children a_is_lower a_lower []
     (adds_to a_is_lower a_lower id_order UserP ([] ++ w_zorgle :: [w_Zorgle]) fs_empty) u_doc) w_zorgle = false /\
  f15_keepsb a_is_lower a_lower w_Zorgle [w_zorgle] = false /\
  m_contains_exact a_is_lower a_lower (children a_is_lower a_lower []
     (adds_to a_is_lower a_lower id_order UserP ([] ++ w_Zorgle :: [w_zorgle]) fs_empty) u_doc)
     (to_lower a_is_lower a_lower w_Zorgle) = true /\
  accepted a_is_lower a_lower (children a_is_lower a_lower []
     (adds_to a_is_lower a_lower id_order UserP ([] ++ w_Zorgle :: [w_zorgle]) fs_empty) u_doc) w_Zorgle = true /\
  f15_keepsb a_is_lower a_lower w_zorgle [w_Zorgle; w_alpha; w_zorgle] = true.
Proof. exact f15_accept_example. Qed.
(* ... and the theorem applied: zorgle, Zorgle — reported because of the second disjunct *)
Example C07_f15_accept_applies :
  accepted a_is_lower a_lower (children a_is_lower a_lower []
     (adds_to a_is_lower a_lower id_order UserP ([] ++ w_zorgle :: [w_Zorgle]) fs_empty) u_doc) w_zorgle = false.
Proof.
  apply (C07_f15_accept_class a_is_lower a_lower [] id_order id_order_perm UserP fs_empty [] w_zorgle [w_Zorgle] u_doc).
  - apply fs_ok_empty.
  - reflexivity.
  - repeat constructor.
  - now left.
  - right. split; [reflexivity|]. split; [reflexivity|].
    intros d Hd Hne. cbn [children In] in Hd. destruct Hd as [H|[H|[H|[]]]]; subst d; [reflexivity|now contradiction Hne|reflexivity].
Qed.
Example C07_fc07b_example :
  dialect_okb a_is_lower a_lower cur_colour w_colour = false /\ dialect_okb a_is_lower a_lower cur_colour w_zorgle = true.
Proof. vm_compute. split; reflexivity. Qed.
Example C07_fc07d_example :
  let U := extend_words a_is_lower a_lower [] [w_ZORGLE] in
  let I := extend_words a_is_lower a_lower [] [w_ZORGLE] in
  let U2 := extend_words a_is_lower a_lower [] [w_zorgle] in
  cap_fires a_is_lower a_lower iu_ascii (fun _ => false) [] [] w_zorgle = true /\
  cap_fires a_is_lower a_lower iu_ascii (fun _ => false) [] ([U; []] ++ []) w_zorgle = false /\
  cap_fires a_is_lower a_lower iu_ascii (fun _ => false) [] [I] w_zorgle = false /\
  cap_fires a_is_lower a_lower iu_ascii (fun _ => false) [] ([U2; []] ++ [I]) w_zorgle = true.
Proof. exact fc07d_example. Qed.

(* ================================================================================================== *)
(*  phase 4: the language of an open document (Model/C07Lang.v) — replaces the hypothesis `well_kinded`  *)
(* ================================================================================================== *)
Require Import C07Lang C07LangProofs.

(* the server keeps, per open document, the dictionaries of C07Ident AND the language id it was created with (or_insert_with:
   a later didOpen with another language id does not change it; didChange / didSave / the add commands' update carry none; an
   update of a url without state, or in a language without a parser, leaves no document; didClose, restart and crash drop the
   state).  For EVERY history of adds, crashed adds, restarts, didOpen (any language id), didChange, hidden updates and didClose:
   outputs, disk and stored languages are those of the reference lref, which keeps only the language per document and decides
   every check with the dictionary files as they are now (+ the identifiers of the text, read in the stored language).
   Only premise: whether a language has identifiers is a function of the language id (lop_ok; monitored). *)
Theorem C07_lang_transparent : forall (is_lower : N -> bool) (lower : N -> list N) (curated : dict) (iter_order : list word -> list word),
  (forall l : list word, Permutation (iter_order l) l) ->
  forall (src_lang : lang -> bool) (h : list lop) (s : fsys),
  Forall (lop_ok src_lang) h ->
  snd (lrun is_lower lower curated iter_order (s, [], []) h) = snd (lref is_lower lower curated iter_order (s, []) h) /\
  fst (fst (fst (lrun is_lower lower curated iter_order (s, [], []) h))) = fst (fst (lref is_lower lower curated iter_order (s, []) h)) /\
  snd (fst (lrun is_lower lower curated iter_order (s, [], []) h)) = snd (fst (lref is_lower lower curated iter_order (s, []) h)).
Proof. exact lang_transparent. Qed.
Check C07_lang_transparent : forall (is_lower : N -> bool) (lower : N -> list N) (curated : dict) (iter_order : list word -> list word),
  (forall l : list word, Permutation (iter_order l) l) ->
  forall (src_lang : lang -> bool) (h : list lop) (s : fsys),
  Forall (lop_ok src_lang) h ->
  snd (lrun is_lower lower curated iter_order (s, [], []) h) = snd (lref is_lower lower curated iter_order (s, []) h) /\
  fst (fst (fst (lrun is_lower lower curated iter_order (s, [], []) h))) = fst (fst (lref is_lower lower curated iter_order (s, []) h)) /\
  snd (fst (lrun is_lower lower curated iter_order (s, [], []) h)) = snd (fst (lref is_lower lower curated iter_order (s, []) h)).
Print Assumptions C07_lang_transparent.

(* ... hence: after ANY history h a didOpen of u with language id l is answered with the dictionary files as the add commands of h
   left them (run_fs over lbase h: C07_add_sequential applies), read in the language the document state of u ALREADY has — l only
   counts when u has no state; a language without a parser yields no diagnostics *)
Theorem C07_lang_check : forall (is_lower : N -> bool) (lower : N -> list N) (curated : dict) (iter_order : list word -> list word),
  (forall l : list word, Permutation (iter_order l) l) ->
  forall (src_lang : lang -> bool) (h : list lop) (s : fsys) (u : url) (l : lang) (a : alts),
  Forall (lop_ok src_lang) h -> alts_ok src_lang a ->
  let disk := run_fs is_lower lower curated iter_order s (lbase h) in
  let m := snd (fst (lref is_lower lower curated iter_order (s, []) h)) in
  snd (lrun is_lower lower curated iter_order (s, [], []) (h ++ [LOpen u l a])) =
  snd (lref is_lower lower curated iter_order (s, []) h) ++
  [match alt_of a (match aget u m with Some l0 => l0 | None => l end) with
   | APlain toks => flags is_lower lower (children is_lower lower curated disk u) toks
   | ASrc ids toks => flags is_lower lower (children is_lower lower curated disk u ++ [ident_dict is_lower lower ids]) toks
   | ANone => []
   end].
Proof. exact lang_check. Qed.
Check C07_lang_check : forall (is_lower : N -> bool) (lower : N -> list N) (curated : dict) (iter_order : list word -> list word),
  (forall l : list word, Permutation (iter_order l) l) ->
  forall (src_lang : lang -> bool) (h : list lop) (s : fsys) (u : url) (l : lang) (a : alts),
  Forall (lop_ok src_lang) h -> alts_ok src_lang a ->
  let disk := run_fs is_lower lower curated iter_order s (lbase h) in
  let m := snd (fst (lref is_lower lower curated iter_order (s, []) h)) in
  snd (lrun is_lower lower curated iter_order (s, [], []) (h ++ [LOpen u l a])) =
  snd (lref is_lower lower curated iter_order (s, []) h) ++
  [match alt_of a (match aget u m with Some l0 => l0 | None => l end) with
   | APlain toks => flags is_lower lower (children is_lower lower curated disk u) toks
   | ASrc ids toks => flags is_lower lower (children is_lower lower curated disk u ++ [ident_dict is_lower lower ids]) toks
   | ANone => []
   end].
Print Assumptions C07_lang_check.

(* non-vacuity / tie example: /m.rs opened as rust, re-opened as plaintext (still read as rust), zorgle added, closed, changed while
   closed (no document), opened as plaintext, re-opened in a language without parser (ignored), restart, opened in that language (no
   document), opened as rust: with per-document state and by the reference *)
Example C07_lang_example :
  Forall (lop_ok src_ex) h_lang /\
  snd (lrun a_is_lower a_lower [] id_order (fs_empty, [], []) h_lang) =
    [[false; true]; [false; true]; []; []; [false; false]; []; []; [true; false; true]; [true; false; true]; []; []; [false; false]] /\
  snd (lref a_is_lower a_lower [] id_order (fs_empty, []) h_lang) =
    [[false; true]; [false; true]; []; []; [false; false]; []; []; [true; false; true]; [true; false; true]; []; []; [false; false]].
Proof. exact lang_example. Qed.

(* ================================================================================================== *)
(*  crash, restart, further adds: the left-over temporary file (Model/C07CrashThen.v; seed c07-6)       *)
(* ================================================================================================== *)
Require Import Tables_c07save C07CrashThen C07CrashThenProofs.

(* the calls of save_dict as the translator reads them off dictionary_io.rs on every run (Tables_c07save.v: create_dir_all,
   File::create(&tmp_path) = create + TRUNCATE, flush, sync_all, rename(tmp, path); the module raises on OpenOptions & co.) are
   the non-write effects of the modelled save_effects, in order: the crash and power-loss theorems are about THIS sequence *)
Theorem C07_save_frame : forall (p : path) (ws : list word), frame_of (save_effects p ws) = save_dict_frame.
Proof. exact save_frame. Qed.
Check C07_save_frame : forall (p : path) (ws : list word), frame_of (save_effects p ws) = save_dict_frame.
Print Assumptions C07_save_frame.

(* the add of w dies at ANY crash point — whatever it leaves in <name>.tmp, complete, partial or torn — then ANY further completed
   adds ws to the same dictionary (shorter or longer words): the dictionary reloads to exactly old + ws or old + w + ws, the file
   system stays well-formed, and no temporary file is left *)
Theorem C07_crash_then_add : forall (is_lower : N -> bool) (lower : N -> list N) (iter_order : list word -> list word),
  (forall l : list word, Permutation (iter_order l) l) ->
  forall (p : path) (w : word) (s s' : fsys) (ws : list word),
  fs_ok is_lower lower s -> is_tmp p = false -> line_safe w -> Forall line_safe ws ->
  In s' (crash_states None (s, [])
           (save_effects p (words_iter iter_order (append_word is_lower lower (dict_at is_lower lower p s) w)))) ->
  (dict_equiv (dict_at is_lower lower p (adds_to is_lower lower iter_order p ws s'))
              (extend_words is_lower lower (dict_at is_lower lower p s) ws) \/
   dict_equiv (dict_at is_lower lower p (adds_to is_lower lower iter_order p ws s'))
              (extend_words is_lower lower (append_word is_lower lower (dict_at is_lower lower p s) w) ws)) /\
  fs_ok is_lower lower (adds_to is_lower lower iter_order p ws s') /\
  (ws <> [] -> fs_read (TmpP p) (adds_to is_lower lower iter_order p ws s') = None).
Proof. exact crash_then_add. Qed.
Check C07_crash_then_add : forall (is_lower : N -> bool) (lower : N -> list N) (iter_order : list word -> list word),
  (forall l : list word, Permutation (iter_order l) l) ->
  forall (p : path) (w : word) (s s' : fsys) (ws : list word),
  fs_ok is_lower lower s -> is_tmp p = false -> line_safe w -> Forall line_safe ws ->
  In s' (crash_states None (s, [])
           (save_effects p (words_iter iter_order (append_word is_lower lower (dict_at is_lower lower p s) w)))) ->
  (dict_equiv (dict_at is_lower lower p (adds_to is_lower lower iter_order p ws s'))
              (extend_words is_lower lower (dict_at is_lower lower p s) ws) \/
   dict_equiv (dict_at is_lower lower p (adds_to is_lower lower iter_order p ws s'))
              (extend_words is_lower lower (append_word is_lower lower (dict_at is_lower lower p s) w) ws)) /\
  fs_ok is_lower lower (adds_to is_lower lower iter_order p ws s') /\
  (ws <> [] -> fs_read (TmpP p) (adds_to is_lower lower iter_order p ws s') = None).
Print Assumptions C07_crash_then_add.

(* ... because the create truncates: whatever the temporary sibling holds before an add, every file is the same afterwards *)
Theorem C07_leftover_tmp_irrelevant : forall (is_lower : N -> bool) (lower : N -> list N) (iter_order : list word -> list word)
    (p : path) (w : word) (s : fsys) (c : content) (q : path),
  is_tmp p = false ->
  fs_read q (add_to is_lower lower iter_order p w (fs_write (TmpP p) c s)) = fs_read q (add_to is_lower lower iter_order p w s).
Proof. exact leftover_tmp_irrelevant. Qed.
Check C07_leftover_tmp_irrelevant : forall (is_lower : N -> bool) (lower : N -> list N) (iter_order : list word -> list word)
    (p : path) (w : word) (s : fsys) (c : content) (q : path),
  is_tmp p = false ->
  fs_read q (add_to is_lower lower iter_order p w (fs_write (TmpP p) c s)) = fs_read q (add_to is_lower lower iter_order p w s).
Print Assumptions C07_leftover_tmp_irrelevant.

(* the truncation is load-bearing (what-if over save_words_notrunc = OpenOptions write + create WITHOUT truncate; not the code):
   {alpha}; the add of fragilisticword dies in crash state 61 of 64 (after the flush: user.txt.tmp = "alpha\nfragilisticword\n");
   add zulu: the code reloads to {alpha, zulu}; without truncation to {alpha, zulu, listicword}; a longer later word hides it *)
Example C07_notrunc_refuted :
  let s1 := run_fs a_is_lower a_lower [] id_order s_alpha [CrashAdd SUser w_long crash_ix] in
  length (add_crash_states a_is_lower a_lower id_order SUser w_long s_alpha) = 64 /\
  fs_read (TmpP UserP) s1 = Some (Clean (serialize [w_alpha; w_long])) /\
  option_map words_of (load_dict a_is_lower a_lower UserP s1) = Some [w_alpha] /\
  option_map words_of (load_dict a_is_lower a_lower UserP (add_to a_is_lower a_lower id_order UserP w_zulu s1)) = Some [w_alpha; w_zulu] /\
  option_map words_of (load_dict a_is_lower a_lower UserP (add_to_notrunc a_is_lower a_lower id_order UserP w_zulu s1))
    = Some [w_alpha; w_zulu; [108; 105; 115; 116; 105; 99; 119; 111; 114; 100]%N] /\
  option_map words_of (load_dict a_is_lower a_lower UserP
     (add_to_notrunc a_is_lower a_lower id_order UserP (w_long ++ w_zulu) s1)) = Some [w_alpha; w_long ++ w_zulu].
Proof. exact notrunc_refuted. Qed.
(* non-vacuity of C07_crash_then_add on that crash state: further adds zulu, gamma *)
Example C07_crash_then_add_example :
  let s1 := nth crash_ix (add_crash_states a_is_lower a_lower id_order SUser w_long s_alpha) s_alpha in
  In s1 (crash_states None (s_alpha, [])
           (save_effects UserP (words_iter id_order (append_word a_is_lower a_lower (dict_at a_is_lower a_lower UserP s_alpha) w_long)))) /\
  option_map words_of (load_dict a_is_lower a_lower UserP (adds_to a_is_lower a_lower id_order UserP [w_zulu; w_gamma] s1))
    = Some [w_alpha; w_zulu; w_gamma] /\
  fs_read (TmpP UserP) (adds_to a_is_lower a_lower id_order UserP [w_zulu; w_gamma] s1) = None.
Proof. split; [apply nth_In; vm_compute; lia|vm_compute; split; reflexivity]. Qed.
