(* C07 — Words the user adds to a dictionary are accepted from then on and never lost.
   This file pins the statements; it contains nothing but `exact`.
   Model: Model/DictIO.v.  Unicode case mapping (is_lower, lower), the curated dictionary and the iteration
   order of the hash map are universally quantified; the only premise on them is that iteration is a
   permutation.  The `_refuted` theorems are concrete histories on which the faithful model violates the
   property text; each is replayed on the implementation by the harness (corpus/C07). *)
Require Import Base DictIO DictIOProofs.
From Coq Require Import Permutation.

(* save then load: the dictionary read back is the dictionary written (as a map id -> spelling), for
   words without LF that do not end in CR, whatever order the hash map iterates in *)
Theorem C07_save_load : forall (is_lower : N -> bool) (lower : N -> list N) (iter_order : list word -> list word),
  (forall l : list word, Permutation (iter_order l) l) ->
  forall (p : path) (d : dict) (s : fsys),
  dict_wf is_lower lower d -> Forall line_safe (words_of d) ->
  exists d' : dict,
    load_dict is_lower lower p (save_dict iter_order p d s) = Some d' /\
    dict_equiv d' d /\ dict_wf is_lower lower d' /\ Forall line_safe (words_of d').
Proof. exact save_load. Qed.
Check C07_save_load : forall (is_lower : N -> bool) (lower : N -> list N) (iter_order : list word -> list word),
  (forall l : list word, Permutation (iter_order l) l) ->
  forall (p : path) (d : dict) (s : fsys),
  dict_wf is_lower lower d -> Forall line_safe (words_of d) ->
  exists d' : dict,
    load_dict is_lower lower p (save_dict iter_order p d s) = Some d' /\
    dict_equiv d' d /\ dict_wf is_lower lower d' /\ Forall line_safe (words_of d').
Print Assumptions C07_save_load.

(* no crash: after `AddWord sc w` every later check of a document in scope accepts w — through any further
   adds, checks and restarts.  Excluded, each with its own _refuted witness below: typographic
   apostrophes (normalized w = w), a curated entry of another dialect, a later add of another spelling
   with the same case-folded id to the same file. *)
Theorem C07_add_sequential : forall (is_lower : N -> bool) (lower : N -> list N) (curated : dict)
    (iter_order : list word -> list word),
  (forall l : list word, Permutation (iter_order l) l) ->
  forall (s0 : fsys) (h1 : list op) (sc : scope) (w : word) (h2 : list op) (u : url) (p : path),
  fs_ok is_lower lower s0 ->
  Forall op_safe (h1 ++ AddWord sc w :: h2) ->
  normalized w = w ->
  (forall e : entry, lookup (word_id is_lower lower w) curated = Some e -> snd e = true) ->
  target sc = Some p ->
  (forall (sc' : scope) (w' : word),
     In (AddWord sc' w') h2 -> target sc' = Some p ->
     word_id is_lower lower w' = word_id is_lower lower w -> w' = w) ->
  p = UserP \/ (exists n : list N, file_dict_name u = Some n /\ p = FileP n) ->
  accepted is_lower lower
    (children is_lower lower curated (run_fs is_lower lower curated iter_order s0 (h1 ++ AddWord sc w :: h2)) u) w = true.
Proof. exact add_sequential. Qed.
Check C07_add_sequential : forall (is_lower : N -> bool) (lower : N -> list N) (curated : dict)
    (iter_order : list word -> list word),
  (forall l : list word, Permutation (iter_order l) l) ->
  forall (s0 : fsys) (h1 : list op) (sc : scope) (w : word) (h2 : list op) (u : url) (p : path),
  fs_ok is_lower lower s0 ->
  Forall op_safe (h1 ++ AddWord sc w :: h2) ->
  normalized w = w ->
  (forall e : entry, lookup (word_id is_lower lower w) curated = Some e -> snd e = true) ->
  target sc = Some p ->
  (forall (sc' : scope) (w' : word),
     In (AddWord sc' w') h2 -> target sc' = Some p ->
     word_id is_lower lower w' = word_id is_lower lower w -> w' = w) ->
  p = UserP \/ (exists n : list N, file_dict_name u = Some n /\ p = FileP n) ->
  accepted is_lower lower
    (children is_lower lower curated (run_fs is_lower lower curated iter_order s0 (h1 ++ AddWord sc w :: h2)) u) w = true.
Print Assumptions C07_add_sequential.

(* a file-dictionary word leaves every check of a document with another dictionary file unchanged *)
Theorem C07_file_scope : forall (is_lower : N -> bool) (lower : N -> list N) (curated : dict)
    (iter_order : list word -> list word) (u0 : url) (n : list N) (w : word) (s : fsys) (u : url) (toks : list word),
  file_dict_name u0 = Some n -> file_dict_name u <> Some n ->
  lint is_lower lower curated (add_word is_lower lower iter_order (SFile u0) w s) u toks =
  lint is_lower lower curated s u toks.
Proof. exact file_scope. Qed.
Check C07_file_scope : forall (is_lower : N -> bool) (lower : N -> list N) (curated : dict)
    (iter_order : list word -> list word) (u0 : url) (n : list N) (w : word) (s : fsys) (u : url) (toks : list word),
  file_dict_name u0 = Some n -> file_dict_name u <> Some n ->
  lint is_lower lower curated (add_word is_lower lower iter_order (SFile u0) w s) u toks =
  lint is_lower lower curated s u toks.
Print Assumptions C07_file_scope.

(* the spelling verdict on a word with another id does not change ("all other lints unchanged", as far
   as the dictionary decides them; rule bodies are reached by the search only) *)
Theorem C07_other_words_unchanged : forall (is_lower : N -> bool) (lower : N -> list N) (curated : dict)
    (iter_order : list word -> list word),
  (forall l : list word, Permutation (iter_order l) l) ->
  forall (sc : scope) (w : word) (s : fsys) (u : url) (t : word),
  fs_ok is_lower lower s -> line_safe w ->
  word_id is_lower lower t <> word_id is_lower lower w ->
  word_id is_lower lower (to_lower is_lower lower t) <> word_id is_lower lower w ->
  accepted is_lower lower (children is_lower lower curated (add_word is_lower lower iter_order sc w s) u) t =
  accepted is_lower lower (children is_lower lower curated s u) t.
Proof. exact other_words_unchanged. Qed.
Check C07_other_words_unchanged : forall (is_lower : N -> bool) (lower : N -> list N) (curated : dict)
    (iter_order : list word -> list word),
  (forall l : list word, Permutation (iter_order l) l) ->
  forall (sc : scope) (w : word) (s : fsys) (u : url) (t : word),
  fs_ok is_lower lower s -> line_safe w ->
  word_id is_lower lower t <> word_id is_lower lower w ->
  word_id is_lower lower (to_lower is_lower lower t) <> word_id is_lower lower w ->
  accepted is_lower lower (children is_lower lower curated (add_word is_lower lower iter_order sc w s) u) t =
  accepted is_lower lower (children is_lower lower curated s u) t.
Print Assumptions C07_other_words_unchanged.

(* file_dict_name is injective (up to Path::components normalisation) on paths without '%' *)
Theorem C07_file_dict_name_inj : forall p q : list N,
  Forall no_pct (components p) -> Forall no_pct (components q) ->
  file_dict_name (FileUrl p) = file_dict_name (FileUrl q) -> components p = components q.
Proof. exact file_dict_name_inj. Qed.
Check C07_file_dict_name_inj : forall p q : list N,
  Forall no_pct (components p) -> Forall no_pct (components q) ->
  file_dict_name (FileUrl p) = file_dict_name (FileUrl q) -> components p = components q.
Print Assumptions C07_file_dict_name_inj.

(* F20: /a/b and /a%b share the dictionary file a%b%, so a word added for one is accepted in the other *)
Theorem C07_file_dict_name_refuted :
  (components p_a_b <> components p_a_pct_b /\
   file_dict_name (FileUrl p_a_b) = file_dict_name (FileUrl p_a_pct_b)) /\
  (let s := run_fs a_is_lower a_lower [] id_order fs_empty [AddWord (SFile (FileUrl p_a_b)) w_zorgle] in
   accepted a_is_lower a_lower (children a_is_lower a_lower [] fs_empty (FileUrl p_a_pct_b)) w_zorgle = false /\
   accepted a_is_lower a_lower (children a_is_lower a_lower [] s (FileUrl p_a_pct_b)) w_zorgle = true).
Proof. exact (conj file_dict_name_refuted file_scope_refuted). Qed.
Check C07_file_dict_name_refuted :
  (components p_a_b <> components p_a_pct_b /\
   file_dict_name (FileUrl p_a_b) = file_dict_name (FileUrl p_a_pct_b)) /\
  (let s := run_fs a_is_lower a_lower [] id_order fs_empty [AddWord (SFile (FileUrl p_a_b)) w_zorgle] in
   accepted a_is_lower a_lower (children a_is_lower a_lower [] fs_empty (FileUrl p_a_pct_b)) w_zorgle = false /\
   accepted a_is_lower a_lower (children a_is_lower a_lower [] s (FileUrl p_a_pct_b)) w_zorgle = true).
Print Assumptions C07_file_dict_name_refuted.

(* what a crash during save_dict can leave in the target file: exactly the old content or a prefix of the
   new one (decision function used by the correspondence on real crash points) *)
Theorem C07_crash_states_spec : forall (p : path) (ws : list word) (s : fsys) (obs : option content),
  crash_possibleb (fs_read p s) (serialize ws) obs = true <->
  (exists s' : fsys, In s' (crash_states None (s, []) (save_effects p ws)) /\ fs_read p s' = obs).
Proof. exact crash_possibleb_spec. Qed.
Check C07_crash_states_spec : forall (p : path) (ws : list word) (s : fsys) (obs : option content),
  crash_possibleb (fs_read p s) (serialize ws) obs = true <->
  (exists s' : fsys, In s' (crash_states None (s, []) (save_effects p ws)) /\ fs_read p s' = obs).
Print Assumptions C07_crash_states_spec.

(* F14: a crash between File::create and the first write reloads to the EMPTY dictionary *)
Theorem C07_crash_refuted :
  let s0 := run_fs a_is_lower a_lower [] id_order fs_empty [AddWord SUser w_alpha; AddWord SUser w_beta] in
  option_map words_of (load_dict a_is_lower a_lower UserP s0) = Some [w_alpha; w_beta] /\
  exists i, option_map words_of (load_dict a_is_lower a_lower UserP
              (run_fs a_is_lower a_lower [] id_order s0 [CrashAdd SUser w_gamma i])) = Some [].
Proof. exact crash_refuted. Qed.
Check C07_crash_refuted :
  let s0 := run_fs a_is_lower a_lower [] id_order fs_empty [AddWord SUser w_alpha; AddWord SUser w_beta] in
  option_map words_of (load_dict a_is_lower a_lower UserP s0) = Some [w_alpha; w_beta] /\
  exists i, option_map words_of (load_dict a_is_lower a_lower UserP
              (run_fs a_is_lower a_lower [] id_order s0 [CrashAdd SUser w_gamma i])) = Some [].
Print Assumptions C07_crash_refuted.

(* F15: add zorgle, then Zorgle: one entry is left and zorgle is reported again *)
Theorem C07_case_refuted :
  let s := run_fs a_is_lower a_lower [] id_order fs_empty [AddWord SUser w_zorgle; AddWord SUser w_Zorgle] in
  accepted a_is_lower a_lower (children a_is_lower a_lower []
     (run_fs a_is_lower a_lower [] id_order fs_empty [AddWord SUser w_zorgle]) u_doc) w_zorgle = true /\
  accepted a_is_lower a_lower (children a_is_lower a_lower [] s u_doc) w_zorgle = false /\
  option_map words_of (load_dict a_is_lower a_lower UserP s) = Some [w_Zorgle].
Proof. exact case_refuted. Qed.
Check C07_case_refuted :
  let s := run_fs a_is_lower a_lower [] id_order fs_empty [AddWord SUser w_zorgle; AddWord SUser w_Zorgle] in
  accepted a_is_lower a_lower (children a_is_lower a_lower []
     (run_fs a_is_lower a_lower [] id_order fs_empty [AddWord SUser w_zorgle]) u_doc) w_zorgle = true /\
  accepted a_is_lower a_lower (children a_is_lower a_lower [] s u_doc) w_zorgle = false /\
  option_map words_of (load_dict a_is_lower a_lower UserP s) = Some [w_Zorgle].
Print Assumptions C07_case_refuted.

(* a "word" with a line feed reloads as two other words *)
Theorem C07_newline_refuted :
  option_map words_of (load_dict a_is_lower a_lower UserP
     (run_fs a_is_lower a_lower [] id_order fs_empty [AddWord SUser w_flurb_nl])) = Some [w_fl; w_urb].
Proof. exact newline_refuted. Qed.
Check C07_newline_refuted :
  option_map words_of (load_dict a_is_lower a_lower UserP
     (run_fs a_is_lower a_lower [] id_order fs_empty [AddWord SUser w_flurb_nl])) = Some [w_fl; w_urb].
Print Assumptions C07_newline_refuted.

(* new finding: a word with a typographic apostrophe is still reported after it was added *)
Theorem C07_apostrophe_refuted :
  line_safe w_blorfs /\
  accepted a_is_lower a_lower (children a_is_lower a_lower []
     (run_fs a_is_lower a_lower [] id_order fs_empty [AddWord SUser w_blorfs]) u_doc) w_blorfs = false.
Proof. exact apostrophe_refuted. Qed.
Check C07_apostrophe_refuted :
  line_safe w_blorfs /\
  accepted a_is_lower a_lower (children a_is_lower a_lower []
     (run_fs a_is_lower a_lower [] id_order fs_empty [AddWord SUser w_blorfs]) u_doc) w_blorfs = false.
Print Assumptions C07_apostrophe_refuted.

(* new finding: a word the curated dictionary lists for another dialect stays reported *)
Theorem C07_dialect_refuted :
  accepted a_is_lower a_lower
    (children a_is_lower a_lower cur_colour
       (run_fs a_is_lower a_lower cur_colour id_order fs_empty [AddWord SUser w_colour]) u_doc) w_colour = false.
Proof. exact dialect_refuted. Qed.
Check C07_dialect_refuted :
  accepted a_is_lower a_lower
    (children a_is_lower a_lower cur_colour
       (run_fs a_is_lower a_lower cur_colour id_order fs_empty [AddWord SUser w_colour]) u_doc) w_colour = false.
Print Assumptions C07_dialect_refuted.

(* F15, harper-wasm half: import Zorgle, then zorgle: the word count does not grow, the lint dictionary is
   not rebuilt, zorgle is reported although it was just imported *)
Theorem C07_wasm_resync_refuted :
  x_wasm tb_zorgle [] [WImport [w_Zorgle]; WImport [w_zorgle]; WLint [w_zorgle]; WExport]
  = [WONone; WONone; WOFlags [true]; WOWords [w_zorgle]].
Proof. exact wasm_resync_refuted. Qed.
Check C07_wasm_resync_refuted :
  x_wasm tb_zorgle [] [WImport [w_Zorgle]; WImport [w_zorgle]; WLint [w_zorgle]; WExport]
  = [WONone; WONone; WOFlags [true]; WOWords [w_zorgle]].
Print Assumptions C07_wasm_resync_refuted.

(* the proposed repair (fixes/F14.diff): with write-temp-then-rename every crash state holds the old or
   the complete new file, so a crash during an add loses at most the word being added *)
Theorem C07_atomic_save : forall (p : path) (ws : list word) (s s' : fsys),
  In s' (crash_states None (s, []) (atomic_save_effects p ws)) ->
  fs_read p s' = fs_read p s \/ fs_read p s' = Some (Clean (serialize ws)).
Proof. exact atomic_crash. Qed.
Check C07_atomic_save : forall (p : path) (ws : list word) (s s' : fsys),
  In s' (crash_states None (s, []) (atomic_save_effects p ws)) ->
  fs_read p s' = fs_read p s \/ fs_read p s' = Some (Clean (serialize ws)).
Print Assumptions C07_atomic_save.

Theorem C07_atomic_add_crash : forall (is_lower : N -> bool) (lower : N -> list N) (iter_order : list word -> list word),
  (forall l : list word, Permutation (iter_order l) l) ->
  forall (p : path) (w : word) (s s' : fsys),
  fs_ok is_lower lower s -> line_safe w ->
  In s' (crash_states None (s, [])
           (atomic_save_effects p (words_iter iter_order (append_word is_lower lower (dict_at is_lower lower p s) w)))) ->
  dict_at is_lower lower p s' = dict_at is_lower lower p s \/
  dict_equiv (dict_at is_lower lower p s') (append_word is_lower lower (dict_at is_lower lower p s) w).
Proof. exact atomic_add_crash. Qed.
Check C07_atomic_add_crash : forall (is_lower : N -> bool) (lower : N -> list N) (iter_order : list word -> list word),
  (forall l : list word, Permutation (iter_order l) l) ->
  forall (p : path) (w : word) (s s' : fsys),
  fs_ok is_lower lower s -> line_safe w ->
  In s' (crash_states None (s, [])
           (atomic_save_effects p (words_iter iter_order (append_word is_lower lower (dict_at is_lower lower p s) w)))) ->
  dict_at is_lower lower p s' = dict_at is_lower lower p s \/
  dict_equiv (dict_at is_lower lower p s') (append_word is_lower lower (dict_at is_lower lower p s) w).
Print Assumptions C07_atomic_add_crash.

(* the per-document linter cache: after an add of a non-empty word with a new id the hashed stream of the
   changed child differs (it is longer) for every pair of iteration orders, so update_document builds a new
   linter.  Partial: the empty word and a same-id replacement are not covered; the second can collide
   (C07_merge_rebuild_same_id_refuted) *)
Theorem C07_merge_rebuild_partial : forall (is_lower : N -> bool) (lower : N -> list N) (o1 o2 : list word -> list word),
  (forall l, Permutation (o1 l) l) -> (forall l, Permutation (o2 l) l) ->
  forall (d : dict) (w : word),
  lookup (word_id is_lower lower w) d = None -> w <> [] ->
  child_stream o1 d <> child_stream o2 (append_word is_lower lower d w).
Proof. exact merge_rebuild_partial. Qed.
Check C07_merge_rebuild_partial : forall (is_lower : N -> bool) (lower : N -> list N) (o1 o2 : list word -> list word),
  (forall l, Permutation (o1 l) l) -> (forall l, Permutation (o2 l) l) ->
  forall (d : dict) (w : word),
  lookup (word_id is_lower lower w) d = None -> w <> [] ->
  child_stream o1 d <> child_stream o2 (append_word is_lower lower d w).
Print Assumptions C07_merge_rebuild_partial.

Theorem C07_merge_rebuild_same_id_refuted :
  exists (d : dict) (w : word) (o1 o2 : list word -> list word),
    (forall l, Permutation (o1 l) l) /\ (forall l, Permutation (o2 l) l) /\
    words_of (append_word a_is_lower a_lower d w) <> words_of d /\
    child_stream o1 d = child_stream o2 (append_word a_is_lower a_lower d w).
Proof. exact merge_rebuild_refuted_same_id. Qed.
Check C07_merge_rebuild_same_id_refuted :
  exists (d : dict) (w : word) (o1 o2 : list word -> list word),
    (forall l, Permutation (o1 l) l) /\ (forall l, Permutation (o2 l) l) /\
    words_of (append_word a_is_lower a_lower d w) <> words_of d /\
    child_stream o1 d = child_stream o2 (append_word a_is_lower a_lower d w).
Print Assumptions C07_merge_rebuild_same_id_refuted.

(* ---- non-vacuity: the hypotheses of the positive theorems hold on non-trivial inputs ---- *)
Definition h_before : list op := [LintDoc u_doc [w_zorgle; w_alpha]; AddWord (SFile u_doc) w_beta].
Definition h_after : list op :=
  [Restart; AddWord SUser w_alpha; AddWord (SFile u_doc) w_Zorgle; LintDoc u_doc [w_zorgle]; Restart].
(* C07_add_sequential applies to this history (premises discharged) ... *)
Example C07_add_sequential_applies :
  accepted a_is_lower a_lower
    (children a_is_lower a_lower [] (run_fs a_is_lower a_lower [] id_order fs_empty (h_before ++ AddWord SUser w_zorgle :: h_after)) u_doc)
    w_zorgle = true.
Proof.
  apply (C07_add_sequential a_is_lower a_lower [] id_order id_order_perm fs_empty h_before SUser w_zorgle h_after u_doc UserP).
  - apply fs_ok_empty.
  - repeat constructor.
  - reflexivity.
  - intros e H. discriminate.
  - reflexivity.
  - intros sc' w' Hin Ht Hid. unfold h_after in Hin. cbn [In] in Hin.
    destruct Hin as [H|[H|[H|[H|[H|[]]]]]]; try discriminate; inversion H; subst; try discriminate;
      vm_compute in Hid; discriminate.
  - now left.
Qed.
(* ... and its conclusion is what the model computes *)
Example C07_add_sequential_computes :
  snd (run a_is_lower a_lower [] id_order fs_empty (h_before ++ AddWord SUser w_zorgle :: h_after))
  = [[true; true]; []; []; []; []; []; [false]; []].
Proof. vm_compute. reflexivity. Qed.
Example C07_save_load_example :
  let d := append_word a_is_lower a_lower (append_word a_is_lower a_lower [] w_zorgle) w_alpha in
  dict_wf a_is_lower a_lower d /\ Forall line_safe (words_of d) /\
  option_map words_of (load_dict a_is_lower a_lower UserP (save_dict (@rev word) UserP d fs_empty)) = Some [w_alpha; w_zorgle].
Proof.
  split; [apply wf_append, wf_append, wf_nil|]. split; [repeat constructor|]. vm_compute. reflexivity.
Qed.
Example C07_file_dict_name_inj_example :
  Forall no_pct (components p_a_b) /\ components p_a_b = [[97%N]; [98%N]] /\ x_name p_a_b = [97; 37; 98; 37]%N.
Proof. split; [|split]; [|reflexivity|reflexivity]. vm_compute. repeat constructor; intros [H|[]]; discriminate. Qed.
Example C07_atomic_example :
  let s0 := run_fs a_is_lower a_lower [] id_order fs_empty [AddWord SUser w_alpha; AddWord SUser w_beta] in
  let ws := words_iter id_order (append_word a_is_lower a_lower (dict_at a_is_lower a_lower UserP s0) w_gamma) in
  length (crash_states None (s0, []) (atomic_save_effects UserP ws)) = 76 /\
  forallb (fun s' => match fs_read UserP s' with
                     | Some c => content_eqb c (Clean (serialize [w_alpha; w_beta])) || content_eqb c (Clean (serialize ws))
                     | None => false end)
          (crash_states None (s0, []) (atomic_save_effects UserP ws)) = true /\
  fs_read UserP (atomic_save_words UserP ws s0) = Some (Clean (serialize ws)).
Proof. vm_compute. repeat split. Qed.
Example C07_merge_rebuild_example :
  lookup (word_id a_is_lower a_lower w_gamma) (append_word a_is_lower a_lower [] w_alpha) = None /\
  child_stream id_order (append_word a_is_lower a_lower [] w_alpha) = w_alpha /\
  child_stream (@rev word) (append_word a_is_lower a_lower (append_word a_is_lower a_lower [] w_alpha) w_gamma) = w_gamma ++ w_alpha.
Proof. vm_compute. repeat split. Qed.
