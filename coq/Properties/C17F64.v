(* C17 — the f64 premise ("numbers below 2^53 survive the trip through f64") as theorems.
   Separate from Properties/C17.v because these statements are about IEEE 754 binary64 (Flocq 4.1,
   IEEE754.BinarySingleNaN with prec = 53, emax = 1024) and therefore depend on the axioms of Coq's classical real
   numbers (Print Assumptions below lists exactly: ClassicalDedekindReals.sig_not_dec, sig_forall_dec,
   FunctionalExtensionality.functional_extensionality_dep, Classical_Prop.classic) — DESIGN §7 names them for this
   purpose.  Properties/C17.v stays closed under the global context.
   This file pins the statements; it contains nothing but `exact` (+ non-vacuity Examples). *)
Require Import Base Overlap Suggestion Tables_number Number NumberArith NumberLex NumberPasses NumberProofs.
Require Import C17Float C17FloatLink.
From Coq Require Import String List ZArith NArith Bool Reals.
From Flocq Require Import Core BinarySingleNaN.
Import ListNotations.
Local Open Scope string_scope.
Local Open Scope list_scope.

(* A digit string D denoting n = parse_dec D < 2^53.  `dec_real D` is the real number the string denotes
   (Horner over R); binary64 = generic_format radix2 (fexp 53 1024).  The string's value is n, it IS a binary64
   value, rounding it to nearest-even changes nothing, `f64_of_N n` (= binary_normalize mode_NE n 0) is a finite
   datum with that value, and it is the only non-negative finite datum whose value is the correctly rounded value
   of the string: whatever a correctly rounding parser returns for D is `f64_of_N n`.
   (Remaining hypothesis about Rust, monitored: str::parse::<f64> is correctly rounded — monitor f64_parse_bits.) *)
Theorem C17_f64_parse_exact : forall D : text,
  Forall (fun c => is_ascii_digit c = true) D -> (parse_dec D < two53)%N ->
  dec_real D = IZR (Z.of_N (parse_dec D))
  /\ generic_format radix2 (SpecFloat.fexp 53 1024) (dec_real D)
  /\ round radix2 (SpecFloat.fexp 53 1024) ZnearestE (dec_real D) = dec_real D
  /\ B2R (f64_of_N (parse_dec D)) = dec_real D
  /\ is_finite (f64_of_N (parse_dec D)) = true
  /\ (forall y : f64, is_finite y = true -> Bsign y = false ->
        B2R y = round radix2 (SpecFloat.fexp 53 1024) ZnearestE (dec_real D) -> y = f64_of_N (parse_dec D)).
Proof. exact f64_parse_exact. Qed.
Check C17_f64_parse_exact : forall D : text,
  Forall (fun c => is_ascii_digit c = true) D -> (parse_dec D < two53)%N ->
  dec_real D = IZR (Z.of_N (parse_dec D))
  /\ generic_format radix2 (SpecFloat.fexp 53 1024) (dec_real D)
  /\ round radix2 (SpecFloat.fexp 53 1024) ZnearestE (dec_real D) = dec_real D
  /\ B2R (f64_of_N (parse_dec D)) = dec_real D
  /\ is_finite (f64_of_N (parse_dec D)) = true
  /\ (forall y : f64, is_finite y = true -> Bsign y = false ->
        B2R y = round radix2 (SpecFloat.fexp 53 1024) ZnearestE (dec_real D) -> y = f64_of_N (parse_dec D)).
Print Assumptions C17_f64_parse_exact.

(* NumberSuffix::correct_suffix_for on that datum, operation by operation as number.rs performs them:
   `number < 0.0` false; `number - number.floor() > f64::EPSILON` false; `number > u64::MAX as f64` false;
   `number as u64` = n; `integer % 100` = n mod 100; `integer % 10` = n mod 10; result = the English suffix. *)
Theorem C17_f64_suffix_exact : forall n : N, (n < two53)%N ->
  f64_lt (f64_of_N n) f64_zero = false
  /\ f64_lt f64_epsilon (f64_sub (f64_of_N n) (f64_floor (f64_of_N n))) = false
  /\ f64_lt f64_u64max (f64_of_N n) = false
  /\ f64_to_u64 (f64_of_N n) = n
  /\ (f64_to_u64 (f64_of_N n) mod 100 = n mod 100)%N
  /\ (f64_to_u64 (f64_of_N n) mod 10 = n mod 10)%N
  /\ correct_suffix_for_f64 (f64_of_N n) = Some (ordinal n).
Proof. exact f64_suffix_exact. Qed.
Check C17_f64_suffix_exact : forall n : N, (n < two53)%N ->
  f64_lt (f64_of_N n) f64_zero = false
  /\ f64_lt f64_epsilon (f64_sub (f64_of_N n) (f64_floor (f64_of_N n))) = false
  /\ f64_lt f64_u64max (f64_of_N n) = false
  /\ f64_to_u64 (f64_of_N n) = n
  /\ (f64_to_u64 (f64_of_N n) mod 100 = n mod 100)%N
  /\ (f64_to_u64 (f64_of_N n) mod 10 = n mod 10)%N
  /\ correct_suffix_for_f64 (f64_of_N n) = Some (ordinal n).
Print Assumptions C17_f64_suffix_exact.

(* C17_lint_iff with the rule computing on binary64 values (lint_text64 / rule64: the value of a Number token is the
   correctly rounded datum of its literal, correct_suffix_for is correct_suffix_for_f64).  Same hypotheses, same
   conclusion: `n < 2^53` is used through C17_f64_suffix_exact, no longer as a modelling convention. *)
Theorem C17_lint_iff_f64 :
  forall (U : uni) (ut : text -> nat) (et : text -> nat -> option nat) (pp : text -> list token -> list token),
  ascii_laws U -> numbers_preserved pp ->
  forall (n : N) (a b : N) (sx : suffix) (pre post : text),
  (n < two53)%N -> from_chars [a; b] = Some sx ->
  ctx_ok U pre (render n) [a; b] post = true ->
  exists ls, lint_text64 U ut et pp (pre ++ render n ++ [a; b] ++ post) = Ok (Some ls)
    /\ (ls = [] <-> sx = ordinal n)
    /\ (sx <> ordinal n ->
        ls = [mkmlint (mkspan (length pre + length (render n)) (length pre + length (render n) + 2))
                      [ReplaceWith (to_chars (ordinal n))]]).
Proof. exact lint_iff64_thm. Qed.
Check C17_lint_iff_f64 :
  forall (U : uni) (ut : text -> nat) (et : text -> nat -> option nat) (pp : text -> list token -> list token),
  ascii_laws U -> numbers_preserved pp ->
  forall (n : N) (a b : N) (sx : suffix) (pre post : text),
  (n < two53)%N -> from_chars [a; b] = Some sx ->
  ctx_ok U pre (render n) [a; b] post = true ->
  exists ls, lint_text64 U ut et pp (pre ++ render n ++ [a; b] ++ post) = Ok (Some ls)
    /\ (ls = [] <-> sx = ordinal n)
    /\ (sx <> ordinal n ->
        ls = [mkmlint (mkspan (length pre + length (render n)) (length pre + length (render n) + 2))
                      [ReplaceWith (to_chars (ordinal n))]]).
Print Assumptions C17_lint_iff_f64.

(* the same for any digit string (leading zeros) of value below 2^53 *)
Theorem C17_lint_digits_f64 :
  forall (U : uni) (ut : text -> nat) (et : text -> nat -> option nat) (pp : text -> list token -> list token),
  ascii_laws U -> numbers_preserved pp ->
  forall (D : text) (a b : N) (sx : suffix) (pre post : text),
  D <> [] -> Forall (fun c => is_ascii_digit c = true) D -> (parse_dec D < two53)%N ->
  from_chars [a; b] = Some sx -> ctx_ok U pre D [a; b] post = true ->
  lint_text64 U ut et pp (pre ++ D ++ [a; b] ++ post) = Ok (Some (expected pre D sx (parse_dec D))).
Proof. exact lint_digits64_thm. Qed.
Check C17_lint_digits_f64 :
  forall (U : uni) (ut : text -> nat) (et : text -> nat -> option nat) (pp : text -> list token -> list token),
  ascii_laws U -> numbers_preserved pp ->
  forall (D : text) (a b : N) (sx : suffix) (pre post : text),
  D <> [] -> Forall (fun c => is_ascii_digit c = true) D -> (parse_dec D < two53)%N ->
  from_chars [a; b] = Some sx -> ctx_ok U pre D [a; b] post = true ->
  lint_text64 U ut et pp (pre ++ D ++ [a; b] ++ post) = Ok (Some (expected pre D sx (parse_dec D))).
Print Assumptions C17_lint_digits_f64.

(* on token lists whose Number tokens carry integers below 2^53 the f64 rule and the N rule agree *)
Theorem C17_rule64_rule : forall l : list token, small_values l -> rule64 l = rule l.
Proof. exact rule64_rule. Qed.
Check C17_rule64_rule : forall l : list token, small_values l -> rule64 l = rule l.
Print Assumptions C17_rule64_rule.

(* the bound 2^53 of the property is sharp: 2^53 + 1 is not a binary64 value, the cast yields 2^53 and the code
   answers `nd` where English says `rd` (by design of the premise, not a finding) *)
Theorem C17_f64_bound_sharp :
  f64_to_u64 (f64_of_N 9007199254740993) = 9007199254740992%N
  /\ correct_suffix_for_f64 (f64_of_N 9007199254740993) = Some Nd
  /\ ordinal 9007199254740993 = Rd.
Proof. exact f64_bound_sharp. Qed.
Check C17_f64_bound_sharp :
  f64_to_u64 (f64_of_N 9007199254740993) = 9007199254740992%N
  /\ correct_suffix_for_f64 (f64_of_N 9007199254740993) = Some Nd
  /\ ordinal 9007199254740993 = Rd.
Print Assumptions C17_f64_bound_sharp.

(* non-vacuity *)
Example C17_ex_f64_values :
  f64_bits (f64_of_N 0) = 0%Z /\ f64_bits (f64_of_N 1) = 4607182418800017408%Z
  /\ f64_bits (f64_of_N 9007199254740991) = 4845873199050653695%Z
  /\ f64_bits f64_u64max = 4895412794951729152%Z /\ f64_bits f64_epsilon = 4372995238176751616%Z
  /\ f64_to_u64 (f64_of_N 9007199254740991) = 9007199254740991%N
  /\ correct_suffix_for_f64 (f64_of_N 113) = Some Th
  /\ correct_suffix_for_f64 (f64_of_N 9007199254740991) = Some St.
Proof. exact f64_examples. Qed.
Example C17_ex_f64_lints :
  lint_ascii64 (txt "The 2st item.") = Ok (Some [mkmlint (mkspan 5 7) [ReplaceWith (txt "nd")]])
  /\ lint_ascii64 (txt "The 2nd item.") = Ok (Some [])
  /\ lint_ascii64 (txt "9007199254740991th") = Ok (Some [mkmlint (mkspan 16 18) [ReplaceWith (txt "st")]]).
Proof. exact examples64. Qed.
Example C17_ex_f64_digits : Forall (fun c => is_ascii_digit c = true) (txt "007") /\ parse_dec (txt "007") = 7%N.
Proof. vm_compute. split; [repeat constructor | reflexivity]. Qed.
