(* C10 — The text being checked never leaves the machine.   (label: partial — the weakest fit of this family)
   This file pins the statements; it contains nothing but `exact`.

   What these theorems are about: NOT the Rust code itself but (a) tables that tools/tables/effects.py regenerates
   from /repo on every run (Cargo.lock + Cargo.toml graph, the audited class of every third-party crate, every
   mention of a socket / file-writing / process-spawning API in workspace sources, the listener address) and
   (b) the definition of what the run-time syscall monitor accepts.  The domain of each finite theorem is stated
   in it: `Reach lock_graph ship_roots`, `In s effect_sites`.  That no third-party crate misbehaves at run time is
   observed (strace), never proved. *)
Require Import Base EffectsBase Effects Tables_effects EffectsProofs EffectsChecked EffectsSave EffectsSaveProofs.
Require Import EffectsLinked EffectsLinkedProofs EffectsLinkedChecked EffectsConfig EffectsConfigProofs C10Cli C10CliProofs Tables_c10paths.
From Coq Require Import String Ascii.
Open Scope string_scope.
Open Scope list_scope.

(* every package reachable from harper-ls / harper-cli / harper-wasm through shipped (non-dev) edges of Cargo.lock is
   a workspace crate or has an audited class; that class is never net-client; a net-capable class is carried only by
   the runtime / OS-binding crates named in net_capable_allowed, a process class only by those in process_allowed *)
Theorem C10_no_client_crate : forall c, Reach lock_graph ship_roots c ->
  In c workspace_members \/
  exists cl, class_of crate_class c = Some cl /\ cl <> CNetClient /\
             (cl = CNetRuntime -> In (fst c) net_capable_allowed) /\
             (cl = CProcess -> In (fst c) process_allowed).
Proof. exact no_client_crate. Qed.
Check C10_no_client_crate : forall c, Reach lock_graph ship_roots c ->
  In c workspace_members \/
  exists cl, class_of crate_class c = Some cl /\ cl <> CNetClient /\
             (cl = CNetRuntime -> In (fst c) net_capable_allowed) /\
             (cl = CProcess -> In (fst c) process_allowed).
Print Assumptions C10_no_client_crate.

(* the set the checker computed is exactly the reachable set (so "reachable" above is not an under-approximation) *)
Theorem C10_reachable_exact : forall c, Reach lock_graph ship_roots c <-> In c (reach_set lock_graph ship_roots).
Proof. exact reachable_exact. Qed.
Check C10_reachable_exact : forall c, Reach lock_graph ship_roots c <-> In c (reach_set lock_graph ship_roots).
Print Assumptions C10_reachable_exact.

(* the only mentions of a socket API in workspace sources: the import, TcpListener::bind(DEFAULT_ADDRESS) and
   listener.accept() in harper-ls/src/main.rs *)
Theorem C10_net_sites : forall s, In s effect_sites -> is_net_kind (s_kind s) = true ->
  In s [ mksite "harper-ls/src/main.rs" "<module>" KNetImport "tokio::net::TcpListener" "" "" "";
         mksite "harper-ls/src/main.rs" "main" KNet "TcpListener::bind" "DEFAULT_ADDRESS" "" "";
         mksite "harper-ls/src/main.rs" "main" KNet "listener.accept" "" "TcpListener::bind(DEFAULT_ADDRESS).await.unwrap()" "" ].
Proof. exact net_sites. Qed.
Check C10_net_sites : forall s, In s effect_sites -> is_net_kind (s_kind s) = true ->
  In s [ mksite "harper-ls/src/main.rs" "<module>" KNetImport "tokio::net::TcpListener" "" "" "";
         mksite "harper-ls/src/main.rs" "main" KNet "TcpListener::bind" "DEFAULT_ADDRESS" "" "";
         mksite "harper-ls/src/main.rs" "main" KNet "listener.accept" "" "TcpListener::bind(DEFAULT_ADDRESS).await.unwrap()" "" ].
Print Assumptions C10_net_sites.

(* file-creating / -modifying APIs occur only in save_dict and save_stats: save_dict creates `tmp_path` =
   path.with_file_name(file_name(path) + ".tmp") — the sibling in the same directory —, renames it to `path`, and
   mkdir -p's path.parent(); save_stats appends to config.stats_path and mkdir -p's its parent; every local these path
   expressions mention is computed as the KLocal rows of allowed_write_sites say; save_dict is only called with
   &config.user_dict_path or config.file_dict_path.join(file_dict_name(url)); save_stats only from shutdown;
   and the three path settings are stored into the fields of the same meaning (the F18 regression) *)
Theorem C10_write_sites :
  (forall s, In s effect_sites -> is_write_kind (s_kind s) = true -> In s allowed_write_sites) /\
  ConfigPathsOk config_fields.
Proof. exact write_sites. Qed.
Check C10_write_sites :
  (forall s, In s effect_sites -> is_write_kind (s_kind s) = true -> In s allowed_write_sites) /\
  ConfigPathsOk config_fields.
Print Assumptions C10_write_sites.

(* the only process spawn: open::that(&first) under the "HarperOpen" arm of execute_command; the only other mention
   of a process API is harper-cli's `use std::{fs, process}` (for process::exit) *)
Theorem C10_proc_sites : forall s, In s effect_sites -> is_proc_kind (s_kind s) = true ->
  In s [ mksite "harper-ls/src/backend.rs" "execute_command" KProcess "open::that" "&first" "string_args.next()" "HarperOpen";
         mksite "harper-cli/src/main.rs" "<module>" KProcImport "std::{fs,process}" "" "" "" ].
Proof. exact proc_sites. Qed.
Check C10_proc_sites : forall s, In s effect_sites -> is_proc_kind (s_kind s) = true ->
  In s [ mksite "harper-ls/src/backend.rs" "execute_command" KProcess "open::that" "&first" "string_args.next()" "HarperOpen";
         mksite "harper-cli/src/main.rs" "<module>" KProcImport "std::{fs,process}" "" "" "" ].
Print Assumptions C10_proc_sites.

Theorem C10_open_only_on_command : forall s, In s effect_sites -> s_kind s = KProcess ->
  s_file s = "harper-ls/src/backend.rs" /\ s_fn s = "execute_command" /\ s_api s = "open::that" /\
  s_arg s = "&first" /\ s_arm s = "HarperOpen".
Proof. exact open_only_on_command. Qed.
Check C10_open_only_on_command : forall s, In s effect_sites -> s_kind s = KProcess ->
  s_file s = "harper-ls/src/backend.rs" /\ s_fn s = "execute_command" /\ s_api s = "open::that" /\
  s_arg s = "&first" /\ s_arm s = "HarperOpen".
Print Assumptions C10_open_only_on_command.

(* DEFAULT_ADDRESS is defined once, is a literal 127.x.y.z:port or [::1]:port (no host name), and is what every
   TcpListener::bind site passes *)
Theorem C10_listener_loopback :
  LoopbackLiteral default_address /\ default_address_definitions = 1 /\
  forall s, In s effect_sites -> s_api s = "TcpListener::bind" -> s_arg s = "DEFAULT_ADDRESS".
Proof. exact listener_loopback. Qed.
Check C10_listener_loopback :
  LoopbackLiteral default_address /\ default_address_definitions = 1 /\
  forall s, In s effect_sites -> s_api s = "TcpListener::bind" -> s_arg s = "DEFAULT_ADDRESS".
Print Assumptions C10_listener_loopback.

(* ---- about the checker functions themselves (any graph, any table) ---- *)

(* soundness: `true` implies the Prop-level statement for every reachable crate *)
Theorem C10_checker_sound : forall g t members roots,
  check_crates g t members roots = true -> forall c, Reach g roots c -> CrateOk members t c.
Proof. exact check_crates_sound. Qed.
Check C10_checker_sound : forall g t members roots,
  check_crates g t members roots = true -> forall c, Reach g roots c -> CrateOk members t c.
Print Assumptions C10_checker_sound.

(* a reachable third-party crate that is absent from the audited table makes the obligation fail *)
Theorem C10_unknown_crate_breaks : forall g t members roots c,
  Reach g roots c -> ~ In c members -> class_of t c = None -> check_crates g t members roots = false.
Proof. exact unknown_crate_breaks. Qed.
Check C10_unknown_crate_breaks : forall g t members roots c,
  Reach g roots c -> ~ In c members -> class_of t c = None -> check_crates g t members roots = false.
Print Assumptions C10_unknown_crate_breaks.

(* so does a reachable crate of class net-client *)
Theorem C10_client_crate_breaks : forall g t members roots c,
  Reach g roots c -> ~ In c members -> class_of t c = Some CNetClient -> check_crates g t members roots = false.
Proof. exact client_crate_breaks. Qed.
Check C10_client_crate_breaks : forall g t members roots c,
  Reach g roots c -> ~ In c members -> class_of t c = Some CNetClient -> check_crates g t members roots = false.
Print Assumptions C10_client_crate_breaks.

(* and the site checkers: `true` puts every site of the selected kind into the allow-list; a stray site gives `false` *)
Theorem C10_site_checker_sound : forall sel allowed sites,
  sites_within sel allowed sites = true -> forall s, In s sites -> sel (s_kind s) = true -> In s allowed.
Proof. exact sites_within_sound. Qed.
Check C10_site_checker_sound : forall sel allowed sites,
  sites_within sel allowed sites = true -> forall s, In s sites -> sel (s_kind s) = true -> In s allowed.
Print Assumptions C10_site_checker_sound.

Theorem C10_stray_site_breaks : forall sel allowed sites s,
  In s sites -> sel (s_kind s) = true -> ~ In s allowed -> sites_within sel allowed sites = false.
Proof. exact stray_site_breaks. Qed.
Check C10_stray_site_breaks : forall sel allowed sites s,
  In s sites -> sel (s_kind s) = true -> ~ In s allowed -> sites_within sel allowed sites = false.
Print Assumptions C10_stray_site_breaks.

(* the run-time oracle (its extracted form is what the harness's verdicts are compared with): a trace it accepts has
   no socket / bind / datagram outside AF_UNIX, no connect at all, opens no resolver file, and creates, modifies,
   removes only the configured user dictionary, its ".tmp" sibling in the same directory, the statistics file and
   files directly inside the file-dictionary directory; renames only `<dictionary>.tmp` over `<dictionary>`
   (mkdir: only the directories leading to a configured location).  ev_safe / PathAllowed / RenameAllowed are in
   Proofs/EffectsProofs.v *)
Theorem C10_monitor_sound : forall c tr, trace_ok c tr = true -> Forall (ev_safe c) tr.
Proof. exact trace_ok_sound. Qed.
Check C10_monitor_sound : forall c tr, trace_ok c tr = true -> Forall (ev_safe c) tr.
Print Assumptions C10_monitor_sound.

(* an accepted rename never leaves the set of files that may be written (the ".tmp" sibling of a file directly inside
   the file-dictionary directory is again directly inside it; that of the user dictionary is the one extra path) *)
Theorem C10_monitor_rename_inside : forall c a b,
  judge c (EvRename a b) = VOk -> path_allowed c a = true /\ path_allowed c b = true.
Proof. exact judge_rename_inside. Qed.
Check C10_monitor_rename_inside : forall c a b,
  judge c (EvRename a b) = VOk -> path_allowed c a = true /\ path_allowed c b = true.
Print Assumptions C10_monitor_rename_inside.

(* ---- where a dictionary is saved (Model/EffectsSave.v: file_dict_name, PathBuf::join, save_dict's temporary sibling
   as the code computes them now; compared per add-to-dictionary command with the system calls really issued) ---- *)

(* the file-dictionary name never contains a path separator, whatever the document's file path is: joined to the
   file-dictionary directory it is at most ONE component (it cannot be absolute, cannot climb with `..`) *)
Theorem C10_file_dict_name_flat : forall fp x, In x (file_dict_name fp) -> x <> slash.
Proof. exact file_dict_name_ns. Qed.
Check C10_file_dict_name_flat : forall fp x, In x (file_dict_name fp) -> x <> slash.
Print Assumptions C10_file_dict_name_flat.

(* HarperAddToFileDict for ANY document URI (fp = Url::to_file_path, None when it fails), fileDictPath being an absolute
   path without `..` other than the root: whenever save_dict is reached at all it opens `<dir>/<name>.tmp` and renames
   it onto `<dir>/<name>`, <name> the non-empty slash-free file-dictionary name — both directly inside the configured
   directory, and the monitor accepts exactly that.  Full strength since 08b9da8 (no hypothesis on the name). *)
Theorem C10_file_dict_save_inside : forall c filedir fp o s d,
  comps filedir <> [] -> (forall x, In x (comps filedir) -> x <> dotdot) -> m_filedir c = render (comps filedir) ->
  file_dict_plan filedir fp = Some (o, s, d) ->
  (exists p, fp = Some p /\ file_dict_name p <> [] /\ d = m_filedir c ++ slash :: file_dict_name p /\
             o = d ++ tmp_suffix /\ s = o) /\
  path_allowed c o = true /\ path_allowed c d = true /\ rename_allowed c s d = true.
Proof. exact file_dict_save_inside. Qed.
Check C10_file_dict_save_inside : forall c filedir fp o s d,
  comps filedir <> [] -> (forall x, In x (comps filedir) -> x <> dotdot) -> m_filedir c = render (comps filedir) ->
  file_dict_plan filedir fp = Some (o, s, d) ->
  (exists p, fp = Some p /\ file_dict_name p <> [] /\ d = m_filedir c ++ slash :: file_dict_name p /\
             o = d ++ tmp_suffix /\ s = o) /\
  path_allowed c o = true /\ path_allowed c d = true /\ rename_allowed c s d = true.
Print Assumptions C10_file_dict_save_inside.

(* a URL whose file path has no component (`file:///`) has no file dictionary: nothing is written (08b9da8, was FC10a) *)
Theorem C10_file_dict_no_name_nothing : forall filedir p, file_dict_name p = [] -> file_dict_plan filedir (Some p) = None.
Proof. exact file_dict_no_name_nothing. Qed.
Check C10_file_dict_no_name_nothing : forall filedir p, file_dict_name p = [] -> file_dict_plan filedir (Some p) = None.
Print Assumptions C10_file_dict_no_name_nothing.

(* HarperAddToUserDict, userDictPath an absolute path without `..` that names a file: `<user>.tmp`, renamed onto `<user>` *)
Theorem C10_user_dict_save_inside : forall c user,
  comps user <> [] -> (forall x, In x (comps user) -> x <> dotdot) -> m_user c = render (comps user) ->
  user_dict_plan user = Some (m_user c ++ tmp_suffix, m_user c ++ tmp_suffix, m_user c) /\
  path_allowed c (m_user c ++ tmp_suffix) = true /\ path_allowed c (m_user c) = true /\
  rename_allowed c (m_user c ++ tmp_suffix) (m_user c) = true.
Proof. exact user_dict_save_inside. Qed.
Check C10_user_dict_save_inside : forall c user,
  comps user <> [] -> (forall x, In x (comps user) -> x <> dotdot) -> m_user c = render (comps user) ->
  user_dict_plan user = Some (m_user c ++ tmp_suffix, m_user c ++ tmp_suffix, m_user c) /\
  path_allowed c (m_user c ++ tmp_suffix) = true /\ path_allowed c (m_user c) = true /\
  rename_allowed c (m_user c ++ tmp_suffix) (m_user c) = true.
Print Assumptions C10_user_dict_save_inside.

(* ---- non-vacuity ---- *)
Example C10_reach_nontrivial :
  200 <= List.length (reach_set lock_graph ship_roots) /\
  (exists v, In ("tokio", v) (reach_set lock_graph ship_roots) /\ class_of crate_class ("tokio", v) = Some CNetRuntime) /\
  (exists v, In ("open", v) (reach_set lock_graph ship_roots) /\ class_of crate_class ("open", v) = Some CProcess).
Proof. exact reach_nontrivial. Qed.

Example C10_dev_only_client_not_shipped :
  exists c, In c (map snd dev_only_edges) /\ class_of crate_class c = Some CNetClient /\ ~ Reach lock_graph ship_roots c.
Proof. exact dev_only_client_not_shipped. Qed.

Example C10_sites_nontrivial :
  List.length (filter (fun s => is_net_kind (s_kind s)) effect_sites) = 3 /\
  4 <= List.length (filter (fun s => is_write_kind (s_kind s)) effect_sites) /\
  5 <= List.length (filter (fun s => skind_eqb (s_kind s) KLocal) effect_sites) /\
  In (mksite "harper-ls/src/dictionary_io.rs" "save_dict" KLocal "tmp_name.push" """.tmp""" "" "") effect_sites /\
  List.length (filter (fun s => skind_eqb (s_kind s) KProcess) effect_sites) = 1 /\
  100 <= scanned_files.
Proof. exact sites_nontrivial. Qed.

(* the monitor accepts a session that saves a dictionary (temporary sibling + rename) and the statistics, and rejects
   a stray write / a socket / any other temporary name or rename *)
Example C10_monitor_examples :
  let c := mkcfg (bytes_of_string "/s/cfg/user.txt") (bytes_of_string "/s/fd") (bytes_of_string "/s/data/stats.txt") [] in
  trace_ok c [EvMkdir (bytes_of_string "/s/cfg"); EvOpen true (bytes_of_string "/s/cfg/user.txt.tmp");
              EvRename (bytes_of_string "/s/cfg/user.txt.tmp") (bytes_of_string "/s/cfg/user.txt");
              EvMkdir (bytes_of_string "/s/fd"); EvOpen true (bytes_of_string "/s/fd/tmp%doc.md%.tmp");
              EvRename (bytes_of_string "/s/fd/tmp%doc.md%.tmp") (bytes_of_string "/s/fd/tmp%doc.md%");
              EvOpen false (bytes_of_string "/etc/localtime"); EvOpen true (bytes_of_string "/s/data/stats.txt")] = true /\
  judge c (EvOpen true (bytes_of_string "/tmp/dump.txt")) = VWrite /\
  judge c (EvOpen true (bytes_of_string "/s/fd/sub/x")) = VWrite /\
  judge c (EvOpen true (bytes_of_string "/s/fd.tmp")) = VWrite /\
  judge c (EvOpen true (bytes_of_string "/s/data/stats.txt.tmp")) = VWrite /\
  judge c (EvOpen true (bytes_of_string "/s/cfg/user.txt.tmp~")) = VWrite /\
  judge c (EvOpen true (bytes_of_string "/s/cfg/.tmp")) = VWrite /\
  judge c (EvOpen true (bytes_of_string "/s/proj/draft.md%")) = VWrite /\
  judge c (EvRename (bytes_of_string "/s/cfg/user.txt") (bytes_of_string "/s/cfg/user.txt.tmp")) = VWrite /\
  judge c (EvRename (bytes_of_string "/tmp/x.tmp") (bytes_of_string "/s/cfg/user.txt")) = VWrite /\
  judge c (EvRename (bytes_of_string "/s/fd/a%.tmp") (bytes_of_string "/s/fd/b%")) = VWrite /\
  judge c (EvRename (bytes_of_string "/s/data/stats.txt.tmp") (bytes_of_string "/s/data/stats.txt")) = VWrite /\
  judge c (EvSocket AF_INET) = VNet /\ judge c (EvConnect AF_INET6 []) = VNet /\ judge c (EvSend AF_INET) = VNet /\
  judge c (EvOpen false (bytes_of_string "/etc/resolv.conf")) = VResolve /\
  judge c (EvMkdir (bytes_of_string "/s/other")) = VWrite.
Proof. vm_compute. repeat split; reflexivity. Qed.

Example C10_loopback_examples :
  is_loopback_literal "127.0.0.1:4000" = true /\ is_loopback_literal "[::1]:4000" = true /\
  is_loopback_literal "0.0.0.0:4000" = false /\ is_loopback_literal "localhost:4000" = false /\
  is_loopback_literal "127.0.0.1" = false /\ is_loopback_literal "0127.0.0.1:4000" = false /\
  is_loopback_literal "[::]:4000" = false /\ is_loopback_literal "127.0.0.1:70000" = false /\ is_loopback_literal "127.0.0.1:004000" = true /\ is_loopback_literal "127.0.0.256:1" = false /\
  is_loopback_literal "192.168.1.2:4000" = false.
Proof. vm_compute. repeat split; reflexivity. Qed.

(* the hypotheses of the "breaks" theorems are satisfiable: a two-package graph whose dependency was never audited,
   resp. is a net-client, resp. a stray socket site *)
Example C10_unknown_crate_example :
  let g := [(("app", "1"), [("dep", "1")]); (("dep", "1"), [])] in
  Reach g [("app", "1")] ("dep", "1") /\ ~ In ("dep", "1") [("app", "1")] /\
  class_of [] ("dep", "1") = None /\ check_crates g [] [("app", "1")] [("app", "1")] = false /\
  class_of [(("dep", "1"), CNetClient)] ("dep", "1") = Some CNetClient /\
  check_crates g [(("dep", "1"), CNetClient)] [("app", "1")] [("app", "1")] = false /\
  check_crates g [(("dep", "1"), CPure)] [("app", "1")] [("app", "1")] = true.
Proof.
  cbv zeta. split.
  - eapply Reach_step; [apply Reach_root; left; reflexivity | left; reflexivity].
  - split; [intros [H | []]; inversion H |]. vm_compute. repeat split; reflexivity.
Qed.

Example C10_stray_site_example :
  let s := mksite "harper-core/src/linting/an_a.rs" "lint" KNet "TcpStream::connect" """93.184.216.34:80""" "" "" in
  is_net_kind (s_kind s) = true /\ ~ In s allowed_net_sites /\
  net_sites_only_listener (s :: effect_sites) = false.
Proof.
  cbv zeta. split; [reflexivity |]. split.
  - intros H. cbn in H. repeat (destruct H as [H | H]; [inversion H |]). exact H.
  - vm_compute. reflexivity.
Qed.

(* HISTORY (FC10a, fixed by 08b9da8) — over the OLD definition file_dict_plan_old, which joined the empty name too: for
   the document URI `file:///` save_dict created `<dir>.tmp` NEXT TO the file-dictionary directory and failed to rename
   it onto "<dir>/"; the monitor rejects both calls.  The current model (last conjunct) writes nothing.  The input is
   replayed on the implementation by corpus/C10/fc10a_root_uri.json and must pass. *)
Example C10_file_dict_empty_name_old_refuted :
  let c := mkcfg (bytes_of_string "/s/cfg/user.txt") (bytes_of_string "/s/fd") (bytes_of_string "/s/data/stats.txt") [] in
  exists fp, file_dict_name fp = [] /\
    file_dict_plan_old (m_filedir c) (Some fp) =
      Some (bytes_of_string "/s/fd.tmp", bytes_of_string "/s/fd.tmp", bytes_of_string "/s/fd") /\
    judge c (EvOpen true (bytes_of_string "/s/fd.tmp")) = VWrite /\
    judge c (EvRename (bytes_of_string "/s/fd.tmp") (bytes_of_string "/s/fd")) = VWrite /\
    file_dict_plan (m_filedir c) (Some fp) = None.
Proof. exact file_dict_empty_name_old_refuted. Qed.

(* the hypotheses of the save theorems are satisfiable (a fileDictPath with a trailing slash, a userDictPath with `//`
   and `/./`, a document path with `..` and non-ASCII), and what PathBuf::join would do with an absolute or `..` name
   if file_dict_name ever produced one (the seeded change c10-2): the write leaves the configured directory *)
Example C10_save_plan_examples :
  let b := fun s : string => bytes_of_string s in
  file_dict_name (b "/home/u/proj/../dö c.md") = b "home%u%proj%..%dö c.md%" /\
  file_dict_plan (b "/s/fd/") (Some (b "/home/u/a.md")) = Some (b "/s/fd/home%u%a.md%.tmp", b "/s/fd/home%u%a.md%.tmp", b "/s/fd/home%u%a.md%") /\
  file_dict_plan (b "/s/fd") None = None /\
  file_dict_plan (b "/s/fd") (Some (b "/")) = None /\
  file_dict_plan (b "/s/fd") (Some (b "/.//")) = None /\
  user_dict_plan (b "/s//cfg/./user.txt") = Some (b "/s/cfg/user.txt.tmp", b "/s/cfg/user.txt.tmp", b "/s/cfg/user.txt") /\
  user_dict_plan (b "/s/cfg/..") = None /\ user_dict_plan (b "/") = None /\
  user_dict_plan_old (b "/s/cfg/..") = (b "/s/.tmp", b "/s/.tmp", b "/s") /\
  save_plan (join_comps (b "/s/fd") (b "/home/u/draft.md%")) = (b "/home/u/draft.md%.tmp", b "/home/u/draft.md%.tmp", b "/home/u/draft.md%") /\
  save_plan (join_comps (b "/s/fd") (b "../../x%")) = (b "/x%.tmp", b "/x%.tmp", b "/x%").
Proof. exact save_plan_examples. Qed.

(* ---------------------------------------------------------------------------------------------------------------
   The dependency part over the graph CARGO resolves (deepening): `linked_graph` is what
   `cargo metadata --offline --locked --filter-platform x86_64-unknown-linux-gnu --filter-platform wasm32-unknown-unknown`
   answers for /repo now (features resolved, other platforms' target-specific dependencies absent, dev edges dropped):
   the crates that can actually be linked into harper-ls / harper-cli / harper-wasm.  The allow-lists are smaller than
   for lock_graph: tokio, mio, socket2, tokio-util, libc, url  /  open, autocfg, version_check, cc. *)
Theorem C10_no_client_crate_linked : forall c, Reach linked_graph ship_roots c ->
  In c workspace_members \/
  exists cl, class_of crate_class c = Some cl /\ cl <> CNetClient /\
             (cl = CNetRuntime -> In (fst c) ["tokio"; "mio"; "socket2"; "tokio-util"; "libc"; "url"]) /\
             (cl = CProcess -> In (fst c) ["open"; "autocfg"; "version_check"; "cc"]).
Proof. exact no_client_crate_linked. Qed.
Check C10_no_client_crate_linked : forall c, Reach linked_graph ship_roots c ->
  In c workspace_members \/
  exists cl, class_of crate_class c = Some cl /\ cl <> CNetClient /\
             (cl = CNetRuntime -> In (fst c) ["tokio"; "mio"; "socket2"; "tokio-util"; "libc"; "url"]) /\
             (cl = CProcess -> In (fst c) ["open"; "autocfg"; "version_check"; "cc"]).
Print Assumptions C10_no_client_crate_linked.

Theorem C10_linked_reachable_exact : forall c, Reach linked_graph ship_roots c <-> In c (reach_set linked_graph ship_roots).
Proof. exact linked_reachable_exact. Qed.
Check C10_linked_reachable_exact : forall c, Reach linked_graph ship_roots c <-> In c (reach_set linked_graph ship_roots).
Print Assumptions C10_linked_reachable_exact.

(* cargo's graph only ever drops edges of the lock-file graph: everything linked is covered by C10_no_client_crate too *)
Theorem C10_linked_within_lock : forall c, Reach linked_graph ship_roots c -> Reach lock_graph ship_roots c.
Proof. exact linked_within_lock. Qed.
Check C10_linked_within_lock : forall c, Reach linked_graph ship_roots c -> Reach lock_graph ship_roots c.
Print Assumptions C10_linked_within_lock.

(* for ANY graph: the checker with given allow-lists is sound, and a reachable net-capable crate outside the list breaks it *)
Theorem C10_linked_checker_sound : forall nets procs g t members roots,
  check_crates_in nets procs g t members roots = true ->
  forall c, Reach g roots c -> CrateOkIn nets procs members t c.
Proof. exact check_crates_in_sound. Qed.
Check C10_linked_checker_sound : forall nets procs g t members roots,
  check_crates_in nets procs g t members roots = true ->
  forall c, Reach g roots c -> CrateOkIn nets procs members t c.
Print Assumptions C10_linked_checker_sound.

Theorem C10_unlisted_net_crate_breaks : forall nets procs g t members roots c,
  Reach g roots c -> ~ In c members -> class_of t c = Some CNetRuntime -> ~ In (fst c) nets ->
  check_crates_in nets procs g t members roots = false.
Proof. exact unlisted_net_crate_breaks. Qed.
Check C10_unlisted_net_crate_breaks : forall nets procs g t members roots c,
  Reach g roots c -> ~ In c members -> class_of t c = Some CNetRuntime -> ~ In (fst c) nets ->
  check_crates_in nets procs g t members roots = false.
Print Assumptions C10_unlisted_net_crate_breaks.

(* non-vacuity: >= 200 packages are linked, strictly fewer than the lock graph reaches; tokio and open ARE linked;
   winapi / windows-sys / wasi / hermit-abi / redox_* / criterion are NOT (the lock graph does reach the first three) *)
Example C10_linked_nontrivial :
  200 <= List.length (reach_set linked_graph ship_roots) /\
  List.length (reach_set linked_graph ship_roots) < List.length (reach_set lock_graph ship_roots) /\
  smem "tokio" (names_of (reach_set linked_graph ship_roots)) = true /\
  smem "open" (names_of (reach_set linked_graph ship_roots)) = true /\
  forallb (fun n => negb (smem n (names_of (reach_set linked_graph ship_roots))))
          ["winapi"; "windows-sys"; "wasi"; "hermit-abi"; "redox_users"; "redox_syscall"; "criterion"] = true /\
  existsb (fun n => smem n (names_of (reach_set lock_graph ship_roots))) ["winapi"; "windows-sys"; "wasi"] = true.
Proof. exact linked_nontrivial. Qed.

Example C10_unlisted_net_crate_example :
  let g := [(("app", "1"), [("winsock", "1")]); (("winsock", "1"), [])] in
  let t := [(("winsock", "1"), CNetRuntime)] in
  Reach g [("app", "1")] ("winsock", "1") /\ ~ In ("winsock", "1") [("app", "1")] /\
  class_of t ("winsock", "1") = Some CNetRuntime /\ ~ In "winsock" net_capable_linked /\
  check_crates_in net_capable_linked process_linked g t [("app", "1")] [("app", "1")] = false /\
  check_crates_in ["winsock"] [] g t [("app", "1")] [("app", "1")] = true.
Proof.
  cbv zeta. split.
  - eapply Reach_step; [apply Reach_root; left; reflexivity | left; reflexivity].
  - split; [intros [H | []]; inversion H |]. split; [reflexivity |]. split.
    + intros H. cbn in H. repeat (destruct H as [H | H]; [inversion H |]). exact H.
    + vm_compute. split; reflexivity.
Qed.

(* ---------------------------------------------------------------------------------------------------------------
   From the SETTINGS to the writes (deepening): Model/EffectsConfig.v is Config::from_lsp_config's treatment of
   userDictPath / fileDictPath / statsPath as it is now (absent -> default; not a string -> Err; "" -> default for
   the two dictionary settings but NOT for statsPath; otherwise resolve-path's try_resolve: absolute / ~ / relative
   to the working directory), compared in the correspondence with the real function (cases `G`).
   $HOME, the working directory, config_dir() and data_local_dir() are inputs (e : penv). *)

(* for EVERY configuration the parser can produce, from any settings in any environment, with NO proviso left on any
   of the three settings: whenever HarperAddToUserDict writes at all it is <user>.tmp renamed onto <user> (a setting
   without a final file name — "/", "<dir>/.." — is refused by save_dict since a91f3ee, the fix of FC10b: nothing is
   written, C10_config_user_no_file_name_nothing); a file dictionary is <dir>/<name>.tmp renamed onto <dir>/<name>
   for every directory, the root included; the statistics file is opened in place; all accepted by the monitor under
   THAT configuration's locations; and an absent or EMPTY userDictPath does write (the default names a file).
   No hypothesis that paths are free of `..`. *)
Theorem C10_config_writes_inside : forall e u f s pc, parse_paths e u f s = Some pc ->
  let c := mcfg_of pc in
  (forall o s' d, cfg_user_plan pc = Some (o, s', d) ->
     o = m_user c ++ tmp_suffix /\ s' = o /\ d = m_user c /\
     path_allowed c o = true /\ path_allowed c d = true /\ rename_allowed c s' d = true) /\
  (forall fp o s' d, cfg_file_plan pc fp = Some (o, s', d) ->
     d = m_filedir c ++ slash :: file_dict_name (match fp with Some p => p | None => [] end) /\
     o = d ++ tmp_suffix /\ s' = o /\
     path_allowed c o = true /\ path_allowed c d = true /\ rename_allowed c s' d = true) /\
  path_allowed c (cfg_stats_write pc) = true /\
  (unset u -> cfg_user_plan pc = Some (m_user c ++ tmp_suffix, m_user c ++ tmp_suffix, m_user c)).
Proof. exact config_writes_inside. Qed.
Check C10_config_writes_inside : forall e u f s pc, parse_paths e u f s = Some pc ->
  let c := mcfg_of pc in
  (forall o s' d, cfg_user_plan pc = Some (o, s', d) ->
     o = m_user c ++ tmp_suffix /\ s' = o /\ d = m_user c /\
     path_allowed c o = true /\ path_allowed c d = true /\ rename_allowed c s' d = true) /\
  (forall fp o s' d, cfg_file_plan pc fp = Some (o, s', d) ->
     d = m_filedir c ++ slash :: file_dict_name (match fp with Some p => p | None => [] end) /\
     o = d ++ tmp_suffix /\ s' = o /\
     path_allowed c o = true /\ path_allowed c d = true /\ rename_allowed c s' d = true) /\
  path_allowed c (cfg_stats_write pc) = true /\
  (unset u -> cfg_user_plan pc = Some (m_user c ++ tmp_suffix, m_user c ++ tmp_suffix, m_user c)).
Print Assumptions C10_config_writes_inside.

(* an absent or EMPTY userDictPath / fileDictPath is the default location (the guard seed c10-4 removes); an empty
   statsPath is the working directory itself (save_stats then fails with EISDIR: nothing is written) *)
Theorem C10_config_unset_is_default : forall e u f s pc, parse_paths e u f s = Some pc ->
  (unset u -> p_user pc = p_user (default_pcfg e)) /\
  (unset f -> p_filedir pc = p_filedir (default_pcfg e)) /\
  (s = SAbsent -> p_stats pc = p_stats (default_pcfg e)) /\
  (s = SString [] -> p_stats pc = comps (e_cwd e)).
Proof. exact parse_paths_unset. Qed.
Check C10_config_unset_is_default : forall e u f s pc, parse_paths e u f s = Some pc ->
  (unset u -> p_user pc = p_user (default_pcfg e)) /\
  (unset f -> p_filedir pc = p_filedir (default_pcfg e)) /\
  (s = SAbsent -> p_stats pc = p_stats (default_pcfg e)) /\
  (s = SString [] -> p_stats pc = comps (e_cwd e)).
Print Assumptions C10_config_unset_is_default.

(* save_dict on any destination that names a file, `..` inside allowed: <dst>.tmp opened, renamed onto <dst> *)
Theorem C10_save_plan_file : forall cs, names_file cs = true ->
  let d := render (resolve cs) in save_plan cs = (d ++ tmp_suffix, d ++ tmp_suffix, d).
Proof. exact save_plan_file. Qed.
Check C10_save_plan_file : forall cs, names_file cs = true ->
  let d := render (resolve cs) in save_plan cs = (d ++ tmp_suffix, d ++ tmp_suffix, d).
Print Assumptions C10_save_plan_file.

(* the plans under a Config are the plans of EffectsSave (the ones compared with the system calls of every
   add-to-dictionary command) on the paths that Config holds *)
Theorem C10_config_plans_are_save_plans : forall pc user filedir fp,
  (p_user pc = comps user -> cfg_user_plan pc = user_dict_plan user) /\
  (p_filedir pc = comps filedir -> cfg_file_plan pc fp = file_dict_plan filedir fp).
Proof. exact config_plans_are_save_plans. Qed.
Check C10_config_plans_are_save_plans : forall pc user filedir fp,
  (p_user pc = comps user -> cfg_user_plan pc = user_dict_plan user) /\
  (p_filedir pc = comps filedir -> cfg_file_plan pc fp = file_dict_plan filedir fp).
Print Assumptions C10_config_plans_are_save_plans.

(* non-vacuity: what absent / empty / ~ / relative / ~user / non-string settings become, and a full run of the
   hypotheses of C10_config_writes_inside on a relative userDictPath with `..` and an empty fileDictPath *)
Example C10_config_examples :
  let b := fun s : string => bytes_of_string s in
  let e := mkenv (b "/home/u") (b "/work/proj") (b "/home/u/.config") (b "/home/u/.local/share") in
  parse_render e SAbsent SAbsent SAbsent =
    Some (b "/home/u/.config/harper-ls/dictionary.txt", b "/home/u/.local/share/harper-ls/file_dictionaries", b "/home/u/.local/share/harper-ls/stats.txt") /\
  parse_render e (SString []) (SString []) (SString []) =
    Some (b "/home/u/.config/harper-ls/dictionary.txt", b "/home/u/.local/share/harper-ls/file_dictionaries", b "/work/proj") /\
  parse_render e (SString (b "~/d.txt")) (SString (b "~")) (SString (b "~//x/../s.txt")) =
    Some (b "/home/u/d.txt", b "/home/u", b "/home/u/s.txt") /\
  parse_render e (SString (b "dicts/mine.txt")) (SString (b "./fd/")) (SString (b "../s.txt")) =
    Some (b "/work/proj/dicts/mine.txt", b "/work/proj/fd", b "/work/s.txt") /\
  parse_render e (SString (b "~user/d.txt")) (SString (b "./~/fd")) (SString (b "/abs//st.txt")) =
    Some (b "/work/proj/~user/d.txt", b "/work/proj/~/fd", b "/abs/st.txt") /\
  parse_render e SNotString SAbsent SAbsent = None /\ parse_render e SAbsent SAbsent SNotString = None /\
  (exists pc, parse_paths e (SString (b "../up/./d.txt")) (SString []) SAbsent = Some pc /\
     names_file (p_user pc) = true /\
     cfg_user_plan pc = Some (b "/work/up/d.txt.tmp", b "/work/up/d.txt.tmp", b "/work/up/d.txt") /\
     cfg_file_plan pc (Some (b "/work/proj/a.md")) =
       Some (b "/home/u/.local/share/harper-ls/file_dictionaries/work%proj%a.md%.tmp",
             b "/home/u/.local/share/harper-ls/file_dictionaries/work%proj%a.md%.tmp",
             b "/home/u/.local/share/harper-ls/file_dictionaries/work%proj%a.md%")).
Proof. exact config_examples. Qed.

(* HISTORY (FC10b, fixed by a91f3ee): userDictPath "/a/b/.." (a directory, written down explicitly) made the OLD
   save_dict create "/a/.tmp", which the monitor rejects; the current one writes nothing *)
Example C10_config_dir_setting_example :
  let b := fun s : string => bytes_of_string s in
  let e := mkenv (b "/home/u") (b "/work/proj") (b "/home/u/.config") (b "/home/u/.local/share") in
  exists pc, parse_paths e (SString (b "/a/b/..")) SAbsent SAbsent = Some pc /\ names_file (p_user pc) = false /\
    m_user (mcfg_of pc) = b "/a" /\ cfg_user_plan_old pc = (b "/a/.tmp", b "/a/.tmp", b "/a") /\
    path_allowed (mcfg_of pc) (b "/a/.tmp") = false /\ cfg_user_plan pc = None.
Proof. exact config_dir_setting_example. Qed.

(* ---------------------------------------------------------------------------------------------------------------
   Phase 4.  (a) The former proviso of C10_config_writes_inside — "userDictPath names a file" — was NOT enforced by
   config.rs (finding FC10b); /repo took the proposed fix (a91f3ee: save_dict refuses a destination without a file
   name before it creates anything) and the guarded save_dict_plan is THE model now. *)
Theorem C10_config_user_no_file_name_nothing : forall pc, names_file (p_user pc) = false -> cfg_user_plan pc = None.
Proof. exact config_user_no_file_name_nothing. Qed.
Check C10_config_user_no_file_name_nothing : forall pc, names_file (p_user pc) = false -> cfg_user_plan pc = None.
Print Assumptions C10_config_user_no_file_name_nothing.

(* HISTORY only — over the OLD definition cfg_user_plan_old (save_dict before a91f3ee): the full-strength statement was
   false, witness userDictPath = "/a/b/.." (open "/a/.tmp", rename onto "/a": both rejected); the current model writes
   nothing for it.  Replaces the theorem C10_config_user_write_refuted. *)
Example C10_config_user_write_old_refuted :
  exists e u pc o sr d, parse_paths e u SAbsent SAbsent = Some pc /\ cfg_user_plan_old pc = (o, sr, d) /\
    path_allowed (mcfg_of pc) o = false /\ rename_allowed (mcfg_of pc) sr d = false /\ cfg_user_plan pc = None.
Proof. exact config_user_write_old_refuted. Qed.

(* non-vacuity: fileDictPath "/" (the case the old proviso excluded) and "~/.." ; userDictPath "~/x/.." (refused) *)
Example C10_config_root_examples :
  let b := fun s : string => bytes_of_string s in
  let e := mkenv (b "/home") (b "/work/proj") (b "/home/.config") (b "/home/.local/share") in
  (exists pc, parse_paths e SAbsent (SString (b "/")) SAbsent = Some pc /\ m_filedir (mcfg_of pc) = [] /\
     cfg_file_plan pc (Some (b "/w/a.md")) = Some (b "/w%a.md%.tmp", b "/w%a.md%.tmp", b "/w%a.md%") /\
     path_allowed (mcfg_of pc) (b "/w%a.md%.tmp") = true /\ path_allowed (mcfg_of pc) (b "/etc/x") = false) /\
  (exists pc, parse_paths e SAbsent (SString (b "~/..")) SAbsent = Some pc /\
     cfg_file_plan pc (Some (b "/w/a.md")) = Some (b "/w%a.md%.tmp", b "/w%a.md%.tmp", b "/w%a.md%")) /\
  (exists pc, parse_paths e (SString (b "~/x/..")) SAbsent SAbsent = Some pc /\ names_file (p_user pc) = false /\
     cfg_user_plan_old pc = (b "/home/.tmp", b "/home/.tmp", b "/home") /\ cfg_user_plan pc = None) /\
  (exists pc, parse_paths e (SString (b "~/x/../d.txt")) SAbsent SAbsent = Some pc /\
     cfg_user_plan pc = Some (b "/home/d.txt.tmp", b "/home/d.txt.tmp", b "/home/d.txt")).
Proof.
  cbv zeta. repeat split; eexists; (split; [reflexivity |]); vm_compute; repeat split; reflexivity.
Qed.

(* (b) harper-cli (Model/C10Cli.v): it writes nothing (site table + strace of the real binary); the two dictionary
   files `lint` READS: the -u path, and the direct child of the -f directory named by harper-cli's own file_dict_name
   of the document path as typed — one component, whatever the path (or the directory itself for a path without
   component).  Compared with the read-only opens of the real harper-cli (stream `K`). *)
Theorem C10_cli_file_dict_name_flat : forall file x, In x (cli_file_dict_name file) -> x <> slash.
Proof. exact cli_file_dict_name_flat. Qed.
Check C10_cli_file_dict_name_flat : forall file x, In x (cli_file_dict_name file) -> x <> slash.
Print Assumptions C10_cli_file_dict_name_flat.

Theorem C10_cli_lint_reads_inside : forall user filedir file u d, cli_lint_reads user filedir file = (u, d) ->
  let dirp := render' (resolve (comps filedir)) in
  u = render (resolve (comps user)) /\
  ((cli_file_dict_name file = [] /\ d = render (resolve (comps filedir))) \/
   (cli_file_dict_name file <> [] /\ d = dirp ++ slash :: cli_file_dict_name file /\ dir_of d = dirp)).
Proof. exact cli_lint_reads_inside. Qed.
Check C10_cli_lint_reads_inside : forall user filedir file u d, cli_lint_reads user filedir file = (u, d) ->
  let dirp := render' (resolve (comps filedir)) in
  u = render (resolve (comps user)) /\
  ((cli_file_dict_name file = [] /\ d = render (resolve (comps filedir))) \/
   (cli_file_dict_name file <> [] /\ d = dirp ++ slash :: cli_file_dict_name file /\ dir_of d = dirp)).
Print Assumptions C10_cli_lint_reads_inside.

Example C10_cli_examples :
  let b := fun s : string => bytes_of_string s in
  cli_lint_reads (b "/h/.config/harper-ls/dictionary.txt") (b "/h/fd/") (b "/w/docs/a.md") =
    (b "/h/.config/harper-ls/dictionary.txt", b "/h/fd/w%docs%a.md%") /\
  cli_lint_reads (b "/h/u.txt") (b "/h/fd") (b "docs/../a.md") = (b "/h/u.txt", b "/h/fd/docs%..%a.md%") /\
  cli_lint_reads (b "/h/x/../u.txt") (b "/h/fd") (b "./a.md") = (b "/h/u.txt", b "/h/fd/.%a.md%") /\
  cli_lint_reads (b "/h/u.txt") (b "/h/fd") (b "././b/./a.md") = (b "/h/u.txt", b "/h/fd/.%b%a.md%") /\
  cli_lint_reads (b "/h/u.txt") (b "/h/fd") (b "/") = (b "/h/u.txt", b "/h/fd") /\
  cli_lint_reads (b "/h/u.txt") (b "/") (b "a.md") = (b "/h/u.txt", b "/a.md%") /\
  cli_file_dict_name (b ".") = b ".%" /\ cli_file_dict_name [] = [] /\ cli_file_dict_name (b "..") = b "..%".
Proof. exact cli_examples. Qed.

(* (c) the source shapes behind the hand-written path models, re-read from /repo on every run (tools/tables/c10paths.py) *)
Theorem C10_path_code_shapes :
  config_path_blocks = [("userDictPath", "user_dict_path", true, "try_resolve"); ("fileDictPath", "file_dict_path", true, "try_resolve");
                        ("statsPath", "stats_path", false, "try_resolve")] /\
  save_dict_refuses_no_file_name = true /\
  ls_file_dict_name_shape = ("%", true, true) /\ cli_file_dict_name_shape = ("%", true, false) /\
  cli_lint_loads = ["&user_dict_path"; "file_dict_path.join(file_dict_name(&file))"] /\
  bytes_of_string "%" = [percent].
Proof. exact path_code_shapes. Qed.
Check C10_path_code_shapes :
  config_path_blocks = [("userDictPath", "user_dict_path", true, "try_resolve"); ("fileDictPath", "file_dict_path", true, "try_resolve");
                        ("statsPath", "stats_path", false, "try_resolve")] /\
  save_dict_refuses_no_file_name = true /\
  ls_file_dict_name_shape = ("%", true, true) /\ cli_file_dict_name_shape = ("%", true, false) /\
  cli_lint_loads = ["&user_dict_path"; "file_dict_path.join(file_dict_name(&file))"] /\
  bytes_of_string "%" = [percent].
Print Assumptions C10_path_code_shapes.
