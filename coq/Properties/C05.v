(* C05 — lint results depend only on text, language, dictionary and configuration.
   This file pins the statements; it contains nothing but `exact` (+ vm_compute examples).
   Model: Model/Cache.v (LintGroup::lint's chunk cache, SpellCheck's word cache, any eviction).  The statements
   quantify over every rule set (pattern_rel, struct_pre, struct_post), every suggestion function, every
   configuration type and hash, every history and every eviction schedule. *)
Require Import Base Cache CacheProofs.

(* for EVERY history (set-config | lint | evict, with an adversarial eviction schedule inside every lint) on a
   linter that started with empty caches: no step panics; every entry (chars, hash) -> v of the chunk cache
   is the uncached result of the pattern rules on a chunk of that history with these characters under a
   configuration with this hash (for SOME tokenisation t — the key does not record which); every entry of
   the spelling cache is the uncached suggestion list of its word *)
Theorem C05_cache_inv : forall (cfg toks : Type) (cfg_hash : cfg -> N)
    (pattern_rel : text -> toks -> cfg -> list clint)
    (struct_pre struct_post : cfg -> doc toks -> list clint)
    (spell_on : cfg -> bool) (suggest : text -> list text)
    (spell_mk : text -> span -> list text -> clint)
    (h : list (op cfg toks (text * N))) (c0 : cfg),
  exists (st : state cfg (text * N)) (outs : list (list clint)),
    run_hist cfg toks (text * N) code_key_eqb (code_key cfg_hash) pattern_rel struct_pre struct_post spell_on suggest spell_mk h (fresh c0) = Ok (st, outs) /\
    (forall (chars : text) (hsh : N) (v : list clint),
       lookup code_key_eqb (chars, hsh) (st_cache st) = Some v ->
       exists (t : toks) (c : cfg),
         In (chars, t, c) (hist_triples cfg toks (text * N) h c0) /\ cfg_hash c = hsh /\ v = pattern_rel chars t c) /\
    (forall (w : text) (v : list text), lookup text_eqb w (st_spell st) = Some v -> v = suggest w).
Proof. exact code_cache_inv. Qed.
Check C05_cache_inv : forall (cfg toks : Type) (cfg_hash : cfg -> N)
    (pattern_rel : text -> toks -> cfg -> list clint)
    (struct_pre struct_post : cfg -> doc toks -> list clint)
    (spell_on : cfg -> bool) (suggest : text -> list text)
    (spell_mk : text -> span -> list text -> clint)
    (h : list (op cfg toks (text * N))) (c0 : cfg),
  exists (st : state cfg (text * N)) (outs : list (list clint)),
    run_hist cfg toks (text * N) code_key_eqb (code_key cfg_hash) pattern_rel struct_pre struct_post spell_on suggest spell_mk h (fresh c0) = Ok (st, outs) /\
    (forall (chars : text) (hsh : N) (v : list clint),
       lookup code_key_eqb (chars, hsh) (st_cache st) = Some v ->
       exists (t : toks) (c : cfg),
         In (chars, t, c) (hist_triples cfg toks (text * N) h c0) /\ cfg_hash c = hsh /\ v = pattern_rel chars t c) /\
    (forall (w : text) (v : list text), lookup text_eqb w (st_spell st) = Some v -> v = suggest w).
Print Assumptions C05_cache_inv.

(* if, on the chunks and configurations the history touches, the configuration hash is injective and the
   relative pattern lints of a chunk do not depend on its tokenisation (H_chunk_fun), then for every history
   and every eviction schedule each Lint step answers exactly what the cache-free specification answers —
   and so does a freshly built linter asked at that moment (fresh_hist): caches are unobservable.  The
   spelling cache needs no hypothesis (its key is the whole argument). *)
Theorem C05_refinement : forall (cfg toks : Type) (cfg_hash : cfg -> N)
    (pattern_rel : text -> toks -> cfg -> list clint)
    (struct_pre struct_post : cfg -> doc toks -> list clint)
    (spell_on : cfg -> bool) (suggest : text -> list text)
    (spell_mk : text -> span -> list text -> clint)
    (h : list (op cfg toks (text * N))) (c0 : cfg),
  hash_inj_on cfg toks cfg_hash (hist_triples cfg toks (text * N) h c0) ->
  chunk_fun_on cfg toks pattern_rel (hist_triples cfg toks (text * N) h c0) ->
  exists st : state cfg (text * N),
    run_hist cfg toks (text * N) code_key_eqb (code_key cfg_hash) pattern_rel struct_pre struct_post spell_on suggest spell_mk h (fresh c0) = Ok (st, spec_hist cfg toks (text * N) pattern_rel struct_pre struct_post spell_on suggest spell_mk h c0) /\
    fresh_hist cfg toks (text * N) code_key_eqb (code_key cfg_hash) pattern_rel struct_pre struct_post spell_on suggest spell_mk h c0 = map Ok (spec_hist cfg toks (text * N) pattern_rel struct_pre struct_post spell_on suggest spell_mk h c0).
Proof. exact code_refinement. Qed.
Check C05_refinement : forall (cfg toks : Type) (cfg_hash : cfg -> N)
    (pattern_rel : text -> toks -> cfg -> list clint)
    (struct_pre struct_post : cfg -> doc toks -> list clint)
    (spell_on : cfg -> bool) (suggest : text -> list text)
    (spell_mk : text -> span -> list text -> clint)
    (h : list (op cfg toks (text * N))) (c0 : cfg),
  hash_inj_on cfg toks cfg_hash (hist_triples cfg toks (text * N) h c0) ->
  chunk_fun_on cfg toks pattern_rel (hist_triples cfg toks (text * N) h c0) ->
  exists st : state cfg (text * N),
    run_hist cfg toks (text * N) code_key_eqb (code_key cfg_hash) pattern_rel struct_pre struct_post spell_on suggest spell_mk h (fresh c0) = Ok (st, spec_hist cfg toks (text * N) pattern_rel struct_pre struct_post spell_on suggest spell_mk h c0) /\
    fresh_hist cfg toks (text * N) code_key_eqb (code_key cfg_hash) pattern_rel struct_pre struct_post spell_on suggest spell_mk h c0 = map Ok (spec_hist cfg toks (text * N) pattern_rel struct_pre struct_post spell_on suggest spell_mk h c0).
Print Assumptions C05_refinement.

(* H_chunk_fun is necessary: two tokenisations of the same characters with different pattern lints give a
   history with two Lint steps on which the reused linter and a fresh linter disagree (finding F11 is an
   instance: plain-text vs Markdown tokens of a clause containing inline code) *)
Theorem C05_needs_chunk_fun : forall (cfg toks : Type) (cfg_hash : cfg -> N)
    (pattern_rel : text -> toks -> cfg -> list clint)
    (struct_pre struct_post : cfg -> doc toks -> list clint)
    (spell_on : cfg -> bool) (suggest : text -> list text)
    (spell_mk : text -> span -> list text -> clint)
    (ch : text) (t1 t2 : toks) (c c0 : cfg),
  pattern_rel ch t1 c <> pattern_rel ch t2 c ->
  let h := [SetCfg c; Lint (one_chunk toks ch t1) [] []; SetCfg c; Lint (one_chunk toks ch t2) [] []] in
  exists (st : state cfg (text * N)) (o1 reused fresh_out : list clint),
    run_hist cfg toks (text * N) code_key_eqb (code_key cfg_hash) pattern_rel struct_pre struct_post spell_on suggest spell_mk h (fresh c0) = Ok (st, [o1; reused]) /\
    fresh_hist cfg toks (text * N) code_key_eqb (code_key cfg_hash) pattern_rel struct_pre struct_post spell_on suggest spell_mk h c0 = [Ok o1; Ok fresh_out] /\
    reused <> fresh_out.
Proof. exact code_needs_chunk_fun. Qed.
Check C05_needs_chunk_fun : forall (cfg toks : Type) (cfg_hash : cfg -> N)
    (pattern_rel : text -> toks -> cfg -> list clint)
    (struct_pre struct_post : cfg -> doc toks -> list clint)
    (spell_on : cfg -> bool) (suggest : text -> list text)
    (spell_mk : text -> span -> list text -> clint)
    (ch : text) (t1 t2 : toks) (c c0 : cfg),
  pattern_rel ch t1 c <> pattern_rel ch t2 c ->
  let h := [SetCfg c; Lint (one_chunk toks ch t1) [] []; SetCfg c; Lint (one_chunk toks ch t2) [] []] in
  exists (st : state cfg (text * N)) (o1 reused fresh_out : list clint),
    run_hist cfg toks (text * N) code_key_eqb (code_key cfg_hash) pattern_rel struct_pre struct_post spell_on suggest spell_mk h (fresh c0) = Ok (st, [o1; reused]) /\
    fresh_hist cfg toks (text * N) code_key_eqb (code_key cfg_hash) pattern_rel struct_pre struct_post spell_on suggest spell_mk h c0 = [Ok o1; Ok fresh_out] /\
    reused <> fresh_out.
Print Assumptions C05_needs_chunk_fun.

(* configuration-hash injectivity is an explicit hypothesis (monitored by the harness on the bytes the Hash
   impl feeds the hasher): together with H_chunk_fun it makes the code's key determine the cached value *)
Theorem C05_cfg_hash : forall (cfg toks : Type) (cfg_hash : cfg -> N)
    (pattern_rel : text -> toks -> cfg -> list clint) (U : list (text * toks * cfg)),
  hash_inj_on cfg toks cfg_hash U -> chunk_fun_on cfg toks pattern_rel U ->
  key_det cfg toks (text * N) (code_key cfg_hash) pattern_rel U.
Proof. exact code_key_det. Qed.
Check C05_cfg_hash : forall (cfg toks : Type) (cfg_hash : cfg -> N)
    (pattern_rel : text -> toks -> cfg -> list clint) (U : list (text * toks * cfg)),
  hash_inj_on cfg toks cfg_hash U -> chunk_fun_on cfg toks pattern_rel U ->
  key_det cfg toks (text * N) (code_key cfg_hash) pattern_rel U.
Print Assumptions C05_cfg_hash.

(* ... and it is necessary: two configurations with the same hash and different pattern lints on some chunk
   make the toggle observable *)
Theorem C05_cfg_hash_needed : forall (cfg toks : Type) (cfg_hash : cfg -> N)
    (pattern_rel : text -> toks -> cfg -> list clint)
    (struct_pre struct_post : cfg -> doc toks -> list clint)
    (spell_on : cfg -> bool) (suggest : text -> list text)
    (spell_mk : text -> span -> list text -> clint)
    (ch : text) (t : toks) (c1 c2 c0 : cfg),
  cfg_hash c1 = cfg_hash c2 -> pattern_rel ch t c1 <> pattern_rel ch t c2 ->
  let h := [SetCfg c1; Lint (one_chunk toks ch t) [] []; SetCfg c2; Lint (one_chunk toks ch t) [] []] in
  exists (st : state cfg (text * N)) (o1 reused fresh_out : list clint),
    run_hist cfg toks (text * N) code_key_eqb (code_key cfg_hash) pattern_rel struct_pre struct_post spell_on suggest spell_mk h (fresh c0) = Ok (st, [o1; reused]) /\
    fresh_hist cfg toks (text * N) code_key_eqb (code_key cfg_hash) pattern_rel struct_pre struct_post spell_on suggest spell_mk h c0 = [Ok o1; Ok fresh_out] /\
    reused <> fresh_out.
Proof. exact code_needs_cfg_hash. Qed.
Check C05_cfg_hash_needed : forall (cfg toks : Type) (cfg_hash : cfg -> N)
    (pattern_rel : text -> toks -> cfg -> list clint)
    (struct_pre struct_post : cfg -> doc toks -> list clint)
    (spell_on : cfg -> bool) (suggest : text -> list text)
    (spell_mk : text -> span -> list text -> clint)
    (ch : text) (t : toks) (c1 c2 c0 : cfg),
  cfg_hash c1 = cfg_hash c2 -> pattern_rel ch t c1 <> pattern_rel ch t c2 ->
  let h := [SetCfg c1; Lint (one_chunk toks ch t) [] []; SetCfg c2; Lint (one_chunk toks ch t) [] []] in
  exists (st : state cfg (text * N)) (o1 reused fresh_out : list clint),
    run_hist cfg toks (text * N) code_key_eqb (code_key cfg_hash) pattern_rel struct_pre struct_post spell_on suggest spell_mk h (fresh c0) = Ok (st, [o1; reused]) /\
    fresh_hist cfg toks (text * N) code_key_eqb (code_key cfg_hash) pattern_rel struct_pre struct_post spell_on suggest spell_mk h c0 = [Ok o1; Ok fresh_out] /\
    reused <> fresh_out.
Print Assumptions C05_cfg_hash_needed.

(* the key proposed in fixes/F11.diff — (chars, hash cfg, hash of the chunk's token kinds and relative
   spans): H_chunk_fun is no longer a hypothesis, only injectivity of the two hashes on what occurs *)
Theorem C05_fixed_key_refinement : forall (cfg toks : Type) (cfg_hash : cfg -> N)
    (pattern_rel : text -> toks -> cfg -> list clint)
    (struct_pre struct_post : cfg -> doc toks -> list clint)
    (spell_on : cfg -> bool) (suggest : text -> list text)
    (spell_mk : text -> span -> list text -> clint)
    (tok_hash : toks -> N) (h : list (op cfg toks (text * N * N))) (c0 : cfg),
  hash_inj_on cfg toks cfg_hash (hist_triples cfg toks (text * N * N) h c0) ->
  tok_hash_inj_on cfg toks tok_hash (hist_triples cfg toks (text * N * N) h c0) ->
  exists st : state cfg (text * N * N),
    run_hist cfg toks (text * N * N) fixed_key_eqb (fixed_key cfg_hash tok_hash) pattern_rel struct_pre struct_post spell_on suggest spell_mk h (fresh c0) = Ok (st, spec_hist cfg toks (text * N * N) pattern_rel struct_pre struct_post spell_on suggest spell_mk h c0) /\
    fresh_hist cfg toks (text * N * N) fixed_key_eqb (fixed_key cfg_hash tok_hash) pattern_rel struct_pre struct_post spell_on suggest spell_mk h c0 = map Ok (spec_hist cfg toks (text * N * N) pattern_rel struct_pre struct_post spell_on suggest spell_mk h c0).
Proof. exact fixed_refinement. Qed.
Check C05_fixed_key_refinement : forall (cfg toks : Type) (cfg_hash : cfg -> N)
    (pattern_rel : text -> toks -> cfg -> list clint)
    (struct_pre struct_post : cfg -> doc toks -> list clint)
    (spell_on : cfg -> bool) (suggest : text -> list text)
    (spell_mk : text -> span -> list text -> clint)
    (tok_hash : toks -> N) (h : list (op cfg toks (text * N * N))) (c0 : cfg),
  hash_inj_on cfg toks cfg_hash (hist_triples cfg toks (text * N * N) h c0) ->
  tok_hash_inj_on cfg toks tok_hash (hist_triples cfg toks (text * N * N) h c0) ->
  exists st : state cfg (text * N * N),
    run_hist cfg toks (text * N * N) fixed_key_eqb (fixed_key cfg_hash tok_hash) pattern_rel struct_pre struct_post spell_on suggest spell_mk h (fresh c0) = Ok (st, spec_hist cfg toks (text * N * N) pattern_rel struct_pre struct_post spell_on suggest spell_mk h c0) /\
    fresh_hist cfg toks (text * N * N) fixed_key_eqb (fixed_key cfg_hash tok_hash) pattern_rel struct_pre struct_post spell_on suggest spell_mk h c0 = map Ok (spec_hist cfg toks (text * N * N) pattern_rel struct_pre struct_post spell_on suggest spell_mk h c0).
Print Assumptions C05_fixed_key_refinement.

(* ---------- non-vacuity ---------- *)
(* a history whose hypotheses hold (one tokenisation throughout), non-trivially: the same clause at two
   offsets of one document (2nd occurrence is a cache hit), then under another configuration, then again
   under the first (hit from the first step unless evicted), a misspelt word twice, evictions in between *)
Example C05_refinement_nonvacuous :
  let d := ex_doc 0 in
  let h := [SetCfg 1%N; Lint d [] []; SetCfg 0%N; Lint d [] [];
            Evict (fun k => negb (N.eqb (snd k) 0)) (fun _ => false); SetCfg 1%N; Lint d [fun _ => true; fun _ => true; fun _ => false] []] in
  hash_inj_on N N (fun c => c) (hist_triples N N (text * N) h 0%N) /\
  chunk_fun_on N N ex_rel (hist_triples N N (text * N) h 0%N) /\
  ex_outs (ex_run h (fresh 0%N)) =
    [[(0, 0, 5%N); (4, 6, 3%N); (14, 16, 3%N); (1, 2, 7%N); (11, 12, 7%N)];
     [(0, 0, 5%N); (4, 6, 3%N); (14, 16, 3%N)];
     [(0, 0, 5%N); (4, 6, 3%N); (14, 16, 3%N); (1, 2, 7%N); (11, 12, 7%N)]] /\
  map Ok (ex_spec h 0%N) = ex_fresh h 0%N.
Proof.
  cbv zeta. split; [|split; [|split; vm_compute; reflexivity]].
  - intros x y Hx Hy. exact (fun e => e).
  - intros ch t1 t2 c H1 H2.
    assert (E : forall t, In (ch, t, c) (hist_triples N N (text * N)
              [SetCfg 1%N; Lint (ex_doc 0) [] []; SetCfg 0%N; Lint (ex_doc 0) [] [];
               Evict (fun k => negb (N.eqb (snd k) 0)) (fun _ => false); SetCfg 1%N;
               Lint (ex_doc 0) [fun _ => true; fun _ => true; fun _ => false] []] 0%N) -> t = 0%N).
    { intros t H. vm_compute in H. repeat (destruct H as [H|H]; [now inversion H|]). destruct H. }
    now rewrite (E t1 H1), (E t2 H2).
Qed.

(* the shape of F11 in the model: the clause tokenised as plain text (0), then as Markdown (1), on one linter:
   the reused linter serves the plain-text lint (1,2,7) for the Markdown document, a fresh linter does not;
   with the key of fixes/F11.diff both agree *)
Example C05_needs_chunk_fun_nonvacuous :
  let h := [SetCfg 1%N; Lint (ex_doc 0) [] []; Lint (ex_doc 1) [] []] in
  ex_rel [96; 98; 96]%N 0%N 1%N <> ex_rel [96; 98; 96]%N 1%N 1%N /\
  nth 1 (ex_outs (ex_run h (fresh 0%N))) [] = [(0, 0, 5%N); (4, 6, 3%N); (14, 16, 3%N); (1, 2, 7%N); (11, 12, 7%N)] /\
  nth 1 (ex_fresh h 0%N) (Panic PFuel) = Ok (nth 1 (ex_spec h 0%N) []) /\
  map (fun l => (sstart (cl_span l), send (cl_span l), cl_body l)) (nth 1 (ex_spec h 0%N) []) = [(0, 0, 5%N); (4, 6, 3%N); (14, 16, 3%N)] /\
  nth 1 (ex_outs (ex_run_fixed [SetCfg 1%N; Lint (ex_doc 0) [] []; Lint (ex_doc 1) [] []] (fresh 0%N))) [] = [(0, 0, 5%N); (4, 6, 3%N); (14, 16, 3%N)].
Proof. cbv zeta. split; [vm_compute; discriminate|]. repeat split; vm_compute; reflexivity. Qed.
