(* C05 — lint results depend only on text, language, dictionary and configuration.
   This file pins the statements; it contains nothing but `exact` (+ vm_compute examples).
   Model: Model/Cache.v (LintGroup::lint's chunk cache with the key (characters, config hash, token hash) of
   commit a050122, SpellCheck's word cache, any eviction).  The statements quantify over every rule set
   (pattern_rel, struct_pre, struct_post), every suggestion function, every configuration / token-kind type and
   hash, every history and every eviction schedule. *)
Require Import Base Overlap Cache CacheProofs C05Entry C05EntryProofs C05Lru C05LruProofs C05Thread C05ThreadProofs C05Life C05LifeProofs C05EdProofs Tables_c05statics.

(* `chunk.span()` (minimum and maximum over the starts and ends of the chunk's tokens, Span::new) never panics *)
Theorem C05_hull_total : forall (kind : Type) (ts : list (tok kind)), exists o : option span, hull_of ts = Ok o.
Proof. exact code_hull_total. Qed.
Check C05_hull_total : forall (kind : Type) (ts : list (tok kind)), exists o : option span, hull_of ts = Ok o.
Print Assumptions C05_hull_total.

(* the chunks LintGroup::lint derives from a source and the token slices of iter_chunks() (hull, then
   get_span_content) are well-formed: no token starts or ends before its chunk's start — the hypothesis
   `hist_wf` of the theorems below holds by construction for every document the code can see, so the checked
   subtractions that feed the token hash never underflow *)
Theorem C05_doc_of_wf : forall (kind : Type) (src : text) (chunks : list (list (tok kind))) (miss : list (span * text)) (rest : N) (d : doc kind),
  doc_of src chunks miss rest = Ok d -> doc_wf d.
Proof. exact code_doc_of_wf. Qed.
Check C05_doc_of_wf : forall (kind : Type) (src : text) (chunks : list (list (tok kind))) (miss : list (span * text)) (rest : N) (d : doc kind),
  doc_of src chunks miss rest = Ok d -> doc_wf d.
Print Assumptions C05_doc_of_wf.

(* for EVERY history (set-config | lint | evict, with an adversarial eviction schedule inside every lint) on a
   linter that started with empty caches: no step panics (neither the subtractions of the token hash nor the
   pull_by of a miss underflow); every entry (chars, config hash, token hash) -> v of the chunk cache is the
   uncached result of the pattern rules on a chunk of that history with these characters, a tokenisation
   with this token hash and a configuration with this hash; every entry of the spelling cache is the
   uncached suggestion list of its word *)
Theorem C05_cache_inv : forall (cfg kind : Type) (cfg_hash : cfg -> N) (tok_hash : list (tok kind) -> N)
    (pattern_rel : text -> list (tok kind) -> cfg -> list clint)
    (struct_pre struct_post : cfg -> doc kind -> list clint)
    (spell_on : cfg -> bool) (suggest : text -> list text)
    (spell_mk : text -> span -> list text -> clint)
    (h : list (op cfg kind (text * N * N))) (c0 : cfg),
  hist_wf cfg kind (text * N * N) h ->
  exists (st : state cfg (text * N * N)) (outs : list (list clint)),
    run_hist cfg kind (text * N * N) code_key_eqb (code_key cfg_hash tok_hash) pattern_rel struct_pre struct_post spell_on suggest spell_mk h (fresh c0) = Ok (st, outs) /\
    (forall (chars : text) (hc ht : N) (v : list clint),
       lookup code_key_eqb (chars, hc, ht) (st_cache st) = Some v ->
       exists (t : list (tok kind)) (c : cfg),
         In (chars, t, c) (hist_triples cfg kind (text * N * N) h c0) /\ cfg_hash c = hc /\ tok_hash t = ht /\ v = pattern_rel chars t c) /\
    (forall (w : text) (v : list text), lookup text_eqb w (st_spell st) = Some v -> v = suggest w).
Proof. exact code_cache_inv. Qed.
Check C05_cache_inv : forall (cfg kind : Type) (cfg_hash : cfg -> N) (tok_hash : list (tok kind) -> N)
    (pattern_rel : text -> list (tok kind) -> cfg -> list clint)
    (struct_pre struct_post : cfg -> doc kind -> list clint)
    (spell_on : cfg -> bool) (suggest : text -> list text)
    (spell_mk : text -> span -> list text -> clint)
    (h : list (op cfg kind (text * N * N))) (c0 : cfg),
  hist_wf cfg kind (text * N * N) h ->
  exists (st : state cfg (text * N * N)) (outs : list (list clint)),
    run_hist cfg kind (text * N * N) code_key_eqb (code_key cfg_hash tok_hash) pattern_rel struct_pre struct_post spell_on suggest spell_mk h (fresh c0) = Ok (st, outs) /\
    (forall (chars : text) (hc ht : N) (v : list clint),
       lookup code_key_eqb (chars, hc, ht) (st_cache st) = Some v ->
       exists (t : list (tok kind)) (c : cfg),
         In (chars, t, c) (hist_triples cfg kind (text * N * N) h c0) /\ cfg_hash c = hc /\ tok_hash t = ht /\ v = pattern_rel chars t c) /\
    (forall (w : text) (v : list text), lookup text_eqb w (st_spell st) = Some v -> v = suggest w).
Print Assumptions C05_cache_inv.

(* THE refinement, for the key the code builds since commit a050122: if, on the chunks and configurations the
   history touches, the configuration hash and the token hash are injective (64-bit keyed hashes; monitored
   on the hasher INPUT by the harness), then for every history — any mixture of languages / tokenisations of
   the same characters on one linter — and every eviction schedule each Lint step answers exactly what the
   cache-free specification answers, and so does a freshly built linter asked at that moment (fresh_hist):
   the caches are unobservable.  No hypothesis about the rules (H_chunk_fun is gone); the spelling cache
   needs no hypothesis at all (its key is the whole argument). *)
Theorem C05_refinement : forall (cfg kind : Type) (cfg_hash : cfg -> N) (tok_hash : list (tok kind) -> N)
    (pattern_rel : text -> list (tok kind) -> cfg -> list clint)
    (struct_pre struct_post : cfg -> doc kind -> list clint)
    (spell_on : cfg -> bool) (suggest : text -> list text)
    (spell_mk : text -> span -> list text -> clint)
    (h : list (op cfg kind (text * N * N))) (c0 : cfg),
  hist_wf cfg kind (text * N * N) h ->
  hash_inj_on cfg kind cfg_hash (hist_triples cfg kind (text * N * N) h c0) ->
  tok_hash_inj_on cfg kind tok_hash (hist_triples cfg kind (text * N * N) h c0) ->
  exists st : state cfg (text * N * N),
    run_hist cfg kind (text * N * N) code_key_eqb (code_key cfg_hash tok_hash) pattern_rel struct_pre struct_post spell_on suggest spell_mk h (fresh c0) = Ok (st, spec_hist cfg kind (text * N * N) pattern_rel struct_pre struct_post spell_on suggest spell_mk h c0) /\
    fresh_hist cfg kind (text * N * N) code_key_eqb (code_key cfg_hash tok_hash) pattern_rel struct_pre struct_post spell_on suggest spell_mk h c0 = map Ok (spec_hist cfg kind (text * N * N) pattern_rel struct_pre struct_post spell_on suggest spell_mk h c0).
Proof. exact code_refinement. Qed.
Check C05_refinement : forall (cfg kind : Type) (cfg_hash : cfg -> N) (tok_hash : list (tok kind) -> N)
    (pattern_rel : text -> list (tok kind) -> cfg -> list clint)
    (struct_pre struct_post : cfg -> doc kind -> list clint)
    (spell_on : cfg -> bool) (suggest : text -> list text)
    (spell_mk : text -> span -> list text -> clint)
    (h : list (op cfg kind (text * N * N))) (c0 : cfg),
  hist_wf cfg kind (text * N * N) h ->
  hash_inj_on cfg kind cfg_hash (hist_triples cfg kind (text * N * N) h c0) ->
  tok_hash_inj_on cfg kind tok_hash (hist_triples cfg kind (text * N * N) h c0) ->
  exists st : state cfg (text * N * N),
    run_hist cfg kind (text * N * N) code_key_eqb (code_key cfg_hash tok_hash) pattern_rel struct_pre struct_post spell_on suggest spell_mk h (fresh c0) = Ok (st, spec_hist cfg kind (text * N * N) pattern_rel struct_pre struct_post spell_on suggest spell_mk h c0) /\
    fresh_hist cfg kind (text * N * N) code_key_eqb (code_key cfg_hash tok_hash) pattern_rel struct_pre struct_post spell_on suggest spell_mk h c0 = map Ok (spec_hist cfg kind (text * N * N) pattern_rel struct_pre struct_post spell_on suggest spell_mk h c0).
Print Assumptions C05_refinement.

(* injectivity of the two hashes makes the code's key determine the cached value (for ANY rule set) *)
Theorem C05_key_det : forall (cfg kind : Type) (cfg_hash : cfg -> N) (tok_hash : list (tok kind) -> N)
    (pattern_rel : text -> list (tok kind) -> cfg -> list clint) (U : list (text * list (tok kind) * cfg)),
  hash_inj_on cfg kind cfg_hash U -> tok_hash_inj_on cfg kind tok_hash U ->
  key_det cfg kind (text * N * N) (code_key cfg_hash tok_hash) pattern_rel U.
Proof. exact code_key_det. Qed.
Check C05_key_det : forall (cfg kind : Type) (cfg_hash : cfg -> N) (tok_hash : list (tok kind) -> N)
    (pattern_rel : text -> list (tok kind) -> cfg -> list clint) (U : list (text * list (tok kind) * cfg)),
  hash_inj_on cfg kind cfg_hash U -> tok_hash_inj_on cfg kind tok_hash U ->
  key_det cfg kind (text * N * N) (code_key cfg_hash tok_hash) pattern_rel U.
Print Assumptions C05_key_det.

(* ... and each injectivity hypothesis is necessary: two configurations with the same hash and different
   pattern lints on some chunk make the toggle observable *)
Theorem C05_cfg_hash_needed : forall (cfg kind : Type) (cfg_hash : cfg -> N) (tok_hash : list (tok kind) -> N)
    (pattern_rel : text -> list (tok kind) -> cfg -> list clint)
    (struct_pre struct_post : cfg -> doc kind -> list clint)
    (spell_on : cfg -> bool) (suggest : text -> list text)
    (spell_mk : text -> span -> list text -> clint)
    (ch : text) (t : list (tok kind)) (c1 c2 c0 : cfg),
  cfg_hash c1 = cfg_hash c2 -> pattern_rel ch t c1 <> pattern_rel ch t c2 ->
  let h := [SetCfg c1; Lint (one_chunk kind ch t) [] []; SetCfg c2; Lint (one_chunk kind ch t) [] []] in
  exists (st : state cfg (text * N * N)) (o1 reused fresh_out : list clint),
    run_hist cfg kind (text * N * N) code_key_eqb (code_key cfg_hash tok_hash) pattern_rel struct_pre struct_post spell_on suggest spell_mk h (fresh c0) = Ok (st, [o1; reused]) /\
    fresh_hist cfg kind (text * N * N) code_key_eqb (code_key cfg_hash tok_hash) pattern_rel struct_pre struct_post spell_on suggest spell_mk h c0 = [Ok o1; Ok fresh_out] /\
    reused <> fresh_out.
Proof. exact code_needs_cfg_hash. Qed.
Check C05_cfg_hash_needed : forall (cfg kind : Type) (cfg_hash : cfg -> N) (tok_hash : list (tok kind) -> N)
    (pattern_rel : text -> list (tok kind) -> cfg -> list clint)
    (struct_pre struct_post : cfg -> doc kind -> list clint)
    (spell_on : cfg -> bool) (suggest : text -> list text)
    (spell_mk : text -> span -> list text -> clint)
    (ch : text) (t : list (tok kind)) (c1 c2 c0 : cfg),
  cfg_hash c1 = cfg_hash c2 -> pattern_rel ch t c1 <> pattern_rel ch t c2 ->
  let h := [SetCfg c1; Lint (one_chunk kind ch t) [] []; SetCfg c2; Lint (one_chunk kind ch t) [] []] in
  exists (st : state cfg (text * N * N)) (o1 reused fresh_out : list clint),
    run_hist cfg kind (text * N * N) code_key_eqb (code_key cfg_hash tok_hash) pattern_rel struct_pre struct_post spell_on suggest spell_mk h (fresh c0) = Ok (st, [o1; reused]) /\
    fresh_hist cfg kind (text * N * N) code_key_eqb (code_key cfg_hash tok_hash) pattern_rel struct_pre struct_post spell_on suggest spell_mk h c0 = [Ok o1; Ok fresh_out] /\
    reused <> fresh_out.
Print Assumptions C05_cfg_hash_needed.

(* two tokenisations of the same characters with the same token hash and different pattern lints make the
   cache observable in two steps (what finding F11 was, when the key had no token component at all) *)
Theorem C05_tok_hash_needed : forall (cfg kind : Type) (cfg_hash : cfg -> N) (tok_hash : list (tok kind) -> N)
    (pattern_rel : text -> list (tok kind) -> cfg -> list clint)
    (struct_pre struct_post : cfg -> doc kind -> list clint)
    (spell_on : cfg -> bool) (suggest : text -> list text)
    (spell_mk : text -> span -> list text -> clint)
    (ch : text) (t1 t2 : list (tok kind)) (c c0 : cfg),
  tok_hash t1 = tok_hash t2 -> pattern_rel ch t1 c <> pattern_rel ch t2 c ->
  let h := [SetCfg c; Lint (one_chunk kind ch t1) [] []; SetCfg c; Lint (one_chunk kind ch t2) [] []] in
  exists (st : state cfg (text * N * N)) (o1 reused fresh_out : list clint),
    run_hist cfg kind (text * N * N) code_key_eqb (code_key cfg_hash tok_hash) pattern_rel struct_pre struct_post spell_on suggest spell_mk h (fresh c0) = Ok (st, [o1; reused]) /\
    fresh_hist cfg kind (text * N * N) code_key_eqb (code_key cfg_hash tok_hash) pattern_rel struct_pre struct_post spell_on suggest spell_mk h c0 = [Ok o1; Ok fresh_out] /\
    reused <> fresh_out.
Proof. exact code_needs_tok_hash. Qed.
Check C05_tok_hash_needed : forall (cfg kind : Type) (cfg_hash : cfg -> N) (tok_hash : list (tok kind) -> N)
    (pattern_rel : text -> list (tok kind) -> cfg -> list clint)
    (struct_pre struct_post : cfg -> doc kind -> list clint)
    (spell_on : cfg -> bool) (suggest : text -> list text)
    (spell_mk : text -> span -> list text -> clint)
    (ch : text) (t1 t2 : list (tok kind)) (c c0 : cfg),
  tok_hash t1 = tok_hash t2 -> pattern_rel ch t1 c <> pattern_rel ch t2 c ->
  let h := [SetCfg c; Lint (one_chunk kind ch t1) [] []; SetCfg c; Lint (one_chunk kind ch t2) [] []] in
  exists (st : state cfg (text * N * N)) (o1 reused fresh_out : list clint),
    run_hist cfg kind (text * N * N) code_key_eqb (code_key cfg_hash tok_hash) pattern_rel struct_pre struct_post spell_on suggest spell_mk h (fresh c0) = Ok (st, [o1; reused]) /\
    fresh_hist cfg kind (text * N * N) code_key_eqb (code_key cfg_hash tok_hash) pattern_rel struct_pre struct_post spell_on suggest spell_mk h c0 = [Ok o1; Ok fresh_out] /\
    reused <> fresh_out.
Print Assumptions C05_tok_hash_needed.

(* ---------- non-vacuity ---------- *)
(* a history whose hypotheses hold, non-trivially: documents built as the code builds them (doc_of: hull and
   characters from the source); the same clause at two offsets of one document (the 2nd occurrence is a cache
   hit, re-based), tokenised as plain text (0) and then — on the same linter — as Markdown (1), under another
   configuration, then again under the first (hit from the first step unless evicted), a misspelt word twice,
   evictions in between.  The Markdown step (3rd output) carries no lint inside the inline code although the
   plain-text entry for the same characters and configuration is in the cache. *)
Example C05_refinement_nonvacuous :
  hist_wf N N (text * N * N) ex_hist /\
  hash_inj_on N N (fun c => c) (hist_triples N N (text * N * N) ex_hist 0%N) /\
  tok_hash_inj_on N N ex_tok_hash (hist_triples N N (text * N * N) ex_hist 0%N) /\
  ex_outs (ex_run ex_hist (fresh 0%N)) =
    [[(0, 0, 5%N); (4, 6, 3%N); (14, 16, 3%N); (1, 2, 7%N); (11, 12, 7%N)];
     [(0, 0, 5%N); (4, 6, 3%N); (14, 16, 3%N)];
     [(0, 0, 5%N); (4, 6, 3%N); (14, 16, 3%N)];
     [(0, 0, 5%N); (4, 6, 3%N); (14, 16, 3%N); (1, 2, 7%N); (11, 12, 7%N)]] /\
  map Ok (ex_spec ex_hist 0%N) = ex_fresh ex_hist 0%N.
Proof.
  split; [|split; [|split; [|split; vm_compute; reflexivity]]].
  - unfold ex_hist. cbn [hist_wf]. repeat split; apply ex_doc_wf.
  - intros x y Hx Hy. exact (fun e => e).
  - intros x y Hx Hy. vm_compute in Hx, Hy.
    repeat (destruct Hx as [Hx|Hx]; [subst x|]); try destruct Hx;
    repeat (destruct Hy as [Hy|Hy]; [subst y|]); try destruct Hy; vm_compute; intros E; try reflexivity; discriminate E.
Qed.

(* the hypotheses of the two converse theorems are satisfiable: with a token hash that collides for the two
   tokenisations (here: constant), the Markdown document is served the plain-text lint *)
Example C05_tok_hash_needed_nonvacuous :
  let ch := [96; 98; 96]%N in
  (fun _ : list (tok N) => 0%N) (ex_toks 0 0) = (fun _ : list (tok N) => 0%N) (ex_toks 0 1) /\
  ex_rel ch (ex_toks 0 0) 1%N <> ex_rel ch (ex_toks 0 1) 1%N.
Proof. cbv zeta. split; [reflexivity|vm_compute; discriminate]. Qed.

(* HISTORY (regression witness, labelled): the shape of finding F11 with the key BEFORE commit a050122
   (code_key_old: characters and config hash only).  The clause tokenised as plain text, then as Markdown, on
   one linter: the reused linter served the plain-text lints (1,2,7), (11,12,7) for the Markdown document, the
   specification (= a fresh linter) has none; with the current key (ex_run) both agree. *)
Example C05_old_key_refuted :
  let h_old : list (op N N (text * N)) := [SetCfg 1%N; Lint (ex_doc 0) [] []; Lint (ex_doc 1) [] []] in
  let h : list (op N N (text * N * N)) := [SetCfg 1%N; Lint (ex_doc 0) [] []; Lint (ex_doc 1) [] []] in
  nth 1 (ex_outs (ex_run_old h_old (fresh 0%N))) [] = [(0, 0, 5%N); (4, 6, 3%N); (14, 16, 3%N); (1, 2, 7%N); (11, 12, 7%N)] /\
  map (fun l => (sstart (cl_span l), send (cl_span l), cl_body l)) (nth 1 (ex_spec h 0%N) []) = [(0, 0, 5%N); (4, 6, 3%N); (14, 16, 3%N)] /\
  nth 1 (ex_fresh h 0%N) (Panic PFuel) = Ok (nth 1 (ex_spec h 0%N) []) /\
  nth 1 (ex_outs (ex_run h (fresh 0%N))) [] = [(0, 0, 5%N); (4, 6, 3%N); (14, 16, 3%N)].
Proof. cbv zeta. repeat split; vm_compute; reflexivity. Qed.

(* ====================================================================================================
   THE ENTRY POINTS (Model/C05Entry.v): harper_wasm::Linter::lint and harper-ls
   DocumentState::generate_diagnostics, as they compose  temp = config.clone(); config.fill_with_curated();
   LintGroup::lint (= Cache.lint_doc: chunk cache, spelling cache, any eviction); config = temp;
   remove_overlaps (wasm only; Overlap.remove_overlaps); IgnoredLints::remove_ignored  — over histories of
   set-config | lint | ignore_lint | import / clear ignored lints | rebuild of the LintGroup over another
   dictionary (synchronize_lint_dict, update_document, did_change_configuration) | eviction.
   Quantified over every rule set (now also a function of the dictionary), every fill_with_curated, every
   context-hash function, both entry points.
   ==================================================================================================== *)

(* refinement to the CACHE-FREE specification: under the two injectivity hypotheses (on the triples with the
   EFFECTIVE configuration fill(stored)), every history on either entry point runs without panic, every lint
   step answers espec_lint(entry, abstract state, document) where the abstract state is (dictionary, stored
   configuration, ignored context hashes) — nothing else of the past is observable —, and the concrete state
   ends in the abstract state the specification computes (the stored configuration survives every lint:
   the restore after fill_with_curated) *)
Theorem C05_entry_refinement : forall (cfg kind dict : Type) (cfg_hash : cfg -> N) (tok_hash : list (tok kind) -> N) (fill : cfg -> cfg)
    (pattern_rel : dict -> text -> list (tok kind) -> cfg -> list clint) (struct_pre struct_post : dict -> cfg -> doc kind -> list clint)
    (spell_on : cfg -> bool) (suggest : dict -> text -> list text) (spell_mk : text -> span -> list text -> clint)
    (ctx : doc kind -> clint -> N) (e : entry) (h : list (eop cfg kind dict)) (dc0 : dict) (c0 : cfg),
  ehist_wf cfg kind dict h ->
  hash_inj_on cfg kind cfg_hash (ehist_triples cfg kind dict fill h c0) ->
  tok_hash_inj_on cfg kind tok_hash (ehist_triples cfg kind dict fill h c0) ->
  exists st : estate cfg dict,
    run_ehist cfg kind dict cfg_hash tok_hash fill pattern_rel struct_pre struct_post spell_on suggest spell_mk ctx e h (efresh dc0 c0) = Ok (st, espec_hist cfg kind dict fill pattern_rel struct_pre struct_post spell_on suggest spell_mk ctx e h (mkastate dc0 c0 [])) /\
    abs_of cfg dict st = abs_after cfg kind dict ctx h (mkastate dc0 c0 []).
Proof. exact entry_refinement. Qed.
Check C05_entry_refinement : forall (cfg kind dict : Type) (cfg_hash : cfg -> N) (tok_hash : list (tok kind) -> N) (fill : cfg -> cfg)
    (pattern_rel : dict -> text -> list (tok kind) -> cfg -> list clint) (struct_pre struct_post : dict -> cfg -> doc kind -> list clint)
    (spell_on : cfg -> bool) (suggest : dict -> text -> list text) (spell_mk : text -> span -> list text -> clint)
    (ctx : doc kind -> clint -> N) (e : entry) (h : list (eop cfg kind dict)) (dc0 : dict) (c0 : cfg),
  ehist_wf cfg kind dict h ->
  hash_inj_on cfg kind cfg_hash (ehist_triples cfg kind dict fill h c0) ->
  tok_hash_inj_on cfg kind tok_hash (ehist_triples cfg kind dict fill h c0) ->
  exists st : estate cfg dict,
    run_ehist cfg kind dict cfg_hash tok_hash fill pattern_rel struct_pre struct_post spell_on suggest spell_mk ctx e h (efresh dc0 c0) = Ok (st, espec_hist cfg kind dict fill pattern_rel struct_pre struct_post spell_on suggest spell_mk ctx e h (mkastate dc0 c0 [])) /\
    abs_of cfg dict st = abs_after cfg kind dict ctx h (mkastate dc0 c0 []).
Print Assumptions C05_entry_refinement.

(* ... and that is what a freshly built entry point in the same abstract state answers *)
Theorem C05_entry_fresh_spec : forall (cfg kind dict : Type) (cfg_hash : cfg -> N) (tok_hash : list (tok kind) -> N) (fill : cfg -> cfg)
    (pattern_rel : dict -> text -> list (tok kind) -> cfg -> list clint) (struct_pre struct_post : dict -> cfg -> doc kind -> list clint)
    (spell_on : cfg -> bool) (suggest : dict -> text -> list text) (spell_mk : text -> span -> list text -> clint)
    (ctx : doc kind -> clint -> N) (e : entry) (a : astate cfg dict) (d : doc kind),
  doc_wf d ->
  hash_inj_on cfg kind cfg_hash (doc_triples cfg kind (fill (a_cfg a)) d) ->
  tok_hash_inj_on cfg kind tok_hash (doc_triples cfg kind (fill (a_cfg a)) d) ->
  efresh_lint cfg kind dict cfg_hash tok_hash fill pattern_rel struct_pre struct_post spell_on suggest spell_mk ctx e a d = Ok (espec_lint cfg kind dict fill pattern_rel struct_pre struct_post spell_on suggest spell_mk ctx e a d).
Proof. exact entry_fresh_spec. Qed.
Check C05_entry_fresh_spec : forall (cfg kind dict : Type) (cfg_hash : cfg -> N) (tok_hash : list (tok kind) -> N) (fill : cfg -> cfg)
    (pattern_rel : dict -> text -> list (tok kind) -> cfg -> list clint) (struct_pre struct_post : dict -> cfg -> doc kind -> list clint)
    (spell_on : cfg -> bool) (suggest : dict -> text -> list text) (spell_mk : text -> span -> list text -> clint)
    (ctx : doc kind -> clint -> N) (e : entry) (a : astate cfg dict) (d : doc kind),
  doc_wf d ->
  hash_inj_on cfg kind cfg_hash (doc_triples cfg kind (fill (a_cfg a)) d) ->
  tok_hash_inj_on cfg kind tok_hash (doc_triples cfg kind (fill (a_cfg a)) d) ->
  efresh_lint cfg kind dict cfg_hash tok_hash fill pattern_rel struct_pre struct_post spell_on suggest spell_mk ctx e a d = Ok (espec_lint cfg kind dict fill pattern_rel struct_pre struct_post spell_on suggest spell_mk ctx e a d).
Print Assumptions C05_entry_fresh_spec.

(* HISTORY INDEPENDENCE: two histories that end in the same abstract state (dictionary, stored configuration,
   ignore list) — whatever documents in whatever languages were linted, whatever was toggled, ignored,
   rebuilt or evicted on the way — answer the next document identically *)
Theorem C05_entry_history_independent : forall (cfg kind dict : Type) (cfg_hash : cfg -> N) (tok_hash : list (tok kind) -> N) (fill : cfg -> cfg)
    (pattern_rel : dict -> text -> list (tok kind) -> cfg -> list clint) (struct_pre struct_post : dict -> cfg -> doc kind -> list clint)
    (spell_on : cfg -> bool) (suggest : dict -> text -> list text) (spell_mk : text -> span -> list text -> clint)
    (ctx : doc kind -> clint -> N) (e : entry) (h1 h2 : list (eop cfg kind dict)) (dc1 : dict) (c1 : cfg) (dc2 : dict) (c2 : cfg) (d : doc kind)
    (evs1 : list (text * N * N -> bool)) (sevs1 : list (text -> bool)) (evs2 : list (text * N * N -> bool)) (sevs2 : list (text -> bool)),
  let g1 := h1 ++ [ELint d evs1 sevs1] in
  let g2 := h2 ++ [ELint d evs2 sevs2] in
  ehist_wf cfg kind dict g1 -> ehist_wf cfg kind dict g2 ->
  hash_inj_on cfg kind cfg_hash (ehist_triples cfg kind dict fill g1 c1) ->
  tok_hash_inj_on cfg kind tok_hash (ehist_triples cfg kind dict fill g1 c1) ->
  hash_inj_on cfg kind cfg_hash (ehist_triples cfg kind dict fill g2 c2) ->
  tok_hash_inj_on cfg kind tok_hash (ehist_triples cfg kind dict fill g2 c2) ->
  abs_after cfg kind dict ctx h1 (mkastate dc1 c1 []) = abs_after cfg kind dict ctx h2 (mkastate dc2 c2 []) ->
  exists (st1 st2 : estate cfg dict) (o1 o2 : list (list clint)) (out : list clint),
    run_ehist cfg kind dict cfg_hash tok_hash fill pattern_rel struct_pre struct_post spell_on suggest spell_mk ctx e g1 (efresh dc1 c1) = Ok (st1, o1 ++ [out]) /\
    run_ehist cfg kind dict cfg_hash tok_hash fill pattern_rel struct_pre struct_post spell_on suggest spell_mk ctx e g2 (efresh dc2 c2) = Ok (st2, o2 ++ [out]) /\
    out = espec_lint cfg kind dict fill pattern_rel struct_pre struct_post spell_on suggest spell_mk ctx e (abs_after cfg kind dict ctx h1 (mkastate dc1 c1 [])) d.
Proof. exact entry_history_independent. Qed.
Check C05_entry_history_independent : forall (cfg kind dict : Type) (cfg_hash : cfg -> N) (tok_hash : list (tok kind) -> N) (fill : cfg -> cfg)
    (pattern_rel : dict -> text -> list (tok kind) -> cfg -> list clint) (struct_pre struct_post : dict -> cfg -> doc kind -> list clint)
    (spell_on : cfg -> bool) (suggest : dict -> text -> list text) (spell_mk : text -> span -> list text -> clint)
    (ctx : doc kind -> clint -> N) (e : entry) (h1 h2 : list (eop cfg kind dict)) (dc1 : dict) (c1 : cfg) (dc2 : dict) (c2 : cfg) (d : doc kind)
    (evs1 : list (text * N * N -> bool)) (sevs1 : list (text -> bool)) (evs2 : list (text * N * N -> bool)) (sevs2 : list (text -> bool)),
  let g1 := h1 ++ [ELint d evs1 sevs1] in
  let g2 := h2 ++ [ELint d evs2 sevs2] in
  ehist_wf cfg kind dict g1 -> ehist_wf cfg kind dict g2 ->
  hash_inj_on cfg kind cfg_hash (ehist_triples cfg kind dict fill g1 c1) ->
  tok_hash_inj_on cfg kind tok_hash (ehist_triples cfg kind dict fill g1 c1) ->
  hash_inj_on cfg kind cfg_hash (ehist_triples cfg kind dict fill g2 c2) ->
  tok_hash_inj_on cfg kind tok_hash (ehist_triples cfg kind dict fill g2 c2) ->
  abs_after cfg kind dict ctx h1 (mkastate dc1 c1 []) = abs_after cfg kind dict ctx h2 (mkastate dc2 c2 []) ->
  exists (st1 st2 : estate cfg dict) (o1 o2 : list (list clint)) (out : list clint),
    run_ehist cfg kind dict cfg_hash tok_hash fill pattern_rel struct_pre struct_post spell_on suggest spell_mk ctx e g1 (efresh dc1 c1) = Ok (st1, o1 ++ [out]) /\
    run_ehist cfg kind dict cfg_hash tok_hash fill pattern_rel struct_pre struct_post spell_on suggest spell_mk ctx e g2 (efresh dc2 c2) = Ok (st2, o2 ++ [out]) /\
    out = espec_lint cfg kind dict fill pattern_rel struct_pre struct_post spell_on suggest spell_mk ctx e (abs_after cfg kind dict ctx h1 (mkastate dc1 c1 [])) d.
Print Assumptions C05_entry_history_independent.

(* non-vacuity: one history on both entry points — lint, ignore one of the lints (its context recurs at another
   offset: both disappear), lint again (all cache hits), another configuration, a rebuild over another
   dictionary (other rules, empty caches), ignore list cleared, eviction of everything, rebuild back.
   Wasm: sorted, the lint (1,2,7) overlapped by (0,2,5) is dropped by remove_overlaps; Ls: LintGroup order. *)
Example C05_entry_refinement_nonvacuous :
  ehist_wf N N N ee_hist /\
  hash_inj_on N N (fun c => c) (ehist_triples N N N ee_fill ee_hist 0%N) /\
  tok_hash_inj_on N N ex_tok_hash (ehist_triples N N N ee_fill ee_hist 0%N) /\
  ee_outs (ee_run Wasm ee_hist (efresh 0%N 0%N)) =
    [[(0, 2, 5%N); (4, 6, 3%N); (11, 12, 7%N); (14, 16, 3%N)];
     [(0, 2, 5%N); (4, 6, 3%N); (14, 16, 3%N)];
     [(0, 2, 5%N); (4, 6, 3%N); (14, 16, 3%N)];
     [(0, 2, 5%N); (4, 6, 3%N); (14, 16, 3%N)];
     [(0, 2, 5%N); (4, 6, 3%N); (11, 12, 7%N); (14, 16, 3%N)]] /\
  ee_outs (ee_run Ls ee_hist (efresh 0%N 0%N)) =
    [[(0, 2, 5%N); (4, 6, 3%N); (14, 16, 3%N); (1, 2, 7%N); (11, 12, 7%N)];
     [(0, 2, 5%N); (4, 6, 3%N); (14, 16, 3%N)];
     [(0, 2, 5%N); (4, 6, 3%N); (14, 16, 3%N)];
     [(0, 2, 5%N); (4, 6, 3%N); (14, 16, 3%N)];
     [(0, 2, 5%N); (4, 6, 3%N); (14, 16, 3%N); (1, 2, 7%N); (11, 12, 7%N)]] /\
  (forall e, match ee_run e ee_hist (efresh 0%N 0%N) with Ok (_, outs) => outs = ee_spec e ee_hist (mkastate 0%N 0%N []) | Panic _ => False end).
Proof.
  split; [|split; [|split; [|split; [|split]]]].
  - unfold ee_hist. cbn [ehist_wf]. repeat split; apply ex_doc_wf.
  - intros x y Hx Hy. exact (fun e => e).
  - intros x y Hx Hy. vm_compute in Hx, Hy.
    repeat (destruct Hx as [Hx|Hx]; [subst x|]); try destruct Hx;
    repeat (destruct Hy as [Hy|Hy]; [subst y|]); try destruct Hy; vm_compute; intros E; try reflexivity; discriminate E.
  - vm_compute. reflexivity.
  - vm_compute. reflexivity.
  - intros []; vm_compute; reflexivity.
Qed.

(* ====================================================================================================
   SpellCheck.word_cache with the REAL replacement policy of the `lru` crate (Model/C05Lru.v): a recency list,
   get promotes, put evicts the least recently used entry at capacity.  The contract it rests on — the uncached
   suggestions are a function of the word for a fixed (dictionary, dialect) — is the type of `suggest`
   (monitor spell_fun).
   ==================================================================================================== *)

(* for every capacity, every cache content whose entries are uncached results, every sequence of rejected words:
   SpellCheck::lint emits the lints of the cache-free specification (promotion and eviction are unobservable in
   the output), every entry left is an uncached result, one hit/miss flag per word, and the cache never grows
   beyond its capacity *)
Theorem C05_lru_words_transparent : forall (suggest : text -> list text) (spell_mk : text -> span -> list text -> clint) (cap : nat) (ws : list (span * text))
    (sm : list (text * list text)),
  spell_ok suggest sm ->
  exists (sm' : list (text * list text)) (hits : list bool),
    lru_lint_words suggest spell_mk cap ws sm = (sm', spec_words suggest spell_mk ws, hits) /\
    spell_ok suggest sm' /\ length hits = length ws /\ (1 <= cap -> length sm <= cap -> length sm' <= cap).
Proof. exact lru_words_transparent. Qed.
Check C05_lru_words_transparent : forall (suggest : text -> list text) (spell_mk : text -> span -> list text -> clint) (cap : nat) (ws : list (span * text))
    (sm : list (text * list text)),
  spell_ok suggest sm ->
  exists (sm' : list (text * list text)) (hits : list bool),
    lru_lint_words suggest spell_mk cap ws sm = (sm', spec_words suggest spell_mk ws, hits) /\
    spell_ok suggest sm' /\ length hits = length ws /\ (1 <= cap -> length sm <= cap -> length sm' <= cap).
Print Assumptions C05_lru_words_transparent.

(* a long-lived SpellCheck answers every document of every sequence as a fresh one would *)
Theorem C05_lru_run_transparent : forall (suggest : text -> list text) (spell_mk : text -> span -> list text -> clint) (cap : nat) (docs : list (list (span * text)))
    (sm : list (text * list text)),
  spell_ok suggest sm -> lru_run suggest spell_mk cap docs sm = map (spec_words suggest spell_mk) docs.
Proof. exact lru_run_transparent. Qed.
Check C05_lru_run_transparent : forall (suggest : text -> list text) (spell_mk : text -> span -> list text -> clint) (cap : nat) (docs : list (list (span * text)))
    (sm : list (text * list text)),
  spell_ok suggest sm -> lru_run suggest spell_mk cap docs sm = map (spec_words suggest spell_mk) docs.
Print Assumptions C05_lru_run_transparent.

(* non-vacuity, with real evictions: capacity 2, words a b a c b a — `a` is promoted by its hit, so `c` evicts `b`,
   `b` misses again and evicts `a`, `a` misses again; the lints are those of the specification all the same *)
Example C05_lru_nonvacuous :
  (let '(sm, out, hits) := lru_lint_words ex_suggest ex_mk 2 lx_words [] in (map fst sm, hits, out)) =
    ([[97]; [98]]%N, [false; false; true; false; false; false], spec_words ex_suggest ex_mk lx_words) /\
  spell_ok ex_suggest (@nil (text * list text)).
Proof. split; [vm_compute; reflexivity|intros ? ? []]. Qed.

(* ====================================================================================================
   WHAT IS PER THREAD AND PER PROCESS (Model/C05Thread.v): the once cells (thread_local! pattern caches of
   Document / CollapseIdentifiers, lazy_static! curated dictionaries), the per-thread vector of Levenshtein
   automaton builders (fst_dictionary.rs build_dfa), the per-thread scratch buffers of WithinEditDistance — as
   explicit state threaded through the entry-point model; every operation names the thread that executes it.
   ==================================================================================================== *)

(* a once cell (thread_local!/lazy_static! initialised on first use): empty or already set, it yields its
   initialiser's value, and stays within "empty or set to that value" *)
Theorem C05_once_cell_transparent : forall (A : Type) (init : unit -> A) (c : option A), cell_ok init c -> exists c' : option A, once_get init c = (init tt, c') /\ cell_ok init c'.
Proof. exact once_get_spec. Qed.
Check C05_once_cell_transparent : forall (A : Type) (init : unit -> A) (c : option A), cell_ok init c -> exists c' : option A, once_get init c = (init tt, c') /\ cell_ok init c'.
Print Assumptions C05_once_cell_transparent.

(* build_dfa: the `find(..).unwrap()` after the conditional push never panics, whatever the vector holds *)
Theorem C05_build_dfa_total : forall (B DFA : Type) (builder_new : nat -> B) (build : B -> text -> DFA) (d : nat) (q : text) (v : builders B),
  exists (b : B) (v' : builders B), build_dfa builder_new build d q v = Ok (build b q, v').
Proof. exact build_dfa_total. Qed.
Check C05_build_dfa_total : forall (B DFA : Type) (builder_new : nat -> B) (build : B -> text -> DFA) (d : nat) (q : text) (v : builders B),
  exists (b : B) (v' : builders B), build_dfa builder_new build d q v = Ok (build b q, v').
Print Assumptions C05_build_dfa_total.

(* build_dfa: if every builder in the thread's vector is the builder of the distance it is filed under (true of
   the initial vector [(3, new(3))] and preserved), the automaton is built by a builder of EXACTLY the requested
   distance — whichever distances the thread served before, in whatever order *)
Theorem C05_build_dfa_exact : forall (B DFA : Type) (builder_new : nat -> B) (build : B -> text -> DFA) (d : nat) (q : text) (v : builders B),
  builders_ok builder_new v -> exists v' : builders B, build_dfa builder_new build d q v = Ok (build (builder_new d) q, v') /\ builders_ok builder_new v'.
Proof. exact build_dfa_ok. Qed.
Check C05_build_dfa_exact : forall (B DFA : Type) (builder_new : nat -> B) (build : B -> text -> DFA) (d : nat) (q : text) (v : builders B),
  builders_ok builder_new v -> exists v' : builders B, build_dfa builder_new build d q v = Ok (build (builder_new d) q, v') /\ builders_ok builder_new v'.
Print Assumptions C05_build_dfa_exact.

(* edit_distance_min_alloc (literal: clear/extend, resize WITHOUT zeroing, two loops with checked u8 additions,
   indexing and index writes, swap): the distance it returns — or the panic — is the same for any two pairs of
   buffers: what earlier calls on the thread left in BUFFERS is never read *)
Theorem C05_edit_distance_buffers_unobservable : forall (src tgt : text) (p1 c1 p2 c2 : list N), res_rel (fun r1 r2 : N * (list N * list N) => fst r1 = fst r2) (ed_min_alloc src tgt p1 c1) (ed_min_alloc src tgt p2 c2).
Proof. exact ed_buffers_unobservable. Qed.
Check C05_edit_distance_buffers_unobservable : forall (src tgt : text) (p1 c1 p2 c2 : list N), res_rel (fun r1 r2 : N * (list N * list N) => fst r1 = fst r2) (ed_min_alloc src tgt p1 c1) (ed_min_alloc src tgt p2 c2).
Print Assumptions C05_edit_distance_buffers_unobservable.

(* ... hence WithinEditDistance::matches, the only reader of BUFFERS, does not depend on them *)
Theorem C05_within_edit_distance_buffers_unobservable : forall (content word : text) (k : N) (b1 b2 : list N * list N),
  res_rel (fun r1 r2 : nat * (list N * list N) => fst r1 = fst r2) (wed_matches content word k b1) (wed_matches content word k b2).
Proof. exact wed_buffers_unobservable. Qed.
Check C05_within_edit_distance_buffers_unobservable : forall (content word : text) (k : N) (b1 b2 : list N * list N),
  res_rel (fun r1 r2 : nat * (list N * list N) => fst r1 = fst r2) (wed_matches content word k b1) (wed_matches content word k b2).
Print Assumptions C05_within_edit_distance_buffers_unobservable.

(* a freshly spawned thread (all cells empty, builders [(3, new(3))], empty buffers) satisfies the invariant *)
Theorem C05_fresh_thread_inv : forall (B pat : Type) (builder_new : nat -> B) (contraction_init ellipsis_init latin_init article_init wordnum_init : unit -> pat),
  tinv B pat builder_new contraction_init ellipsis_init latin_init article_init wordnum_init (tfresh B pat builder_new).
Proof. exact tfresh_inv. Qed.
Check C05_fresh_thread_inv : forall (B pat : Type) (builder_new : nat -> B) (contraction_init ellipsis_init latin_init article_init wordnum_init : unit -> pat),
  tinv B pat builder_new contraction_init ellipsis_init latin_init article_init wordnum_init (tfresh B pat builder_new).
Print Assumptions C05_fresh_thread_inv.

(* a freshly started process with no thread state yet satisfies the invariant, whatever linter it holds *)
Theorem C05_fresh_world_inv : forall (cfg dict B pat MD FD : Type) (builder_new : nat -> B) (contraction_init ellipsis_init latin_init article_init wordnum_init : unit -> pat) (mut_new : unit -> MD)
    (fst_from : MD -> FD) (st : estate cfg dict),
  winv cfg dict B pat MD FD builder_new contraction_init ellipsis_init latin_init article_init wordnum_init mut_new fst_from {| w_p := pfresh MD FD; w_ts := []; w_e := st |}.
Proof. exact wfresh_inv. Qed.
Check C05_fresh_world_inv : forall (cfg dict B pat MD FD : Type) (builder_new : nat -> B) (contraction_init ellipsis_init latin_init article_init wordnum_init : unit -> pat) (mut_new : unit -> MD)
    (fst_from : MD -> FD) (st : estate cfg dict),
  winv cfg dict B pat MD FD builder_new contraction_init ellipsis_init latin_init article_init wordnum_init mut_new fst_from {| w_p := pfresh MD FD; w_ts := []; w_e := st |}.
Print Assumptions C05_fresh_world_inv.

(* THE WORLD REFINES THE SPECIFICATION.  A world = process cells + one state per thread id + the linter (an entry
   point of C05Entry over Cache.lint_doc).  History = list of (thread id, operation): any C05Entry operation,
   `WLint lang src` (Document::new on the executing thread: reads the pattern cells in the code's order — then
   lint; the spelling misses call FstDictionary::fuzzy_match's two build_dfa on the executing thread's
   builders; the pattern rules leave ANY garbage in BUFFERS), `WRebuild user_words cfg` (curated dictionary through
   the two process cells, the FST cell's initialiser forcing the other).  For EVERY world within the invariant
   (fresh or with any past), every thread assignment, under the two hash hypotheses: no panic, and the answers
   are espec_hist of the ERASED history — a term that mentions no thread id, no cell, no builder vector, no
   buffer, no cache *)
Theorem C05_world_refinement : forall (cfg kind dict B DFA pat MD FD lang : Type) (cfg_hash : cfg -> N) (tok_hash : list (tok kind) -> N) (fill : cfg -> cfg)
    (pattern_rel : dict -> text -> list (tok kind) -> cfg -> list clint) (struct_pre struct_post : dict -> cfg -> doc kind -> list clint) (spell_on : cfg -> bool)
    (spell_mk : text -> span -> list text -> clint) (ctx : doc kind -> clint -> N) (builder_new : nat -> B) (build : B -> text -> DFA) (sdist : dict -> text -> nat)
    (snorm slower : text -> text) (sfinish : dict -> text -> DFA -> DFA -> list text) (contraction_init ellipsis_init latin_init article_init wordnum_init : unit -> pat)
    (mut_new : unit -> MD) (fst_from : MD -> FD) (mkdict : FD -> list text -> dict) (uses_collapse : lang -> bool)
    (doc_body : dict -> lang -> option pat -> pat -> pat -> pat -> pat -> text -> list (list (tok kind)) * list (span * text) * N) (e : entry) (h : list (nat * wop cfg kind dict lang))
    (w : world cfg dict B pat MD FD) (dc0 : dict) (c0 : cfg),
  winv cfg dict B pat MD FD builder_new contraction_init ellipsis_init latin_init article_init wordnum_init mut_new fst_from w ->
  w_e w = efresh dc0 c0 ->
  wdocs_ok cfg kind dict pat MD FD lang contraction_init ellipsis_init latin_init article_init wordnum_init mut_new fst_from mkdict uses_collapse doc_body (map snd h) dc0 ->
  hash_inj_on cfg kind cfg_hash
    (ehist_triples cfg kind dict fill
       (erase cfg kind dict pat MD FD lang contraction_init ellipsis_init latin_init article_init wordnum_init mut_new fst_from mkdict uses_collapse doc_body (map snd h) dc0) c0) ->
  tok_hash_inj_on cfg kind tok_hash
    (ehist_triples cfg kind dict fill
       (erase cfg kind dict pat MD FD lang contraction_init ellipsis_init latin_init article_init wordnum_init mut_new fst_from mkdict uses_collapse doc_body (map snd h) dc0) c0) ->
  exists w' : world cfg dict B pat MD FD,
    wrun cfg kind dict B DFA pat MD FD lang cfg_hash tok_hash fill pattern_rel struct_pre struct_post spell_on spell_mk ctx builder_new build sdist snorm slower sfinish
      contraction_init ellipsis_init latin_init article_init wordnum_init mut_new fst_from mkdict uses_collapse doc_body e h w =
    Ok
      (w',
       espec_hist cfg kind dict fill pattern_rel struct_pre struct_post spell_on (suggest_pure dict B DFA builder_new build sdist snorm slower sfinish) spell_mk ctx e
         (erase cfg kind dict pat MD FD lang contraction_init ellipsis_init latin_init article_init wordnum_init mut_new fst_from mkdict uses_collapse doc_body (map snd h) dc0)
         {| a_dict := dc0; a_cfg := c0; a_ign := [] |}) /\
    winv cfg dict B pat MD FD builder_new contraction_init ellipsis_init latin_init article_init wordnum_init mut_new fst_from w' /\
    abs_of cfg dict (w_e w') =
    abs_after cfg kind dict ctx
      (erase cfg kind dict pat MD FD lang contraction_init ellipsis_init latin_init article_init wordnum_init mut_new fst_from mkdict uses_collapse doc_body (map snd h) dc0)
      {| a_dict := dc0; a_cfg := c0; a_ign := [] |}.
Proof. exact world_refinement. Qed.
Check C05_world_refinement : forall (cfg kind dict B DFA pat MD FD lang : Type) (cfg_hash : cfg -> N) (tok_hash : list (tok kind) -> N) (fill : cfg -> cfg)
    (pattern_rel : dict -> text -> list (tok kind) -> cfg -> list clint) (struct_pre struct_post : dict -> cfg -> doc kind -> list clint) (spell_on : cfg -> bool)
    (spell_mk : text -> span -> list text -> clint) (ctx : doc kind -> clint -> N) (builder_new : nat -> B) (build : B -> text -> DFA) (sdist : dict -> text -> nat)
    (snorm slower : text -> text) (sfinish : dict -> text -> DFA -> DFA -> list text) (contraction_init ellipsis_init latin_init article_init wordnum_init : unit -> pat)
    (mut_new : unit -> MD) (fst_from : MD -> FD) (mkdict : FD -> list text -> dict) (uses_collapse : lang -> bool)
    (doc_body : dict -> lang -> option pat -> pat -> pat -> pat -> pat -> text -> list (list (tok kind)) * list (span * text) * N) (e : entry) (h : list (nat * wop cfg kind dict lang))
    (w : world cfg dict B pat MD FD) (dc0 : dict) (c0 : cfg),
  winv cfg dict B pat MD FD builder_new contraction_init ellipsis_init latin_init article_init wordnum_init mut_new fst_from w ->
  w_e w = efresh dc0 c0 ->
  wdocs_ok cfg kind dict pat MD FD lang contraction_init ellipsis_init latin_init article_init wordnum_init mut_new fst_from mkdict uses_collapse doc_body (map snd h) dc0 ->
  hash_inj_on cfg kind cfg_hash
    (ehist_triples cfg kind dict fill
       (erase cfg kind dict pat MD FD lang contraction_init ellipsis_init latin_init article_init wordnum_init mut_new fst_from mkdict uses_collapse doc_body (map snd h) dc0) c0) ->
  tok_hash_inj_on cfg kind tok_hash
    (ehist_triples cfg kind dict fill
       (erase cfg kind dict pat MD FD lang contraction_init ellipsis_init latin_init article_init wordnum_init mut_new fst_from mkdict uses_collapse doc_body (map snd h) dc0) c0) ->
  exists w' : world cfg dict B pat MD FD,
    wrun cfg kind dict B DFA pat MD FD lang cfg_hash tok_hash fill pattern_rel struct_pre struct_post spell_on spell_mk ctx builder_new build sdist snorm slower sfinish
      contraction_init ellipsis_init latin_init article_init wordnum_init mut_new fst_from mkdict uses_collapse doc_body e h w =
    Ok
      (w',
       espec_hist cfg kind dict fill pattern_rel struct_pre struct_post spell_on (suggest_pure dict B DFA builder_new build sdist snorm slower sfinish) spell_mk ctx e
         (erase cfg kind dict pat MD FD lang contraction_init ellipsis_init latin_init article_init wordnum_init mut_new fst_from mkdict uses_collapse doc_body (map snd h) dc0)
         {| a_dict := dc0; a_cfg := c0; a_ign := [] |}) /\
    winv cfg dict B pat MD FD builder_new contraction_init ellipsis_init latin_init article_init wordnum_init mut_new fst_from w' /\
    abs_of cfg dict (w_e w') =
    abs_after cfg kind dict ctx
      (erase cfg kind dict pat MD FD lang contraction_init ellipsis_init latin_init article_init wordnum_init mut_new fst_from mkdict uses_collapse doc_body (map snd h) dc0)
      {| a_dict := dc0; a_cfg := c0; a_ign := [] |}.
Print Assumptions C05_world_refinement.

(* ... so two runs of the same operations — another assignment of operations to threads, another process,
   another past of the threads — answer the same *)
Theorem C05_thread_assignment_independent : forall (cfg kind dict B DFA pat MD FD lang : Type) (cfg_hash : cfg -> N) (tok_hash : list (tok kind) -> N) (fill : cfg -> cfg)
    (pattern_rel : dict -> text -> list (tok kind) -> cfg -> list clint) (struct_pre struct_post : dict -> cfg -> doc kind -> list clint) (spell_on : cfg -> bool)
    (spell_mk : text -> span -> list text -> clint) (ctx : doc kind -> clint -> N) (builder_new : nat -> B) (build : B -> text -> DFA) (sdist : dict -> text -> nat)
    (snorm slower : text -> text) (sfinish : dict -> text -> DFA -> DFA -> list text) (contraction_init ellipsis_init latin_init article_init wordnum_init : unit -> pat)
    (mut_new : unit -> MD) (fst_from : MD -> FD) (mkdict : FD -> list text -> dict) (uses_collapse : lang -> bool)
    (doc_body : dict -> lang -> option pat -> pat -> pat -> pat -> pat -> text -> list (list (tok kind)) * list (span * text) * N) (e : entry)
    (h1 h2 : list (nat * wop cfg kind dict lang)) (w1 w2 : world cfg dict B pat MD FD) (dc0 : dict) (c0 : cfg),
  map snd h1 = map snd h2 ->
  winv cfg dict B pat MD FD builder_new contraction_init ellipsis_init latin_init article_init wordnum_init mut_new fst_from w1 ->
  winv cfg dict B pat MD FD builder_new contraction_init ellipsis_init latin_init article_init wordnum_init mut_new fst_from w2 ->
  w_e w1 = efresh dc0 c0 ->
  w_e w2 = efresh dc0 c0 ->
  wdocs_ok cfg kind dict pat MD FD lang contraction_init ellipsis_init latin_init article_init wordnum_init mut_new fst_from mkdict uses_collapse doc_body (map snd h1) dc0 ->
  hash_inj_on cfg kind cfg_hash
    (ehist_triples cfg kind dict fill
       (erase cfg kind dict pat MD FD lang contraction_init ellipsis_init latin_init article_init wordnum_init mut_new fst_from mkdict uses_collapse doc_body (map snd h1) dc0) c0) ->
  tok_hash_inj_on cfg kind tok_hash
    (ehist_triples cfg kind dict fill
       (erase cfg kind dict pat MD FD lang contraction_init ellipsis_init latin_init article_init wordnum_init mut_new fst_from mkdict uses_collapse doc_body (map snd h1) dc0) c0) ->
  exists (w1' w2' : world cfg dict B pat MD FD) (outs : list (list clint)),
    wrun cfg kind dict B DFA pat MD FD lang cfg_hash tok_hash fill pattern_rel struct_pre struct_post spell_on spell_mk ctx builder_new build sdist snorm slower sfinish
      contraction_init ellipsis_init latin_init article_init wordnum_init mut_new fst_from mkdict uses_collapse doc_body e h1 w1 = Ok (w1', outs) /\
    wrun cfg kind dict B DFA pat MD FD lang cfg_hash tok_hash fill pattern_rel struct_pre struct_post spell_on spell_mk ctx builder_new build sdist snorm slower sfinish
      contraction_init ellipsis_init latin_init article_init wordnum_init mut_new fst_from mkdict uses_collapse doc_body e h2 w2 = Ok (w2', outs) /\
    outs =
    espec_hist cfg kind dict fill pattern_rel struct_pre struct_post spell_on (suggest_pure dict B DFA builder_new build sdist snorm slower sfinish) spell_mk ctx e
      (erase cfg kind dict pat MD FD lang contraction_init ellipsis_init latin_init article_init wordnum_init mut_new fst_from mkdict uses_collapse doc_body (map snd h1) dc0)
      {| a_dict := dc0; a_cfg := c0; a_ign := [] |}.
Proof. exact thread_assignment_independent. Qed.
Check C05_thread_assignment_independent : forall (cfg kind dict B DFA pat MD FD lang : Type) (cfg_hash : cfg -> N) (tok_hash : list (tok kind) -> N) (fill : cfg -> cfg)
    (pattern_rel : dict -> text -> list (tok kind) -> cfg -> list clint) (struct_pre struct_post : dict -> cfg -> doc kind -> list clint) (spell_on : cfg -> bool)
    (spell_mk : text -> span -> list text -> clint) (ctx : doc kind -> clint -> N) (builder_new : nat -> B) (build : B -> text -> DFA) (sdist : dict -> text -> nat)
    (snorm slower : text -> text) (sfinish : dict -> text -> DFA -> DFA -> list text) (contraction_init ellipsis_init latin_init article_init wordnum_init : unit -> pat)
    (mut_new : unit -> MD) (fst_from : MD -> FD) (mkdict : FD -> list text -> dict) (uses_collapse : lang -> bool)
    (doc_body : dict -> lang -> option pat -> pat -> pat -> pat -> pat -> text -> list (list (tok kind)) * list (span * text) * N) (e : entry)
    (h1 h2 : list (nat * wop cfg kind dict lang)) (w1 w2 : world cfg dict B pat MD FD) (dc0 : dict) (c0 : cfg),
  map snd h1 = map snd h2 ->
  winv cfg dict B pat MD FD builder_new contraction_init ellipsis_init latin_init article_init wordnum_init mut_new fst_from w1 ->
  winv cfg dict B pat MD FD builder_new contraction_init ellipsis_init latin_init article_init wordnum_init mut_new fst_from w2 ->
  w_e w1 = efresh dc0 c0 ->
  w_e w2 = efresh dc0 c0 ->
  wdocs_ok cfg kind dict pat MD FD lang contraction_init ellipsis_init latin_init article_init wordnum_init mut_new fst_from mkdict uses_collapse doc_body (map snd h1) dc0 ->
  hash_inj_on cfg kind cfg_hash
    (ehist_triples cfg kind dict fill
       (erase cfg kind dict pat MD FD lang contraction_init ellipsis_init latin_init article_init wordnum_init mut_new fst_from mkdict uses_collapse doc_body (map snd h1) dc0) c0) ->
  tok_hash_inj_on cfg kind tok_hash
    (ehist_triples cfg kind dict fill
       (erase cfg kind dict pat MD FD lang contraction_init ellipsis_init latin_init article_init wordnum_init mut_new fst_from mkdict uses_collapse doc_body (map snd h1) dc0) c0) ->
  exists (w1' w2' : world cfg dict B pat MD FD) (outs : list (list clint)),
    wrun cfg kind dict B DFA pat MD FD lang cfg_hash tok_hash fill pattern_rel struct_pre struct_post spell_on spell_mk ctx builder_new build sdist snorm slower sfinish
      contraction_init ellipsis_init latin_init article_init wordnum_init mut_new fst_from mkdict uses_collapse doc_body e h1 w1 = Ok (w1', outs) /\
    wrun cfg kind dict B DFA pat MD FD lang cfg_hash tok_hash fill pattern_rel struct_pre struct_post spell_on spell_mk ctx builder_new build sdist snorm slower sfinish
      contraction_init ellipsis_init latin_init article_init wordnum_init mut_new fst_from mkdict uses_collapse doc_body e h2 w2 = Ok (w2', outs) /\
    outs =
    espec_hist cfg kind dict fill pattern_rel struct_pre struct_post spell_on (suggest_pure dict B DFA builder_new build sdist snorm slower sfinish) spell_mk ctx e
      (erase cfg kind dict pat MD FD lang contraction_init ellipsis_init latin_init article_init wordnum_init mut_new fst_from mkdict uses_collapse doc_body (map snd h1) dc0)
      {| a_dict := dc0; a_cfg := c0; a_ign := [] |}.
Print Assumptions C05_thread_assignment_independent.

(* non-vacuity: the same eleven operations (lint as plain text, ignore, lint, set-config, lint as Markdown, rebuild
   with a user word through the process cells, lint in a language whose parser uses CollapseIdentifiers, clear,
   evict, rebuild back, lint) (a) all on thread 0 of a fresh process and (b) handed round five threads of a
   process whose cells are set, whose thread 0 has already served distances 1 and 2 and holds garbage in
   BUFFERS: the hypotheses hold and both runs print the same lints, those of the specification *)
Example C05_world_nonvacuous :
  ew_inv ew_world_a /\ ew_inv ew_world_b /\ map snd ew_hist_a = map snd ew_hist_b /\
  ew_docs_ok (map snd ew_hist_a) 0%N /\
  hash_inj_on N N (fun c => c) (ehist_triples N N N ee_fill (ew_erase (map snd ew_hist_a) 0%N) 0%N) /\
  tok_hash_inj_on N N ex_tok_hash (ehist_triples N N N ee_fill (ew_erase (map snd ew_hist_a) 0%N) 0%N) /\
  ew_outs (ew_run Wasm ew_hist_a ew_world_a) =
    [[(0, 2, 5%N); (4, 6, 3%N); (11, 12, 7%N); (14, 16, 3%N)];
     [(0, 2, 5%N); (4, 6, 3%N); (14, 16, 3%N)];
     [(0, 2, 5%N); (4, 6, 3%N); (14, 16, 3%N)];
     [(0, 2, 5%N); (4, 6, 3%N); (14, 16, 3%N)];
     [(0, 2, 5%N); (4, 6, 3%N); (11, 12, 7%N); (14, 16, 3%N)]] /\
  ew_run Wasm ew_hist_a ew_world_a <> Panic PFuel /\
  (forall e, ew_outs (ew_run e ew_hist_a ew_world_a) = ew_outs (ew_run e ew_hist_b ew_world_b) /\
             match ew_run e ew_hist_b ew_world_b with Ok (_, outs) => outs = ew_spec e (ew_erase (map snd ew_hist_a) 0%N) (mkastate 0%N 0%N []) | Panic _ => False end).
Proof.
  split; [|split; [|split; [|split; [|split; [|split; [|split; [|split]]]]]]].
  - split; [split; left; reflexivity|constructor].
  - split; [split; right; reflexivity|].
    constructor; [|constructor; [|constructor]]; cbn; unfold tinv, cell_ok; cbn;
      repeat split; try (left; reflexivity); try (right; reflexivity); repeat constructor.
  - reflexivity.
  - unfold ew_docs_ok, ew_hist_a, ew_ops. cbn [map snd wdocs_ok].
    repeat split; try (eexists; vm_compute; reflexivity).
  - intros x y Hx Hy. exact (fun e => e).
  - intros x y Hx Hy. vm_compute in Hx, Hy.
    repeat (destruct Hx as [Hx|Hx]; [subst x|]); try destruct Hx;
    repeat (destruct Hy as [Hy|Hy]; [subst y|]); try destruct Hy; vm_compute; intros E; try reflexivity; discriminate E.
  - vm_compute. reflexivity.
  - vm_compute. discriminate.
  - intros []; split; vm_compute; reflexivity.
Qed.

(* non-vacuity of the builder theorems: a fresh thread asked for distances 2, 3, 2, 0, 3 — each request (two
   build_dfa calls, as fuzzy_match makes them) is served by the builder of its distance, the vector grows to
   [3; 2; 0] and satisfies the invariant throughout *)
Example C05_builders_nonvacuous :
  builders_ok (fun d => d) drv_builders_init /\
  (do '(s1, v1) <- drv_fuzzy_served 2 drv_builders_init; do '(s2, v2) <- drv_fuzzy_served 3 v1;
   do '(s3, v3) <- drv_fuzzy_served 2 v2; do '(s4, v4) <- drv_fuzzy_served 0 v3; do '(s5, v5) <- drv_fuzzy_served 3 v4;
   Ok ([s1; s2; s3; s4; s5], v5)) = Ok ([2; 3; 2; 0; 3], [(3, 3); (2, 2); (0, 0)]).
Proof. split; [repeat constructor|vm_compute; reflexivity]. Qed.

(* non-vacuity of the buffer theorem: kitten / sitting with buffers full of garbage of other lengths and with
   empty buffers: distance 3 both times (no panic); the buffers the call leaves differ from what it found *)
Example C05_edit_distance_nonvacuous :
  let kitten := [107; 105; 116; 116; 101; 110]%N in
  let sitting := [115; 105; 116; 116; 105; 110; 103]%N in
  drv_ed kitten sitting ([9; 9; 9; 9; 9; 9; 9; 9; 9; 9; 9; 9]%N, [200; 200; 200; 200; 200; 200; 200; 200; 200]%N) =
    Ok (3%N, ([7; 7; 6; 5; 4; 4; 3]%N, [6; 6; 5; 4; 3; 3; 2]%N)) /\
  (do '(d, _) <- drv_ed kitten sitting ([], []); Ok d) = Ok 3%N /\
  (do '(d, _) <- drv_ed kitten [] ([], [255; 255; 255]%N); Ok d) = Ok 6%N.
Proof. cbv zeta. repeat split; vm_compute; reflexivity. Qed.

(* TABLE THEOREMS (Model/Tables_c05statics.v, regenerated from the Rust sources on every run; the generator raises
   on any static it does not know and on any change of the code that touches one): the statics of the harper-*
   crates are once cells and constants, exactly one builder vector and exactly one pair of scratch buffers — the
   three mechanisms modelled —, and a fresh thread's builder vector is [(EXPECTED_DISTANCE, new(EXPECTED_DISTANCE))]
   with the EXPECTED_DISTANCE the source states *)
Theorem C05_statics_table : count_kind BuilderVec = 1 /\ count_kind ScratchBuf = 1 /\
  count_kind OnceCell + count_kind Const + 2 = length c05_statics /\
  (forall (B : Type) (f : nat -> B), builders_init f = [(c05_expected_distance, f c05_expected_distance)]).
Proof. exact statics_table_ok. Qed.
Check C05_statics_table : count_kind BuilderVec = 1 /\ count_kind ScratchBuf = 1 /\
  count_kind OnceCell + count_kind Const + 2 = length c05_statics /\
  (forall (B : Type) (f : nat -> B), builders_init f = [(c05_expected_distance, f c05_expected_distance)]).
Print Assumptions C05_statics_table.

(* beyond the u8-row threshold the source states, edit_distance_min_alloc leaves BUFFERS untouched *)
Theorem C05_edit_distance_long_keeps_buffers : forall (src tgt : text) (p c : list N),
  c05_u8_row_threshold < length src \/ c05_u8_row_threshold < length tgt ->
  ed_min_alloc src tgt p c = Ok (N.of_nat (Nat.min (ed_long src tgt) 255), (p, c)).
Proof. exact ed_long_path_keeps_buffers. Qed.
Check C05_edit_distance_long_keeps_buffers : forall (src tgt : text) (p c : list N),
  c05_u8_row_threshold < length src \/ c05_u8_row_threshold < length tgt ->
  ed_min_alloc src tgt p c = Ok (N.of_nat (Nat.min (ed_long src tgt) 255), (p, c)).
Print Assumptions C05_edit_distance_long_keeps_buffers.

Example C05_edit_distance_long_nonvacuous :
  c05_u8_row_threshold < length (repeat 97%N 255) /\
  (do '(d, b) <- drv_ed (repeat 97%N 255) (repeat 97%N 250 ++ [98; 98]%N) ([1; 2]%N, [3]%N); Ok (d, b)) = Ok (5%N, ([1; 2]%N, [3]%N)).
Proof. split; [vm_compute; reflexivity|vm_compute; reflexivity]. Qed.

(* ---------- phase 5: the hash hypotheses PER LIFETIME of the LintGroup (Model/C05Life.v, Proofs/C05LifeProofs.v) ---------- *)
(* ONE LIFETIME on an entry point, from ANY state: the caches are empty or the first operation is a rebuild (the
   state may then hold the caches of an earlier lifetime, keyed by ANOTHER hash function; the ignore list is
   arbitrary).  If the two hashes of THIS lifetime are injective on the triples of THIS history: no panic, the
   answers are the cache-free specification from the abstract state, the abstract state is tracked *)
Theorem C05_entry_lifetime_refinement : forall (cfg kind dict : Type) (cfg_hash : cfg -> N) (tok_hash : list (tok kind) -> N) (fill : cfg -> cfg) (pattern_rel : dict -> text -> list (tok kind) -> cfg -> list clint) (struct_pre struct_post : dict -> cfg -> doc kind -> list clint) (spell_on : cfg -> bool) (suggest : dict -> text -> list text) (spell_mk : text -> span -> list text -> clint) (ctx : doc kind -> clint -> N) (e : entry) (h : list (eop cfg kind dict)) (st : estate cfg dict), caches_empty cfg dict st \/ starts_erebuild cfg kind dict h -> ehist_wf cfg kind dict h -> hash_inj_on cfg kind cfg_hash (ehist_triples cfg kind dict fill h (st_cfg (e_lg st))) -> tok_hash_inj_on cfg kind tok_hash (ehist_triples cfg kind dict fill h (st_cfg (e_lg st))) -> exists st' : estate cfg dict, run_ehist cfg kind dict cfg_hash tok_hash fill pattern_rel struct_pre struct_post spell_on suggest spell_mk ctx e h st = Ok (st', espec_hist cfg kind dict fill pattern_rel struct_pre struct_post spell_on suggest spell_mk ctx e h (abs_of cfg dict st)) /\ abs_of cfg dict st' = abs_after cfg kind dict ctx h (abs_of cfg dict st).
Proof. exact lifetime_refinement. Qed.
Check C05_entry_lifetime_refinement : forall (cfg kind dict : Type) (cfg_hash : cfg -> N) (tok_hash : list (tok kind) -> N) (fill : cfg -> cfg) (pattern_rel : dict -> text -> list (tok kind) -> cfg -> list clint) (struct_pre struct_post : dict -> cfg -> doc kind -> list clint) (spell_on : cfg -> bool) (suggest : dict -> text -> list text) (spell_mk : text -> span -> list text -> clint) (ctx : doc kind -> clint -> N) (e : entry) (h : list (eop cfg kind dict)) (st : estate cfg dict), caches_empty cfg dict st \/ starts_erebuild cfg kind dict h -> ehist_wf cfg kind dict h -> hash_inj_on cfg kind cfg_hash (ehist_triples cfg kind dict fill h (st_cfg (e_lg st))) -> tok_hash_inj_on cfg kind tok_hash (ehist_triples cfg kind dict fill h (st_cfg (e_lg st))) -> exists st' : estate cfg dict, run_ehist cfg kind dict cfg_hash tok_hash fill pattern_rel struct_pre struct_post spell_on suggest spell_mk ctx e h st = Ok (st', espec_hist cfg kind dict fill pattern_rel struct_pre struct_post spell_on suggest spell_mk ctx e h (abs_of cfg dict st)) /\ abs_of cfg dict st' = abs_after cfg kind dict ctx h (abs_of cfg dict st).
Print Assumptions C05_entry_lifetime_refinement.

(* THE WORLD OVER LIFETIMES.  `cfg_hash s`, `tok_hash s` are the hash functions of the RandomState a LintGroup
   instance draws (seed s); a history is a list of segments (seed, operations with thread ids), run one after the
   other on the same world (C05Life.wrun_segs).  Hypotheses `segs_hyp`: every segment but the first starts with a
   rebuild (WRebuild or ERebuild: new LintGroup = empty caches + new seed); the documents can be built; and the two
   hashes of segment i's seed are injective on the triples of SEGMENT i ONLY.  Then: no panic, the answers are
   espec_hist of the erased history (no seed, no thread, no cell, no cache), the invariant is kept.  This replaces
   the hypothesis of C05_world_refinement / C05_entry_refinement (one hash function injective on the triples of the
   WHOLE history across all rebuilds) by one hypothesis per lifetime, each about another function *)
Theorem C05_world_lifetimes_refinement : forall (cfg kind dict B DFA pat MD FD lang : Type) (cfg_hash : nat -> cfg -> N) (tok_hash : nat -> list (tok kind) -> N) (fill : cfg -> cfg) (pattern_rel : dict -> text -> list (tok kind) -> cfg -> list clint) (struct_pre struct_post : dict -> cfg -> doc kind -> list clint) (spell_on : cfg -> bool) (spell_mk : text -> span -> list text -> clint) (ctx : doc kind -> clint -> N) (builder_new : nat -> B) (build : B -> text -> DFA) (sdist : dict -> text -> nat) (snorm slower : text -> text) (sfinish : dict -> text -> DFA -> DFA -> list text) (contraction_init ellipsis_init latin_init article_init wordnum_init : unit -> pat) (mut_new : unit -> MD) (fst_from : MD -> FD) (mkdict : FD -> list text -> dict) (uses_collapse : lang -> bool) (doc_body : dict -> lang -> option pat -> pat -> pat -> pat -> pat -> text -> list (list (tok kind)) * list (span * text) * N) (e : entry) (segs : list (seg cfg kind dict lang)) (w : world cfg dict B pat MD FD) (first : bool), winv cfg dict B pat MD FD builder_new contraction_init ellipsis_init latin_init article_init wordnum_init mut_new fst_from w -> (first = true -> caches_empty cfg dict (w_e w)) -> segs_hyp cfg kind dict pat MD FD lang cfg_hash tok_hash fill ctx contraction_init ellipsis_init latin_init article_init wordnum_init mut_new fst_from mkdict uses_collapse doc_body segs first (abs_of cfg dict (w_e w)) -> exists w' : world cfg dict B pat MD FD, wrun_segs cfg kind dict B DFA pat MD FD lang cfg_hash tok_hash fill pattern_rel struct_pre struct_post spell_on spell_mk ctx builder_new build sdist snorm slower sfinish contraction_init ellipsis_init latin_init article_init wordnum_init mut_new fst_from mkdict uses_collapse doc_body e segs w = Ok (w', espec_hist cfg kind dict fill pattern_rel struct_pre struct_post spell_on (suggest_pure dict B DFA builder_new build sdist snorm slower sfinish) spell_mk ctx e (segs_erase cfg kind dict pat MD FD lang ctx contraction_init ellipsis_init latin_init article_init wordnum_init mut_new fst_from mkdict uses_collapse doc_body segs (abs_of cfg dict (w_e w))) (abs_of cfg dict (w_e w))) /\ winv cfg dict B pat MD FD builder_new contraction_init ellipsis_init latin_init article_init wordnum_init mut_new fst_from w' /\ abs_of cfg dict (w_e w') = abs_after cfg kind dict ctx (segs_erase cfg kind dict pat MD FD lang ctx contraction_init ellipsis_init latin_init article_init wordnum_init mut_new fst_from mkdict uses_collapse doc_body segs (abs_of cfg dict (w_e w))) (abs_of cfg dict (w_e w)).
Proof. exact world_lifetimes_refinement. Qed.
Check C05_world_lifetimes_refinement : forall (cfg kind dict B DFA pat MD FD lang : Type) (cfg_hash : nat -> cfg -> N) (tok_hash : nat -> list (tok kind) -> N) (fill : cfg -> cfg) (pattern_rel : dict -> text -> list (tok kind) -> cfg -> list clint) (struct_pre struct_post : dict -> cfg -> doc kind -> list clint) (spell_on : cfg -> bool) (spell_mk : text -> span -> list text -> clint) (ctx : doc kind -> clint -> N) (builder_new : nat -> B) (build : B -> text -> DFA) (sdist : dict -> text -> nat) (snorm slower : text -> text) (sfinish : dict -> text -> DFA -> DFA -> list text) (contraction_init ellipsis_init latin_init article_init wordnum_init : unit -> pat) (mut_new : unit -> MD) (fst_from : MD -> FD) (mkdict : FD -> list text -> dict) (uses_collapse : lang -> bool) (doc_body : dict -> lang -> option pat -> pat -> pat -> pat -> pat -> text -> list (list (tok kind)) * list (span * text) * N) (e : entry) (segs : list (seg cfg kind dict lang)) (w : world cfg dict B pat MD FD) (first : bool), winv cfg dict B pat MD FD builder_new contraction_init ellipsis_init latin_init article_init wordnum_init mut_new fst_from w -> (first = true -> caches_empty cfg dict (w_e w)) -> segs_hyp cfg kind dict pat MD FD lang cfg_hash tok_hash fill ctx contraction_init ellipsis_init latin_init article_init wordnum_init mut_new fst_from mkdict uses_collapse doc_body segs first (abs_of cfg dict (w_e w)) -> exists w' : world cfg dict B pat MD FD, wrun_segs cfg kind dict B DFA pat MD FD lang cfg_hash tok_hash fill pattern_rel struct_pre struct_post spell_on spell_mk ctx builder_new build sdist snorm slower sfinish contraction_init ellipsis_init latin_init article_init wordnum_init mut_new fst_from mkdict uses_collapse doc_body e segs w = Ok (w', espec_hist cfg kind dict fill pattern_rel struct_pre struct_post spell_on (suggest_pure dict B DFA builder_new build sdist snorm slower sfinish) spell_mk ctx e (segs_erase cfg kind dict pat MD FD lang ctx contraction_init ellipsis_init latin_init article_init wordnum_init mut_new fst_from mkdict uses_collapse doc_body segs (abs_of cfg dict (w_e w))) (abs_of cfg dict (w_e w))) /\ winv cfg dict B pat MD FD builder_new contraction_init ellipsis_init latin_init article_init wordnum_init mut_new fst_from w' /\ abs_of cfg dict (w_e w') = abs_after cfg kind dict ctx (segs_erase cfg kind dict pat MD FD lang ctx contraction_init ellipsis_init latin_init article_init wordnum_init mut_new fst_from mkdict uses_collapse doc_body segs (abs_of cfg dict (w_e w))) (abs_of cfg dict (w_e w)).
Print Assumptions C05_world_lifetimes_refinement.

(* ... and that specification does not see the segmentation: it is the erasure of the flattened history *)
Theorem C05_lifetimes_spec_is_flat : forall (cfg kind dict pat MD FD lang : Type) (ctx : doc kind -> clint -> N) (contraction_init ellipsis_init latin_init article_init wordnum_init : unit -> pat) (mut_new : unit -> MD) (fst_from : MD -> FD) (mkdict : FD -> list text -> dict) (uses_collapse : lang -> bool) (doc_body : dict -> lang -> option pat -> pat -> pat -> pat -> pat -> text -> list (list (tok kind)) * list (span * text) * N) (segs : list (seg cfg kind dict lang)) (a : astate cfg dict), segs_erase cfg kind dict pat MD FD lang ctx contraction_init ellipsis_init latin_init article_init wordnum_init mut_new fst_from mkdict uses_collapse doc_body segs a = erase cfg kind dict pat MD FD lang contraction_init ellipsis_init latin_init article_init wordnum_init mut_new fst_from mkdict uses_collapse doc_body (map snd (segs_flat cfg kind dict lang segs)) (a_dict a).
Proof. exact segs_erase_flat. Qed.
Check C05_lifetimes_spec_is_flat : forall (cfg kind dict pat MD FD lang : Type) (ctx : doc kind -> clint -> N) (contraction_init ellipsis_init latin_init article_init wordnum_init : unit -> pat) (mut_new : unit -> MD) (fst_from : MD -> FD) (mkdict : FD -> list text -> dict) (uses_collapse : lang -> bool) (doc_body : dict -> lang -> option pat -> pat -> pat -> pat -> pat -> text -> list (list (tok kind)) * list (span * text) * N) (segs : list (seg cfg kind dict lang)) (a : astate cfg dict), segs_erase cfg kind dict pat MD FD lang ctx contraction_init ellipsis_init latin_init article_init wordnum_init mut_new fst_from mkdict uses_collapse doc_body segs a = erase cfg kind dict pat MD FD lang contraction_init ellipsis_init latin_init article_init wordnum_init mut_new fst_from mkdict uses_collapse doc_body (map snd (segs_flat cfg kind dict lang segs)) (a_dict a).
Print Assumptions C05_lifetimes_spec_is_flat.

(* ---------- phase 5: edit_distance_min_alloc never panics (Proofs/C05EdProofs.v) ---------- *)
(* whatever the two thread-local buffers hold: below the threshold every cell of row j is <= max(i, j) <= 254, so no
   checked u8 addition overflows and every index is in bounds; the result fits a u8 and is at most the longer length *)
Theorem C05_edit_distance_total : forall (src tgt : text) (prev cur : list N), exists (d : N) (bufs : list N * list N), ed_min_alloc src tgt prev cur = Ok (d, bufs) /\ (d <= 255)%N /\ (length src <= 254 -> length tgt <= 254 -> (d <= N.of_nat (Nat.max (length src) (length tgt)))%N).
Proof. exact ed_min_alloc_total. Qed.
Check C05_edit_distance_total : forall (src tgt : text) (prev cur : list N), exists (d : N) (bufs : list N * list N), ed_min_alloc src tgt prev cur = Ok (d, bufs) /\ (d <= 255)%N /\ (length src <= 254 -> length tgt <= 254 -> (d <= N.of_nat (Nat.max (length src) (length tgt)))%N).
Print Assumptions C05_edit_distance_total.

(* with C05_edit_distance_buffers_unobservable: the distance is a function of (source, target) *)
Theorem C05_edit_distance_function : forall (src tgt : text) (p1 c1 p2 c2 : list N), exists (d : N) (b1 b2 : list N * list N), ed_min_alloc src tgt p1 c1 = Ok (d, b1) /\ ed_min_alloc src tgt p2 c2 = Ok (d, b2).
Proof. exact ed_distance_function. Qed.
Check C05_edit_distance_function : forall (src tgt : text) (p1 c1 p2 c2 : list N), exists (d : N) (b1 b2 : list N * list N), ed_min_alloc src tgt p1 c1 = Ok (d, b1) /\ ed_min_alloc src tgt p2 c2 = Ok (d, b2).
Print Assumptions C05_edit_distance_function.

(* WithinEditDistance::matches never panics and does not depend on the thread's BUFFERS *)
Theorem C05_within_edit_distance_function : forall (content word : text) (k : N) (b1 b2 : list N * list N), exists (r : nat) (b1' b2' : list N * list N), wed_matches content word k b1 = Ok (r, b1') /\ wed_matches content word k b2 = Ok (r, b2').
Proof. exact wed_matches_function. Qed.
Check C05_within_edit_distance_function : forall (content word : text) (k : N) (b1 b2 : list N * list N), exists (r : nat) (b1' b2' : list N * list N), wed_matches content word k b1 = Ok (r, b1') /\ wed_matches content word k b2 = Ok (r, b2').
Print Assumptions C05_within_edit_distance_function.

(* non-vacuity of the lifetime theorems: the eleven operations of C05_world_nonvacuous (handed round five threads of a
   warm process) cut at the two rebuilds into three lifetimes with seeds 0, 1, 2, where the configuration hash of the
   seeds 1 and 2 maps EVERY configuration to 0: the per-lifetime hypotheses hold (each of these lifetimes sees one
   effective configuration), the per-history hypothesis of C05_world_refinement does NOT hold for the hash of seed 1
   (lifetime 0 uses two configurations), and the run answers the specification of the flat history *)
Example C05_lifetimes_nonvacuous :
  ew_inv ew_world_b /\ el_hyp el_segs true (mkastate 0%N 0%N []) /\
  (exists x y, In x (ehist_triples N N N ee_fill (ew_erase (map snd ew_hist_b) 0%N) 0%N) /\
               In y (ehist_triples N N N ee_fill (ew_erase (map snd ew_hist_b) 0%N) 0%N) /\
               el_cfg_hash 1 (snd x) = el_cfg_hash 1 (snd y) /\ snd x <> snd y) /\
  segs_flat N N N N el_segs = ew_hist_b /\
  (forall e, match el_run e el_segs ew_world_b with
             | Ok (_, outs) => outs = ew_spec e (ew_erase (map snd ew_hist_b) 0%N) (mkastate 0%N 0%N []) /\
                               outs = ew_spec e (el_erase el_segs (mkastate 0%N 0%N [])) (mkastate 0%N 0%N [])
             | Panic _ => False end) /\
  ew_outs (el_run Wasm el_segs ew_world_b) =
    [[(0, 2, 5%N); (4, 6, 3%N); (11, 12, 7%N); (14, 16, 3%N)];
     [(0, 2, 5%N); (4, 6, 3%N); (14, 16, 3%N)];
     [(0, 2, 5%N); (4, 6, 3%N); (14, 16, 3%N)];
     [(0, 2, 5%N); (4, 6, 3%N); (14, 16, 3%N)];
     [(0, 2, 5%N); (4, 6, 3%N); (11, 12, 7%N); (14, 16, 3%N)]].
Proof.
  split; [|split; [|split; [|split; [|split]]]].
  - split; [split; right; reflexivity|].
    constructor; [|constructor; [|constructor]]; cbn; unfold tinv, cell_ok; cbn;
      repeat split; try (left; reflexivity); try (right; reflexivity); repeat constructor.
  - unfold el_hyp, el_segs. cbn [segs_hyp].
    repeat match goal with |- _ /\ _ => split end;
      try (left; reflexivity); try (right; reflexivity); try exact I;
      try (vm_compute; repeat split; try (eexists; reflexivity); fail);
      try (intros x y Hx Hy; vm_compute in Hx, Hy;
           repeat (destruct Hx as [Hx|Hx]; [subst x|]); try destruct Hx;
           repeat (destruct Hy as [Hy|Hy]; [subst y|]); try destruct Hy; vm_compute; intros E; try reflexivity; discriminate E).
  - exists (nth 0 (ehist_triples N N N ee_fill (ew_erase (map snd ew_hist_b) 0%N) 0%N) ([], [], 0%N)),
           (nth 4 (ehist_triples N N N ee_fill (ew_erase (map snd ew_hist_b) 0%N) 0%N) ([], [], 0%N)).
    split; [vm_compute; left; reflexivity|]. split; [vm_compute; do 4 right; left; reflexivity|].
    split; [reflexivity|]. vm_compute. discriminate.
  - reflexivity.
  - intros []; vm_compute; split; reflexivity.
  - vm_compute. reflexivity.
Qed.

(* non-vacuity of the totality theorem: 254 x 'a' against 254 x 'b' — the largest distance the u8 rows can be asked
   for — is computed as 254 with garbage (255s) in the buffers; one character more takes the long path *)
Example C05_edit_distance_total_nonvacuous :
  (match ed_min_alloc (repeat 97%N 254) (repeat 98%N 254) (repeat 255%N 300) (repeat 255%N 7) with Ok (d, _) => d | Panic _ => 0%N end) = 254%N /\
  (match ed_min_alloc (repeat 97%N 255) (repeat 98%N 254) [255%N] [] with Ok (d, b) => (d, b) | Panic _ => (0%N, ([], [])) end) = (255%N, ([255%N], [])).
Proof. split; vm_compute; reflexivity. Qed.

(* the generated table: the hash state is per LintGroup instance (tools/tables/c05statics.py raises otherwise) *)
Theorem C05_lifetime_table : c05_hasher_per_instance = true /\ c05_hasher_uses = 2.
Proof. exact (conj eq_refl eq_refl). Qed.
Check C05_lifetime_table : c05_hasher_per_instance = true /\ c05_hasher_uses = 2.
Print Assumptions C05_lifetime_table.
