(* C04 — Only prose is checked, and it is located at its true position in the file.
   This file pins the statements; it contains nothing but `exact`.
   What is proved here is the OFFSET ALGEBRA of every front-end (UTF-8 byte<->char maps, the
   byte-span conversion with its overlap filter, Mask::parse, the Typst cursor, Markdown's
   traversed_bytes/traversed_chars, the comment-leader line loops, the ignore markers and the shebang line, Go directives, the
   Literate Haskell masker, the git-commit cut).  WHICH nodes/events are prose is decided by third-party parsers and is reached by
   the constructed-ground-truth search of harness/src/bin/c04.rs, not by these theorems. *)
Require Import Base Mask MaskProofs MaskFrontends Tables_masks C04JavaDoc C04JavaDocProofs C04Typst C04TypstProofs Tables_typst C04MdGuardTable C04Findings.
From Coq Require String.
Import String.StringSyntax.
Delimit Scope string_scope with string.

(* ---- UTF-8: encode/decode round trip; char count; a byte offset on a char boundary is the byte
        length of a prefix of the text, and the char index computed by counting is that prefix's length *)
Theorem C04_utf8_roundtrip : forall t : text, Forall valid_char t ->
  decode (encode t) = t /\ count_chars (encode t) = length t.
Proof. exact (fun t H => conj (decode_encode t H) (count_chars_encode t H)). Qed.
Check C04_utf8_roundtrip : forall t : text, Forall valid_char t ->
  decode (encode t) = t /\ count_chars (encode t) = length t.
Print Assumptions C04_utf8_roundtrip.

Theorem C04_utf8_index : forall (t : text) b, Forall valid_char t -> is_boundary (encode t) b = true ->
  exists k, k <= length t /\ firstn b (encode t) = encode (firstn k t) /\
            char_index (encode t) b = k /\ decode (firstn b (encode t)) = firstn k t /\
            length (decode (firstn b (encode t))) = k.
Proof. exact utf8_index. Qed.
Check C04_utf8_index : forall (t : text) b, Forall valid_char t -> is_boundary (encode t) b = true ->
  exists k, k <= length t /\ firstn b (encode t) = encode (firstn k t) /\
            char_index (encode t) b = k /\ decode (firstn b (encode t)) = firstn k t /\
            length (decode (firstn b (encode t))) = k.
Print Assumptions C04_utf8_index.

(* conversely every prefix length is a boundary (so the theorem above is not vacuous anywhere) *)
Theorem C04_utf8_prefix_boundary : forall t : text, Forall valid_char t ->
  forall k, is_boundary (encode t) (elen t k) = true.
Proof. exact prefix_is_boundary. Qed.
Check C04_utf8_prefix_boundary : forall t : text, Forall valid_char t ->
  forall k, is_boundary (encode t) (elen t k) = true.
Print Assumptions C04_utf8_prefix_boundary.

(* ---- byte_spans_to_char_spans on what tree-sitter is supposed to deliver: sorted, pairwise
        non-overlapping byte spans on char boundaries.  Nothing is dropped, each char span denotes the
        same text as its byte span (hence: true char offsets whatever multi-byte text precedes), order kept *)
Theorem C04_byte_to_char_spans : forall (t : text) l,
  Forall valid_char t -> Forall span_wf l -> chain_ok l = true -> Forall (on_boundaries (encode t)) l ->
  exists l', byte_spans_to_char_spans (encode t) l = Ok l' /\
    Forall2 (fun s s' => sstart s' <= send s' <= length t /\
                         encode (slice t (sstart s') (send s')) = slice (encode t) (sstart s) (send s) /\
                         elen t (sstart s') = sstart s /\ elen t (send s') = send s) l l' /\
    chain_ok l' = true.
Proof. exact b2c_sorted_disjoint. Qed.
Check C04_byte_to_char_spans : forall (t : text) l,
  Forall valid_char t -> Forall span_wf l -> chain_ok l = true -> Forall (on_boundaries (encode t)) l ->
  exists l', byte_spans_to_char_spans (encode t) l = Ok l' /\
    Forall2 (fun s s' => sstart s' <= send s' <= length t /\
                         encode (slice t (sstart s') (send s')) = slice (encode t) (sstart s) (send s) /\
                         elen t (sstart s') = sstart s /\ elen t (send s') = send s) l l' /\
    chain_ok l' = true.
Print Assumptions C04_byte_to_char_spans.

(* ---- ... and on ANY input (unsorted, nested, overlapping): exactly what the function does.  It
        sorts, drops a span iff it overlaps its immediate predecessor in the sorted list, maps each
        survivor to (chars before start, chars before end), and panics iff the survivors are not an
        ordered chain on char boundaries *)
Theorem C04_byte_to_char_spans_exact : forall bs l,
  byte_spans_to_char_spans bs l =
  let k := filter_prev None (ssort l) in
  if b2c_okb bs 0 k then Ok (map (cidx bs) k) else Panic PIndex.
Proof. exact b2c_exact. Qed.
Check C04_byte_to_char_spans_exact : forall bs l,
  byte_spans_to_char_spans bs l =
  let k := filter_prev None (ssort l) in
  if b2c_okb bs 0 k then Ok (map (cidx bs) k) else Panic PIndex.
Print Assumptions C04_byte_to_char_spans_exact.

(* the overlap filter compares with the predecessor in the sorted list only: a second span nested in
   an earlier one survives and the conversion slices backwards.  (Whether a grammar produces such
   node lists is monitored per language by the harness: monitor `ts_nodes_nested_twice`.) *)
Theorem C04_byte_to_char_spans_nested_panics :
  byte_spans_to_char_spans (encode [97;98;99;100;101;102;103;104;105;106]%N)
    [mkspan 0 10; mkspan 2 4; mkspan 5 8] = Panic PIndex.
Proof. exact b2c_nested_panics. Qed.
Check C04_byte_to_char_spans_nested_panics :
  byte_spans_to_char_spans (encode [97;98;99;100;101;102;103;104;105;106]%N)
    [mkspan 0 10; mkspan 2 4; mkspan 5 8] = Panic PIndex.
Print Assumptions C04_byte_to_char_spans_nested_panics.

(* ---- parsers::Mask::parse: for a sorted, disjoint, in-bounds mask and an inner parser whose tokens
        are well-formed spans inside the slice it was given (monitored), parse never panics; every token
        is either an inner token of ONE allowed span, shifted by that span's start — it lies inside
        the allowed span and its text in the file equals its text in the inner parse — or a
        ParagraphBreak spanning exactly the gap between two consecutive allowed spans that contains a
        newline *)
Theorem C04_mask_faithful : forall inner : text -> list tok,
  (forall c t0, In t0 (inner c) -> sstart (tspan t0) <= send (tspan t0)) ->
  (forall c t0, In t0 (inner c) -> send (tspan t0) <= length c) ->
  forall src m, mask_wf (length src) m ->
  exists toks, mask_parse inner src m = Ok toks /\
    Forall (fun tk => from_inner inner src m tk \/ gap_break src m tk) toks.
Proof. exact mask_parse_faithful. Qed.
Check C04_mask_faithful : forall inner : text -> list tok,
  (forall c t0, In t0 (inner c) -> sstart (tspan t0) <= send (tspan t0)) ->
  (forall c t0, In t0 (inner c) -> send (tspan t0) <= length c) ->
  forall src m, mask_wf (length src) m ->
  exists toks, mask_parse inner src m = Ok toks /\
    Forall (fun tk => from_inner inner src m tk \/ gap_break src m tk) toks.
Print Assumptions C04_mask_faithful.

(* ... and when the inner parser delivers its tokens in order (C02's property), so does Mask::parse *)
Theorem C04_mask_ordered : forall inner : text -> list tok,
  (forall c t0, In t0 (inner c) -> sstart (tspan t0) <= send (tspan t0)) ->
  (forall c t0, In t0 (inner c) -> send (tspan t0) <= length c) ->
  (forall c, ordered_from 0 (map tspan (inner c))) ->
  forall src m toks, mask_wf (length src) m ->
  mask_parse inner src m = Ok toks -> ordered_from 0 (map tspan toks).
Proof. exact mask_parse_ordered. Qed.
Check C04_mask_ordered : forall inner : text -> list tok,
  (forall c t0, In t0 (inner c) -> sstart (tspan t0) <= send (tspan t0)) ->
  (forall c t0, In t0 (inner c) -> send (tspan t0) <= length c) ->
  (forall c, ordered_from 0 (map tspan (inner c))) ->
  forall src m toks, mask_wf (length src) m ->
  mask_parse inner src m = Ok toks -> ordered_from 0 (map tspan toks).
Print Assumptions C04_mask_ordered.

(* ---- push_allowed / merge_whitespace_sep keep the allowed spans sorted, disjoint and in bounds; the
   recursion of merge_whitespace_sep terminates (no fuel exhaustion) and never panics *)
Theorem C04_merge_whitespace_sep_wf : forall (is_whitespace : N -> bool) (src : text) l, mask_wf (length src) l ->
  exists l', merge_whitespace_sep is_whitespace src l = Ok l' /\ mask_wf (length src) l'.
Proof. exact merge_whitespace_sep_wf. Qed.
Check C04_merge_whitespace_sep_wf : forall (is_whitespace : N -> bool) (src : text) l, mask_wf (length src) l ->
  exists l', merge_whitespace_sep is_whitespace src l = Ok l' /\ mask_wf (length src) l'.
Print Assumptions C04_merge_whitespace_sep_wf.

(* ---- TreeSitterMasker::create_mask (conversion, push_allowed, merge) on node ranges that are sorted,
   disjoint and on char boundaries: never panics, result is a well-formed mask — the premise of C04_mask_faithful *)
Theorem C04_ts_mask_wf : forall (is_whitespace : N -> bool) (t : text) nodes,
  Forall valid_char t -> Forall span_wf nodes -> chain_ok nodes = true -> Forall (on_boundaries (encode t)) nodes ->
  exists m, ts_create_mask is_whitespace t nodes = Ok m /\ mask_wf (length t) m.
Proof. exact ts_create_mask_wf. Qed.
Check C04_ts_mask_wf : forall (is_whitespace : N -> bool) (t : text) nodes,
  Forall valid_char t -> Forall span_wf nodes -> chain_ok nodes = true -> Forall (on_boundaries (encode t)) nodes ->
  exists m, ts_create_mask is_whitespace t nodes = Ok m /\ mask_wf (length t) m.
Print Assumptions C04_ts_mask_wf.

(* ---- Typst OffsetCursor: after any successful chain of push_to from (0,0) the char field is the number of
   chars before the byte field (the prefix of the file up to `byte` is the first `char` chars) *)
Theorem C04_offset_cursor : forall (t : text) bytes c, Forall valid_char t ->
  push_to_all (encode t) (mkcur 0 0) bytes = Ok c ->
  cchar c <= length t /\ firstn (cbyte c) (encode t) = encode (firstn (cchar c) t).
Proof. exact offset_cursor. Qed.
Check C04_offset_cursor : forall (t : text) bytes c, Forall valid_char t ->
  push_to_all (encode t) (mkcur 0 0) bytes = Ok c ->
  cchar c <= length t /\ firstn (cbyte c) (encode t) = encode (firstn (cchar c) t).
Print Assumptions C04_offset_cursor.

(* ---- ... hence def_token! gives a node with byte range [a,b) a char span denoting the same text *)
Theorem C04_offset_cursor_def_token : forall (t : text) off a b kind tk, Forall valid_char t ->
  cur_ok (encode t) off -> def_token (encode t) off a b kind = Ok tk ->
  tkind tk = kind /\ cbyte off <= a <= b /\
  sstart (tspan tk) <= send (tspan tk) <= length t /\
  encode (slice t (sstart (tspan tk)) (send (tspan tk))) = slice (encode t) a b.
Proof. exact def_token_denotes. Qed.
Check C04_offset_cursor_def_token : forall (t : text) off a b kind tk, Forall valid_char t ->
  cur_ok (encode t) off -> def_token (encode t) off a b kind = Ok tk ->
  tkind tk = kind /\ cbyte off <= a <= b /\
  sstart (tspan tk) <= send (tspan tk) <= length t /\
  encode (slice t (sstart (tspan tk)) (send (tspan tk))) = slice (encode t) a b.
Print Assumptions C04_offset_cursor_def_token.

(* ---- Markdown, general form (End events carry the range of their whole element, so range starts DO go
   backwards): when every range starts on a char boundary (monitored) the traversed_bytes/traversed_chars
   bookkeeping never panics and each event is handled — or skipped by the covered_until guard of 8b26ba4, which is
   part of both loops — at the TRUE char offset of the furthest range start seen so far.  (That every Text/Code/Html/break event starts at or after everything before it — so that
   "furthest so far" is its own start — is pulldown-cmark's contract: monitor md_event_before_cursor.) *)
Theorem C04_md_offsets_running_max : forall lex ilt src bs evs tb tc cu lastend stack,
  tc = char_index bs tb -> is_boundary bs tb = true ->
  Forall (fun e => is_boundary bs (snd e) = true) evs ->
  md_loop lex ilt src bs evs tb tc cu lastend stack = md_loop_max lex ilt src bs evs tb cu lastend stack.
Proof. exact md_offsets_max. Qed.
Check C04_md_offsets_running_max : forall lex ilt src bs evs tb tc cu lastend stack,
  tc = char_index bs tb -> is_boundary bs tb = true ->
  Forall (fun e => is_boundary bs (snd e) = true) evs ->
  md_loop lex ilt src bs evs tb tc cu lastend stack = md_loop_max lex ilt src bs evs tb cu lastend stack.
Print Assumptions C04_md_offsets_running_max.

(* ---- Markdown, for a stretch of events whose ranges start in non-decreasing order (e.g. no End event
   in between) the traversed_bytes/traversed_chars bookkeeping never panics and the whole loop equals
   the loop in which every event is handled at the TRUE char offset of its range start *)
Theorem C04_md_offsets : forall lex ilt src bs evs tb tc cu lastend stack,
  tc = char_index bs tb -> is_boundary bs tb = true ->
  starts_from tb (map snd evs) -> Forall (fun e => is_boundary bs (snd e) = true) evs ->
  md_loop lex ilt src bs evs tb tc cu lastend stack = md_loop_abs lex ilt src bs evs cu lastend stack.
Proof. exact md_offsets. Qed.
Check C04_md_offsets : forall lex ilt src bs evs tb tc cu lastend stack,
  tc = char_index bs tb -> is_boundary bs tb = true ->
  starts_from tb (map snd evs) -> Forall (fun e => is_boundary bs (snd e) = true) evs ->
  md_loop lex ilt src bs evs tb tc cu lastend stack = md_loop_abs lex ilt src bs evs cu lastend stack.
Print Assumptions C04_md_offsets.

(* ---- the covered_until guard (8b26ba4; FC02b) and the empty Code / Math body (a37d1cc; FC02a), as the code is NOW:
   from any loop state (cu = covered_until, lastend = end of tokens.last()) every token of the output starts at or
   after max(cu, lastend), or is a zero-width ParagraphBreak / Newline(2) of the unguarded Start(List) / End arms.  As
   the statement holds from every intermediate state, no Text / Code / Math / Html / break event that repeats source
   text lying before the end of the token pushed last makes a second token over it. *)
Theorem C04_md_guard_covered : forall lex ilt src bs evs tb cu lastend stack toks,
  md_loop_max lex ilt src bs evs tb cu lastend stack = Ok toks ->
  Forall (fun t => md_structural t \/ md_cu_top cu lastend <= sstart (tspan t)) toks.
Proof. exact md_guard_covered. Qed.
Check C04_md_guard_covered : forall lex ilt src bs evs tb cu lastend stack toks,
  md_loop_max lex ilt src bs evs tb cu lastend stack = Ok toks ->
  Forall (fun t => md_structural t \/ md_cu_top cu lastend <= sstart (tspan t)) toks.
Print Assumptions C04_md_guard_covered.

Theorem C04_md_empty_code_silent : forall lex ilt src bs rs stack tc,
  md_event_step lex ilt src bs rs stack tc (ECodeLike 0) = Ok ([], stack).
Proof. exact md_empty_code_silent. Qed.
Check C04_md_empty_code_silent : forall lex ilt src bs rs stack tc,
  md_event_step lex ilt src bs rs stack tc (ECodeLike 0) = Ok ([], stack).
Print Assumptions C04_md_empty_code_silent.

(* ---- totality of the Markdown loop (FC02c FIXED by b736ef8; this was C04_md_loop_total_refuted): with every range
   start on a char boundary and every Text range ordered and ending on a char boundary (pulldown-cmark's contract,
   monitored: md_event_off_char_boundary, md_text_range_off_char_boundary) the whole loop of Markdown::parse never
   panics, for any lexer, from any consistent cursor state.  History: Example fc02c_replayed_event_skipped
   (Proofs/MaskFrontends.v) computes the new behaviour on the old witness `[[a|]]river stone $$$$` and the old slice panic. *)
Theorem C04_md_loop_total : forall lex ilt (src : text), Forall valid_char src ->
  forall evs tb tc cu lastend stack,
  tc = char_index (encode src) tb -> is_boundary (encode src) tb = true ->
  Forall (fun e => is_boundary (encode src) (snd e) = true) evs ->
  md_text_ranges_ok (encode src) evs ->
  exists toks, md_loop lex ilt src (encode src) evs tb tc cu lastend stack = Ok toks.
Proof. exact md_loop_total. Qed.
Check C04_md_loop_total : forall lex ilt (src : text), Forall valid_char src ->
  forall evs tb tc cu lastend stack,
  tc = char_index (encode src) tb -> is_boundary (encode src) tb = true ->
  Forall (fun e => is_boundary (encode src) (snd e) = true) evs ->
  md_text_ranges_ok (encode src) evs ->
  exists toks, md_loop lex ilt src (encode src) evs tb tc cu lastend stack = Ok toks.
Print Assumptions C04_md_loop_total.

(* ---- the guarded event kinds of the model = the list regenerated from the guard in markdown.rs (masks.py raises when
   the guard, the cursor advance, covered_until or the empty-body skip change shape) *)
Theorem C04_md_guard_table : (forall ev, md_is_leaf ev = md_names_guarded (md_event_names ev)) /\
  List.length md_guarded_events = 8 /\ md_guard_has_behind_cursor = true.
Proof. exact md_guard_table. Qed.
Check C04_md_guard_table : (forall ev, md_is_leaf ev = md_names_guarded (md_event_names ev)) /\
  List.length md_guarded_events = 8 /\ md_guard_has_behind_cursor = true.
Print Assumptions C04_md_guard_table.

(* ---- a Text event yields Unlintable, nothing, or the lexer's tokens of exactly source[tc .. tc+n] shifted by tc *)
Theorem C04_md_text_chunk : forall lex ilt src stack tc n out,
  md_text lex ilt src stack tc n = Ok out ->
  (forall tk, In tk out -> tkind tk = K_UNLINTABLE /\ tspan tk = mkspan tc (tc + n)) \/
  out = [] \/
  (tc + n <= length src /\ out = map (tpush tc) (lex (slice src tc (tc + n)))).
Proof. exact md_text_lexed. Qed.
Check C04_md_text_chunk : forall lex ilt src stack tc n out,
  md_text lex ilt src stack tc n = Ok out ->
  (forall tk, In tk out -> tkind tk = K_UNLINTABLE /\ tspan tk = mkspan tc (tc + n)) \/
  out = [] \/
  (tc + n <= length src /\ out = map (tpush tc) (lex (slice src tc (tc + n)))).
Print Assumptions C04_md_text_chunk.

(* ---- Code / InlineMath / DisplayMath / Html / InlineHtml events, Text inside a code block and (with
   ignore_link_title) Text directly inside a link only ever produce Unlintable tokens *)
Theorem C04_md_code_unlintable : forall lex ilt src bs rs stack tc ev out st,
  md_event_step lex ilt src bs rs stack tc ev = Ok (out, st) ->
  (match ev with
   | ECodeLike _ | EHtml _ => True
   | EText _ _ => match stack with
                  | TCodeBlock :: _ => True
                  | TLink :: _ => ilt = true
                  | _ => False
                  end
   | _ => False
   end) ->
  forall tk, In tk out -> tkind tk = K_UNLINTABLE.
Proof. exact md_code_unlintable. Qed.
Check C04_md_code_unlintable : forall lex ilt src bs rs stack tc ev out st,
  md_event_step lex ilt src bs rs stack tc ev = Ok (out, st) ->
  (match ev with
   | ECodeLike _ | EHtml _ => True
   | EText _ _ => match stack with
                  | TCodeBlock :: _ => True
                  | TLink :: _ => ilt = true
                  | _ => False
                  end
   | _ => False
   end) ->
  forall tk, In tk out -> tkind tk = K_UNLINTABLE.
Print Assumptions C04_md_code_unlintable.

(* ---- F27 / FC04f fixed (548c418): a Text event whose source range [rs, re) lies on char boundaries, handled at
   the true char offset of its range start, never panics, and the chunk it claims is at most the event's text
   length AND at most the number of chars its source range holds: it ends at or before the true char offset of
   range.end — inside the source, whatever text pulldown-cmark synthesised (tab columns with an empty range).
   What is pushed is nothing, ONE Unlintable token over exactly that chunk, or the lexer's tokens of exactly
   that chunk of the source *)
Theorem C04_md_text_clamped : forall lex ilt (src : text) rs re stack n,
  Forall valid_char src -> rs <= re ->
  is_boundary (encode src) rs = true -> is_boundary (encode src) re = true ->
  let bs := encode src in
  let tc := char_index bs rs in
  exists cl out, md_event_step lex ilt src bs rs stack tc (EText n re) = Ok (out, stack) /\
    cl <= n /\ tc + cl <= char_index bs re /\ char_index bs re <= length src /\
    (out = [] \/
     (0 < cl /\ out = [mktok (mkspan tc (tc + cl)) K_UNLINTABLE]) \/
     (0 < cl /\ out = map (tpush tc) (lex (slice src tc (tc + cl))))).
Proof. exact md_text_clamped. Qed.
Check C04_md_text_clamped : forall lex ilt (src : text) rs re stack n,
  Forall valid_char src -> rs <= re ->
  is_boundary (encode src) rs = true -> is_boundary (encode src) re = true ->
  let bs := encode src in
  let tc := char_index bs rs in
  exists cl out, md_event_step lex ilt src bs rs stack tc (EText n re) = Ok (out, stack) /\
    cl <= n /\ tc + cl <= char_index bs re /\ char_index bs re <= length src /\
    (out = [] \/
     (0 < cl /\ out = [mktok (mkspan tc (tc + cl)) K_UNLINTABLE]) \/
     (0 < cl /\ out = map (tpush tc) (lex (slice src tc (tc + cl))))).
Print Assumptions C04_md_text_clamped.

(* ---- without_initiators never panics; its span is inside the line and everything it cuts off at either end
   is a comment character (generated table) or whitespace *)
Theorem C04_without_initiators : forall (is_whitespace : N -> bool) (line : text),
  exists a, without_initiators is_whitespace line = Ok a /\
    sstart a <= send a <= length line /\
    Forall (fun c => leader_char is_whitespace c = true) (firstn (sstart a) line) /\
    Forall (fun c => leader_char is_whitespace c = true) (skipn (send a) line).
Proof. exact without_initiators_spec. Qed.
Check C04_without_initiators : forall (is_whitespace : N -> bool) (line : text),
  exists a, without_initiators is_whitespace line = Ok a /\
    sstart a <= send a <= length line /\
    Forall (fun c => leader_char is_whitespace c = true) (firstn (sstart a) line) /\
    Forall (fun c => leader_char is_whitespace c = true) (skipn (send a) line).
Print Assumptions C04_without_initiators.

(* ---- the leader alphabet of the model is the one in comment_parsers/mod.rs right now *)
Theorem C04_comment_character_table : forall c, is_comment_character c = existsb (N.eqb c) comment_characters.
Proof. exact is_comment_character_table. Qed.
Check C04_comment_character_table : forall c, is_comment_character c = existsb (N.eqb c) comment_characters.
Print Assumptions C04_comment_character_table.

(* ---- Unit::parse (and JsDoc's identical loop): every token is a one-char Newline(1) or an inner token of ONE
   line, located at line start + leader length + inner offset, inside that line's without_initiators span,
   with the same text in the file as in the inner parse (so stripped leaders stay outside all tokens) *)
Theorem C04_unit_line_offsets : forall (is_whitespace : N -> bool) (inner : text -> list tok),
  (forall c t0, In t0 (inner c) -> sstart (tspan t0) <= send (tspan t0)) ->
  (forall c t0, In t0 (inner c) -> send (tspan t0) <= length c) ->
  forall src toks, unit_parse is_whitespace inner src = Ok toks ->
  Forall (fun tk => from_line is_whitespace inner src tk \/
                    (tkind tk = K_NEWLINE1 /\ send (tspan tk) = sstart (tspan tk) + 1 /\ send (tspan tk) <= length src)) toks.
Proof. exact unit_line_offsets. Qed.
Check C04_unit_line_offsets : forall (is_whitespace : N -> bool) (inner : text -> list tok),
  (forall c t0, In t0 (inner c) -> sstart (tspan t0) <= send (tspan t0)) ->
  (forall c t0, In t0 (inner c) -> send (tspan t0) <= length c) ->
  forall src toks, unit_parse is_whitespace inner src = Ok toks ->
  Forall (fun tk => from_line is_whitespace inner src tk \/
                    (tkind tk = K_NEWLINE1 /\ send (tspan tk) = sstart (tspan tk) + 1 /\ send (tspan tk) <= length src)) toks.
Print Assumptions C04_unit_line_offsets.

(* ---- Unit::parse never panics *)
Theorem C04_unit_total : forall (is_whitespace : N -> bool) (inner : text -> list tok) src,
  exists toks, unit_parse is_whitespace inner src = Ok toks.
Proof. exact unit_parse_total. Qed.
Check C04_unit_total : forall (is_whitespace : N -> bool) (inner : text -> list tok) src,
  exists toks, unit_parse is_whitespace inner src = Ok toks.
Print Assumptions C04_unit_total.

(* ---- CommentMasker::create_mask over the GENERATED marker list and shebang prefix: on a well-formed tree-sitter
   mask it never panics (Span::new(span.start + line_len, span.end) always gets start <= end), it is the per-span
   function keep_of applied in order, and the result is again sorted, disjoint and in bounds *)
Theorem C04_comment_mask_total : forall is_whitespace (src : text) nodes m0,
  ts_create_mask is_whitespace src nodes = Ok m0 -> mask_wf (length src) m0 ->
  comment_create_mask is_whitespace ignore_markers ignore_prefixes shebang_prefix src nodes
    = Ok (keep_all ignore_markers ignore_prefixes shebang_prefix src m0) /\
  mask_wf (length src) (keep_all ignore_markers ignore_prefixes shebang_prefix src m0).
Proof. exact (fun w => comment_mask_exact w ignore_markers ignore_prefixes shebang_prefix). Qed.
Check C04_comment_mask_total : forall is_whitespace (src : text) nodes m0,
  ts_create_mask is_whitespace src nodes = Ok m0 -> mask_wf (length src) m0 ->
  comment_create_mask is_whitespace ignore_markers ignore_prefixes shebang_prefix src nodes
    = Ok (keep_all ignore_markers ignore_prefixes shebang_prefix src m0) /\
  mask_wf (length src) (keep_all ignore_markers ignore_prefixes shebang_prefix src m0).
Print Assumptions C04_comment_mask_total.

(* ---- a span of the comment mask never contains one of the GENERATED ignore markers; it is a span of the
   underlying tree-sitter mask that does not start with the generated shebang prefix (#!), or such a span that
   does, minus its first line (up to and including its first newline).  FC04b fixed (075dccb): a shebang hides its
   own line and only that *)
Theorem C04_ignore_markers : forall is_whitespace (src : text) nodes m0 m,
  ts_create_mask is_whitespace src nodes = Ok m0 -> mask_wf (length src) m0 ->
  comment_create_mask is_whitespace ignore_markers ignore_prefixes shebang_prefix src nodes = Ok m ->
  forall s, In s m ->
    ~ carries_marker ignore_markers ignore_prefixes (slice src (sstart s) (send s)) /\
    exists s0, In s0 m0 /\ send s = send s0 /\
      ((s = s0 /\ starts_with shebang_prefix (slice src (sstart s0) (send s0)) = false) \/
       (starts_with shebang_prefix (slice src (sstart s0) (send s0)) = true /\
        exists p, position is_nl (slice src (sstart s0) (send s0)) = Some p /\
                  sstart s = sstart s0 + p + 1 /\ sstart s <= send s)).
Proof. exact ignore_markers_respected. Qed.
Check C04_ignore_markers : forall is_whitespace (src : text) nodes m0 m,
  ts_create_mask is_whitespace src nodes = Ok m0 -> mask_wf (length src) m0 ->
  comment_create_mask is_whitespace ignore_markers ignore_prefixes shebang_prefix src nodes = Ok m ->
  forall s, In s m ->
    ~ carries_marker ignore_markers ignore_prefixes (slice src (sstart s) (send s)) /\
    exists s0, In s0 m0 /\ send s = send s0 /\
      ((s = s0 /\ starts_with shebang_prefix (slice src (sstart s0) (send s0)) = false) \/
       (starts_with shebang_prefix (slice src (sstart s0) (send s0)) = true /\
        exists p, position is_nl (slice src (sstart s0) (send s0)) = Some p /\
                  sstart s = sstart s0 + p + 1 /\ sstart s <= send s)).
Print Assumptions C04_ignore_markers.

(* ---- ... and conversely: a span without shebang and without marker is kept whole; of a span that starts with
   the shebang prefix everything after its first newline is kept when that remainder carries no marker *)
Theorem C04_unmarked_kept : forall is_whitespace (src : text) nodes m0 m,
  ts_create_mask is_whitespace src nodes = Ok m0 -> mask_wf (length src) m0 ->
  comment_create_mask is_whitespace ignore_markers ignore_prefixes shebang_prefix src nodes = Ok m ->
  forall s0, In s0 m0 ->
    let content := slice src (sstart s0) (send s0) in
    (starts_with shebang_prefix content = false ->
     ~ carries_marker ignore_markers ignore_prefixes content -> In s0 m) /\
    (starts_with shebang_prefix content = true -> forall p, position is_nl content = Some p ->
     ~ carries_marker ignore_markers ignore_prefixes (skipn (p + 1) content) ->
     In (mkspan (sstart s0 + p + 1) (send s0)) m).
Proof. exact unmarked_kept. Qed.
Check C04_unmarked_kept : forall is_whitespace (src : text) nodes m0 m,
  ts_create_mask is_whitespace src nodes = Ok m0 -> mask_wf (length src) m0 ->
  comment_create_mask is_whitespace ignore_markers ignore_prefixes shebang_prefix src nodes = Ok m ->
  forall s0, In s0 m0 ->
    let content := slice src (sstart s0) (send s0) in
    (starts_with shebang_prefix content = false ->
     ~ carries_marker ignore_markers ignore_prefixes content -> In s0 m) /\
    (starts_with shebang_prefix content = true -> forall p, position is_nl content = Some p ->
     ~ carries_marker ignore_markers ignore_prefixes (skipn (p + 1) content) ->
     In (mkspan (sstart s0 + p + 1) (send s0)) m).
Print Assumptions C04_unmarked_kept.

(* ---- Go::parse, FC04c fixed (017736b): never panics, and is exactly the inner parse of the comment without its
   initiators shifted by their length — or, when that text starts with "go:", the inner parse of
   source[t .. actual.end) shifted by t, t = the first newline of the comment (nothing when there is none before
   actual.end): the directive line is skipped, the block after it is parsed at its own source coordinates *)
Theorem C04_go_exact : forall (is_whitespace : N -> bool) (inner : text -> list tok) (src : text),
  exists actual, without_initiators is_whitespace src = Ok actual /\
    sstart actual <= send actual <= length src /\
    go_parse is_whitespace inner src =
    Ok (if starts_with GO_DIRECTIVE (slice src (sstart actual) (send actual)) then
          match position is_nl src with
          | None => []
          | Some t => if send actual <=? t then []
                      else map (tpush t) (inner (slice src t (send actual)))
          end
        else map (tpush (sstart actual)) (inner (slice src (sstart actual) (send actual)))).
Proof. exact go_parse_exact. Qed.
Check C04_go_exact : forall (is_whitespace : N -> bool) (inner : text -> list tok) (src : text),
  exists actual, without_initiators is_whitespace src = Ok actual /\
    sstart actual <= send actual <= length src /\
    go_parse is_whitespace inner src =
    Ok (if starts_with GO_DIRECTIVE (slice src (sstart actual) (send actual)) then
          match position is_nl src with
          | None => []
          | Some t => if send actual <=? t then []
                      else map (tpush t) (inner (slice src t (send actual)))
          end
        else map (tpush (sstart actual)) (inner (slice src (sstart actual) (send actual)))).
Print Assumptions C04_go_exact.

(* ---- ... hence every Go token is an inner token of ONE slice source[a .. b) shifted by a: inside [a, b), same
   text in the file as in the inner parse *)
Theorem C04_go_offsets : forall (is_whitespace : N -> bool) (inner : text -> list tok),
  (forall c t0, In t0 (inner c) -> sstart (tspan t0) <= send (tspan t0)) ->
  (forall c t0, In t0 (inner c) -> send (tspan t0) <= length c) ->
  forall (src : text) toks, go_parse is_whitespace inner src = Ok toks ->
  exists a b, a <= b <= length src /\
    (exists actual, without_initiators is_whitespace src = Ok actual /\ b = send actual /\
       (a = sstart actual \/
        (starts_with GO_DIRECTIVE (slice src (sstart actual) (send actual)) = true /\ position is_nl src = Some a))) /\
    Forall (fun tk => exists t0, In t0 (inner (slice src a b)) /\ tk = tpush a t0 /\
              a <= sstart (tspan tk) /\ sstart (tspan tk) <= send (tspan tk) /\ send (tspan tk) <= b /\
              slice src (sstart (tspan tk)) (send (tspan tk))
              = slice (slice src a b) (sstart (tspan t0)) (send (tspan t0))) toks.
Proof. exact go_offsets. Qed.
Check C04_go_offsets : forall (is_whitespace : N -> bool) (inner : text -> list tok),
  (forall c t0, In t0 (inner c) -> sstart (tspan t0) <= send (tspan t0)) ->
  (forall c t0, In t0 (inner c) -> send (tspan t0) <= length c) ->
  forall (src : text) toks, go_parse is_whitespace inner src = Ok toks ->
  exists a b, a <= b <= length src /\
    (exists actual, without_initiators is_whitespace src = Ok actual /\ b = send actual /\
       (a = sstart actual \/
        (starts_with GO_DIRECTIVE (slice src (sstart actual) (send actual)) = true /\ position is_nl src = Some a))) /\
    Forall (fun tk => exists t0, In t0 (inner (slice src a b)) /\ tk = tpush a t0 /\
              a <= sstart (tspan tk) /\ sstart (tspan tk) <= send (tspan tk) /\ send (tspan tk) <= b /\
              slice src (sstart (tspan tk)) (send (tspan tk))
              = slice (slice src a b) (sstart (tspan t0)) (send (tspan t0))) toks.
Print Assumptions C04_go_offsets.

(* ---- Literate Haskell: before merging, the mask is exactly one span per line that the state machine selects
   (lhs_line: fences and the blank line closing a bird block excluded, '> ' skipped, clamped to the line end), started
   with last_line_blank = TRUE (FC04a fixed, 358394a); it never panics *)
Theorem C04_lhs_raw_mask : forall is_whitespace want_text want_code src,
  lhs_raw_mask is_whitespace want_text want_code src
  = Ok (lhs_spans is_whitespace want_text want_code (split_lines src) 0 false true).
Proof. exact lhs_raw_mask_exact. Qed.
Check C04_lhs_raw_mask : forall is_whitespace want_text want_code src,
  lhs_raw_mask is_whitespace want_text want_code src
  = Ok (lhs_spans is_whitespace want_text want_code (split_lines src) 0 false true).
Print Assumptions C04_lhs_raw_mask.

(* ---- ... and the final mask is sorted, disjoint and in bounds *)
Theorem C04_lhs_mask : forall is_whitespace want_text want_code src,
  exists m, lhs_create_mask is_whitespace want_text want_code src = Ok m /\ mask_wf (length src) m.
Proof. exact lhs_mask_wf. Qed.
Check C04_lhs_mask : forall is_whitespace want_text want_code src,
  exists m, lhs_create_mask is_whitespace want_text want_code src = Ok m /\ mask_wf (length src) m.
Print Assumptions C04_lhs_mask.

(* ---- FC04a fixed: a '>' line that opens the file is a program line — no span in the text mask, its text after
   '> ' in the code mask — and the lines after it are classified in the code state *)
Theorem C04_lhs_leading_bird : forall (is_whitespace : N -> bool) (want_text want_code : bool) l rest,
  is_whitespace 62%N = false ->
  lhs_spans is_whitespace want_text want_code ((62%N :: l) :: rest) 0 false true =
  (if want_code then [mkspan (Nat.min 2 (S (length l))) (S (length l))] else []) ++
  lhs_spans is_whitespace want_text want_code rest (S (length l) + 1) true false.
Proof. exact lhs_leading_bird. Qed.
Check C04_lhs_leading_bird : forall (is_whitespace : N -> bool) (want_text want_code : bool) l rest,
  is_whitespace 62%N = false ->
  lhs_spans is_whitespace want_text want_code ((62%N :: l) :: rest) 0 false true =
  (if want_code then [mkspan (Nat.min 2 (S (length l))) (S (length l))] else []) ++
  lhs_spans is_whitespace want_text want_code rest (S (length l) + 1) true false.
Print Assumptions C04_lhs_leading_bird.

(* ---- git commit, FC04g fixed (15b9a7f): the scan never panics; what is parsed is the longest prefix that
   contains no line starting with '#' (a '#' inside a line is ordinary text); the cut is at the first '#' that opens
   a line, or at the end *)
Theorem C04_git_commit_cut : forall src : text,
  exists e, git_commit_cut src = Ok e /\ e <= length src /\
    (forall k, k < e -> ~ line_start_hash src k) /\ (e < length src -> line_start_hash src e) /\
    forall inner, git_commit_parse inner src = Ok (inner (firstn e src)).
Proof. exact git_commit_cut_spec. Qed.
Check C04_git_commit_cut : forall src : text,
  exists e, git_commit_cut src = Ok e /\ e <= length src /\
    (forall k, k < e -> ~ line_start_hash src k) /\ (e < length src -> line_start_hash src e) /\
    forall inner, git_commit_parse inner src = Ok (inner (firstn e src)).
Print Assumptions C04_git_commit_cut.

(* ---- JavaDoc / JSDoc glue (phase 3).  jsdoc.rs parse_inline_tag: Some p iff the slice starts with `{` `@` Word and has a
   `}` later; p = the number of tokens through the FIRST `}` (so p <= the slice length: the marking range is in bounds) *)
Theorem C04_inline_tag_shape : forall l p, parse_inline_tag l = Some p ->
  exists a b c mid cl post, l = a :: b :: c :: mid ++ cl :: post /\ p = 4 + length mid /\
    is_open_curly a = true /\ is_at b = true /\ is_word c = true /\ is_close_curly cl = true /\
    Forall (fun t => is_close_curly t = false) mid.
Proof. exact parse_inline_tag_shape. Qed.
Check C04_inline_tag_shape : forall l p, parse_inline_tag l = Some p ->
  exists a b c mid cl post, l = a :: b :: c :: mid ++ cl :: post /\ p = 4 + length mid /\
    is_open_curly a = true /\ is_at b = true /\ is_word c = true /\ is_close_curly cl = true /\
    Forall (fun t => is_close_curly t = false) mid.
Print Assumptions C04_inline_tag_shape.

(* ---- mark_inline_tags (the cursor loop in which F4 hung): with fuel |tokens|+1 it never runs out of fuel and never
   panics (the range tokens[cursor..cursor+p] is in bounds), and equals the one-pass structural function mit_s: a
   token is rewritten to Unlintable iff it belongs to an inline tag `{ @ Word .. }` that starts at an OpenCurly not
   already inside an earlier tag; spans are never touched *)
Theorem C04_inline_tags_exact : forall l, mark_inline_tags l = Ok (mit_s 0 l).
Proof. exact mark_inline_tags_exact. Qed.
Check C04_inline_tags_exact : forall l, mark_inline_tags l = Ok (mit_s 0 l).
Print Assumptions C04_inline_tags_exact.

(* ---- JavaDoc's `for i in 3..tokens.len()` loop with its four checked index reads/writes never panics and equals the
   structural pass jd_s: at a window `@` Word Space Word exactly these four tokens become Unlintable — the tag
   and ONE following word (FC04i: `@param xq_1` leaves `_1` lintable) — and the pass resumes right behind it; any other
   token is kept as it is *)
Theorem C04_javadoc_tag_window : forall l, jd_tags l = Ok (jd_s 0 l) /\
  forall a b c d r, jd_s 0 (a :: b :: c :: d :: r) =
    if match4 a b c d then unl a :: unl b :: unl c :: unl d :: jd_s 0 r else a :: jd_s 0 (b :: c :: d :: r).
Proof. exact (fun l => conj (jd_tags_exact l) jd_s_window). Qed.
Check C04_javadoc_tag_window : forall l, jd_tags l = Ok (jd_s 0 l) /\
  forall a b c d r, jd_s 0 (a :: b :: c :: d :: r) =
    if match4 a b c d then unl a :: unl b :: unl c :: unl d :: jd_s 0 r else a :: jd_s 0 (b :: c :: d :: r).
Print Assumptions C04_javadoc_tag_window.

(* ---- JavaDoc::parse is total — no panic, no fuel exhaustion, for ANY html parser — and is exactly: the html parse of
   the comment without initiators; Star/Space runs behind a Newline removed (remove_indices over the index queue =
   the filter jd_strip); every span shifted by the initiators' length; inline tags, then @tag windows marked *)
Theorem C04_javadoc_exact : forall (is_whitespace : N -> bool) (html : text -> list tok) (src : text),
  exists actual, without_initiators is_whitespace src = Ok actual /\
    sstart actual <= send actual <= length src /\
    javadoc_parse is_whitespace html src = Ok (javadoc_spec html src actual).
Proof. exact javadoc_parse_exact. Qed.
Check C04_javadoc_exact : forall (is_whitespace : N -> bool) (html : text -> list tok) (src : text),
  exists actual, without_initiators is_whitespace src = Ok actual /\
    sstart actual <= send actual <= length src /\
    javadoc_parse is_whitespace html src = Ok (javadoc_spec html src actual).
Print Assumptions C04_javadoc_exact.

(* ---- every JavaDoc token is a token of the html parse of source[a..b) (the comment without /** and */) at its true
   position: span shifted by a, kind unchanged or Unlintable, inside [a, b), same text in the file as in the
   inner parse *)
Theorem C04_javadoc_offsets : forall (is_whitespace : N -> bool) (html : text -> list tok),
  (forall c t0, In t0 (html c) -> sstart (tspan t0) <= send (tspan t0)) ->
  (forall c t0, In t0 (html c) -> send (tspan t0) <= length c) ->
  forall (src : text) toks, javadoc_parse is_whitespace html src = Ok toks ->
  exists actual, without_initiators is_whitespace src = Ok actual /\
    sstart actual <= send actual <= length src /\
    let a := sstart actual in let b := send actual in
    Forall (fun tk => exists t0, In t0 (html (slice src a b)) /\ tspan tk = push_by (tspan t0) a /\
              (tkind tk = tkind t0 \/ tkind tk = K_UNLINTABLE) /\
              a <= sstart (tspan tk) /\ sstart (tspan tk) <= send (tspan tk) /\ send (tspan tk) <= b /\
              slice src (sstart (tspan tk)) (send (tspan tk))
              = slice (slice src a b) (sstart (tspan t0)) (send (tspan t0))) toks.
Proof. exact javadoc_offsets. Qed.
Check C04_javadoc_offsets : forall (is_whitespace : N -> bool) (html : text -> list tok),
  (forall c t0, In t0 (html c) -> sstart (tspan t0) <= send (tspan t0)) ->
  (forall c t0, In t0 (html c) -> send (tspan t0) <= length c) ->
  forall (src : text) toks, javadoc_parse is_whitespace html src = Ok toks ->
  exists actual, without_initiators is_whitespace src = Ok actual /\
    sstart actual <= send actual <= length src /\
    let a := sstart actual in let b := send actual in
    Forall (fun tk => exists t0, In t0 (html (slice src a b)) /\ tspan tk = push_by (tspan t0) a /\
              (tkind tk = tkind t0 \/ tkind tk = K_UNLINTABLE) /\
              a <= sstart (tspan tk) /\ sstart (tspan tk) <= send (tspan tk) /\ send (tspan tk) <= b /\
              slice src (sstart (tspan tk)) (send (tspan tk))
              = slice (slice src a b) (sstart (tspan t0)) (send (tspan t0))) toks.
Print Assumptions C04_javadoc_offsets.

(* ---- conversely the removal pass loses nothing but Star / Space tokens: every other html token is in the result at
   its place *)
Theorem C04_javadoc_keeps : forall (is_whitespace : N -> bool) (html : text -> list tok) (src : text) actual t0,
  without_initiators is_whitespace src = Ok actual ->
  In t0 (html (slice src (sstart actual) (send actual))) -> is_removable t0 = false ->
  exists tk, In tk (javadoc_spec html src actual) /\ tspan tk = push_by (tspan t0) (sstart actual) /\
             (tkind tk = tkind t0 \/ tkind tk = K_UNLINTABLE).
Proof. exact javadoc_keeps. Qed.
Check C04_javadoc_keeps : forall (is_whitespace : N -> bool) (html : text -> list tok) (src : text) actual t0,
  without_initiators is_whitespace src = Ok actual ->
  In t0 (html (slice src (sstart actual) (send actual))) -> is_removable t0 = false ->
  exists tk, In tk (javadoc_spec html src actual) /\ tspan tk = push_by (tspan t0) (sstart actual) /\
             (tkind tk = tkind t0 \/ tkind tk = K_UNLINTABLE).
Print Assumptions C04_javadoc_keeps.

(* ---- JsDoc::parse with its real post-passes (mark_inline_tags, then everything from the first `@` Word on the line to
   the line end Unlintable) is the line loop of Mask.v with the structural kind-only pass jsdoc_post_s, and never panics *)
Theorem C04_jsdoc_exact : forall (is_whitespace : N -> bool) (inner : text -> list tok) src,
  jsdoc_full_parse is_whitespace inner src = jsdoc_parse is_whitespace inner jsdoc_post_s src /\
  exists toks, jsdoc_full_parse is_whitespace inner src = Ok toks.
Proof. exact (fun w i s => conj (jsdoc_full_exact w i s) (jsdoc_full_total w i s)). Qed.
Check C04_jsdoc_exact : forall (is_whitespace : N -> bool) (inner : text -> list tok) src,
  jsdoc_full_parse is_whitespace inner src = jsdoc_parse is_whitespace inner jsdoc_post_s src /\
  exists toks, jsdoc_full_parse is_whitespace inner src = Ok toks.
Print Assumptions C04_jsdoc_exact.

(* ---- ... and every JsDoc token is a one-char Newline(1) or an inner token of ONE line at line start + leader length +
   inner offset (kind unchanged or Unlintable), inside the line's without_initiators span, same text in the file *)
Theorem C04_jsdoc_offsets : forall (is_whitespace : N -> bool) (inner : text -> list tok),
  (forall c t0, In t0 (inner c) -> sstart (tspan t0) <= send (tspan t0)) ->
  (forall c t0, In t0 (inner c) -> send (tspan t0) <= length c) ->
  forall src toks, jsdoc_full_parse is_whitespace inner src = Ok toks ->
  Forall (fun tk => from_line_kind is_whitespace inner src tk \/
                    (tkind tk = K_NEWLINE1 /\ send (tspan tk) = sstart (tspan tk) + 1 /\ send (tspan tk) <= length src)) toks.
Proof. exact jsdoc_full_offsets. Qed.
Check C04_jsdoc_offsets : forall (is_whitespace : N -> bool) (inner : text -> list tok),
  (forall c t0, In t0 (inner c) -> sstart (tspan t0) <= send (tspan t0)) ->
  (forall c t0, In t0 (inner c) -> send (tspan t0) <= length c) ->
  forall src toks, jsdoc_full_parse is_whitespace inner src = Ok toks ->
  Forall (fun tk => from_line_kind is_whitespace inner src tk \/
                    (tkind tk = K_NEWLINE1 /\ send (tspan tk) = sstart (tspan tk) + 1 /\ send (tspan tk) <= length src)) toks.
Print Assumptions C04_jsdoc_offsets.

(* ---- Typst translator (phase 3), over the abstract tree of Model/C04Typst.v.  From any cursor that is consistent (char =
   chars before byte) and any node whose reported ranges satisfy the contract tn_ok (ordered, on char boundaries, not
   before the expression they are visited from; unwrapped sub-nodes have a range; a Str's raw text has its two quote
   bytes — monitored on every tree the harness dumps) the translation never panics and equals the CURSOR-FREE
   function tr_spec: a token!(..) token spans exactly [chars before range.start, chars before range.end) of the node it
   came from; the tokens of a Text node are PlainEnglish's tokens of text.get() shifted by the chars before
   range.start; those of a Str node PlainEnglish's tokens of the RAW text between the quotes shifted by the chars before
   range.start + 1 (the opening quote) — raw, not escape-resolved: seed c04-3 lexes text.get() instead and disagrees *)
Theorem C04_typst_node_exact : forall (lex : text -> list tok) (bs : list N) n off,
  cur_ok bs off -> tn_ok bs (cbyte off) n -> tr lex bs n off = Ok (tr_spec lex bs n).
Proof. exact tr_exact. Qed.
Check C04_typst_node_exact : forall (lex : text -> list tok) (bs : list N) n off,
  cur_ok bs off -> tn_ok bs (cbyte off) n -> tr lex bs n off = Ok (tr_spec lex bs n).
Print Assumptions C04_typst_node_exact.

(* ---- ... hence the whole Typst::parse (every top-level expression from OffsetCursor::new, then the retain filter of
   b629a93: a token that starts before the end of what was kept so far is dropped) *)
Theorem C04_typst_exact : forall (lex : text -> list tok) (bs : list N) top,
  top_ok bs top -> typst_parse lex bs top = Ok (typst_retain 0 (flat_map (tr_spec lex bs) top)).
Proof. exact typst_parse_exact. Qed.
Check C04_typst_exact : forall (lex : text -> list tok) (bs : list N) top,
  top_ok bs top -> typst_parse lex bs top = Ok (typst_retain 0 (flat_map (tr_spec lex bs) top)).
Print Assumptions C04_typst_exact.

(* ---- ... and the char span [chars before a, chars before b) denotes exactly the text of the byte range [a, b) typst-syntax
   reported, whatever multi-byte text precedes (the first chars-before-a characters are exactly the bytes before a) *)
Theorem C04_typst_range_denotes : forall (t : text) a b, Forall valid_char t -> a <= b ->
  is_boundary (encode t) a = true -> is_boundary (encode t) b = true ->
  char_index (encode t) a <= char_index (encode t) b <= length t /\
  encode (slice t (char_index (encode t) a) (char_index (encode t) b)) = slice (encode t) a b /\
  encode (firstn (char_index (encode t) a) t) = firstn a (encode t).
Proof. exact typst_leaf_denotes. Qed.
Check C04_typst_range_denotes : forall (t : text) a b, Forall valid_char t -> a <= b ->
  is_boundary (encode t) a = true -> is_boundary (encode t) b = true ->
  char_index (encode t) a <= char_index (encode t) b <= length t /\
  encode (slice t (char_index (encode t) a) (char_index (encode t) b)) = slice (encode t) a b /\
  encode (firstn (char_index (encode t) a) t) = firstn a (encode t).
Print Assumptions C04_typst_range_denotes.

(* ---- which arms of parse_expr hand text to PlainEnglish: in the table GENERATED from typst_translator.rs's match arms
   (typst.py raises on a new, vanished or reclassified arm) exactly Expr::Text and Expr::Str (FC04e: string literals
   are linted by design); the other 27 arms emit tokens over node ranges or recurse, everything else is Unlintable *)
Theorem C04_typst_prose_arms : map fst (filter (fun p => is_prose_arm (snd p)) typst_arms) = ["Text"%string; "Str"%string] /\
  List.length typst_arms = 29.
Proof. exact typst_prose_arms. Qed.
Check C04_typst_prose_arms : map fst (filter (fun p => is_prose_arm (snd p)) typst_arms) = ["Text"%string; "Str"%string] /\
  List.length typst_arms = 29.
Print Assumptions C04_typst_prose_arms.

(* ---- non-vacuity ---- *)
(* "é😀 a//b": two multi-byte chars, then a 'comment' at bytes 9..10 *)
Example C04_utf8_nonvacuous :
  let t := [233; 128512; 32; 97; 47; 47; 98]%N in
  Forall valid_char t /\ encode t = [195;169;240;159;152;128;32;97;47;47;98]%N /\
  is_boundary (encode t) 6 = true /\ is_boundary (encode t) 3 = false /\ char_index (encode t) 6 = 2 /\
  byte_spans_to_char_spans (encode t) [mkspan 8 11; mkspan 0 2] = Ok [mkspan 0 1; mkspan 4 7].
Proof.
  cbv zeta. split; [|vm_compute; repeat split; reflexivity].
  repeat constructor; unfold valid_char; lia.
Qed.

(* Mask::parse on "ab\ncd ef" with allowed [0,2] and [3,8] and an inner parser that returns one token
   covering its whole input *)
Example C04_mask_nonvacuous :
  let inner := fun c : text => [mktok (mkspan 0 (length c)) 7%N] in
  let src := [97;98;10;99;100;32;101;102]%N in
  let m := [mkspan 0 2; mkspan 3 8] in
  (forall c t0, In t0 (inner c) -> sstart (tspan t0) <= send (tspan t0)) /\
  (forall c t0, In t0 (inner c) -> send (tspan t0) <= length c) /\
  (forall c, ordered_from 0 (map tspan (inner c))) /\
  mask_wf (length src) m /\
  mask_parse inner src m = Ok [mktok (mkspan 0 2) 7%N; mktok (mkspan 2 3) K_PARBREAK; mktok (mkspan 3 8) 7%N].
Proof.
  cbv zeta. split; [|split; [|split; [|split]]].
  - intros c t0 [<-|[]]. cbn. lia.
  - intros c t0 [<-|[]]. cbn. lia.
  - intros c. cbn. lia.
  - split; [cbn; lia|]. repeat constructor; cbn; lia.
  - vm_compute. reflexivity.
Qed.

(* the Typst cursor walking over "é😀 ab": pushes to bytes 2, 6, 9 *)
Example C04_cursor_nonvacuous :
  let t := [233; 128512; 32; 97; 98]%N in
  Forall valid_char t /\ push_to_all (encode t) (mkcur 0 0) [2; 6; 6; 9] = Ok (mkcur 5 9) /\
  push_to_all (encode t) (mkcur 0 0) [2; 4] = Panic PUnwrap /\
  def_token (encode t) (mkcur 1 2) 7 9 5%N = Ok (mktok (mkspan 3 5) 5%N).
Proof. cbv zeta. split; [repeat constructor; unfold valid_char; lia|]. vm_compute. repeat split; reflexivity. Qed.

(* Markdown "é `x` b": Start(Paragraph)@0, Text(2)@0, Code(1)@3, Text(2)@6, End@0-ish; the premises of C04_md_offsets hold *)
Example C04_md_nonvacuous :
  let src := [233; 32; 96; 120; 96; 32; 98]%N in
  let evs := [(EStart TParagraph, 0); (EText 2 3, 0); (ECodeLike 1, 3); (EText 2 8, 6)] in
  let lex := fun c : text => [mktok (mkspan 0 (length c)) 5%N] in
  starts_from 0 (map snd evs) /\ Forall (fun e => is_boundary (encode src) (snd e) = true) evs /\
  md_loop lex false src (encode src) evs 0 0 0 None []
  = Ok [mktok (mkspan 0 2) 5%N; mktok (mkspan 2 3) K_UNLINTABLE; mktok (mkspan 5 7) 5%N] /\
  (* a synthesised Text (3 chars claimed, empty source range at byte 8): nothing is pushed; a text longer than
     its range [6,8) is clamped to the 2 chars the range holds *)
  md_event_step lex false src (encode src) 8 [TParagraph] 7 (EText 3 8) = Ok ([], [TParagraph]) /\
  md_event_step lex false src (encode src) 6 [TParagraph] 5 (EText 9 8) = Ok ([mktok (mkspan 5 7) 5%N], [TParagraph]) /\
  (* the guard: a second Text event over the bytes [0,3) already tokenised is skipped, an empty Code body pushes nothing *)
  md_loop lex false src (encode src) [(EStart TParagraph, 0); (EText 2 3, 0); (EText 2 3, 0); (ECodeLike 0, 3); (EText 2 8, 6)] 0 0 0 None []
  = Ok [mktok (mkspan 0 2) 5%N; mktok (mkspan 5 7) 5%N].
Proof. cbv zeta. split; [cbn; lia|]. split; [repeat constructor|vm_compute; repeat split; reflexivity]. Qed.

(* the premises of C04_md_loop_total hold on pulldown-cmark's stream of `[[a|]]river stone $$$$` (replayed events behind the wikilink) *)
Example C04_md_loop_total_nonvacuous :
  Forall valid_char fc02c_src /\
  Forall (fun e => is_boundary (encode fc02c_src) (snd e) = true) fc02c_evs /\
  md_text_ranges_ok (encode fc02c_src) fc02c_evs /\ length fc02c_evs = 10.
Proof.
  split; [repeat constructor; unfold valid_char; lia|]. split; [repeat constructor|].
  split; [unfold md_text_ranges_ok, fc02c_evs; repeat constructor; cbn; lia|reflexivity].
Qed.

(* "/// river" and a two-line block through Unit with an inner parser returning its whole input *)
Example C04_unit_nonvacuous :
  let inner := fun c : text => [mktok (mkspan 0 (length c)) 5%N] in
  (forall c t0, In t0 (inner c) -> sstart (tspan t0) <= send (tspan t0)) /\
  (forall c t0, In t0 (inner c) -> send (tspan t0) <= length c) /\
  without_initiators ws_table [47; 47; 47; 32; 114; 105; 118; 32]%N = Ok (mkspan 4 7) /\
  unit_parse ws_table inner [47; 47; 32; 97; 10; 35; 32; 98; 98]%N
  = Ok [mktok (mkspan 3 4) 5%N; mktok (mkspan 4 5) K_NEWLINE1; mktok (mkspan 7 9) 5%N].
Proof.
  cbv zeta. split; [intros c t0 [<-|[]]; cbn; lia|]. split; [intros c t0 [<-|[]]; cbn; lia|].
  split; vm_compute; reflexivity.
Qed.

(* "# a" / "# harper:ignore b": the marked comment vanishes from the mask; "#!x\n# a": only the shebang line does;
   a lone "#!x" vanishes *)
Example C04_ignore_nonvacuous :
  ignore_condition ignore_markers ignore_prefixes [35; 32; 104; 97; 114; 112; 101; 114; 58; 105; 103; 110; 111; 114; 101; 32; 98]%N = true /\
  ignore_condition ignore_markers ignore_prefixes [35; 32; 97]%N = false /\
  comment_create_mask ws_table ignore_markers ignore_prefixes shebang_prefix
    [35; 32; 97; 10; 120; 10; 35; 32; 104; 97; 114; 112; 101; 114; 58; 105; 103; 110; 111; 114; 101]%N
    [mkspan 0 3; mkspan 6 21] = Ok [mkspan 0 3] /\
  comment_create_mask ws_table ignore_markers ignore_prefixes shebang_prefix
    [35; 33; 120; 10; 35; 32; 97]%N [mkspan 0 3; mkspan 4 7] = Ok [mkspan 4 7] /\
  comment_create_mask ws_table ignore_markers ignore_prefixes shebang_prefix
    [35; 33; 120; 10; 121]%N [mkspan 0 3] = Ok [].
Proof. vm_compute. repeat split; reflexivity. Qed.

(* Go "//go:build x\n// a": the block after the directive line is parsed at its own coordinates *)
Example C04_go_nonvacuous :
  let inner := fun c : text => [mktok (mkspan 0 (length c)) 5%N] in
  (forall c t0, In t0 (inner c) -> sstart (tspan t0) <= send (tspan t0)) /\
  (forall c t0, In t0 (inner c) -> send (tspan t0) <= length c) /\
  go_parse ws_table inner [47; 47; 103; 111; 58; 98; 117; 105; 108; 100; 32; 120; 10; 47; 47; 32; 97]%N
  = Ok [mktok (mkspan 12 17) 5%N] /\
  go_parse ws_table inner [47; 47; 32; 97]%N = Ok [mktok (mkspan 3 4) 5%N].
Proof.
  cbv zeta. split; [intros c t0 [<-|[]]; cbn; lia|]. split; [intros c t0 [<-|[]]; cbn; lia|].
  vm_compute. split; reflexivity.
Qed.

(* git commit "Fixes #1 x\n# c": the mid-line '#' is text, the cut is at the comment line (11) *)
Example C04_git_nonvacuous :
  git_commit_cut [70; 105; 120; 101; 115; 32; 35; 49; 32; 120; 10; 35; 32; 99]%N = Ok 11 /\
  line_start_hash [70; 105; 120; 101; 115; 32; 35; 49; 32; 120; 10; 35; 32; 99]%N 11 /\
  ~ line_start_hash [70; 105; 120; 101; 115; 32; 35; 49; 32; 120; 10; 35; 32; 99]%N 6.
Proof.
  split; [vm_compute; reflexivity|]. split.
  - split; [reflexivity|]. right. exists 10. split; reflexivity.
  - intros [_ [H|(j & Hj & Hn)]]; [discriminate|]. inversion Hj; subst j. cbn in Hn. discriminate.
Qed.

(* "a" / "" / "> b" / "" / "c" / "\begin{code}" / "d" / "\end{code}" / ">" : text mask and code mask *)
Example C04_lhs_nonvacuous :
  let src := [97; 10; 10; 62; 32; 98; 10; 10; 99; 10; 92; 98; 101; 103; 105; 110; 123; 99; 111; 100; 101; 125; 10; 100; 10;
              92; 101; 110; 100; 123; 99; 111; 100; 101; 125; 10; 62]%N in
  lhs_create_mask ws_table true false src = Ok [mkspan 0 2; mkspan 8 9; mkspan 37 37] /\
  lhs_create_mask ws_table false true src = Ok [mkspan 5 6; mkspan 23 24] /\
  (* "> b" / "" / "c": a bird block opening the file is code (FC04a fixed) *)
  ws_table 62%N = false /\
  lhs_create_mask ws_table true false [62; 32; 98; 10; 10; 99]%N = Ok [mkspan 5 6] /\
  lhs_create_mask ws_table false true [62; 32; 98; 10; 10; 99]%N = Ok [mkspan 2 3].
Proof. vm_compute. repeat split; reflexivity. Qed.

(* JavaDoc "/** a\n * @param xq b {@link C} */" with a hand-made html token list: the leader " * " behind the newline is
   removed, `@param xq` (4 tokens) and `{@link C}` (5 tokens) are Unlintable, everything sits at +4 *)
Example C04_javadoc_nonvacuous :
  let html := fun c : text =>
    [T 0 1 5; T 1 2 3; T 2 3 2001; T 3 4 62; T 4 5 2001; T 5 6 61; T 6 11 5; T 11 12 2001; T 12 14 5; T 14 15 2001;
     T 15 16 5; T 16 17 2001; T 17 18 63; T 18 19 61; T 19 23 5; T 23 24 2001; T 24 25 5; T 25 26 64]%N in
  let src := [47;42;42;32; 97;10;32;42;32;64;112;97;114;97;109;32;120;113;32;98;32;123;64;108;105;110;107;32;67;125; 32;42;47]%N in
  without_initiators ws_table src = Ok (mkspan 4 30) /\
  javadoc_parse ws_table html src =
    Ok [T 4 5 5; T 5 6 3; T 9 10 2; T 10 15 2; T 15 16 2; T 16 18 2; T 18 19 2001; T 19 20 5; T 20 21 2001;
        T 21 22 2; T 22 23 2; T 23 27 2; T 27 28 2; T 28 29 2; T 29 30 2]%N /\
  (* the unterminated tag of F4 "{@ " terminates and marks nothing *)
  mark_inline_tags [T 0 1 63; T 1 2 61; T 2 3 2001]%N = Ok [T 0 1 63; T 1 2 61; T 2 3 2001]%N /\
  parse_inline_tag [T 0 1 63; T 1 2 61; T 2 6 5; T 6 7 2001; T 7 8 5; T 8 9 64; T 9 10 5]%N = Some 6 /\
  (* JsDoc "// see {@link A} @returns b": inline tag marked, then everything from `@returns` on *)
  jsdoc_post [T 0 3 5; T 3 4 2001; T 4 5 63; T 5 6 61; T 6 10 5; T 10 11 2001; T 11 12 5; T 12 13 64; T 13 14 2001;
              T 14 15 61; T 15 22 5; T 22 23 2001; T 23 24 5]%N
  = Ok [T 0 3 5; T 3 4 2001; T 4 5 2; T 5 6 2; T 6 10 2; T 10 11 2; T 11 12 2; T 12 13 2; T 13 14 2001;
        T 14 15 2; T 15 22 2; T 22 23 2; T 23 24 2]%N.
Proof. vm_compute. repeat split; reflexivity. Qed.

(* Typst: an e-acute, a blank, #text(..) with a string argument that contains an escaped quote, a blank, an equation:
   Text, a call (callee Unlintable) with a Str argument, a space, an equation through the default arm, a detached
   node; the contract holds and the tokens sit at the true char offsets *)
Example C04_typst_nonvacuous :
  let lex := fun c : text => [mktok (mkspan 0 (length c)) 5%N] in
  let src := [233; 32; 35; 116; 101; 120; 116; 40; 34; 97; 92; 34; 98; 34; 41; 32; 36; 120; 36]%N in
  let top := [TText (Some (0, 3)) [233; 32]%N;
              TNode (Some (4, 16)) [TTok (Some (4, 8)) 2%N; TStr (Some (9, 15)) [34; 97; 92; 34; 98; 34]%N];
              TLeaf (Some (16, 17)) 2001%N; TLeaf (Some (17, 20)) 2%N; TLeaf None 2%N] in
  top_ok (encode src) top /\
  typst_parse lex (encode src) top
  = Ok [mktok (mkspan 0 2) 5%N; mktok (mkspan 3 7) 2%N; mktok (mkspan 9 13) 5%N; mktok (mkspan 15 16) 2001%N; mktok (mkspan 16 19) 2%N] /\
  (* an unwrapped detached span panics, a range off a char boundary panics *)
  typst_parse lex (encode src) [TNode (Some (4, 16)) [TTok None 2%N]] = Panic PUnwrap /\
  typst_parse lex (encode src) [TLeaf (Some (1, 3)) 2%N] = Panic PUnwrap /\
  (* b629a93: a sub-node handed out twice is dropped the second time *)
  typst_parse lex (encode src) [TNode (Some (4, 16)) [TTok (Some (4, 8)) 2%N; TStr (Some (9, 15)) [34; 97; 92; 34; 98; 34]%N; TTok (Some (4, 8)) 2%N]]
  = Ok [mktok (mkspan 3 7) 2%N; mktok (mkspan 9 13) 5%N].
Proof. cbv zeta. split; [exact (proj1 typst_translate_example)|]. split; [exact (proj1 (proj2 typst_translate_example))|]. vm_compute. repeat split; reflexivity. Qed.

(* ---- 3103238 (F34): the emission order of the Typst arms that used to run against the source, as regenerated by
   typst.py from the match arms (it raises when Expr::Set / Expr::Show / parse_args_ignored leave these shapes): Set = target,
   args, condition; Show = selector, transform; ignored call arguments stay in text order.  The abstract tree the model
   translates is built by the harness in exactly this order and compared token by token with Typst::parse (stream U); since
   b629a93 source order of the result is enforced by the retain filter at the end of Typst::parse and PROVED for any tree
   (C04_typst_source_order below); typst.py pins the filter's text. *)
Theorem C04_typst_arm_order :
  typst_arm_order = [("Set"%string, ["target"%string; "args"%string; "condition"%string]);
                     ("Show"%string, ["selector"%string; "transform"%string])] /\
  typst_ignored_args_in_text_order = true /\ typst_parse_has_retain_filter = true.
Proof. exact typst_arm_order_table. Qed.
Check C04_typst_arm_order :
  typst_arm_order = [("Set"%string, ["target"%string; "args"%string; "condition"%string]);
                     ("Show"%string, ["selector"%string; "transform"%string])] /\
  typst_ignored_args_in_text_order = true /\ typst_parse_has_retain_filter = true.
Print Assumptions C04_typst_arm_order.

(* ---- b629a93: source order is enforced by the code.  For ANY token list and start value the retain filter keeps only
   tokens that start at or after `covered` and at or after the END of every token kept before them (pairwise disjoint, in
   source order); hence, whatever tree typst-syntax hands over — inside the range contract or not, any lexer — when
   Typst::parse returns, its tokens are in source order and pairwise disjoint.  On the implementation the same statement is the
   oracle class typst_tokens_out_of_order, without exception. *)
Theorem C04_typst_retain_ordered : forall l c,
  Forall (fun t => c <= sstart (tspan t)) (typst_retain c l) /\
  ForallOrdPairs (fun a b => send (tspan a) <= sstart (tspan b)) (typst_retain c l).
Proof. exact typst_retain_ordered. Qed.
Check C04_typst_retain_ordered : forall l c,
  Forall (fun t => c <= sstart (tspan t)) (typst_retain c l) /\
  ForallOrdPairs (fun a b => send (tspan a) <= sstart (tspan b)) (typst_retain c l).
Print Assumptions C04_typst_retain_ordered.

Theorem C04_typst_source_order : forall lex bs top toks, typst_parse lex bs top = Ok toks ->
  ForallOrdPairs (fun a b => send (tspan a) <= sstart (tspan b)) toks.
Proof. exact typst_parse_source_order. Qed.
Check C04_typst_source_order : forall lex bs top toks, typst_parse lex bs top = Ok toks ->
  ForallOrdPairs (fun a b => send (tspan a) <= sstart (tspan b)) toks.
Print Assumptions C04_typst_source_order.

(* the filter only drops (sub-sequence), and a list already in source order is kept whole: on trees whose tokens come out
   ordered the filter is the identity, so C04_typst_exact still places every token of tr_spec *)
Theorem C04_typst_retain_id : forall l c, toks_after c l -> typst_retain c l = l.
Proof. exact typst_retain_id. Qed.
Check C04_typst_retain_id : forall l c, toks_after c l -> typst_retain c l = l.
Print Assumptions C04_typst_retain_id.

(* ====================================================================================================== *)
(* ---- the known findings as exact characterisations (phase 4): which inputs are affected ---- *)

(* FC04h: the first character of a comment node reaches the prose parser iff it is neither a comment character (generated
   table) nor whitespace.  tree-sitter-ruby's comment node of a block comment begins with `=begin`; `=` is no comment
   character (Example below), so the delimiter line is lexed from its first character: exactly the nodes that begin
   with a non-leader character are affected. *)
Theorem C04_leader_kept_iff : forall (is_whitespace : N -> bool) (c : N) (rest : text) a,
  without_initiators is_whitespace (c :: rest) = Ok a ->
  (sstart a = 0 <-> leader_char is_whitespace c = false).
Proof. exact leader_kept_iff. Qed.
Check C04_leader_kept_iff : forall (is_whitespace : N -> bool) (c : N) (rest : text) a,
  without_initiators is_whitespace (c :: rest) = Ok a ->
  (sstart a = 0 <-> leader_char is_whitespace c = false).
Print Assumptions C04_leader_kept_iff.

(* FC04d, first half: a non-empty span of without_initiators begins with a character that is neither whitespace nor a
   comment character: Unit / JsDoc (one such span per line, C04_unit_line_offsets) never hand the inner parser a line
   that begins with indentation *)
Theorem C04_line_span_starts_clean : forall (is_whitespace : N -> bool) (line : text) a,
  without_initiators is_whitespace line = Ok a -> sstart a < send a ->
  exists c, nth_error line (sstart a) = Some c /\ leader_char is_whitespace c = false.
Proof. exact without_initiators_first_clean. Qed.
Check C04_line_span_starts_clean : forall (is_whitespace : N -> bool) (line : text) a,
  without_initiators is_whitespace line = Ok a -> sstart a < send a ->
  exists c, nth_error line (sstart a) = Some c /\ leader_char is_whitespace c = false.
Print Assumptions C04_line_span_starts_clean.

(* FC04d, second half: Go (no directive) makes ONE inner call on the whole block between the initiators, every interior
   character — newlines, the leaders and the indentation of the following lines — verbatim.  The affected class is
   therefore exactly: merged Go comment blocks whose text between the initiators contains a line the inner Markdown
   parser reads as indented code (pulldown-cmark: tab / 4 spaces after a blank line) — the harness classifier
   prose_missed_go_indented_line tests that on the file's own text. *)
Theorem C04_go_block_verbatim : forall (is_whitespace : N -> bool) (inner : text -> list tok) (src : text),
  exists actual, without_initiators is_whitespace src = Ok actual /\
    (starts_with GO_DIRECTIVE (slice src (sstart actual) (send actual)) = false ->
     go_parse is_whitespace inner src = Ok (map (tpush (sstart actual)) (inner (slice src (sstart actual) (send actual)))) /\
     forall i, i < send actual - sstart actual ->
       nth_error (slice src (sstart actual) (send actual)) i = nth_error src (sstart actual + i)).
Proof. exact go_block_verbatim. Qed.
Check C04_go_block_verbatim : forall (is_whitespace : N -> bool) (inner : text -> list tok) (src : text),
  exists actual, without_initiators is_whitespace src = Ok actual /\
    (starts_with GO_DIRECTIVE (slice src (sstart actual) (send actual)) = false ->
     go_parse is_whitespace inner src = Ok (map (tpush (sstart actual)) (inner (slice src (sstart actual) (send actual)))) /\
     forall i, i < send actual - sstart actual ->
       nth_error (slice src (sstart actual) (send actual)) i = nth_error src (sstart actual + i)).
Print Assumptions C04_go_block_verbatim.

(* FC04e: the Typst translation depends on the prose lexer ONLY through typst_lexed n = the texts of the Text nodes and
   the raw text between the quotes of the Str nodes reached through ranged ancestors; a Str node (a string literal,
   also in code) is always in that list and its lexer tokens are in the output at +1: the affected class is exactly the
   Str nodes. *)
Theorem C04_typst_lexer_inputs_exact : forall bs (lex1 lex2 : text -> list tok) n,
  (forall t, In t (typst_lexed n) -> lex1 t = lex2 t) -> tr_spec lex1 bs n = tr_spec lex2 bs n.
Proof. exact typst_lexer_inputs_exact. Qed.
Check C04_typst_lexer_inputs_exact : forall bs (lex1 lex2 : text -> list tok) n,
  (forall t, In t (typst_lexed n) -> lex1 t = lex2 t) -> tr_spec lex1 bs n = tr_spec lex2 bs n.
Print Assumptions C04_typst_lexer_inputs_exact.

Theorem C04_typst_str_is_lexed : forall bs (lex : text -> list tok) a b raw,
  typst_lexed (TStr (Some (a, b)) raw) = [decode (slice raw 1 (length raw - 1))] /\
  tr_spec lex bs (TStr (Some (a, b)) raw) = map (tpush (char_index bs a + 1)) (lex (decode (slice raw 1 (length raw - 1)))).
Proof. exact typst_str_is_lexed. Qed.
Check C04_typst_str_is_lexed : forall bs (lex : text -> list tok) a b raw,
  typst_lexed (TStr (Some (a, b)) raw) = [decode (slice raw 1 (length raw - 1))] /\
  tr_spec lex bs (TStr (Some (a, b)) raw) = map (tpush (char_index bs a + 1)) (lex (decode (slice raw 1 (length raw - 1)))).
Print Assumptions C04_typst_str_is_lexed.

(* non-vacuity: `=begin\nriver\n=end` keeps its first character (`=` is not in the generated table); the Go block
   `// a\n\n\t// b` reaches the inner parser as `a\n\n\t// b` — tab and leader of the third line included —; a tree
   `#let x = "ab"` (a Str node under a ranged node) hands exactly `ab` to the lexer *)
Example C04_findings_nonvacuous :
  let ws := fun c => ((c =? 32) || (c =? 10) || (c =? 9))%N in
  let whole := fun c : text => [mktok (mkspan 0 (length c)) 5%N] in
  existsb (N.eqb 61) comment_characters = false /\
  without_initiators ws [61;98;101;103;105;110;10;114;105;118;101;114;10;61;101;110;100]%N = Ok (mkspan 0 17) /\
  go_parse ws whole [47;47;32;97;10;10;9;47;47;32;98]%N = Ok [mktok (mkspan 3 11) 5%N] /\
  slice [47;47;32;97;10;10;9;47;47;32;98]%N 3 11 = [97;10;10;9;47;47;32;98]%N /\
  typst_lexed (TNode (Some (0, 13)) [TTok (Some (1, 4)) 2%N; TStr (Some (9, 13)) [34;97;98;34]%N]) = [[97;98]%N].
Proof. cbv zeta. repeat split; vm_compute; reflexivity. Qed.
