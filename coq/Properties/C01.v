(* C01 — Checking any text in any supported language never crashes or hangs.   (partial)
   This file pins the statements; it contains nothing but `exact`.

   What is proved here: the pattern framework every pattern rule runs in (all 23 `Pattern` impls,
   find_all_matches, run_on_chunk / impl Linter for PatternLinter), the token iterators and the hull
   span are panic-free on tokens that lie inside the text, and their loops terminate within fuel that
   is linear in the number of tokens — on EVERY token list, no premise at all, for termination.
   What is NOT proved here: third-party parsers (pulldown-cmark, tree-sitter, typst-syntax), the
   ~290 rule bodies (`match_to_lint`, struct rules), the lexer (C02).  Those are reached by the
   failing-input search of harness/src/bin/c01.rs only. *)
Require Import Base Overlap TokenSeq Pattern PatternCost PatternImpls Tables_patterns GoDirective TokenSeqProofs PatternProofs PatternCostProofs C01History.
Require Import C01Len C01LenProofs Tables_rulebodies C01RuleBodies C01EndToEnd C01EndToEndProofs.
Require Import C01Bodies Tables_bodyshapes C01BodiesProofs.
Require Import C01Struct C01StructProofs.
Require Import C01SpanOrder C01SpanOrderProofs.
Require C02Gapped TokenInv.
(* C02's lexer model and proofs (not imported: its token type has the same name as ours) *)
Require Lexer LexerProofs Condense.

(* ---- PlainEnglish::parse (the lexer loop every front-end ends in) never panics and fuel |s| suffices:
   imported from C02 (Model/Lexer.v; follows from C02_lex_progress: every sub-lexer that succeeds
   consumes between 1 and the remaining characters), for ANY Unicode tables u ---- *)
Theorem C01_plain_parse_total : forall u s, is_ok (Lexer.plain_parse u s) = true.
Proof. exact LexerProofs.plain_parse_total. Qed.
Check C01_plain_parse_total : forall u s, is_ok (Lexer.plain_parse u s) = true.
Print Assumptions C01_plain_parse_total.

(* ---- the 23 Pattern impls: a match is never longer than the tokens on offer, nothing panics ----
   tok_good: span well-formed and inside the text, the closures of the blanket impl return normally.
   D_ordered adds text order; oracle = edit distance (C15) / make_title_case (C18) / dictionary. *)
Theorem C01_pattern_bounded : forall leaf oracle src,
  oracle_total_on oracle src (D_ordered leaf src) ->
  forall p ts, D_ordered leaf src ts ->
  exists n, matches leaf oracle p ts src = Ok n /\ n <= length ts.
Proof. exact matches_bounded_ordered. Qed.
Check C01_pattern_bounded : forall leaf oracle src,
  oracle_total_on oracle src (D_ordered leaf src) ->
  forall p ts, D_ordered leaf src ts ->
  exists n, matches leaf oracle p ts src = Ok n /\ n <= length ts.
Print Assumptions C01_pattern_bounded.

(* the same for tokens in ANY order (Markdown documents), when the oracles are total there *)
Theorem C01_pattern_bounded_any_order : forall leaf oracle src,
  oracle_total_on oracle src (D_any leaf src) ->
  forall p ts, D_any leaf src ts ->
  exists n, matches leaf oracle p ts src = Ok n /\ n <= length ts.
Proof. exact matches_bounded_any. Qed.
Check C01_pattern_bounded_any_order : forall leaf oracle src,
  oracle_total_on oracle src (D_any leaf src) ->
  forall p ts, D_any leaf src ts ->
  exists n, matches leaf oracle p ts src = Ok n /\ n <= length ts.
Print Assumptions C01_pattern_bounded_any_order.

(* termination with NO premise on tokens, spans or answers of the leaves: the loop of
   RepeatingPattern never uses up |tokens| + 2 rounds — it returns or hits a checked operation *)
Theorem C01_pattern_terminates : forall leaf oracle src,
  (forall i t, leaf i t src <> Panic PFuel) -> (forall o ts, oracle o ts src <> Panic PFuel) ->
  forall p ts, matches leaf oracle p ts src <> Panic PFuel.
Proof. exact matches_nf. Qed.
Check C01_pattern_terminates : forall leaf oracle src,
  (forall i t, leaf i t src <> Panic PFuel) -> (forall o ts, oracle o ts src <> Panic PFuel) ->
  forall p ts, matches leaf oracle p ts src <> Panic PFuel.
Print Assumptions C01_pattern_terminates.

(* ---- run_on_chunk: returns normally; the ranges handed to match_to_lint are non-empty, inside the
   chunk, increasing and disjoint ---- *)
Theorem C01_run_on_chunk_total : forall leaf oracle src,
  oracle_total_on oracle src (D_ordered leaf src) ->
  forall p chunk, D_ordered leaf src chunk ->
  exists l, run_on_chunk leaf oracle p chunk src = Ok l /\ ranges_ok 0 l (length chunk).
Proof. exact run_on_chunk_total_ordered. Qed.
Check C01_run_on_chunk_total : forall leaf oracle src,
  oracle_total_on oracle src (D_ordered leaf src) ->
  forall p chunk, D_ordered leaf src chunk ->
  exists l, run_on_chunk leaf oracle p chunk src = Ok l /\ ranges_ok 0 l (length chunk).
Print Assumptions C01_run_on_chunk_total.

Theorem C01_run_on_chunk_total_any_order : forall leaf oracle src,
  oracle_total_on oracle src (D_any leaf src) ->
  forall p chunk, D_any leaf src chunk ->
  exists l, run_on_chunk leaf oracle p chunk src = Ok l /\ ranges_ok 0 l (length chunk).
Proof. exact run_on_chunk_total_any. Qed.
Check C01_run_on_chunk_total_any_order : forall leaf oracle src,
  oracle_total_on oracle src (D_any leaf src) ->
  forall p chunk, D_any leaf src chunk ->
  exists l, run_on_chunk leaf oracle p chunk src = Ok l /\ ranges_ok 0 l (length chunk).
Print Assumptions C01_run_on_chunk_total_any_order.

(* iteration bound: |chunk| + 1 rounds of the loop always suffice (run_on_chunk's fuel), on every
   input; likewise the whole `impl Linter for PatternLinter` and find_all_matches *)
Theorem C01_run_on_chunk_terminates : forall leaf oracle src,
  (forall i t, leaf i t src <> Panic PFuel) -> (forall o ts, oracle o ts src <> Panic PFuel) ->
  forall p toks,
    run_on_chunk leaf oracle p toks src <> Panic PFuel /\
    pattern_lint leaf oracle p toks src <> Panic PFuel /\
    find_all_matches leaf oracle p toks src <> Panic PFuel.
Proof. exact (fun leaf oracle src Hl Ho p toks =>
  conj (run_on_chunk_nf leaf oracle src Hl Ho p toks)
       (conj (pattern_lint_nf leaf oracle src Hl Ho p toks) (find_all_matches_nf leaf oracle src Hl Ho p toks))). Qed.
Check C01_run_on_chunk_terminates : forall leaf oracle src,
  (forall i t, leaf i t src <> Panic PFuel) -> (forall o ts, oracle o ts src <> Panic PFuel) ->
  forall p toks,
    run_on_chunk leaf oracle p toks src <> Panic PFuel /\
    pattern_lint leaf oracle p toks src <> Panic PFuel /\
    find_all_matches leaf oracle p toks src <> Panic PFuel.
Print Assumptions C01_run_on_chunk_terminates.

(* ---- the time clause, as far as it can be PROVED: step counts of the modelled loops ----
   matches_c is Pattern.matches with a step counter (one step per Pattern::matches call, plus one per
   token for the impls that scan tokens themselves).  Erasing the counter gives matches back, and the
   counter is bounded by a polynomial in the number of tokens whose degree is 1 + the nesting depth of
   RepeatingPattern in the rule's pattern — for every input, no premise.  Seconds are only observed
   (scaling probe of the harness). *)
Theorem C01_pattern_steps_polynomial : forall leaf oracle src p ts,
  fst (matches_c leaf oracle p ts src) = matches leaf oracle p ts src /\
  snd (matches_c leaf oracle p ts src) <= psize p * (length ts + 2) ^ S (rdepth p).
Proof. exact (fun leaf oracle src p ts => conj (matches_c_erase leaf oracle src p ts) (matches_c_polynomial leaf oracle src p ts)). Qed.
Check C01_pattern_steps_polynomial : forall leaf oracle src p ts,
  fst (matches_c leaf oracle p ts src) = matches leaf oracle p ts src /\
  snd (matches_c leaf oracle p ts src) <= psize p * (length ts + 2) ^ S (rdepth p).
Print Assumptions C01_pattern_steps_polynomial.

Theorem C01_run_on_chunk_steps_polynomial : forall leaf oracle src p chunk,
  let r := roc_loop_c (fun ts => matches_c leaf oracle p ts src) chunk (S (length chunk)) 0 in
  fst r = run_on_chunk leaf oracle p chunk src /\
  snd r <= (length chunk + 1) * (1 + psize p * (length chunk + 2) ^ S (rdepth p)).
Proof. exact run_on_chunk_polynomial. Qed.
Check C01_run_on_chunk_steps_polynomial : forall leaf oracle src p chunk,
  let r := roc_loop_c (fun ts => matches_c leaf oracle p ts src) chunk (S (length chunk)) 0 in
  fst r = run_on_chunk leaf oracle p chunk src /\
  snd r <= (length chunk + 1) * (1 + psize p * (length chunk + 2) ^ S (rdepth p)).
Print Assumptions C01_run_on_chunk_steps_polynomial.

(* the framework half of every pattern rule: chunking, then the matching loop on every chunk *)
Theorem C01_pattern_lint_total : forall leaf oracle src,
  oracle_total_on oracle src (D_any leaf src) ->
  forall p ts, D_any leaf src ts -> exists l, pattern_lint leaf oracle p ts src = Ok l.
Proof. exact pattern_lint_total_any. Qed.
Check C01_pattern_lint_total : forall leaf oracle src,
  oracle_total_on oracle src (D_any leaf src) ->
  forall p ts, D_any leaf src ts -> exists l, pattern_lint leaf oracle p ts src = Ok l.
Print Assumptions C01_pattern_lint_total.

Theorem C01_pattern_lint_total_ordered : forall leaf oracle src,
  oracle_total_on oracle src (D_ordered leaf src) ->
  forall p ts, D_ordered leaf src ts -> exists l, pattern_lint leaf oracle p ts src = Ok l.
Proof. exact pattern_lint_total_ordered. Qed.
Check C01_pattern_lint_total_ordered : forall leaf oracle src,
  oracle_total_on oracle src (D_ordered leaf src) ->
  forall p ts, D_ordered leaf src ts -> exists l, pattern_lint leaf oracle p ts src = Ok l.
Print Assumptions C01_pattern_lint_total_ordered.

Theorem C01_find_all_matches_total : forall leaf oracle src,
  oracle_total_on oracle src (D_any leaf src) ->
  forall p ts, D_any leaf src ts ->
  exists found, find_all_matches leaf oracle p ts src = Ok found /\
                Forall (fun sp => sstart sp < send sp /\ send sp <= length ts) found.
Proof. exact find_all_matches_total_any. Qed.
Check C01_find_all_matches_total : forall leaf oracle src,
  oracle_total_on oracle src (D_any leaf src) ->
  forall p ts, D_any leaf src ts ->
  exists found, find_all_matches leaf oracle p ts src = Ok found /\
                Forall (fun sp => sstart sp < send sp /\ send sp <= length ts) found.
Print Assumptions C01_find_all_matches_total.

(* ---- iter_chunks / iter_sentences / iter_paragraphs: never slice out of range; the pieces
   concatenate to the token list (nothing lost, duplicated or reordered) — EVERY token list ---- *)
Theorem C01_iter_total : forall ts,
  (exists cs, iter_chunks ts = Ok cs /\ concat cs = ts) /\
  (exists cs, iter_sentences ts = Ok cs /\ concat cs = ts) /\
  (exists cs, iter_paragraphs ts = Ok cs /\ concat cs = ts).
Proof. exact (fun ts => conj (iter_by_total (flag F_CHUNKTERM) ts)
                         (conj (iter_by_total (flag F_SENTTERM) ts) (iter_by_total (flag F_PARABREAK) ts))). Qed.
Check C01_iter_total : forall ts,
  (exists cs, iter_chunks ts = Ok cs /\ concat cs = ts) /\
  (exists cs, iter_sentences ts = Ok cs /\ concat cs = ts) /\
  (exists cs, iter_paragraphs ts = Ok cs /\ concat cs = ts).
Print Assumptions C01_iter_total.

(* span(): min over all endpoints <= max over all endpoints, so Span::new never panics — tokens in
   any order, any spans *)
Theorem C01_hull_total : forall ts, ts <> [] -> exists sp, hull ts = Some (Ok sp) /\ sstart sp <= send sp.
Proof. exact hull_total. Qed.
Check C01_hull_total : forall ts, ts <> [] -> exists sp, hull ts = Some (Ok sp) /\ sstart sp <= send sp.
Print Assumptions C01_hull_total.

(* on ordered tokens the hull is the span the old code computed from the first and last token *)
Theorem C01_hull_ordered : forall lo ts, ts <> [] -> ordered_from lo ts -> hull_unwrap ts = first_last_span ts.
Proof. exact hull_ordered. Qed.
Check C01_hull_ordered : forall lo ts, ts <> [] -> ordered_from lo ts -> hull_unwrap ts = first_last_span ts.
Print Assumptions C01_hull_ordered.

(* ---- LongSentences as it is now (be8029b: hull instead of first/last; 1bab09f: from the first token
   that is not whitespace): total on every token list, spans inside the text ---- *)
Theorem C01_long_sentence_span : forall ts,
  (exists l, long_sentences ts = Ok l) /\
  forall n l, Forall (fun t => sstart (tspan t) <= n /\ send (tspan t) <= n) ts ->
              long_sentences ts = Ok l -> Forall (fun sp => sstart sp <= send sp /\ send sp <= n) l.
Proof. exact (fun ts => conj (long_sentences_total ts) (fun n l => long_sentences_in_bounds n ts l)). Qed.
Check C01_long_sentence_span : forall ts,
  (exists l, long_sentences ts = Ok l) /\
  forall n l, Forall (fun t => sstart (tspan t) <= n /\ send (tspan t) <= n) ts ->
              long_sentences ts = Ok l -> Forall (fun sp => sstart sp <= send sp /\ send sp <= n) l.
Print Assumptions C01_long_sentence_span.

(* `sentence[first..]` of 1bab09f: never out of range, never empty for a non-empty sentence; the slice
   starts at the first token that is not whitespace (everything before it is), or is the whole sentence
   when there is none *)
Theorem C01_long_sentence_visible_slice : forall s,
  (s <> [] -> slice_from s (first_visible s) = Ok (skipn (first_visible s) s) /\ skipn (first_visible s) s <> []) /\
  ((exists x r, skipn (first_visible s) s = x :: r /\ flag F_WS x = false /\
                Forall (fun t => flag F_WS t = true) (firstn (first_visible s) s) /\
                visible_hull s = hull_unwrap (x :: r)) \/
   (Forall (fun t => flag F_WS t = true) s /\ visible_hull s = hull_unwrap s)).
Proof. exact (fun s => conj (visible_slice s) (visible_hull_spec s)). Qed.
Check C01_long_sentence_visible_slice : forall s,
  (s <> [] -> slice_from s (first_visible s) = Ok (skipn (first_visible s) s) /\ skipn (first_visible s) s <> []) /\
  ((exists x r, skipn (first_visible s) s = x :: r /\ flag F_WS x = false /\
                Forall (fun t => flag F_WS t = true) (firstn (first_visible s) s) /\
                visible_hull s = hull_unwrap (x :: r)) \/
   (Forall (fun t => flag F_WS t = true) s /\ visible_hull s = hull_unwrap s)).
Print Assumptions C01_long_sentence_visible_slice.

(* ---- Go::parse, the `go:` directive cut as it is now (017736b; was finding F30): with actual.end inside
   the source (without_initiators: source.len() - k) it never panics, wherever the first newline is;
   nothing is linted iff the directive line is the whole block, otherwise source[newline..actual.end] ---- *)
Theorem C01_go_directive_total : forall actual terminator (src : text),
  send actual <= length src ->
  exists r, go_directive_cut actual terminator src = Ok r /\
            (r = None <-> send actual <= terminator) /\
            (forall c, r = Some c -> c = slice src terminator (send actual) /\ length c = send actual - terminator).
Proof. exact go_directive_total. Qed.
Check C01_go_directive_total : forall actual terminator (src : text),
  send actual <= length src ->
  exists r, go_directive_cut actual terminator src = Ok r /\
            (r = None <-> send actual <= terminator) /\
            (forall c, r = Some c -> c = slice src terminator (send actual) /\ length c = send actual - terminator).
Print Assumptions C01_go_directive_total.

(* ---- History: what the fixed findings looked like in the model (corpus cases F1, F2, F30) ---- *)
Theorem C01_long_sentence_span_old_refuted :
  long_sentences_old f2_witness = Panic PSpanOrder /\ exists l, long_sentences f2_witness = Ok l /\ l = [mkspan 3 91].
Proof. exact long_sentences_old_refuted. Qed.
Check C01_long_sentence_span_old_refuted :
  long_sentences_old f2_witness = Panic PSpanOrder /\ exists l, long_sentences f2_witness = Ok l /\ l = [mkspan 3 91].
Print Assumptions C01_long_sentence_span_old_refuted.

Theorem C01_invert_old_refuted :
  the_how_old (skipn 4 f1_toks) = Ok 4 /\ length (skipn 4 f1_toks) = 3 /\
  run_on_chunk_f the_how_old f1_toks = Panic PIndex.
Proof. exact invert_old_refuted. Qed.
Check C01_invert_old_refuted :
  the_how_old (skipn 4 f1_toks) = Ok 4 /\ length (skipn 4 f1_toks) = 3 /\
  run_on_chunk_f the_how_old f1_toks = Panic PIndex.
Print Assumptions C01_invert_old_refuted.

(* F30 (before 017736b): `//go:build x\n//` made Span::is_empty() compute 12 - 14 *)
Theorem C01_go_directive_old_refuted :
  go_directive_cut_old (mkspan 2 12) 12 (map N.of_nat [103; 111; 58; 98; 117; 105; 108; 100; 32; 120]) = Panic PUnderflow.
Proof. exact go_directive_old_refuted. Qed.
Check C01_go_directive_old_refuted :
  go_directive_cut_old (mkspan 2 12) 12 (map N.of_nat [103; 111; 58; 98; 117; 105; 108; 100; 32; 120]) = Panic PUnderflow.
Print Assumptions C01_go_directive_old_refuted.

(* ---- the premise "tokens inside the source" of C01_pattern_bounded is necessary: the token that F27
   (fixed by 548c418) used to produce — 4..6 in a 5-character source — makes WordSet panic.  Since the
   fix the front-ends establish the premise; the search monitors it on every document. ---- *)
Theorem C01_premise_tokens_inside_necessary : forall leaf oracle,
  send (tspan f27_tok) > length f27_src /\
  matches leaf oracle (PWordSet [w_a; w_an]) [f27_tok] f27_src = Panic PIndex /\
  run_on_chunk leaf oracle (PSeq [PWordSet [w_a; w_an]]) [f27_tok] f27_src = Panic PIndex.
Proof. exact premise_tokens_inside_necessary. Qed.
Check C01_premise_tokens_inside_necessary : forall leaf oracle,
  send (tspan f27_tok) > length f27_src /\
  matches leaf oracle (PWordSet [w_a; w_an]) [f27_tok] f27_src = Panic PIndex /\
  run_on_chunk leaf oracle (PSeq [PWordSet [w_a; w_an]]) [f27_tok] f27_src = Panic PIndex.
Print Assumptions C01_premise_tokens_inside_necessary.

(* ---- the tie to the sources: every `impl … Pattern for` site of /repo (table regenerated on every
   run) is one of the 23 the model knows, lies in harper-core/src/patterns/, and vice versa; the
   statements of run_on_chunk the model follows are still there ---- *)
Theorem C01_pattern_impls_covered :
  forallb (fun e => impl_known (fst (fst e)) && snd e) pattern_impl_sites = true /\
  forallb (fun k => existsb (fun e => String.eqb k (fst (fst e))) pattern_impl_sites) known_pattern_impls = true /\
  List.length pattern_impl_sites = 23 /\ pattern_linter_loop_shape = true.
Proof. exact pattern_impls_covered. Qed.
Check C01_pattern_impls_covered :
  forallb (fun e => impl_known (fst (fst e)) && snd e) pattern_impl_sites = true /\
  forallb (fun k => existsb (fun e => String.eqb k (fst (fst e))) pattern_impl_sites) known_pattern_impls = true /\
  List.length pattern_impl_sites = 23 /\ pattern_linter_loop_shape = true.
Print Assumptions C01_pattern_impls_covered.

(* ====================== phase 3 ======================
   (1) the F31 class statically.  min_len / max_len (Model/C01Len.v): the least and the greatest length of a NON-ZERO
   match, computed from the pattern alone; sound against the matcher with no premise at all. *)
Theorem C01_match_length_bounds : forall leaf oracle src p ts n,
  matches leaf oracle p ts src = Ok n -> n <> 0 -> min_len p <= n /\ ole n (max_len p).
Proof. exact matches_len_bounds. Qed.
Check C01_match_length_bounds : forall leaf oracle src p ts n,
  matches leaf oracle p ts src = Ok n -> n <> 0 -> min_len p <= n /\ ole n (max_len p).
Print Assumptions C01_match_length_bounds.

(* what match_to_lint is handed: every range of run_on_chunk lies in the chunk and its length IS the non-zero answer of
   the rule's pattern on the rest of the chunk *)
Theorem C01_match_to_lint_gets_matches : forall leaf oracle src p chunk l,
  run_on_chunk leaf oracle p chunk src = Ok l ->
  Forall (fun ab => fst ab <= length chunk /\ snd ab <= length chunk /\ fst ab < snd ab /\
                    matches leaf oracle p (skipn (fst ab) chunk) src = Ok (snd ab - fst ab)) l.
Proof. exact (fun leaf oracle src p chunk l => roc_ranges_are_matches (fun ts => matches leaf oracle p ts src) chunk (S (length chunk)) 0 l). Qed.
Check C01_match_to_lint_gets_matches : forall leaf oracle src p chunk l,
  run_on_chunk leaf oracle p chunk src = Ok l ->
  Forall (fun ab => fst ab <= length chunk /\ snd ab <= length chunk /\ fst ab < snd ab /\
                    matches leaf oracle p (skipn (fst ab) chunk) src = Ok (snd ab - fst ab)) l.
Print Assumptions C01_match_to_lint_gets_matches.

(* for EVERY rule of the generated table (pattern and literal uses read from /repo on this run) and every chunk: each
   `matched_tokens[k]`, `[a..b]`, `[a..]`, `[len - k]`, `match len { .. _ => panic!() }` of its match_to_lint succeeds
   on every slice run_on_chunk hands over — no premise on tokens, closures or oracles *)
Theorem C01_rule_bodies_indices_safe : forall leaf oracle src r, In r rule_table ->
  forall chunk l, run_on_chunk leaf oracle (r_pat r) chunk src = Ok l ->
  Forall (fun ab => forall u, In u (r_uses r) -> use_run (slice chunk (fst ab) (snd ab)) u = Ok tt) l.
Proof. exact rule_bodies_indices_safe. Qed.
Check C01_rule_bodies_indices_safe : forall leaf oracle src r, In r rule_table ->
  forall chunk l, run_on_chunk leaf oracle (r_pat r) chunk src = Ok l ->
  Forall (fun ab => forall u, In u (r_uses r) -> use_run (slice chunk (fst ab) (snd ab)) u = Ok tt) l.
Print Assumptions C01_rule_bodies_indices_safe.

(* the census of `impl PatternLinter for` sites: classified (20, proved above) + nothing to check + unclassified = all;
   the unclassified ones BY NAME (expected_unclassified = ["ModalOf"; "ProperNounCapitalizationLinter"], Proofs/C01RuleBodies.v;
   a new one breaks this theorem and must be looked at) *)
Theorem C01_rule_bodies_census :
  List.length rule_table + List.length rules_nothing_to_check + List.length rules_unclassified = rule_impl_count /\
  map (fun x => fst (fst x)) rules_unclassified = expected_unclassified /\
  List.length rule_table = 20 /\
  rule_len_possible rule_table (codes nm_Dashes) 3 = Some true /\ rule_len_possible rule_table (codes nm_Dashes) 4 = Some false /\
  rule_len_possible rule_table (codes nm_ModalOf) 3 = None.
Proof. exact rule_census. Qed.
Check C01_rule_bodies_census :
  List.length rule_table + List.length rules_nothing_to_check + List.length rules_unclassified = rule_impl_count /\
  map (fun x => fst (fst x)) rules_unclassified = expected_unclassified /\
  List.length rule_table = 20 /\
  rule_len_possible rule_table (codes nm_Dashes) 3 = Some true /\ rule_len_possible rule_table (codes nm_Dashes) 4 = Some false /\
  rule_len_possible rule_table (codes nm_ModalOf) 3 = None.
Print Assumptions C01_rule_bodies_census.

(* (2) end to end for plain English: for EVERY text, Unicode tables, pattern of the inductive and dictionary view `abs`
   that keeps the spans, Document::new_plain_english (C02's model, imported) + iter_chunks + run_on_chunk on every chunk
   + LongSentences return normally within the fuel the models carry (|s| lexer rounds, |tokens|+2 per RepeatingPattern,
   |chunk|+1 per run_on_chunk); the ranges are well-formed, the flagged spans lie in the text.  Premises: the closures
   of the blanket impl and the oracles return on tokens inside the text (monitored). *)
Theorem C01_plain_english_lint_total : forall abs : Lexer.token -> tok, (forall t, tspan (abs t) = Lexer.tspan t) ->
  forall leaf oracle s,
  (forall t i, sstart (tspan t) <= send (tspan t) -> send (tspan t) <= length s -> exists b, leaf i t s = Ok b) ->
  forall u, oracle_total_on oracle s (D_ordered leaf s) ->
  forall p, exists ts cs l ls,
    Condense.document_plain u s = Ok ts /\
    iter_chunks (map abs ts) = Ok cs /\ concat cs = map abs ts /\
    lint_plain_english u abs leaf oracle p s = Ok (l, ls) /\
    Forall2 (fun c x => run_on_chunk leaf oracle p c s = Ok x /\ ranges_ok 0 x (length c)) cs l /\
    Forall (fun sp => sstart sp <= send sp /\ send sp <= length s) ls.
Proof. exact lint_plain_english_total. Qed.
Check C01_plain_english_lint_total : forall abs : Lexer.token -> tok, (forall t, tspan (abs t) = Lexer.tspan t) ->
  forall leaf oracle s,
  (forall t i, sstart (tspan t) <= send (tspan t) -> send (tspan t) <= length s -> exists b, leaf i t s = Ok b) ->
  forall u, oracle_total_on oracle s (D_ordered leaf s) ->
  forall p, exists ts cs l ls,
    Condense.document_plain u s = Ok ts /\
    iter_chunks (map abs ts) = Ok cs /\ concat cs = map abs ts /\
    lint_plain_english u abs leaf oracle p s = Ok (l, ls) /\
    Forall2 (fun c x => run_on_chunk leaf oracle p c s = Ok x /\ ranges_ok 0 x (length c)) cs l /\
    Forall (fun sp => sstart sp <= send sp /\ send sp <= length s) ls.
Print Assumptions C01_plain_english_lint_total.

(* ... and for the 20 classified rules the literal uses of match_to_lint are in range on every slice, from the TEXT on *)
Theorem C01_plain_english_rule_bodies : forall abs : Lexer.token -> tok, (forall t, tspan (abs t) = Lexer.tspan t) ->
  forall leaf oracle s,
  (forall t i, sstart (tspan t) <= send (tspan t) -> send (tspan t) <= length s -> exists b, leaf i t s = Ok b) ->
  forall u, oracle_total_on oracle s (D_ordered leaf s) ->
  forall r, In r rule_table -> exists ts cs l ls,
    Condense.document_plain u s = Ok ts /\ iter_chunks (map abs ts) = Ok cs /\
    lint_plain_english u abs leaf oracle (r_pat r) s = Ok (l, ls) /\
    Forall2 (fun c x => Forall (fun ab => forall us, In us (r_uses r) -> use_run (slice c (fst ab) (snd ab)) us = Ok tt) x) cs l.
Proof. exact lint_plain_english_rule_bodies. Qed.
Check C01_plain_english_rule_bodies : forall abs : Lexer.token -> tok, (forall t, tspan (abs t) = Lexer.tspan t) ->
  forall leaf oracle s,
  (forall t i, sstart (tspan t) <= send (tspan t) -> send (tspan t) <= length s -> exists b, leaf i t s = Ok b) ->
  forall u, oracle_total_on oracle s (D_ordered leaf s) ->
  forall r, In r rule_table -> exists ts cs l ls,
    Condense.document_plain u s = Ok ts /\ iter_chunks (map abs ts) = Ok cs /\
    lint_plain_english u abs leaf oracle (r_pat r) s = Ok (l, ls) /\
    Forall2 (fun c x => Forall (fun ab => forall us, In us (r_uses r) -> use_run (slice c (fst ab) (snd ab)) us = Ok tt) x) cs l.
Print Assumptions C01_plain_english_rule_bodies.

(* ---- non-vacuity ---- *)
(* ====================== phase 4 ======================
   The two `impl PatternLinter for` rules the literal-use table cannot classify, as line-by-line models of their
   match_to_lint (Model/C01Bodies.v; the Rust text is pinned by tools/tables/bodyshapes.py, which raises when it changes).

   ModalOf::match_to_lint returns normally on EVERY slice of tokens that lie inside the text — no premise on the pattern:
   `match words.len() {2 => 0, 3 => .., _ => return None}` guards words[modal_word] and words[modal_word + 1];
   iter_word_indices is strictly increasing and below len, so matched_toks[modal_index..=of_index] is in range and not
   empty, its `.span().unwrap()` is Some and lies inside the text, so both get_content calls return. *)
Theorem C01_modal_of_body_total : forall (src : text) mt, Forall (in_src (length src)) mt ->
  exists r, modal_of_body mt src = Ok r /\ forall sp, r = Some sp -> span_inside (length src) sp.
Proof. exact modal_of_body_total. Qed.
Check C01_modal_of_body_total : forall (src : text) mt, Forall (in_src (length src)) mt ->
  exists r, modal_of_body mt src = Ok r /\ forall sp, r = Some sp -> span_inside (length src) sp.
Print Assumptions C01_modal_of_body_total.

(* … and through run_on_chunk with the pattern ModalOf::default builds (generated: Tables_bodyshapes.modal_of_pattern) *)
Theorem C01_modal_of_rule_total : forall leaf oracle (src : text) chunk l, Forall (in_src (length src)) chunk ->
  run_on_chunk leaf oracle modal_of_pattern chunk src = Ok l ->
  exists outs, bodies_on modal_of_body chunk src l = Ok outs.
Proof. exact modal_of_rule_total. Qed.
Check C01_modal_of_rule_total : forall leaf oracle (src : text) chunk l, Forall (in_src (length src)) chunk ->
  run_on_chunk leaf oracle modal_of_pattern chunk src = Ok l ->
  exists outs, bodies_on modal_of_body chunk src l = Ok outs.
Print Assumptions C01_modal_of_rule_total.

(* ProperNounCapitalizationLinter::match_to_lint: `self.pattern_map.lookup(matched_tokens, source).unwrap()` looks the
   MATCHED slice up a second time.  It finds a row because every row is an ExactPhrase, whose parts look only at the
   tokens they consume (row_local; prefix stability: a non-zero answer on tokens is the same answer on the prefix of
   that length), and rows before it return on good tokens.  Premise on the rows: row_local — C01_exact_phrase_rows_local
   shows ExactPhrase::from_document builds nothing else; premise on tokens: toks_good (inside the text, closures return). *)
Theorem C01_proper_noun_body_total : forall leaf oracle (src : text) rows canon,
  Forall (fun q => row_local q = true) rows ->
  forall ts m, toks_good leaf src ts ->
  matches leaf oracle (PMap rows) ts src = Ok m -> m <> 0 ->
  exists r, proper_noun_body leaf oracle rows canon (firstn m ts) src = Ok r /\
            forall sp, r = Some sp -> span_inside (length src) sp.
Proof. exact proper_noun_body_total. Qed.
Check C01_proper_noun_body_total : forall leaf oracle (src : text) rows canon,
  Forall (fun q => row_local q = true) rows ->
  forall ts m, toks_good leaf src ts ->
  matches leaf oracle (PMap rows) ts src = Ok m -> m <> 0 ->
  exists r, proper_noun_body leaf oracle rows canon (firstn m ts) src = Ok r /\
            forall sp, r = Some sp -> span_inside (length src) sp.
Print Assumptions C01_proper_noun_body_total.

Theorem C01_proper_noun_rule_total : forall leaf oracle (src : text) rows canon,
  Forall (fun q => row_local q = true) rows ->
  forall chunk l, toks_good leaf src chunk ->
  run_on_chunk leaf oracle (PMap rows) chunk src = Ok l ->
  Forall (fun ab => exists r, proper_noun_body leaf oracle rows canon (slice chunk (fst ab) (snd ab)) src = Ok r) l.
Proof. exact proper_noun_rule_total. Qed.
Check C01_proper_noun_rule_total : forall leaf oracle (src : text) rows canon,
  Forall (fun q => row_local q = true) rows ->
  forall chunk l, toks_good leaf src chunk ->
  run_on_chunk leaf oracle (PMap rows) chunk src = Ok l ->
  Forall (fun ab => exists r, proper_noun_body leaf oracle rows canon (slice chunk (fst ab) (snd ab)) src = Ok r) l.
Print Assumptions C01_proper_noun_rule_total.

Theorem C01_exact_phrase_rows_local : forall l p, exact_phrase_of l = Ok p -> row_local p = true.
Proof. exact exact_phrase_of_local. Qed.
Check C01_exact_phrase_rows_local : forall l p, exact_phrase_of l = Ok p -> row_local p = true.
Print Assumptions C01_exact_phrase_rows_local.

(* the prefix-stability lemma itself, for every local row *)
Theorem C01_local_row_prefix_stable : forall leaf oracle (src : text) q ts k m, row_local q = true ->
  matches leaf oracle q ts src = Ok m -> m <> 0 -> m <= k -> matches leaf oracle q (firstn k ts) src = Ok m.
Proof. exact row_local_prefix. Qed.
Check C01_local_row_prefix_stable : forall leaf oracle (src : text) q ts k m, row_local q = true ->
  matches leaf oracle q ts src = Ok m -> m <> 0 -> m <= k -> matches leaf oracle q (firstn k ts) src = Ok m.
Print Assumptions C01_local_row_prefix_stable.

(* a struct rule: RepeatedWords::lint — `&chunk[idx_a + 1..*idx_b]` for neighbouring word indices never slices out of
   range, on EVERY chunk (the indices come from iter_word_indices: strictly increasing, below len) *)
Theorem C01_repeated_words_slice_total : forall chunk, repeated_words_uses chunk = Ok tt.
Proof. exact repeated_words_slice_total. Qed.
Check C01_repeated_words_slice_total : forall chunk, repeated_words_uses chunk = Ok tt.
Print Assumptions C01_repeated_words_slice_total.

(* the census of the struct rules (`impl Linter for`, 22 of them): 63 unwrap / expect / index / slice / panicking-macro /
   Span::new sites in 17 rules, 5 rules without any; 58 sites are covered by theorems (3 above, 46 in phase 6 below, the 9
   Span::new sites in phase 7: struct_sites_proved names the theorem of each), the other 5 are NAMED in
   Tables_bodyshapes.struct_rule_sites (regenerated on every run) and reached by search only.  The functions whose text
   the hand-written models follow are pinned.  A change in any of these numbers breaks this theorem. *)
Theorem C01_struct_rule_census :
  pinned_bodies = expected_pinned /\
  List.length struct_rules_all = 22 /\
  List.length struct_rules_no_site + List.length rules_with_sites = List.length struct_rules_all /\
  List.length struct_rule_sites = 63 /\
  count_kind k_unwrap + count_kind k_expect + count_kind k_index + count_kind k_span_new + count_kind k_macro = 63 /\
  List.length struct_sites_proved = 58 /\
  List.length struct_rule_sites - List.length struct_sites_proved = 5.
Proof. exact struct_rule_census. Qed.
Check C01_struct_rule_census :
  pinned_bodies = expected_pinned /\
  List.length struct_rules_all = 22 /\
  List.length struct_rules_no_site + List.length rules_with_sites = List.length struct_rules_all /\
  List.length struct_rule_sites = 63 /\
  count_kind k_unwrap + count_kind k_expect + count_kind k_index + count_kind k_span_new + count_kind k_macro = 63 /\
  List.length struct_sites_proved = 58 /\
  List.length struct_rule_sites - List.length struct_sites_proved = 5.
Print Assumptions C01_struct_rule_census.

(* ================= phase 6: struct-rule sites guarded by the shape of the loop they sit in (Model/C01Struct.v) =================
   46 of the 60 named sites; tools/tables/bodyshapes.py pins the Rust text of every function modelled (sha256) and lists the
   sites with the theorem that covers them (struct_sites_proved).  No premise on the tokens except for the two sentence loops
   (the pattern's `matches` must return: tokens inside the text, as everywhere in this file). *)
(* AnA::lint: for neighbouring word indices (tuple_windows over iter_word_indices) `chunk[first_idx..second_idx]`,
   `chunk[first_idx + 1..second_idx]`, `&chunk[first_idx]`, `&chunk[second_idx]` are in range on EVERY chunk;
   starts_with_vowel: `word[0]` is reached only on a non-empty word *)
Theorem C01_an_a_sites_total :
  (forall chunk, ana_uses chunk = Ok tt) /\ (forall is_upper word, exists r, vowel_head is_upper word = Ok r).
Proof. exact an_a_sites_total. Qed.
Check C01_an_a_sites_total :
  (forall chunk, ana_uses chunk = Ok tt) /\ (forall is_upper word, exists r, vowel_head is_upper word = Ok r).
Print Assumptions C01_an_a_sites_total.

(* LinkingVerbs::lint: for every index of iter_linking_verb_indices (a filter of iter_word_indices, `lv` arbitrary) `&chunk[idx]` and
   `&chunk[0..idx]` are in range, and `prev_word.kind.as_word().unwrap()` is Some because last_word() only returns Word tokens *)
Theorem C01_linking_verbs_sites_total :
  forall lv chunk, linking_verbs_uses lv chunk = Ok tt.
Proof. exact linking_verbs_uses_total. Qed.
Check C01_linking_verbs_sites_total :
  forall lv chunk, linking_verbs_uses lv chunk = Ok tt.
Print Assumptions C01_linking_verbs_sites_total.

(* NoOxfordComma: match_to_lint's `&matched_toks[last_comma_index]` is in range on EVERY slice (last_<thing>_index is below len);
   the whole rule — iter_sentences, its copy of run_on_chunk (`&sentence[tok_cursor..]`, `&sentence[tok_cursor..tok_cursor + match_len]`),
   match_to_lint on every match — returns for every pattern on tokens that lie inside the text *)
Theorem C01_no_oxford_comma_total :
  (forall f mt, exists r, last_index_body f mt = Ok r) /\
  (forall leaf oracle (src : text), oracle_total_on oracle src (D_any leaf src) ->
   forall is_comma p toks, D_any leaf src toks ->
   exists l, no_oxford_comma_lint leaf oracle is_comma p toks src = Ok l).
Proof. exact no_oxford_comma_sites_total. Qed.
Check C01_no_oxford_comma_total :
  (forall f mt, exists r, last_index_body f mt = Ok r) /\
  (forall leaf oracle (src : text), oracle_total_on oracle src (D_any leaf src) ->
   forall is_comma p toks, D_any leaf src toks ->
   exists l, no_oxford_comma_lint leaf oracle is_comma p toks src = Ok l).
Print Assumptions C01_no_oxford_comma_total.

(* OxfordComma::lint: the same loop started at 0 or at the first comma (or len) — whatever the preposition test says (`skip` arbitrary):
   both slices in range, within |sentence| + 1 rounds, ranges non-empty / inside / increasing.  NOT covered: match_to_lint's
   `&matched_toks[conj_index - 2]` (needs: the last conjunction of a match is the and/or/nor of the pattern — dictionary metadata) *)
Theorem C01_oxford_comma_loop_total :
  forall leaf oracle (src : text), oracle_total_on oracle src (D_any leaf src) ->
  (forall skip is_comma p s, D_any leaf src s ->
   exists l, oxford_loop leaf oracle skip is_comma p s src = Ok l /\ ranges_ok (oxford_start skip is_comma s) l (length s)) /\
  (forall skip is_comma p toks, D_any leaf src toks ->
   exists l, oxford_comma_loops leaf oracle skip is_comma p toks src = Ok l).
Proof. exact oxford_comma_loop_sites_total. Qed.
Check C01_oxford_comma_loop_total :
  forall leaf oracle (src : text), oracle_total_on oracle src (D_any leaf src) ->
  (forall skip is_comma p s, D_any leaf src s ->
   exists l, oxford_loop leaf oracle skip is_comma p s src = Ok l /\ ranges_ok (oxford_start skip is_comma s) l (length s)) /\
  (forall skip is_comma p toks, D_any leaf src toks ->
   exists l, oxford_comma_loops leaf oracle skip is_comma p toks src = Ok l).
Print Assumptions C01_oxford_comma_loop_total.

(* Spaces::lint: the let-else `panic!` is unreachable on what iter_spaces yields; under the slice pattern [.., Word, Space, Punctuation]
   `sentence.len() - 2`, `- 1` do not underflow, the slice is in range and non-empty, `.span().unwrap()` is Some (on ANY tokens) *)
Theorem C01_spaces_sites_total :
  (forall is_space sentence, spaces_kinds is_space sentence = Ok tt) /\
  (forall is_space is_punct sentence, exists r, spaces_tail is_space is_punct sentence = Ok r).
Proof. exact spaces_sites_total. Qed.
Check C01_spaces_sites_total :
  (forall is_space sentence, spaces_kinds is_space sentence = Ok tt) /\
  (forall is_space is_punct sentence, exists r, spaces_tail is_space is_punct sentence = Ok r).
Print Assumptions C01_spaces_sites_total.

(* SentenceCapitalization::lint: `paragraph.iter_sentences().next().unwrap()` — under its `count() == 1` guard, and even without it:
   iter_chunks / iter_sentences / iter_paragraphs yield at least one piece for EVERY token list *)
Theorem C01_first_sentence_total :
  (forall para, exists r, only_sentence para = Ok r) /\ (forall para, exists s, first_sentence para = Ok s) /\
  (forall f ts cs, iter_by f ts = Ok cs -> cs <> []).
Proof. exact first_sentence_sites_total. Qed.
Check C01_first_sentence_total :
  (forall para, exists r, only_sentence para = Ok r) /\ (forall para, exists s, first_sentence para = Ok s) /\
  (forall f ts cs, iter_by f ts = Ok cs -> cs <> []).
Print Assumptions C01_first_sentence_total.

(* CapitalizePersonalPronouns: `replacement[0] = 'I'` only after a match against six non-empty literals; MergeWords: `a_chars[0]`,
   `b_chars[0]` only after `len() == 1 &&` *)
Theorem C01_small_index_sites_total :
  (forall content, exists r, cpp_replacement content = Ok r) /\
  (forall is_upper a b, exists r, merge_words_skip is_upper a b = Ok r).
Proof. exact small_index_sites_total. Qed.
Check C01_small_index_sites_total :
  (forall content, exists r, cpp_replacement content = Ok r) /\
  (forall is_upper a b, exists r, merge_words_skip is_upper a b = Ok r).
Print Assumptions C01_small_index_sites_total.

(* phase 6 non-vacuity: the guarded paths are taken on concrete inputs and the same checked operations FAIL off them *)
Example C01_struct_sites_nonvacuous :
  (* AnA / LinkingVerbs on "I should\n of": the neighbours are (0,2), (2,5); an index pair that is NOT one fails *)
  (pairs_adjacent (word_indices ex_modal_toks) = [(0, 2); (2, 5)] /\ ana_uses ex_modal_toks = Ok tt /\
   ana_use ex_modal_toks (2, 7) = Panic PIndex /\ ana_use ex_modal_toks (5, 2) = Panic PIndex) /\
  (linking_verbs_uses (fun i => 1 <? i) ex_modal_toks = Ok tt /\ linking_use ex_modal_toks 6 = Panic PIndex /\
   as_word_unwrap (xs 1 2) = Panic PUnwrap) /\
  (* the sentence loops: word-whitespace-word from 0 and from the first "comma" (here: whitespace, position 1) *)
  (last_index_body (flag F_WS) ex_modal_toks = Ok (Some (mkspan 9 10)) /\ last_index_body (flag F_ADJ) ex_modal_toks = Ok None /\
   no_oxford_comma_lint ex_true ex_otrue (flag F_WS) ex_wsw ex_modal_toks ex_modal_src = Ok [Some (mkspan 1 2)] /\
   oxford_start true (flag F_WS) ex_modal_toks = 1 /\ oxford_start true (flag F_ADJ) ex_modal_toks = 6 /\
   oxford_loop ex_true ex_otrue true (flag F_WS) ex_wsw ex_modal_toks ex_modal_src = Ok [(2, 6)] /\
   oxford_loop ex_true ex_otrue false (flag F_WS) ex_wsw ex_modal_toks ex_modal_src = Ok [(0, 3)]) /\
  (* Spaces: word, space, punctuation at the end flags the space; two tokens do not reach the slice *)
  (spaces_tail (flag F_WS) (fun t => tkid t =? 3) [xw 0 1; xs 1 2; xp 2 3] = Ok (Some (mkspan 1 2)) /\
   spaces_tail (flag F_WS) (fun t => tkid t =? 3) [xs 1 2; xp 2 3] = Ok None /\ spaces_kinds (flag F_WS) ex_modal_toks = Ok tt) /\
  (* an empty paragraph has one (empty) sentence; unwrap on no sentence at all would panic *)
  (first_sentence [] = Ok [] /\ only_sentence ex_modal_toks = Ok (Some ex_modal_toks) /\ first_chk (@nil (list tok)) = Panic PUnwrap) /\
  (* i'm -> I'm; the empty word matches no form (set_nth on it would panic) *)
  (cpp_replacement (ch [105; 39; 109]) = Ok (Some (ch [73; 39; 109])) /\ cpp_replacement [] = Ok None /\
   set_nth (@nil N) 0 73%N = Panic PIndex /\
   merge_words_skip (fun c => N.eqb c 73) (ch [105]) (ch [73]) = Ok true /\
   merge_words_skip (fun c => N.eqb c 73) [] (ch [73; 73]) = Ok false /\ nth_chk (@nil N) 0 = Panic PIndex).
Proof. exact struct_examples. Qed.

(* the rules that walk the whole document with document.get_token(i): the index an iter_<thing>_indices yields is a token
   index (`.unwrap()` is Some); AdjectiveOfA's four look-ahead unwraps sit behind its is_none() test; CommaFixes takes ci - 2 /
   ci - 1 only when ci >= 2 / 1 and unwraps toks.1 only in arms whose pattern says Some(Space(_)); InflectedVerbAfterTo's four
   `&chars[..chars.len() - k]` sit behind `chars.len() < 4 => continue`.  On EVERY document, whatever the kinds.  NOT covered: the
   `Span::new(a.start, b.end)` sites (need text order, false on Markdown) and CommaFixes' `.first().unwrap()` (needs a non-empty comma) *)
Theorem C01_get_token_sites_total :
  (forall is_adj skip is_of doc, adjective_of_a_uses is_adj skip is_of doc = Ok tt) /\
  (forall is_prep doc, inflected_preps is_prep doc = Ok tt) /\
  (forall ends_ed ends_es ends_s chars, inflected_stems ends_ed ends_es ends_s chars = Ok tt) /\
  (forall is_comma is_space doc, comma_fixes_uses is_comma is_space doc = Ok tt).
Proof. exact get_token_sites_total. Qed.
Check C01_get_token_sites_total :
  (forall is_adj skip is_of doc, adjective_of_a_uses is_adj skip is_of doc = Ok tt) /\
  (forall is_prep doc, inflected_preps is_prep doc = Ok tt) /\
  (forall ends_ed ends_es ends_s chars, inflected_stems ends_ed ends_es ends_s chars = Ok tt) /\
  (forall is_comma is_space doc, comma_fixes_uses is_comma is_space doc = Ok tt).
Print Assumptions C01_get_token_sites_total.

Example C01_get_token_sites_nonvacuous :
  (* "a of a"-shaped document: adjectives (here: words) at 0, 2, 4 — the look-ahead past the end is None, not a panic;
     an index that is NOT a token index panics on the first unwrap *)
  (term_indices (flag F_WORD) [xw 0 1; xs 1 2; xw 2 4; xs 4 5; xw 5 6] = [0; 2; 4] /\
   adjective_of_a_uses (flag F_WORD) (fun _ => false) (fun _ => true) [xw 0 1; xs 1 2; xw 2 4; xs 4 5; xw 5 6] = Ok tt /\
   adjective_of_a_use (fun _ => false) (fun _ => true) [xw 0 1] 1 = Panic PUnwrap) /\
  (* "used": all four stems; a two-letter word would underflow without the length test *)
  (inflected_stems true true true (ch [117; 115; 101; 100]) = Ok tt /\ stem_cut (ch [101; 100]) 3 = Panic PUnderflow /\
   stem_cut (ch [101; 100]) 2 = Ok tt) /\
  (* commas at 0 and 3: ci - 2 / ci - 1 are only taken when they exist *)
  (comma_fixes_uses (fun t => tkid t =? 4) (flag F_WS) [xc 0 1; xw 1 2; xs 2 3; xc 3 4] = Ok tt /\
   comma_toks [xc 0 1; xw 1 2; xs 2 3; xc 3 4] 3 = Ok (Some (xw 1 2), Some (xs 2 3), xc 3 4) /\
   comma_toks [xc 0 1; xw 1 2; xs 2 3; xc 3 4] 0 = Ok (None, None, xc 0 1) /\
   comma_toks [xc 0 1] 1 = Panic PUnwrap /\
   comma_space_before (flag F_WS) (Some (xs 2 3)) = Ok (Some (xs 2 3)) /\ unwrap_chk (@None tok) = Panic PUnwrap).
Proof. exact get_token_examples. Qed.

(* SpellCheck / SpelledNumbers, the sites that do not depend on the dictionary: NonZero::new(10000); as_word() / as_number() on what
   iter_words / iter_numbers yield; resize_with(3, || panic!()) only shrinks; `.last().unwrap()` behind `len() == 1`;
   spell_out_number: every inner unwrap succeeds and the recursion is at most 3 deep for EVERY num (finite sweep below 1000, None
   above), so the unwrap in lint (value < 10) succeeds.  f32 log10 is modelled as the integer logarithm.  NOT covered:
   get_word_metadata(v).unwrap() (dictionary), to_uppercase().next().unwrap() (std) *)
Theorem C01_spell_sites_total :
  lru_capacity = Ok 10000%N /\
  (forall doc, spell_check_words doc = Ok tt) /\
  (forall (poss : list text), exists r, spell_possibilities poss = Ok r /\ List.length r <= 3) /\
  (forall (poss : list text), exists r, spell_message poss = Ok r) /\
  (forall doc, spelled_numbers_toks doc = Ok tt) /\
  (forall num, spell_out_number 4 num = Ok (if 999 <? num then None else Some tt)) /\
  (forall v, v < 10 -> spelled_numbers_use v = Ok tt).
Proof. exact spell_sites_total. Qed.
Check C01_spell_sites_total :
  lru_capacity = Ok 10000%N /\
  (forall doc, spell_check_words doc = Ok tt) /\
  (forall (poss : list text), exists r, spell_possibilities poss = Ok r /\ List.length r <= 3) /\
  (forall (poss : list text), exists r, spell_message poss = Ok r) /\
  (forall doc, spelled_numbers_toks doc = Ok tt) /\
  (forall num, spell_out_number 4 num = Ok (if 999 <? num then None else Some tt)) /\
  (forall v, v < 10 -> spelled_numbers_use v = Ok tt).
Print Assumptions C01_spell_sites_total.

Example C01_spell_sites_nonvacuous :
  (* five possibilities are cut to three without calling the closure; growing WOULD call it *)
  (spell_possibilities [1; 2; 3; 4; 5] = Ok [1; 2; 3] /\ resize_with_panic [1; 2] 3 = Panic PUnwrap /\
   spell_message [7] = Ok (Some 7) /\ spell_message (@nil nat) = Ok None /\ last_chk (@nil nat) = Panic PUnwrap) /\
  (as_word_unwrap (xs 0 1) = Panic PUnwrap /\ spell_check_words ex_modal_toks = Ok tt /\ nonzero_new 0%N = None) /\
  (* 7, 300, 999 = 900 + 99 = 900 + (90 + 9) are spelled out; 1000 is None and unwrapping THAT panics *)
  (spelled_numbers_use 7 = Ok tt /\ spell_out_number 4 300 = Ok (Some tt) /\ spell_out_number 4 999 = Ok (Some tt) /\
   spell_out_number 4 1000 = Ok None /\ spelled_numbers_use 1000 = Panic PUnwrap /\ spell_out_number 2 999 = Panic PFuel).
Proof. exact spell_examples. Qed.

(* the premises of C01_pattern_bounded hold for "I know the how" with closures / oracles that return,
   and the theorem's conclusion is the interesting one there: TheHowWhy's pattern on the last three
   tokens answers 0 (not 4, as it did before the fix), a plain sequence answers 3 *)
Definition ex_leaf : nat -> tok -> text -> res bool := fun i t _ => Ok (Nat.even (i + tid t)).
Definition ex_oracle : nat -> list tok -> text -> res bool := fun _ ts _ => Ok (Nat.even (length ts)).
Example C01_nonvacuous :
  D_ordered ex_leaf f1_src f1_toks /\ oracle_total_on ex_oracle f1_src (D_ordered ex_leaf f1_src) /\
  matches ex_leaf ex_oracle the_how_now (skipn 4 f1_toks) f1_src = Ok 0 /\
  matches ex_leaf ex_oracle (PSeq [PAnyCap w_the; PWhitespace; PAnyCap w_how]) (skipn 4 f1_toks) f1_src = Ok 3 /\
  matches ex_leaf ex_oracle (PRepeat (PEither [PFlag F_WORD; PWhitespace; PPred 1]) 2) f1_toks f1_src = Ok 7 /\
  run_on_chunk ex_leaf ex_oracle (PSeq [PFlag F_WORD; PWhitespace; PFlag F_WORD]) f1_toks f1_src = Ok [(0, 3); (4, 7)].
Proof.
  split; [|split; [|repeat split; vm_compute; reflexivity]].
  - split; [|cbn; lia].
    repeat constructor; cbn; try lia; intros i; eexists; reflexivity.
  - intros o ts _. eexists; reflexivity.
Qed.

(* iterators and hull on a list with terminators at both ends and an out-of-order token *)
Example C01_iter_nonvacuous :
  let c := mktok (mkspan 5 6) 3 (N.of_nat (2^F_CHUNKTERM)) 0 in
  let ts := [c; hw 0 1; c; c; hw 9 12; hs 2 3] in
  option_map (fun r => match r with Ok s => Some s | Panic _ => None end) (hull ts) = Some (Some (mkspan 0 12)) /\
  match iter_chunks ts with Ok cs => map (@length tok) cs | Panic _ => [] end = [1; 2; 1; 2] /\
  match iter_chunks [] with Ok cs => map (@length tok) cs | Panic _ => [] end = [0].
Proof. cbv zeta. repeat split; vm_compute; reflexivity. Qed.

(* the step counter on a concrete run: TheHowWhy's first alternative on "I know the how" from token 4 *)
Example C01_steps_nonvacuous :
  matches_c ex_leaf ex_oracle the_how_now (skipn 4 f1_toks) f1_src = (Ok 0, 7) /\
  psize the_how_now = 8 /\ rdepth the_how_now = 0 /\ rdepth (PRepeat (PSeq [PRepeat PAny 0]) 1) = 2 /\
  snd (matches_c ex_leaf ex_oracle (PRepeat (PSeq [PRepeat PAny 0]) 1) f1_toks f1_src) = 14.
Proof. repeat split; vm_compute; reflexivity. Qed.

(* the `go:` cut and the visible slice on concrete inputs: `//go:build x\n//a` keeps `\n//a`; a sentence
   that starts with two whitespace tokens is flagged from its third token *)
Example C01_go_and_visible_nonvacuous :
  go_directive_cut (mkspan 2 16) 12 (map N.of_nat [47; 47; 103; 111; 58; 98; 117; 105; 108; 100; 32; 120; 10; 47; 47; 97])
    = Ok (Some (map N.of_nat [10; 47; 47; 97])) /\
  go_directive_cut (mkspan 2 12) 12 (map N.of_nat [47; 47; 103; 111; 58; 98; 117; 105; 108; 100; 32; 120; 10; 47; 47]) = Ok None /\
  first_visible [hs 6 7; hs 7 8; hw 8 10; hs 10 11; hw 11 14] = 2 /\
  visible_hull [hs 6 7; hs 7 8; hw 8 10; hs 10 11; hw 11 14] = Ok (mkspan 8 14) /\
  visible_hull [hs 6 7; hs 7 8] = Ok (mkspan 6 8).
Proof. repeat split; vm_compute; reflexivity. Qed.

(* phase 3, (1): the bounds of six table rows (bounded 2..3, unbounded 3.., 5.., 7..); a use that is NOT below the least
   match length is rejected by the static test and really panics in the model on a 3-token match *)
Example C01_rule_bodies_nonvacuous :
  (bounds_of nm_Dashes = Some (2, Some 3) /\ bounds_of nm_ChockFull = Some (3, None) /\
   bounds_of nm_ThenThan = Some (5, None) /\ bounds_of nm_ToHop = Some (7, None) /\
   bounds_of nm_ImpliedInstantiatedCompoundNouns = Some (5, None) /\ bounds_of nm_TheHowWhy = Some (3, None)) /\
  (rule_ok bad_row = false /\
   let ts := [mktok (mkspan 0 1) 0 1%N 0; mktok (mkspan 1 2) 1 2%N 1; mktok (mkspan 2 3) 0 1%N 2] in
   run_on_chunk (fun _ _ _ => Ok true) (fun _ _ _ => Ok true) (r_pat bad_row) ts [] = Ok [(0, 3)] /\
   use_run (slice ts 0 3) (UIdx 3) = Panic PIndex /\ use_run (slice ts 0 3) (UIdx 2) = Ok tt).
Proof. exact (conj rule_bounds_examples static_test_rejects). Qed.

(* ================= phase 7: the nine `Span::new(a.span.start, b.span.end)` sites of the struct rules (Model/C01SpanOrder.v) =================
   Span::new(s, e) panics iff s > e.  At each site a and b are two tokens of one list (document or chunk), a strictly before b,
   both of a kind the site has tested.  Premise span_ord k ts: the start offsets of the tokens that cover characters never
   decrease (zero-width tokens anywhere, duplicates allowed — WEAKER than C02's OrderedDisjoint) and tokens of the tested kinds
   `k` are never empty.  Chunks inherit it (last conjunct).  RepeatedWords, MergeWords x2, CurrencyPlacement, AdjectiveOfA,
   InflectedVerbAfterTo, CommaFixes x3.  The premise is monitored on every document of the search, every front-end (span_order_violations = 0 since b629a93; ANY violation on any front-end fails the oracle, no exception). *)
Theorem C01_span_new_sites_total :
  (forall chunk, span_ord (flag F_WORD) chunk -> repeated_words_spans chunk = Ok tt) /\
  (forall doc, span_ord (flag F_WORD) doc -> merge_words_spans doc = Ok tt) /\
  (forall is_punct is_num chunk, (forall t, is_punct t = true -> is_num t = false) ->
     span_ord (cur_kind is_punct is_num) chunk -> currency_chunk is_punct is_num chunk = Ok tt) /\
  (forall is_adj doc, span_ord (or_word is_adj) doc -> adjective_of_a_spans is_adj doc = Ok tt) /\
  (forall is_prep doc, span_ord (or_word is_prep) doc -> inflected_spans is_prep doc = Ok tt) /\
  (forall is_comma is_space doc, span_ord (or_kind is_space is_comma) doc -> comma_spans is_comma is_space doc = Ok tt) /\
  (forall k f ts cs, span_ord k ts -> iter_by f ts = Ok cs -> Forall (span_ord k) cs).
Proof. exact span_new_sites_total. Qed.
Check C01_span_new_sites_total :
  (forall chunk, span_ord (flag F_WORD) chunk -> repeated_words_spans chunk = Ok tt) /\
  (forall doc, span_ord (flag F_WORD) doc -> merge_words_spans doc = Ok tt) /\
  (forall is_punct is_num chunk, (forall t, is_punct t = true -> is_num t = false) ->
     span_ord (cur_kind is_punct is_num) chunk -> currency_chunk is_punct is_num chunk = Ok tt) /\
  (forall is_adj doc, span_ord (or_word is_adj) doc -> adjective_of_a_spans is_adj doc = Ok tt) /\
  (forall is_prep doc, span_ord (or_word is_prep) doc -> inflected_spans is_prep doc = Ok tt) /\
  (forall is_comma is_space doc, span_ord (or_kind is_space is_comma) doc -> comma_spans is_comma is_space doc = Ok tt) /\
  (forall k f ts cs, span_ord k ts -> iter_by f ts = Ok cs -> Forall (span_ord k) cs).
Print Assumptions C01_span_new_sites_total.

(* the premise DISCHARGED for plain English, every text, any Unicode tables, any dictionary view: from C02's tiling theorem *)
Theorem C01_plain_english_span_sites :
  forall (abs : Lexer.token -> tok), (forall t, tspan (abs t) = Lexer.tspan t) ->
  forall u s is_adj is_prep is_comma is_space is_punct is_num,
    (forall t, is_punct t = true -> is_num t = false) ->
    exists ts cs,
      Condense.document_plain u s = Ok ts /\ iter_chunks (map abs ts) = Ok cs /\ concat cs = map abs ts /\
      Forall (fun c => repeated_words_spans c = Ok tt /\ currency_chunk is_punct is_num c = Ok tt) cs /\
      merge_words_spans (map abs ts) = Ok tt /\
      adjective_of_a_spans is_adj (map abs ts) = Ok tt /\
      inflected_spans is_prep (map abs ts) = Ok tt /\
      comma_spans is_comma is_space (map abs ts) = Ok tt.
Proof. exact plain_english_span_sites. Qed.
Check C01_plain_english_span_sites :
  forall (abs : Lexer.token -> tok), (forall t, tspan (abs t) = Lexer.tspan t) ->
  forall u s is_adj is_prep is_comma is_space is_punct is_num,
    (forall t, is_punct t = true -> is_num t = false) ->
    exists ts cs,
      Condense.document_plain u s = Ok ts /\ iter_chunks (map abs ts) = Ok cs /\ concat cs = map abs ts /\
      Forall (fun c => repeated_words_spans c = Ok tt /\ currency_chunk is_punct is_num c = Ok tt) cs /\
      merge_words_spans (map abs ts) = Ok tt /\
      adjective_of_a_spans is_adj (map abs ts) = Ok tt /\
      inflected_spans is_prep (map abs ts) = Ok tt /\
      comma_spans is_comma is_space (map abs ts) = Ok tt.
Print Assumptions C01_plain_english_span_sites.

(* the premise follows from C02's property-level invariant TokInv (any front-end for which C02 establishes it: Markdown::parse
   under md_contract, the Document passes on gapped vectors) when the tested kinds are not Newline / ParagraphBreak *)
Theorem C01_span_ord_from_tokinv :
  forall (abs : Lexer.token -> tok), (forall t, tspan (abs t) = Lexer.tspan t) ->
  forall k : tok -> bool,
    (forall t, k (abs t) = true ->
       match Lexer.tkind_of t with Lexer.KNewline _ | Lexer.KParagraphBreak => False | _ => True end) ->
    forall n ts, C02Gapped.TokInv n ts -> span_ord k (map abs ts).
Proof. exact tokinv_span_ord. Qed.
Check C01_span_ord_from_tokinv :
  forall (abs : Lexer.token -> tok), (forall t, tspan (abs t) = Lexer.tspan t) ->
  forall k : tok -> bool,
    (forall t, k (abs t) = true ->
       match Lexer.tkind_of t with Lexer.KNewline _ | Lexer.KParagraphBreak => False | _ => True end) ->
    forall n ts, C02Gapped.TokInv n ts -> span_ord k (map abs ts).
Print Assumptions C01_span_ord_from_tokinv.

(* HISTORY (finding F34, fixed in /repo by 3103238): before the fix harper-typst emitted the transform of a show rule before its
   selector; the tokens of  #show "the": [the]  were [Word 14..17; Word 7..10] (typst_show_tokens_old), inside the 18-char text,
   neighbours in one chunk: the model of RepeatedWords' site panics on them exactly as the implementation did (span.rs:19
   `14 > 10`) and span_ord fails — the premise cannot be dropped.  On the order emitted NOW (typst_show_tokens) span_ord holds
   and the site returns.  The six witnesses stay in corpus/C01 as passing regressions; reverting the fix is caught. *)
Example C01_span_new_typst_old_order_history :
  (repeated_words_spans typst_show_tokens_old = Panic PSpanOrder /\ ~ span_ord (flag F_WORD) typst_show_tokens_old /\
   Forall (fun t => sstart (tspan t) <= send (tspan t) /\ send (tspan t) <= 18) typst_show_tokens_old) /\
  (span_ord (flag F_WORD) typst_show_tokens /\ repeated_words_spans typst_show_tokens = Ok tt).
Proof. exact span_new_typst_old_order_history. Qed.

(* HISTORY (finding F35, residue of F34, fixed in /repo by b629a93): the UNFINISHED Typst show rule  #show "the the":  — typst_syntax
   hands out the selector again as the transform and harper-typst used to emit its tokens twice:
   [the 7..10; space; the 11..14; the 7..10; space; the 11..14] (typst_unfinished_show_tokens_old), inside the 16-char text; the model of
   RepeatedWords' site panics on them exactly as the implementation did (span.rs:19 `11 > 10`, default configuration) and span_ord
   fails.  On the tokens Typst::parse keeps NOW (the first copy) span_ord holds and the site returns.  The witnesses stay in
   corpus/C01 as passing regressions; reverting the fix is caught. *)
Example C01_span_new_typst_unfinished_history :
  (repeated_words_spans typst_unfinished_show_tokens_old = Panic PSpanOrder /\ ~ span_ord (flag F_WORD) typst_unfinished_show_tokens_old /\
   Forall (fun t => sstart (tspan t) <= send (tspan t) /\ send (tspan t) <= 16) typst_unfinished_show_tokens_old) /\
  (span_ord (flag F_WORD) typst_unfinished_show_tokens /\ repeated_words_spans typst_unfinished_show_tokens = Ok tt).
Proof. exact span_new_typst_unfinished_history. Qed.

(* non-vacuity: words with zero-width breaks at arbitrary offsets between them satisfy the premise and the sites return; a token
   emitted twice is allowed; two words out of order, or an empty word, make the SAME checked Span::new fail *)
Example C01_span_order_nonvacuous :
  span_ord (flag F_WORD) [w 0 3; brk 9; w 4 7; brk 2] /\
  repeated_words_spans [w 0 3; brk 9; w 4 7; brk 2] = Ok tt /\
  merge_words_spans [w 0 3; brk 9; w 4 7; brk 2] = Ok tt /\
  repeated_words_spans [w 4 7; w 0 3] = Panic PSpanOrder /\
  merge_words_spans [w 4 7; brk 9; w 0 3] = Panic PSpanOrder /\
  span_ord (flag F_WORD) [w 4 7; w 4 7] /\ repeated_words_spans [w 4 7; w 4 7] = Ok tt /\
  ordered_cov 0 [w 4 7; w 2 2] /\ repeated_words_spans [w 4 7; w 2 2] = Panic PSpanOrder.
Proof. exact span_order_examples. Qed.

(* phase 3, (2): the end-to-end model on "I know  the how." (two spaces: one Space(2) token): seven tokens, the dictionary
   view taken from a table keyed by span start, word-whitespace-word matched twice; premises satisfiable (abs_of keeps spans) *)
Example C01_plain_english_nonvacuous :
  let s := map N.of_nat [73; 32; 107; 110; 111; 119; 32; 32; 116; 104; 101; 32; 104; 111; 119; 46] in
  let table := [(0, hw 0 1); (1, hs 1 2); (2, hw 2 6); (6, hs 6 8); (8, hw 8 11); (11, hs 11 12); (12, hw 12 15)] in
  (forall t, tspan (abs_of table t) = Lexer.tspan t) /\
  e2e_spans s = Ok [mkspan 0 1; mkspan 1 2; mkspan 2 6; mkspan 6 8; mkspan 8 11; mkspan 11 12; mkspan 12 15; mkspan 15 16] /\
  e2e_lint ex_leaf ex_oracle table (PSeq [PFlag F_WORD; PWhitespace; PFlag F_WORD]) s = Ok ([[(0, 3); (4, 7)]], []).
Proof.
  cbv zeta. split; [|split; vm_compute; reflexivity].
  intros t. unfold abs_of. destruct (find _ _); reflexivity.
Qed.

(* phase 4: ModalOf on "I should\n of" (two whitespace tokens between the words) flags `should\n of` = 2..12; a slice with
   four words gives None; "south america" against the row ExactPhrase::from_document builds for "South America" is flagged
   whole; a row that looks past what it consumes is what row_local excludes (the second lookup then panics) *)
Example C01_bodies_nonvacuous :
  Forall (in_src (List.length ex_modal_src)) ex_modal_toks /\
  rule_lint ex_true ex_otrue modal_of_body modal_of_pattern ex_modal_toks ex_modal_src = Ok [Some (mkspan 2 12)] /\
  modal_of_body (xw 0 1 :: xs 1 2 :: ex_modal_toks) ex_modal_src = Ok None /\
  exact_phrase_of [FWord (ch [83; 111; 117; 116; 104]); FSpace; FWord (ch [65; 109; 101; 114; 105; 99; 97])] = Ok ex_pn_row /\
  rule_lint ex_true ex_otrue (proper_noun_body ex_true ex_otrue [ex_pn_row] ex_pn_canon) (PMap [ex_pn_row]) ex_pn_toks ex_pn_src
    = Ok [Some (mkspan 0 13)] /\
  (let bad := PSeq [PFlag F_WORD; PInvert (PConsumes PWhitespace)] in
   row_local bad = false /\
   matches ex_true ex_otrue (PMap [bad]) ex_pn_toks ex_pn_src = Ok 2 /\
   proper_noun_body ex_true ex_otrue [bad] [] (firstn 2 ex_pn_toks) ex_pn_src = Panic PUnwrap) /\
  pairs_adjacent (word_indices ex_modal_toks) = [(0, 2); (2, 5)].
Proof. exact bodies_examples. Qed.
