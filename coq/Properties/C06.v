(* C06 — A word is reported misspelt exactly when the dictionary does not contain it.
   This file pins the statements; it contains nothing but `exact`.

   Reading guide.  lc/uc/is_lower/is_upper are Rust's char::to_lowercase/to_uppercase/is_lowercase/is_uppercase;
   `fuzzy D w k` is suggest_correct_spelling(w, 100, k, D) (C15); a document is its source `src` plus the spans
   `words` of its Word tokens in order (how a text is cut into tokens is C02's subject).  Hypotheses in
   statements — lower_fix, uc non-empty, fuzzy_listed, dict_nodup — are monitored on the implementation by
   harness/src/bin/c06.rs in every run.  `In sp words /\ get_content sp src = Ok w` is the premise
   single_word_token: the word stands in the text as one Word token.  In the second half of this file (theorems C06_text_..,
   C06_one_word_.., C06_simple_word_.., C06_f24_..) the tokens are no longer given: `doc_words u src` computes them
   with C02's model of PlainEnglish::parse + the passes of Document::parse (u = Unicode predicates of the lexer),
   `one_word u w` decides whether w alone is exactly one Word token, `lint_text` = tokenise, then lint.
   Phase 5 (end of the file): for SENTENCES of a decidable class (Model/C06Sentence.v) the tokens are proved, so the
   theorems C06_sentence_.. carry no premise about tokens at all; the one-token entries outside the alnum class are classified. *)
Require Import Base Tables_lexer Lexer Condense Tables_spellnorm SpellDecision SpellDecisionProofs.
Require Import Tables_f24 C06Words C06WordsProofs C06TextProofs C06AlnumProofs C06DictProofs.
Require Import TokenInv C06Sentence C06SentenceProofs C06ShapesProofs C06SentenceDot C06SentenceDotProofs C06CondFun C06SentenceContr C06SentenceContrProofs
  C06SentenceContrDot C06SentenceContrDotProofs C06PeriodsProofs LexerProofs.

(* the decision, exactly: a word token with text w is accepted iff some entry has its id and is compatible with
   the active dialect, and some entry is spelt — up to normalisation of both sides (ebb53b3) — exactly like w or
   like lower(w) *)
Theorem C06_decision_spec :
  forall (lc : char -> list char) (is_lower : char -> bool) D d w, dict_nodup lc is_lower D ->
  (accepts lc is_lower D d w = true <->
     (exists e, In e D /\ word_id lc is_lower (canon e) = word_id lc is_lower w /\ dialect_ok (edialect e) d = true) /\
     (exists e', In e' D /\ (normalized (canon e') = normalized w \/
                             normalized (canon e') = normalized (to_lower lc is_lower w)))).
Proof. exact accepts_spec. Qed.
Check C06_decision_spec :
  forall (lc : char -> list char) (is_lower : char -> bool) D d w, dict_nodup lc is_lower D ->
  (accepts lc is_lower D d w = true <->
     (exists e, In e D /\ word_id lc is_lower (canon e) = word_id lc is_lower w /\ dialect_ok (edialect e) d = true) /\
     (exists e', In e' D /\ (normalized (canon e') = normalized w \/
                             normalized (canon e') = normalized (to_lower lc is_lower w)))).
Print Assumptions C06_decision_spec.

(* positive half: inside any document, a word token that is the canonical spelling of a listed entry of the
   active dialect (whatever characters the entry is stored with: since ebb53b3 no premise about normalisation) —
   or, for a lower-case entry without characters that normalisation rewrites, its capitalised or upper-case
   form — draws no lint *)
Theorem C06_listed_accepted :
  forall (lc uc : char -> list char) (is_lower is_upper : char -> bool) (fuzzy : dict -> text -> nat -> list text),
  lower_fix lc is_lower ->
  forall D d e src words sp w ls,
  dict_nodup lc is_lower D -> In e D -> dialect_ok (edialect e) d = true ->
  In sp words -> get_content sp src = Ok w ->
  ( w = canon e
    \/ (normalized (canon e) = canon e /\ lower_case lc is_lower (canon e) /\ w = capitalise uc (canon e) /\
        Forall (case_regular lc uc) (firstn 1 (canon e)))
    \/ (normalized (canon e) = canon e /\ lower_case lc is_lower (canon e) /\ w = upper uc (canon e) /\
        Forall (case_regular lc uc) (canon e)) ) ->
  lint_doc lc uc is_lower is_upper fuzzy D d src words = Ok ls ->
  lint_word lc uc is_lower is_upper fuzzy D d src sp = Ok None /\ forall l, In l ls -> sl_span l = sp -> False.
Proof. exact listed_accepted. Qed.
Check C06_listed_accepted :
  forall (lc uc : char -> list char) (is_lower is_upper : char -> bool) (fuzzy : dict -> text -> nat -> list text),
  lower_fix lc is_lower ->
  forall D d e src words sp w ls,
  dict_nodup lc is_lower D -> In e D -> dialect_ok (edialect e) d = true ->
  In sp words -> get_content sp src = Ok w ->
  ( w = canon e
    \/ (normalized (canon e) = canon e /\ lower_case lc is_lower (canon e) /\ w = capitalise uc (canon e) /\
        Forall (case_regular lc uc) (firstn 1 (canon e)))
    \/ (normalized (canon e) = canon e /\ lower_case lc is_lower (canon e) /\ w = upper uc (canon e) /\
        Forall (case_regular lc uc) (canon e)) ) ->
  lint_doc lc uc is_lower is_upper fuzzy D d src words = Ok ls ->
  lint_word lc uc is_lower is_upper fuzzy D d src sp = Ok None /\ forall l, In l ls -> sl_span l = sp -> False.
Print Assumptions C06_listed_accepted.

(* more generally: every spelling that has the entry's id and lower-cases to the entry up to normalisation *)
Theorem C06_variant_accepted :
  forall (lc : char -> list char) (is_lower : char -> bool) D d e w,
  dict_nodup lc is_lower D -> In e D -> dialect_ok (edialect e) d = true ->
  word_id lc is_lower w = word_id lc is_lower (canon e) ->
  normalized (to_lower lc is_lower w) = normalized (canon e) ->
  accepts lc is_lower D d w = true.
Proof. exact variant_accepted. Qed.
Check C06_variant_accepted :
  forall (lc : char -> list char) (is_lower : char -> bool) D d e w,
  dict_nodup lc is_lower D -> In e D -> dialect_ok (edialect e) d = true ->
  word_id lc is_lower w = word_id lc is_lower (canon e) ->
  normalized (to_lower lc is_lower w) = normalized (canon e) ->
  accepts lc is_lower D d w = true.
Print Assumptions C06_variant_accepted.

(* converse: a word token whose id (lower-cased, normalised text) no entry has — the dictionary does not contain
   it under any capitalisation — is reported, and the lint's span is exactly the token's span *)
Theorem C06_unlisted_reported :
  forall (lc uc : char -> list char) (is_lower is_upper : char -> bool) (fuzzy : dict -> text -> nat -> list text),
  (forall c, uc c <> []) -> fuzzy_listed fuzzy ->
  forall D d src words sp w,
  dict_nodup lc is_lower D -> (forall sp', In sp' words -> span_in (length src) sp') ->
  In sp words -> get_content sp src = Ok w ->
  (forall e, In e D -> word_id lc is_lower (canon e) <> word_id lc is_lower w) ->
  exists ls sg, lint_doc lc uc is_lower is_upper fuzzy D d src words = Ok ls /\ In (mkslint sp sg) ls.
Proof. exact unlisted_reported. Qed.
Check C06_unlisted_reported :
  forall (lc uc : char -> list char) (is_lower is_upper : char -> bool) (fuzzy : dict -> text -> nat -> list text),
  (forall c, uc c <> []) -> fuzzy_listed fuzzy ->
  forall D d src words sp w,
  dict_nodup lc is_lower D -> (forall sp', In sp' words -> span_in (length src) sp') ->
  In sp words -> get_content sp src = Ok w ->
  (forall e, In e D -> word_id lc is_lower (canon e) <> word_id lc is_lower w) ->
  exists ls sg, lint_doc lc uc is_lower is_upper fuzzy D d src words = Ok ls /\ In (mkslint sp sg) ls.
Print Assumptions C06_unlisted_reported.

(* a word of another dialect is reported in the active one *)
Theorem C06_other_dialect_reported :
  forall (lc uc : char -> list char) (is_lower is_upper : char -> bool) (fuzzy : dict -> text -> nat -> list text),
  (forall c, uc c <> []) -> fuzzy_listed fuzzy ->
  forall D d src sp w e d',
  dict_nodup lc is_lower D -> get_content sp src = Ok w ->
  In e D -> word_id lc is_lower (canon e) = word_id lc is_lower w -> edialect e = Some d' -> d' <> d ->
  exists sg, lint_word lc uc is_lower is_upper fuzzy D d src sp = Ok (Some (mkslint sp sg)).
Proof. exact other_dialect_reported. Qed.
Check C06_other_dialect_reported :
  forall (lc uc : char -> list char) (is_lower is_upper : char -> bool) (fuzzy : dict -> text -> nat -> list text),
  (forall c, uc c <> []) -> fuzzy_listed fuzzy ->
  forall D d src sp w e d',
  dict_nodup lc is_lower D -> get_content sp src = Ok w ->
  In e D -> word_id lc is_lower (canon e) = word_id lc is_lower w -> edialect e = Some d' -> d' <> d ->
  exists sg, lint_word lc uc is_lower is_upper fuzzy D d src sp = Ok (Some (mkslint sp sg)).
Print Assumptions C06_other_dialect_reported.

(* every suggestion is the canonical spelling of an entry whose dialect is none or the active one, possibly with
   its first character replaced by the first character of that character's upper-case mapping; at most three *)
Theorem C06_suggestions_in_dictionary :
  forall (lc uc : char -> list char) (is_lower is_upper : char -> bool) (fuzzy : dict -> text -> nat -> list text),
  fuzzy_listed fuzzy ->
  forall D d src sp l, dict_nodup lc is_lower D ->
  lint_word lc uc is_lower is_upper fuzzy D d src sp = Ok (Some l) ->
  length (sl_sugg l) <= suggestions_kept /\
  forall s, In s (sl_sugg l) ->
    exists e, In e D /\ dialect_ok (edialect e) d = true /\ (s = canon e \/ cap_first uc (canon e) = Ok s).
Proof. exact suggestions_in_dictionary. Qed.
Check C06_suggestions_in_dictionary :
  forall (lc uc : char -> list char) (is_lower is_upper : char -> bool) (fuzzy : dict -> text -> nat -> list text),
  fuzzy_listed fuzzy ->
  forall D d src sp l, dict_nodup lc is_lower D ->
  lint_word lc uc is_lower is_upper fuzzy D d src sp = Ok (Some l) ->
  length (sl_sugg l) <= suggestions_kept /\
  forall s, In s (sl_sugg l) ->
    exists e, In e D /\ dialect_ok (edialect e) d = true /\ (s = canon e \/ cap_first uc (canon e) = Ok s).
Print Assumptions C06_suggestions_in_dictionary.

(* the lints of a document are exactly the lints of its word tokens, in token order *)
Theorem C06_lints_are_word_lints :
  forall (lc uc : char -> list char) (is_lower is_upper : char -> bool) (fuzzy : dict -> text -> nat -> list text)
         D d src words ls,
  lint_doc lc uc is_lower is_upper fuzzy D d src words = Ok ls ->
  (forall l, In l ls <-> exists sp, In sp words /\ lint_word lc uc is_lower is_upper fuzzy D d src sp = Ok (Some l)) /\
  map sl_span ls =
    filter (fun sp => match lint_word lc uc is_lower is_upper fuzzy D d src sp with Ok (Some _) => true | _ => false end) words.
Proof. exact (fun lc uc il iu fz D d src words ls H =>
  conj (lint_doc_in lc uc il iu fz D d src words ls H) (lint_doc_spans lc uc il iu fz D d src words ls H)). Qed.
Check C06_lints_are_word_lints :
  forall (lc uc : char -> list char) (is_lower is_upper : char -> bool) (fuzzy : dict -> text -> nat -> list text)
         D d src words ls,
  lint_doc lc uc is_lower is_upper fuzzy D d src words = Ok ls ->
  (forall l, In l ls <-> exists sp, In sp words /\ lint_word lc uc is_lower is_upper fuzzy D d src sp = Ok (Some l)) /\
  map sl_span ls =
    filter (fun sp => match lint_word lc uc is_lower is_upper fuzzy D d src sp with Ok (Some _) => true | _ => false end) words.
Print Assumptions C06_lints_are_word_lints.

(* no panic, no fuel exhaustion: tokens inside the text, dictionary a map, fuzzy results listed *)
Theorem C06_total :
  forall (lc uc : char -> list char) (is_lower is_upper : char -> bool) (fuzzy : dict -> text -> nat -> list text),
  (forall c, uc c <> []) -> fuzzy_listed fuzzy ->
  forall D d src words, dict_nodup lc is_lower D -> (forall sp, In sp words -> span_in (length src) sp) ->
  exists ls, lint_doc lc uc is_lower is_upper fuzzy D d src words = Ok ls.
Proof. exact lint_doc_never_panics. Qed.
Check C06_total :
  forall (lc uc : char -> list char) (is_lower is_upper : char -> bool) (fuzzy : dict -> text -> nat -> list text),
  (forall c, uc c <> []) -> fuzzy_listed fuzzy ->
  forall D d src words, dict_nodup lc is_lower D -> (forall sp, In sp words -> span_in (length src) sp) ->
  exists ls, lint_doc lc uc is_lower is_upper fuzzy D d src words = Ok ls.
Print Assumptions C06_total.

(* the LRU word cache (any eviction policy `keep`) never changes a result *)
Theorem C06_cache_transparent :
  forall (lc uc : char -> list char) (is_lower is_upper : char -> bool) (fuzzy : dict -> text -> nat -> list text)
         (keep : cache -> text * list text -> bool) D d src words c ls,
  cache_valid lc is_lower fuzzy D d c ->
  lint_doc lc uc is_lower is_upper fuzzy D d src words = Ok ls ->
  exists c', lint_doc_cached lc uc is_lower is_upper fuzzy keep D d c src words = Ok (ls, c') /\
             cache_valid lc is_lower fuzzy D d c'.
Proof. exact cache_transparent. Qed.
Check C06_cache_transparent :
  forall (lc uc : char -> list char) (is_lower is_upper : char -> bool) (fuzzy : dict -> text -> nat -> list text)
         (keep : cache -> text * list text -> bool) D d src words c ls,
  cache_valid lc is_lower fuzzy D d c ->
  lint_doc lc uc is_lower is_upper fuzzy D d src words = Ok ls ->
  exists c', lint_doc_cached lc uc is_lower is_upper fuzzy keep D d c src words = Ok (ls, c') /\
             cache_valid lc is_lower fuzzy D d c'.
Print Assumptions C06_cache_transparent.

(* F24 (open): a listed entry that is NOT one Word token is reported when written alone — the premise
   single_word_token of C06_listed_accepted cannot be dropped.  Witness: dictionary {socio-political, political},
   text "socio-political", Word tokens [0,5) and [6,15) (Word Hyphen Word): "socio" is reported.  The harness
   rebuilds this dictionary and replays the text on the implementation (corpus/C06/witness.json). *)
Theorem C06_multi_token_refuted :
  exists D d e src words ls,
    dict_nodup ascii_lc ascii_is_lower D /\ In e D /\ dialect_ok (edialect e) d = true /\
    normalized (canon e) = canon e /\ src = canon e /\
    lint_doc ascii_lc ascii_uc ascii_is_lower ascii_is_upper no_fuzzy D d src words = Ok ls /\
    ls <> [] /\ (forall l, In l ls -> In (sl_span l) words) /\
    ~ In (mkspan 0 (length src)) words.
Proof. exact multi_token_refuted. Qed.
Check C06_multi_token_refuted :
  exists D d e src words ls,
    dict_nodup ascii_lc ascii_is_lower D /\ In e D /\ dialect_ok (edialect e) d = true /\
    normalized (canon e) = canon e /\ src = canon e /\
    lint_doc ascii_lc ascii_uc ascii_is_lower ascii_is_upper no_fuzzy D d src words = Ok ls /\
    ls <> [] /\ (forall l, In l ls -> In (sl_span l) words) /\
    ~ In (mkspan 0 (length src)) words.
Print Assumptions C06_multi_token_refuted.


(* ================= C06 on texts: the Word tokens are computed (C02's lexer + condense model) ================= *)

(* tokenising never panics and every Word token lies inside the text (from C02's tiling theorem, no hypothesis):
   this discharges the premise `tokens in bounds` of C06_unlisted_reported / C06_total *)
Theorem C06_doc_words_total :
  forall (u : uni) (s : text),
  exists words, doc_words u s = Ok words /\ forall sp, In sp words -> span_in (length s) sp.
Proof. exact doc_words_total. Qed.
Check C06_doc_words_total :
  forall (u : uni) (s : text),
  exists words, doc_words u s = Ok words /\ forall sp, In sp words -> span_in (length s) sp.
Print Assumptions C06_doc_words_total.

(* positive half on a text: no lint of the text sits on a computed Word token spelt like a listed form *)
Theorem C06_text_listed_accepted :
  forall (u : uni) (lc uc : char -> list char) (is_lower is_upper : char -> bool) (fuzzy : dict -> text -> nat -> list text),
  lower_fix lc is_lower ->
  forall D d e src words sp w ls,
  dict_nodup lc is_lower D -> In e D -> dialect_ok (edialect e) d = true ->
  doc_words u src = Ok words -> In sp words -> get_content sp src = Ok w ->
  ( w = canon e
    \/ (normalized (canon e) = canon e /\ lower_case lc is_lower (canon e) /\ w = capitalise uc (canon e) /\
        Forall (case_regular lc uc) (firstn 1 (canon e)))
    \/ (normalized (canon e) = canon e /\ lower_case lc is_lower (canon e) /\ w = upper uc (canon e) /\
        Forall (case_regular lc uc) (canon e)) ) ->
  lint_text u lc uc is_lower is_upper fuzzy D d src = Ok ls ->
  forall l, In l ls -> sl_span l <> sp.
Proof. exact text_listed_accepted. Qed.
Check C06_text_listed_accepted :
  forall (u : uni) (lc uc : char -> list char) (is_lower is_upper : char -> bool) (fuzzy : dict -> text -> nat -> list text),
  lower_fix lc is_lower ->
  forall D d e src words sp w ls,
  dict_nodup lc is_lower D -> In e D -> dialect_ok (edialect e) d = true ->
  doc_words u src = Ok words -> In sp words -> get_content sp src = Ok w ->
  ( w = canon e
    \/ (normalized (canon e) = canon e /\ lower_case lc is_lower (canon e) /\ w = capitalise uc (canon e) /\
        Forall (case_regular lc uc) (firstn 1 (canon e)))
    \/ (normalized (canon e) = canon e /\ lower_case lc is_lower (canon e) /\ w = upper uc (canon e) /\
        Forall (case_regular lc uc) (canon e)) ) ->
  lint_text u lc uc is_lower is_upper fuzzy D d src = Ok ls ->
  forall l, In l ls -> sl_span l <> sp.
Print Assumptions C06_text_listed_accepted.

(* converse on a text: a computed Word token whose id no entry has is reported with exactly its span (no premise
   about the tokens any more) *)
Theorem C06_text_unlisted_reported :
  forall (u : uni) (lc uc : char -> list char) (is_lower is_upper : char -> bool) (fuzzy : dict -> text -> nat -> list text),
  (forall c, uc c <> []) -> fuzzy_listed fuzzy ->
  forall D d src words sp w,
  dict_nodup lc is_lower D -> doc_words u src = Ok words -> In sp words -> get_content sp src = Ok w ->
  (forall e, In e D -> word_id lc is_lower (canon e) <> word_id lc is_lower w) ->
  exists ls sg, lint_text u lc uc is_lower is_upper fuzzy D d src = Ok ls /\ In (mkslint sp sg) ls.
Proof. exact text_unlisted_reported. Qed.
Check C06_text_unlisted_reported :
  forall (u : uni) (lc uc : char -> list char) (is_lower is_upper : char -> bool) (fuzzy : dict -> text -> nat -> list text),
  (forall c, uc c <> []) -> fuzzy_listed fuzzy ->
  forall D d src words sp w,
  dict_nodup lc is_lower D -> doc_words u src = Ok words -> In sp words -> get_content sp src = Ok w ->
  (forall e, In e D -> word_id lc is_lower (canon e) <> word_id lc is_lower w) ->
  exists ls sg, lint_text u lc uc is_lower is_upper fuzzy D d src = Ok ls /\ In (mkslint sp sg) ls.
Print Assumptions C06_text_unlisted_reported.

(* tokenise + lint never panics on any text *)
Theorem C06_text_total :
  forall (u : uni) (lc uc : char -> list char) (is_lower is_upper : char -> bool) (fuzzy : dict -> text -> nat -> list text),
  (forall c, uc c <> []) -> fuzzy_listed fuzzy ->
  forall D d src, dict_nodup lc is_lower D ->
  exists ls, lint_text u lc uc is_lower is_upper fuzzy D d src = Ok ls.
Proof. exact text_total. Qed.
Check C06_text_total :
  forall (u : uni) (lc uc : char -> list char) (is_lower is_upper : char -> bool) (fuzzy : dict -> text -> nat -> list text),
  (forall c, uc c <> []) -> fuzzy_listed fuzzy ->
  forall D d src, dict_nodup lc is_lower D ->
  exists ls, lint_text u lc uc is_lower is_upper fuzzy D d src = Ok ls.
Print Assumptions C06_text_total.

(* every lint of a text sits on one of its Word tokens and each of its at most three suggestions is an entry of the
   active dialect up to upper-casing its first character (the whole post-processing of the fuzzy results — dialect
   filter, truncation, capitalisation — is inside the model) *)
Theorem C06_text_suggestions_in_dictionary :
  forall (u : uni) (lc uc : char -> list char) (is_lower is_upper : char -> bool) (fuzzy : dict -> text -> nat -> list text),
  fuzzy_listed fuzzy ->
  forall D d src ls l, dict_nodup lc is_lower D ->
  lint_text u lc uc is_lower is_upper fuzzy D d src = Ok ls -> In l ls ->
  (exists words, doc_words u src = Ok words /\ In (sl_span l) words) /\
  length (sl_sugg l) <= suggestions_kept /\
  forall s, In s (sl_sugg l) ->
    exists e, In e D /\ dialect_ok (edialect e) d = true /\ (s = canon e \/ cap_first uc (canon e) = Ok s).
Proof. exact text_suggestions_in_dictionary. Qed.
Check C06_text_suggestions_in_dictionary :
  forall (u : uni) (lc uc : char -> list char) (is_lower is_upper : char -> bool) (fuzzy : dict -> text -> nat -> list text),
  fuzzy_listed fuzzy ->
  forall D d src ls l, dict_nodup lc is_lower D ->
  lint_text u lc uc is_lower is_upper fuzzy D d src = Ok ls -> In l ls ->
  (exists words, doc_words u src = Ok words /\ In (sl_span l) words) /\
  length (sl_sugg l) <= suggestions_kept /\
  forall s, In s (sl_sugg l) ->
    exists e, In e D /\ dialect_ok (edialect e) d = true /\ (s = canon e \/ cap_first uc (canon e) = Ok s).
Print Assumptions C06_text_suggestions_in_dictionary.

(* in isolation, with the premise single_word_token COMPUTED: a listed form that the tokeniser cuts into exactly
   one Word token draws no lint at all *)
Theorem C06_one_word_alone_accepted :
  forall (u : uni) (lc uc : char -> list char) (is_lower is_upper : char -> bool) (fuzzy : dict -> text -> nat -> list text),
  lower_fix lc is_lower ->
  forall D d e w,
  dict_nodup lc is_lower D -> In e D -> dialect_ok (edialect e) d = true ->
  one_word u w = true ->
  ( w = canon e
    \/ (normalized (canon e) = canon e /\ lower_case lc is_lower (canon e) /\ w = capitalise uc (canon e) /\
        Forall (case_regular lc uc) (firstn 1 (canon e)))
    \/ (normalized (canon e) = canon e /\ lower_case lc is_lower (canon e) /\ w = upper uc (canon e) /\
        Forall (case_regular lc uc) (canon e)) ) ->
  lint_text u lc uc is_lower is_upper fuzzy D d w = Ok [].
Proof. exact one_word_alone_accepted. Qed.
Check C06_one_word_alone_accepted :
  forall (u : uni) (lc uc : char -> list char) (is_lower is_upper : char -> bool) (fuzzy : dict -> text -> nat -> list text),
  lower_fix lc is_lower ->
  forall D d e w,
  dict_nodup lc is_lower D -> In e D -> dialect_ok (edialect e) d = true ->
  one_word u w = true ->
  ( w = canon e
    \/ (normalized (canon e) = canon e /\ lower_case lc is_lower (canon e) /\ w = capitalise uc (canon e) /\
        Forall (case_regular lc uc) (firstn 1 (canon e)))
    \/ (normalized (canon e) = canon e /\ lower_case lc is_lower (canon e) /\ w = upper uc (canon e) /\
        Forall (case_regular lc uc) (canon e)) ) ->
  lint_text u lc uc is_lower is_upper fuzzy D d w = Ok [].
Print Assumptions C06_one_word_alone_accepted.

(* ... and an unlisted one draws exactly one lint, covering exactly the word *)
Theorem C06_one_word_alone_reported :
  forall (u : uni) (lc uc : char -> list char) (is_lower is_upper : char -> bool) (fuzzy : dict -> text -> nat -> list text),
  (forall c, uc c <> []) -> fuzzy_listed fuzzy ->
  forall D d w,
  dict_nodup lc is_lower D -> one_word u w = true ->
  (forall e, In e D -> word_id lc is_lower (canon e) <> word_id lc is_lower w) ->
  exists sg, lint_text u lc uc is_lower is_upper fuzzy D d w = Ok [mkslint (mkspan 0 (length w)) sg].
Proof. exact one_word_alone_reported. Qed.
Check C06_one_word_alone_reported :
  forall (u : uni) (lc uc : char -> list char) (is_lower is_upper : char -> bool) (fuzzy : dict -> text -> nat -> list text),
  (forall c, uc c <> []) -> fuzzy_listed fuzzy ->
  forall D d w,
  dict_nodup lc is_lower D -> one_word u w = true ->
  (forall e, In e D -> word_id lc is_lower (canon e) <> word_id lc is_lower w) ->
  exists sg, lint_text u lc uc is_lower is_upper fuzzy D d w = Ok [mkslint (mkspan 0 (length w)) sg].
Print Assumptions C06_one_word_alone_reported.

(* characterisation of one_word (through lex_word, lex_plural_digit — `as`, `a's` —, every other sub-lexer and the
   contraction pass): a non-empty string of lingual characters, or letters + one apostrophe (' or U+2019) + letters,
   is exactly one Word token.  letter_laws = what is_english_lingual excludes; monitored over all scalar values *)
Theorem C06_simple_word_one_word :
  forall u : uni, letter_laws u -> forall w : text, simple_word u w ->
  document_plain u w = Ok [mktok (mkspan 0 (length w)) KWord] /\ one_word u w = true.
Proof. exact (fun u L w S => conj (simple_word_document u L w S) (simple_word_one_word u L w S)). Qed.
Check C06_simple_word_one_word :
  forall u : uni, letter_laws u -> forall w : text, simple_word u w ->
  document_plain u w = Ok [mktok (mkspan 0 (length w)) KWord] /\ one_word u w = true.
Print Assumptions C06_simple_word_one_word.

(* F24 as a theorem over the GENERATED table (Tables_f24.v: the curated entries the implementation does not cut
   into one Word token; the harness re-derives the set in every run and requires equality): the model lexer does
   not cut any of them into exactly one Word token either (vm_compute over the table, lifted with forallb_forall) *)
Theorem C06_f24_entries_not_one_word :
  forall e, In e f24_entries ->
  one_word f24_uni e = false /\ exists ts, document_plain f24_uni e = Ok ts.
Proof. exact f24_entries_not_one_word. Qed.
Check C06_f24_entries_not_one_word :
  forall e, In e f24_entries ->
  one_word f24_uni e = false /\ exists ts, document_plain f24_uni e = Ok ts.
Print Assumptions C06_f24_entries_not_one_word.

(* conversely, no entry of the table is a simple word (the table's Unicode predicates satisfy letter_laws: proved) *)
Theorem C06_f24_entries_not_simple :
  forall e, In e f24_entries -> ~ simple_word f24_uni e.
Proof. exact f24_entries_not_simple. Qed.
Check C06_f24_entries_not_simple :
  forall e, In e f24_entries -> ~ simple_word f24_uni e.
Print Assumptions C06_f24_entries_not_simple.

(* F24 (open) on a text: the premise one_word of C06_one_word_alone_accepted cannot be dropped — the witness of
   C06_multi_token_refuted with the tokens computed by the lexer model *)
Theorem C06_multi_token_text_refuted :
  exists D d e ls,
    dict_nodup ascii_lc ascii_is_lower D /\ In e D /\ dialect_ok (edialect e) d = true /\
    one_word ascii_uni0 (canon e) = false /\
    doc_words ascii_uni0 (canon e) = Ok f24_words /\
    lint_text ascii_uni0 ascii_lc ascii_uc ascii_is_lower ascii_is_upper no_fuzzy D d (canon e) = Ok ls /\ ls <> [].
Proof. exact multi_token_text_refuted. Qed.
Check C06_multi_token_text_refuted :
  exists D d e ls,
    dict_nodup ascii_lc ascii_is_lower D /\ In e D /\ dialect_ok (edialect e) d = true /\
    one_word ascii_uni0 (canon e) = false /\
    doc_words ascii_uni0 (canon e) = Ok f24_words /\
    lint_text ascii_uni0 ascii_lc ascii_uc ascii_is_lower ascii_is_upper no_fuzzy D d (canon e) = Ok ls /\ ls <> [].
Print Assumptions C06_multi_token_text_refuted.

(* ================= phase 4: the extended word class and the table derived from the dictionary SOURCES ================= *)

(* what lex_word really accepts: a letter followed by letters or ASCII digits (MP3, IPv4, Y2K), optionally one
   apostrophe (' or U+2019) and another such word (MP3's) — alone, it is exactly one Word token.  digit_law: an ASCII
   digit is_numeric (lex_plural_digit looks at is_alphanumeric of the character after `Xs`); monitored *)
Theorem C06_alnum_word_one_word :
  forall u : uni, letter_laws u -> digit_law u -> forall w : text, alnum_word u w ->
  document_plain u w = Ok [mktok (mkspan 0 (length w)) KWord] /\ one_word u w = true.
Proof. exact (fun u L Dl w A => conj (alnum_word_document u L Dl w A) (alnum_word_one_word u L Dl w A)). Qed.
Check C06_alnum_word_one_word :
  forall u : uni, letter_laws u -> digit_law u -> forall w : text, alnum_word u w ->
  document_plain u w = Ok [mktok (mkspan 0 (length w)) KWord] /\ one_word u w = true.
Print Assumptions C06_alnum_word_one_word.

(* the class of C06_simple_word_one_word is inside the new one *)
Theorem C06_simple_word_is_alnum_word :
  forall (u : uni) (w : text), simple_word u w -> alnum_word u w.
Proof. exact simple_word_alnum. Qed.
Check C06_simple_word_is_alnum_word :
  forall (u : uni) (w : text), simple_word u w -> alnum_word u w.
Print Assumptions C06_simple_word_is_alnum_word.

(* the converse half of the property for such a word, with NO premise about tokens: written alone, a word of the class
   whose id no entry has draws exactly one lint, covering exactly the word *)
Theorem C06_alnum_word_alone_reported :
  forall (u : uni) (lc uc : char -> list char) (is_lower is_upper : char -> bool) (fuzzy : dict -> text -> nat -> list text),
  letter_laws u -> digit_law u -> (forall c, uc c <> []) -> fuzzy_listed fuzzy ->
  forall D d w, dict_nodup lc is_lower D -> alnum_word u w ->
  (forall e, In e D -> word_id lc is_lower (canon e) <> word_id lc is_lower w) ->
  exists sg, lint_text u lc uc is_lower is_upper fuzzy D d w = Ok [mkslint (mkspan 0 (length w)) sg].
Proof. exact alnum_word_alone_reported. Qed.
Check C06_alnum_word_alone_reported :
  forall (u : uni) (lc uc : char -> list char) (is_lower is_upper : char -> bool) (fuzzy : dict -> text -> nat -> list text),
  letter_laws u -> digit_law u -> (forall c, uc c <> []) -> fuzzy_listed fuzzy ->
  forall D d w, dict_nodup lc is_lower D -> alnum_word u w ->
  (forall e, In e D -> word_id lc is_lower (canon e) <> word_id lc is_lower w) ->
  exists sg, lint_text u lc uc is_lower is_upper fuzzy D d w = Ok [mkslint (mkspan 0 (length w)) sg].
Print Assumptions C06_alnum_word_alone_reported.

(* ... and the positive half: a listed form of the class draws no lint *)
Theorem C06_alnum_word_alone_accepted :
  forall (u : uni) (lc uc : char -> list char) (is_lower is_upper : char -> bool) (fuzzy : dict -> text -> nat -> list text),
  letter_laws u -> digit_law u -> lower_fix lc is_lower ->
  forall D d e w, dict_nodup lc is_lower D -> In e D -> dialect_ok (edialect e) d = true ->
  alnum_word u w ->
  ( w = canon e
    \/ (normalized (canon e) = canon e /\ lower_case lc is_lower (canon e) /\ w = capitalise uc (canon e) /\
        Forall (case_regular lc uc) (firstn 1 (canon e)))
    \/ (normalized (canon e) = canon e /\ lower_case lc is_lower (canon e) /\ w = upper uc (canon e) /\
        Forall (case_regular lc uc) (canon e)) ) ->
  lint_text u lc uc is_lower is_upper fuzzy D d w = Ok [].
Proof. exact alnum_word_alone_accepted. Qed.
Check C06_alnum_word_alone_accepted :
  forall (u : uni) (lc uc : char -> list char) (is_lower is_upper : char -> bool) (fuzzy : dict -> text -> nat -> list text),
  letter_laws u -> digit_law u -> lower_fix lc is_lower ->
  forall D d e w, dict_nodup lc is_lower D -> In e D -> dialect_ok (edialect e) d = true ->
  alnum_word u w ->
  ( w = canon e
    \/ (normalized (canon e) = canon e /\ lower_case lc is_lower (canon e) /\ w = capitalise uc (canon e) /\
        Forall (case_regular lc uc) (firstn 1 (canon e)))
    \/ (normalized (canon e) = canon e /\ lower_case lc is_lower (canon e) /\ w = upper uc (canon e) /\
        Forall (case_regular lc uc) (canon e)) ) ->
  lint_text u lc uc is_lower is_upper fuzzy D d w = Ok [].
Print Assumptions C06_alnum_word_alone_accepted.

(* the F24 table is DERIVED from the dictionary sources: Tables_f24.dict_nonsimple_entries is what the translator's port
   of the affix expansion (tools/tables/_c06dict.py; dictionary.dict + affixes.json) yields after removing the simple
   words; the entries among them that the model lexer does not cut into exactly one Word token are EXACTLY the
   committed table.  A dictionary change that adds or removes a multi-token entry breaks this proof. *)
Theorem C06_f24_table_from_dictionary :
  filter (fun e => negb (one_word f24_uni e)) dict_nonsimple_entries = f24_entries.
Proof. exact f24_table_from_dictionary. Qed.
Check C06_f24_table_from_dictionary :
  filter (fun e => negb (one_word f24_uni e)) dict_nonsimple_entries = f24_entries.
Print Assumptions C06_f24_table_from_dictionary.

(* entry by entry: a non-simple entry of the dictionary is in the F24 table iff the model lexer does not make it one
   Word token; the lexer never panics on one *)
Theorem C06_dict_nonsimple_multi_iff :
  forall e, In e dict_nonsimple_entries ->
  (one_word f24_uni e = false <-> In e f24_entries) /\ exists ts, document_plain f24_uni e = Ok ts.
Proof. exact (fun e H => conj (dict_nonsimple_multi_iff e H) (dict_nonsimple_no_panic e H)). Qed.
Check C06_dict_nonsimple_multi_iff :
  forall e, In e dict_nonsimple_entries ->
  (one_word f24_uni e = false <-> In e f24_entries) /\ exists ts, document_plain f24_uni e = Ok ts.
Print Assumptions C06_dict_nonsimple_multi_iff.

(* the translator's classification is sound: no entry of the derived table is a simple word (simple_word decided by
   simple_wordb, complete under letter_laws, which the table's predicates satisfy); the table has no duplicates *)
Theorem C06_dict_nonsimple_sound :
  (forall e, In e dict_nonsimple_entries -> ~ simple_word f24_uni e) /\
  length dict_nonsimple_entries = dict_nonsimple_count /\ NoDup dict_nonsimple_entries.
Proof. exact (conj dict_nonsimple_sound dict_nonsimple_size). Qed.
Check C06_dict_nonsimple_sound :
  (forall e, In e dict_nonsimple_entries -> ~ simple_word f24_uni e) /\
  length dict_nonsimple_entries = dict_nonsimple_count /\ NoDup dict_nonsimple_entries.
Print Assumptions C06_dict_nonsimple_sound.

(* non-vacuity: the new premise holds for the ASCII predicates and for the table's; MP3, IPv4, MP3's, MP3’s are words of
   the class (and entries of the derived table, one Word token); 3D and socio-political are not one token; N.S.A. is one
   token without being in the class (dotted initialisms are outside the characterisation) *)
Example C06_nonvacuous_alnum :
  digit_law ascii_uni0 /\ digit_law f24_uni /\
  alnum_word ascii_uni0 [77;80;51]%N /\ alnum_word ascii_uni0 [73;80;118;52]%N /\
  alnum_word ascii_uni0 [77;80;51;39;115]%N /\ alnum_word ascii_uni0 [77;80;51;8217;115]%N /\
  In [77;80;51]%N dict_nonsimple_entries /\ In [77;80;51;39;115]%N dict_nonsimple_entries /\
  one_word f24_uni [77;80;51]%N = true /\ ~ In [77;80;51]%N f24_entries /\
  In [51;68]%N dict_nonsimple_entries /\ one_word f24_uni [51;68]%N = false /\
  alnum_wordb f24_uni [78;46;83;46;65;46]%N = false /\ one_word f24_uni [78;46;83;46;65;46]%N = true /\
  In [78;46;83;46;65;46]%N dict_nonsimple_entries.
Proof.
  split; [exact ascii_digit_law|]. split; [exact f24_digit_law|].
  split; [apply alnum_wordb_sound; vm_compute; reflexivity|].
  split; [apply alnum_wordb_sound; vm_compute; reflexivity|].
  split; [apply alnum_wordb_sound; vm_compute; reflexivity|].
  split; [apply alnum_wordb_sound; vm_compute; reflexivity|].
  split; [apply mem_text_In; vm_compute; reflexivity|]. split; [apply mem_text_In; vm_compute; reflexivity|].
  split; [vm_compute; reflexivity|].
  split; [apply dict_alnum_not_f24; vm_compute; reflexivity|].
  split; [apply mem_text_In; vm_compute; reflexivity|]. split; [vm_compute; reflexivity|].
  split; [vm_compute; reflexivity|]. split; [vm_compute; reflexivity|]. apply mem_text_In; vm_compute; reflexivity.
Qed.

(* dictionary {MP3}: `MP3` alone draws no lint, `MP4` alone exactly one lint at [0,3) *)
Example C06_nonvacuous_alnum_alone :
  let D := [mkentry [77;80;51]%N None] in
  dict_nodup ascii_lc ascii_is_lower D /\
  lint_text ascii_uni0 ascii_lc ascii_uc ascii_is_lower ascii_is_upper no_fuzzy D American [77;80;51]%N = Ok [] /\
  lint_text ascii_uni0 ascii_lc ascii_uc ascii_is_lower ascii_is_upper no_fuzzy D American [77;80;52]%N
    = Ok [mkslint (mkspan 0 3) []].
Proof.
  cbv zeta. split; [unfold dict_nodup; vm_compute; repeat constructor; cbn; intuition discriminate|].
  split; vm_compute; reflexivity.
Qed.

(* ---------- non-vacuity of the second half ---------- *)
Example C06_letter_laws_satisfiable : letter_laws ascii_uni0 /\ letter_laws f24_uni.
Proof. exact (conj ascii_letter_laws f24_letter_laws). Qed.

(* hello, don't, don’t (U+2019), a's (glued by lex_plural_digit), as: simple words, hence one Word token; the table
   is not empty: e.g. 3D (Number + Word) *)
Example C06_nonvacuous_words :
  simple_word ascii_uni0 [104;101;108;108;111]%N /\
  simple_word ascii_uni0 [100;111;110;39;116]%N /\
  simple_word ascii_uni0 [100;111;110;8217;116]%N /\
  simple_word ascii_uni0 [97;39;115]%N /\
  one_word ascii_uni0 [97;39;115]%N = true /\ one_word ascii_uni0 [97;115]%N = true /\
  one_word ascii_uni0 [51;68]%N = false /\ In [51;68]%N f24_entries /\ length f24_entries = 579.
Proof.
  split; [left; split; [discriminate|reflexivity]|].
  split; [right; exists [100;111;110]%N, 39%N, [116]%N; repeat split; discriminate|].
  split; [right; exists [100;111;110]%N, 8217%N, [116]%N; repeat split; discriminate|].
  split; [right; exists [97]%N, 39%N, [115]%N; repeat split; discriminate|].
  repeat split; try (vm_compute; reflexivity). left; reflexivity.
Qed.

(* dictionary {hello, don't}: `Hello` and `don’t` alone draw no lint, `helo` alone draws one lint at [0,4) *)
Example C06_nonvacuous_alone :
  let hello := [104;101;108;108;111]%N in
  let dont := [100;111;110;39;116]%N in
  let D := [mkentry hello None; mkentry dont None] in
  dict_nodup ascii_lc ascii_is_lower D /\
  one_word ascii_uni0 [72;101;108;108;111]%N = true /\
  lint_text ascii_uni0 ascii_lc ascii_uc ascii_is_lower ascii_is_upper no_fuzzy D American [72;101;108;108;111]%N = Ok [] /\
  lint_text ascii_uni0 ascii_lc ascii_uc ascii_is_lower ascii_is_upper no_fuzzy D American [100;111;110;8217;116]%N = Ok [] /\
  lint_text ascii_uni0 ascii_lc ascii_uc ascii_is_lower ascii_is_upper no_fuzzy D American [104;101;108;111]%N
    = Ok [mkslint (mkspan 0 4) []].
Proof.
  cbv zeta. split; [unfold dict_nodup; vm_compute; repeat constructor; cbn; intuition discriminate|].
  repeat split; vm_compute; reflexivity.
Qed.

(* ---------- non-vacuity: the hypotheses are satisfiable on non-trivial inputs (ASCII instance) ---------- *)
Example C06_hypotheses_satisfiable :
  lower_fix ascii_lc ascii_is_lower /\ (forall c, ascii_uc c <> []) /\ fuzzy_listed no_fuzzy.
Proof. exact (conj ascii_lower_fix (conj ascii_uc_nonempty no_fuzzy_listed)). Qed.

(* dictionary {hello, Polish, colour(British), don't}; text "Hello HELLO polish colour Don’t zzz" under American:
   Hello/HELLO accepted (lower-case entry), polish reported (entry is capitalised), colour reported (other
   dialect), Don’t accepted (curly apostrophe normalised), zzz reported (unlisted) *)
Example C06_nonvacuous :
  let hello := [104;101;108;108;111]%N in
  let polish := [80;111;108;105;115;104]%N in
  let colour := [99;111;108;111;117;114]%N in
  let dont := [100;111;110;39;116]%N in
  let D := [mkentry hello None; mkentry polish None; mkentry colour (Some British); mkentry dont None] in
  let src := ([72;101;108;108;111;32; 72;69;76;76;79;32; 112;111;108;105;115;104;32; 99;111;108;111;117;114;32;
               68;111;110;8217;116;32; 122;122;122])%N in
  let words := [mkspan 0 5; mkspan 6 11; mkspan 12 18; mkspan 19 25; mkspan 26 31; mkspan 32 35] in
  dict_nodup ascii_lc ascii_is_lower D /\
  Forall (case_regular ascii_lc ascii_uc) hello /\ lower_case ascii_lc ascii_is_lower hello /\
  upper ascii_uc hello = [72;69;76;76;79]%N /\ capitalise ascii_uc hello = [72;101;108;108;111]%N /\
  lint_doc ascii_lc ascii_uc ascii_is_lower ascii_is_upper no_fuzzy D American src words
    = Ok [mkslint (mkspan 12 18) []; mkslint (mkspan 19 25) []; mkslint (mkspan 32 35) []] /\
  lint_doc ascii_lc ascii_uc ascii_is_lower ascii_is_upper no_fuzzy D British src words
    = Ok [mkslint (mkspan 12 18) []; mkslint (mkspan 32 35) []].
Proof.
  cbv zeta. split; [unfold dict_nodup; vm_compute; repeat constructor; cbn; intuition discriminate|].
  split; [repeat constructor|]. repeat split; vm_compute; reflexivity.
Qed.

(* suggestions: the fuzzy search returns entries; the other-dialect one is filtered out, the rest are
   capitalised because the word is *)
Example C06_nonvacuous_suggestions :
  let color := [99;111;108;111;114]%N in
  let colour := [99;111;108;111;117;114]%N in
  let cold := [99;111;108;100]%N in
  let D := [mkentry color (Some American); mkentry colour (Some British); mkentry cold None] in
  let fz := fun (D' : dict) (_ : text) (k : nat) =>
              if k =? 3 then filter (fun s => existsb (fun e => text_eqb (canon e) s) D') [colour; color; cold] else [] in
  fuzzy_listed fz /\
  lint_doc ascii_lc ascii_uc ascii_is_lower ascii_is_upper fz D British [67;111;108;111;111]%N [mkspan 0 5]
    = Ok [mkslint (mkspan 0 5) [[67;111;108;111;117;114]%N; [67;111;108;100]%N]].
Proof.
  cbv zeta. split; [|vm_compute; reflexivity].
  intros D' w k s. destruct (k =? 3); [|intros []].
  intros H. apply filter_In in H as [_ H]. apply existsb_exists in H as (e & He & Heq).
  apply text_eqb_eq in Heq. eauto.
Qed.

(* an entry stored with a typographic apostrophe (blorf’s, U+2019) is a map entry that matches itself exactly and
   is accepted as written — the clause `w = canon e` of C06_listed_accepted has no normalisation premise; with the
   comparison of before ebb53b3 (contains_exact_word_old, history) it did not match *)
Example C06_nonvacuous_curly_entry :
  let D := [mkentry w_blorfs_curly None] in
  dict_nodup ascii_lc ascii_is_lower D /\
  contains_exact_word_old ascii_lc ascii_is_lower D w_blorfs_curly = false /\
  contains_exact_word ascii_lc ascii_is_lower D w_blorfs_curly = true /\
  accepts ascii_lc ascii_is_lower D American w_blorfs_curly = true.
Proof. exact exact_old_rejects_own_entry. Qed.

(* ================= phase 5: C06 INSIDE A SENTENCE — no premise about tokens ================= *)
(* The class (Model/C06Sentence.v): a list of items — SWord w (a letter followed by letters / ASCII digits), SSpace n (n >= 1
   blanks), SPunct c (one punctuation character Punctuation::from_char knows, except . : @ [ ' U+2019 and the quote
   characters) — with no two words and no two blank runs adjacent.  For such a text the token vector of
   Document::new_plain_english is known: one token per item (every sub-lexer of lex_token is followed; every pass of
   Document::parse is the identity), so the Word tokens are exactly the word items at their offsets. *)
Theorem C06_sentence_tokens :
  forall u : uni, letter_laws u -> digit_law u -> forall its : list sitem, sent_ok u its = true ->
  document_plain u (sent_text its) = Ok (sent_tokens 0 its) /\ doc_words u (sent_text its) = Ok (sent_words 0 its).
Proof. exact (fun u L Dl its H => conj (sent_document u L Dl its H) (sent_doc_words u L Dl its H)). Qed.
Check C06_sentence_tokens :
  forall u : uni, letter_laws u -> digit_law u -> forall its : list sitem, sent_ok u its = true ->
  document_plain u (sent_text its) = Ok (sent_tokens 0 its) /\ doc_words u (sent_text its) = Ok (sent_words 0 its).
Print Assumptions C06_sentence_tokens.

(* the passes, for ANY token vector (not only a sentence's): a tiling whose kinds are Word / Space / punctuation other than
   period, apostrophe and quote, without two adjacent Space tokens, leaves Document::parse's passes unchanged.  No Unicode
   law is needed: each merging rule needs a Space pair, a Newline, a Number, an apostrophe or a period (C02's Grouped
   characterisations of the passes) *)
Theorem C06_passes_identity :
  forall (src : text) (ts : list token), Tiling 0 (length src) ts -> simple_toks ts -> no_adj_spaces ts ->
  document_passes src ts = Ok ts.
Proof. exact passes_identity. Qed.
Check C06_passes_identity :
  forall (src : text) (ts : list token), Tiling 0 (length src) ts -> simple_toks ts -> no_adj_spaces ts ->
  document_passes src ts = Ok ts.
Print Assumptions C06_passes_identity.

(* converse half inside a sentence: a word item whose id no entry has is reported, the lint covering exactly the word
   (word_at pre w = [ |text of pre| , |text of pre| + |w| ) ) *)
Theorem C06_sentence_unlisted_reported :
  forall (u : uni) (lc uc : char -> list char) (is_lower is_upper : char -> bool) (fuzzy : dict -> text -> nat -> list text),
  letter_laws u -> digit_law u -> (forall c, uc c <> []) -> fuzzy_listed fuzzy ->
  forall D d pre w post, dict_nodup lc is_lower D -> sent_ok u (pre ++ SWord w :: post) = true ->
  (forall e, In e D -> word_id lc is_lower (canon e) <> word_id lc is_lower w) ->
  exists ls sg, lint_text u lc uc is_lower is_upper fuzzy D d (sent_text (pre ++ SWord w :: post)) = Ok ls /\
                In (mkslint (word_at pre w) sg) ls.
Proof. exact sentence_unlisted_reported. Qed.
Check C06_sentence_unlisted_reported :
  forall (u : uni) (lc uc : char -> list char) (is_lower is_upper : char -> bool) (fuzzy : dict -> text -> nat -> list text),
  letter_laws u -> digit_law u -> (forall c, uc c <> []) -> fuzzy_listed fuzzy ->
  forall D d pre w post, dict_nodup lc is_lower D -> sent_ok u (pre ++ SWord w :: post) = true ->
  (forall e, In e D -> word_id lc is_lower (canon e) <> word_id lc is_lower w) ->
  exists ls sg, lint_text u lc uc is_lower is_upper fuzzy D d (sent_text (pre ++ SWord w :: post)) = Ok ls /\
                In (mkslint (word_at pre w) sg) ls.
Print Assumptions C06_sentence_unlisted_reported.

(* positive half inside a sentence: no lint has the span of a word item spelt like a listed form *)
Theorem C06_sentence_listed_accepted :
  forall (u : uni) (lc uc : char -> list char) (is_lower is_upper : char -> bool) (fuzzy : dict -> text -> nat -> list text),
  letter_laws u -> digit_law u -> lower_fix lc is_lower ->
  forall D d e pre w post ls, dict_nodup lc is_lower D -> In e D -> dialect_ok (edialect e) d = true ->
  sent_ok u (pre ++ SWord w :: post) = true ->
  ( w = canon e
    \/ (normalized (canon e) = canon e /\ lower_case lc is_lower (canon e) /\ w = capitalise uc (canon e) /\
        Forall (case_regular lc uc) (firstn 1 (canon e)))
    \/ (normalized (canon e) = canon e /\ lower_case lc is_lower (canon e) /\ w = upper uc (canon e) /\
        Forall (case_regular lc uc) (canon e)) ) ->
  lint_text u lc uc is_lower is_upper fuzzy D d (sent_text (pre ++ SWord w :: post)) = Ok ls ->
  forall l, In l ls -> sl_span l <> word_at pre w.
Proof. exact sentence_listed_accepted. Qed.
Check C06_sentence_listed_accepted :
  forall (u : uni) (lc uc : char -> list char) (is_lower is_upper : char -> bool) (fuzzy : dict -> text -> nat -> list text),
  letter_laws u -> digit_law u -> lower_fix lc is_lower ->
  forall D d e pre w post ls, dict_nodup lc is_lower D -> In e D -> dialect_ok (edialect e) d = true ->
  sent_ok u (pre ++ SWord w :: post) = true ->
  ( w = canon e
    \/ (normalized (canon e) = canon e /\ lower_case lc is_lower (canon e) /\ w = capitalise uc (canon e) /\
        Forall (case_regular lc uc) (firstn 1 (canon e)))
    \/ (normalized (canon e) = canon e /\ lower_case lc is_lower (canon e) /\ w = upper uc (canon e) /\
        Forall (case_regular lc uc) (canon e)) ) ->
  lint_text u lc uc is_lower is_upper fuzzy D d (sent_text (pre ++ SWord w :: post)) = Ok ls ->
  forall l, In l ls -> sl_span l <> word_at pre w.
Print Assumptions C06_sentence_listed_accepted.

(* every lint of such a sentence covers exactly one of its word items (nothing else is ever reported) *)
Theorem C06_sentence_lints_on_words :
  forall (u : uni) (lc uc : char -> list char) (is_lower is_upper : char -> bool) (fuzzy : dict -> text -> nat -> list text),
  letter_laws u -> digit_law u -> fuzzy_listed fuzzy ->
  forall D d its ls l, dict_nodup lc is_lower D -> sent_ok u its = true ->
  lint_text u lc uc is_lower is_upper fuzzy D d (sent_text its) = Ok ls -> In l ls ->
  exists pre w post, its = pre ++ SWord w :: post /\ sl_span l = word_at pre w.
Proof. exact sentence_lints_on_words. Qed.
Check C06_sentence_lints_on_words :
  forall (u : uni) (lc uc : char -> list char) (is_lower is_upper : char -> bool) (fuzzy : dict -> text -> nat -> list text),
  letter_laws u -> digit_law u -> fuzzy_listed fuzzy ->
  forall D d its ls l, dict_nodup lc is_lower D -> sent_ok u its = true ->
  lint_text u lc uc is_lower is_upper fuzzy D d (sent_text its) = Ok ls -> In l ls ->
  exists pre w post, its = pre ++ SWord w :: post /\ sl_span l = word_at pre w.
Print Assumptions C06_sentence_lints_on_words.

(* F24 in general form (the hyphen / blank / slash shapes of the table: 546 of its 579 entries): a LISTED entry that is
   a sentence of two or more items is never one Word token, and a part of it whose id no entry has is reported although
   the entry is listed.  C06_multi_token_text_refuted is the instance socio-political. *)
Theorem C06_compound_entry_reported :
  forall (u : uni) (lc uc : char -> list char) (is_lower is_upper : char -> bool) (fuzzy : dict -> text -> nat -> list text),
  letter_laws u -> digit_law u -> (forall c, uc c <> []) -> fuzzy_listed fuzzy ->
  forall D d e pre w post, dict_nodup lc is_lower D -> In e D -> canon e = sent_text (pre ++ SWord w :: post) ->
  sent_ok u (pre ++ SWord w :: post) = true -> 2 <= length (pre ++ SWord w :: post) ->
  (forall e', In e' D -> word_id lc is_lower (canon e') <> word_id lc is_lower w) ->
  one_word u (canon e) = false /\
  exists ls sg, lint_text u lc uc is_lower is_upper fuzzy D d (canon e) = Ok ls /\ In (mkslint (word_at pre w) sg) ls.
Proof. exact compound_entry_reported. Qed.
Check C06_compound_entry_reported :
  forall (u : uni) (lc uc : char -> list char) (is_lower is_upper : char -> bool) (fuzzy : dict -> text -> nat -> list text),
  letter_laws u -> digit_law u -> (forall c, uc c <> []) -> fuzzy_listed fuzzy ->
  forall D d e pre w post, dict_nodup lc is_lower D -> In e D -> canon e = sent_text (pre ++ SWord w :: post) ->
  sent_ok u (pre ++ SWord w :: post) = true -> 2 <= length (pre ++ SWord w :: post) ->
  (forall e', In e' D -> word_id lc is_lower (canon e') <> word_id lc is_lower w) ->
  one_word u (canon e) = false /\
  exists ls sg, lint_text u lc uc is_lower is_upper fuzzy D d (canon e) = Ok ls /\ In (mkslint (word_at pre w) sg) ls.
Print Assumptions C06_compound_entry_reported.

(* non-vacuity: `Hello, MP3-player (helo)!` is a sentence of the class (ASCII predicates); its tokens are its 10 items, its
   Word tokens the four words; with the dictionary {hello, MP3, player} exactly `helo` is reported, at [19,23);
   the F24 witness socio-political is a sentence of three items *)
Example C06_nonvacuous_sentence :
  let its := [SWord [72;101;108;108;111]; SPunct 44; SSpace 1; SWord [77;80;51]; SPunct 45;
              SWord [112;108;97;121;101;114]; SSpace 1; SPunct 40; SWord [104;101;108;111]; SPunct 41; SPunct 33]%N in
  let D := [mkentry [104;101;108;108;111]%N None; mkentry [77;80;51]%N None; mkentry [112;108;97;121;101;114]%N None] in
  sent_ok ascii_uni0 its = true /\
  sent_words 0 its = [mkspan 0 5; mkspan 7 10; mkspan 11 17; mkspan 19 23] /\
  doc_words ascii_uni0 (sent_text its) = Ok (sent_words 0 its) /\
  dict_nodup ascii_lc ascii_is_lower D /\
  lint_text ascii_uni0 ascii_lc ascii_uc ascii_is_lower ascii_is_upper no_fuzzy D American (sent_text its)
    = Ok [mkslint (mkspan 19 23) []] /\
  sent_ok ascii_uni0 [SWord [115;111;99;105;111]; SPunct 45; SWord [112;111;108;105;116;105;99;97;108]]%N = true /\
  sent_text [SWord [115;111;99;105;111]; SPunct 45; SWord [112;111;108;105;116;105;99;97;108]]%N = w_socio_political.
Proof.
  cbv zeta. split; [vm_compute; reflexivity|]. split; [vm_compute; reflexivity|].
  split; [apply (sent_doc_words ascii_uni0 ascii_letter_laws ascii_digit_law); vm_compute; reflexivity|].
  split; [unfold dict_nodup; vm_compute; repeat constructor; cbn; intuition discriminate|].
  repeat split; vm_compute; reflexivity.
Qed.

(* ================= phase 5: the one-token entries outside the alnum class (13 on the pinned tree) ================= *)
(* every entry of the DERIVED table that the model lexer makes one Word token is an alnum word (C06_alnum_word_one_word) or
   lies in exactly one of four decidable shape classes: digit + s (0s 1s), word ' letter 's (Baha'i's Shari'a's), dotted
   initialism (N.S.A. a.m. e.g. i.e. p.m. s.t.), etc. / vs. / et al.  vm_compute over the table; re-checked when the dictionary
   changes.  (Partial as a characterisation: only the first class has a general one-token theorem, below; for the other
   three the one-token fact is the table-level C06_dict_nonsimple_multi_iff.) *)
Theorem C06_table_only_shapes_classified :
  (forall e, In e dict_nonsimple_entries -> one_word f24_uni e = true ->
     alnum_word f24_uni e \/ shape_count f24_uni e = 1) /\
  map (fun p => length (filter p table_only_entries))
      [digit_plural; double_apostrophe f24_uni; dotted_initialism f24_uni; latin_abbrev] = [2; 2; 6; 3] /\
  length table_only_entries = 13.
Proof. exact (conj shapes_classified (proj2 shapes_check)). Qed.
Check C06_table_only_shapes_classified :
  (forall e, In e dict_nonsimple_entries -> one_word f24_uni e = true ->
     alnum_word f24_uni e \/ shape_count f24_uni e = 1) /\
  map (fun p => length (filter p table_only_entries))
      [digit_plural; double_apostrophe f24_uni; dotted_initialism f24_uni; latin_abbrev] = [2; 2; 6; 3] /\
  length table_only_entries = 13.
Print Assumptions C06_table_only_shapes_classified.

(* an ASCII digit followed by `s` is exactly one Word token — for EVERY instantiation of the Unicode predicates (no law
   needed: lex_plural_digit answers before any predicate is asked) *)
Theorem C06_digit_plural_one_word :
  forall (u : uni) (w : text), digit_plural w = true ->
  document_plain u w = Ok [mktok (mkspan 0 (length w)) KWord] /\ one_word u w = true.
Proof. exact digit_plural_document. Qed.
Check C06_digit_plural_one_word :
  forall (u : uni) (w : text), digit_plural w = true ->
  document_plain u w = Ok [mktok (mkspan 0 (length w)) KWord] /\ one_word u w = true.
Print Assumptions C06_digit_plural_one_word.

(* non-vacuity: 0s is of the class and a dictionary entry; the classes are inhabited by the entries named above *)
Example C06_nonvacuous_shapes :
  digit_plural [48;115]%N = true /\ In [48;115]%N dict_nonsimple_entries /\
  double_apostrophe f24_uni [66;97;104;97;39;105;39;115]%N = true /\
  dotted_initialism f24_uni [78;46;83;46;65;46]%N = true /\ latin_abbrev [101;116;32;97;108;46]%N = true /\
  shape_count f24_uni [77;80;51]%N = 0.
Proof. repeat split; try (vm_compute; reflexivity). apply mem_text_In; vm_compute; reflexivity. Qed.

(* ================= phase 6, step 1: a sentence-FINAL PERIOD ================= *)
(* The class (Model/C06SentenceDot.v): a sentence of the class of phase 5 followed by one `.` as the last character of the
   text (`!` and `?` are separator punctuation of phase 5 already), where the last item, when it is a word, is none of the
   words condense_latin looks for in front of a period — etc, vs, al in any capitalisation (last_word_ok; decidable, on the
   TEXT).  Then Document::new_plain_english yields one token per item and one Period token; the Word tokens are the word
   items.  New in the proof: the dispatch lemma for a text whose only `.` is its last character (lex_hostname_token searches
   the `.` in a slice that excludes the last scanned character), lex_plural_digit / lex_word in front of `.`, and the passes:
   the dotted-initialism rule and the ellipsis rule need two periods, condense_latin the excluded words. *)
Theorem C06_sentence_period_tokens :
  forall u : uni, letter_laws u -> digit_law u -> forall its : list sitem, sentp_ok u its = true ->
  document_plain u (sentp_text its) = Ok (sentp_tokens its) /\ doc_words u (sentp_text its) = Ok (sent_words 0 its).
Proof. exact (fun u L Dl its H => conj (sentp_document u L Dl its H) (sentp_doc_words u L Dl its H)). Qed.
Check C06_sentence_period_tokens :
  forall u : uni, letter_laws u -> digit_law u -> forall its : list sitem, sentp_ok u its = true ->
  document_plain u (sentp_text its) = Ok (sentp_tokens its) /\ doc_words u (sentp_text its) = Ok (sent_words 0 its).
Print Assumptions C06_sentence_period_tokens.

(* the passes, for ANY token vector  ts0 ++ [Period]  with ts0 as in C06_passes_identity: Document::parse's passes change
   nothing unless the token before the period is a Word whose text condense_latin matches (latin_hit: etc / vs, or a
   two-character word that is `al` up to ASCII case).  No Unicode law. *)
Theorem C06_passes_identity_period :
  forall (src : text) (ts0 : list token) (p : token), Tiling 0 (length src) (ts0 ++ [p]) -> simple_toks ts0 ->
  no_adj_spaces ts0 -> is_period (tkind_of p) = true ->
  (forall ts1 w, ts0 = ts1 ++ [w] -> is_word (tkind_of w) = true -> latin_hit src w = false) ->
  document_passes src (ts0 ++ [p]) = Ok (ts0 ++ [p]).
Proof. exact passes_identity_dot. Qed.
Check C06_passes_identity_period :
  forall (src : text) (ts0 : list token) (p : token), Tiling 0 (length src) (ts0 ++ [p]) -> simple_toks ts0 ->
  no_adj_spaces ts0 -> is_period (tkind_of p) = true ->
  (forall ts1 w, ts0 = ts1 ++ [w] -> is_word (tkind_of w) = true -> latin_hit src w = false) ->
  document_passes src (ts0 ++ [p]) = Ok (ts0 ++ [p]).
Print Assumptions C06_passes_identity_period.

(* converse half in a sentence that ends with a period: a word item whose id no entry has is reported with exactly its span *)
Theorem C06_sentence_period_unlisted_reported :
  forall (u : uni) (lc uc : char -> list char) (is_lower is_upper : char -> bool) (fuzzy : dict -> text -> nat -> list text),
  letter_laws u -> digit_law u -> (forall c, uc c <> []) -> fuzzy_listed fuzzy ->
  forall D d pre w post, dict_nodup lc is_lower D -> sentp_ok u (pre ++ SWord w :: post) = true ->
  (forall e, In e D -> word_id lc is_lower (canon e) <> word_id lc is_lower w) ->
  exists ls sg, lint_text u lc uc is_lower is_upper fuzzy D d (sentp_text (pre ++ SWord w :: post)) = Ok ls /\
                In (mkslint (word_at pre w) sg) ls.
Proof. exact sentp_unlisted_reported. Qed.
Check C06_sentence_period_unlisted_reported :
  forall (u : uni) (lc uc : char -> list char) (is_lower is_upper : char -> bool) (fuzzy : dict -> text -> nat -> list text),
  letter_laws u -> digit_law u -> (forall c, uc c <> []) -> fuzzy_listed fuzzy ->
  forall D d pre w post, dict_nodup lc is_lower D -> sentp_ok u (pre ++ SWord w :: post) = true ->
  (forall e, In e D -> word_id lc is_lower (canon e) <> word_id lc is_lower w) ->
  exists ls sg, lint_text u lc uc is_lower is_upper fuzzy D d (sentp_text (pre ++ SWord w :: post)) = Ok ls /\
                In (mkslint (word_at pre w) sg) ls.
Print Assumptions C06_sentence_period_unlisted_reported.

(* positive half: no lint has the span of a word item spelt like a listed form *)
Theorem C06_sentence_period_listed_accepted :
  forall (u : uni) (lc uc : char -> list char) (is_lower is_upper : char -> bool) (fuzzy : dict -> text -> nat -> list text),
  letter_laws u -> digit_law u -> lower_fix lc is_lower ->
  forall D d e pre w post ls, dict_nodup lc is_lower D -> In e D -> dialect_ok (edialect e) d = true ->
  sentp_ok u (pre ++ SWord w :: post) = true ->
  ( w = canon e
    \/ (normalized (canon e) = canon e /\ lower_case lc is_lower (canon e) /\ w = capitalise uc (canon e) /\
        Forall (case_regular lc uc) (firstn 1 (canon e)))
    \/ (normalized (canon e) = canon e /\ lower_case lc is_lower (canon e) /\ w = upper uc (canon e) /\
        Forall (case_regular lc uc) (canon e)) ) ->
  lint_text u lc uc is_lower is_upper fuzzy D d (sentp_text (pre ++ SWord w :: post)) = Ok ls ->
  forall l, In l ls -> sl_span l <> word_at pre w.
Proof. exact sentp_listed_accepted. Qed.
Check C06_sentence_period_listed_accepted :
  forall (u : uni) (lc uc : char -> list char) (is_lower is_upper : char -> bool) (fuzzy : dict -> text -> nat -> list text),
  letter_laws u -> digit_law u -> lower_fix lc is_lower ->
  forall D d e pre w post ls, dict_nodup lc is_lower D -> In e D -> dialect_ok (edialect e) d = true ->
  sentp_ok u (pre ++ SWord w :: post) = true ->
  ( w = canon e
    \/ (normalized (canon e) = canon e /\ lower_case lc is_lower (canon e) /\ w = capitalise uc (canon e) /\
        Forall (case_regular lc uc) (firstn 1 (canon e)))
    \/ (normalized (canon e) = canon e /\ lower_case lc is_lower (canon e) /\ w = upper uc (canon e) /\
        Forall (case_regular lc uc) (canon e)) ) ->
  lint_text u lc uc is_lower is_upper fuzzy D d (sentp_text (pre ++ SWord w :: post)) = Ok ls ->
  forall l, In l ls -> sl_span l <> word_at pre w.
Print Assumptions C06_sentence_period_listed_accepted.

(* every lint of such a sentence covers exactly one of its word items (the period is never reported) *)
Theorem C06_sentence_period_lints_on_words :
  forall (u : uni) (lc uc : char -> list char) (is_lower is_upper : char -> bool) (fuzzy : dict -> text -> nat -> list text),
  letter_laws u -> digit_law u -> fuzzy_listed fuzzy ->
  forall D d its ls l, dict_nodup lc is_lower D -> sentp_ok u its = true ->
  lint_text u lc uc is_lower is_upper fuzzy D d (sentp_text its) = Ok ls -> In l ls ->
  exists pre w post, its = pre ++ SWord w :: post /\ sl_span l = word_at pre w.
Proof. exact sentp_lints_on_words. Qed.
Check C06_sentence_period_lints_on_words :
  forall (u : uni) (lc uc : char -> list char) (is_lower is_upper : char -> bool) (fuzzy : dict -> text -> nat -> list text),
  letter_laws u -> digit_law u -> fuzzy_listed fuzzy ->
  forall D d its ls l, dict_nodup lc is_lower D -> sentp_ok u its = true ->
  lint_text u lc uc is_lower is_upper fuzzy D d (sentp_text its) = Ok ls -> In l ls ->
  exists pre w post, its = pre ++ SWord w :: post /\ sl_span l = word_at pre w.
Print Assumptions C06_sentence_period_lints_on_words.

(* non-vacuity: `Hello, helo.` is a sentence of the extended class (5 tokens, Word tokens [0,5) [7,11)); with {hello} exactly
   `helo` is reported; the side condition is needed: `etc.` alone is ONE Word token [0,4) (condense_latin), so the word
   item `etc` is not a Word token of its own — and last_word_ok rejects it *)
Example C06_nonvacuous_sentence_period :
  let its := [SWord [72;101;108;108;111]; SPunct 44; SSpace 1; SWord [104;101;108;111]]%N in
  let D := [mkentry [104;101;108;108;111]%N None] in
  sentp_ok ascii_uni0 its = true /\
  map tspan (sentp_tokens its) = [mkspan 0 5; mkspan 5 6; mkspan 6 7; mkspan 7 11; mkspan 11 12] /\
  doc_words ascii_uni0 (sentp_text its) = Ok [mkspan 0 5; mkspan 7 11] /\
  dict_nodup ascii_lc ascii_is_lower D /\
  lint_text ascii_uni0 ascii_lc ascii_uc ascii_is_lower ascii_is_upper no_fuzzy D American (sentp_text its)
    = Ok [mkslint (mkspan 7 11) []] /\
  sentp_ok ascii_uni0 [SWord [101;116;99]%N] = false /\ sent_ok ascii_uni0 [SWord [101;116;99]%N] = true /\
  doc_words ascii_uni0 (sentp_text [SWord [101;116;99]%N]) = Ok [mkspan 0 4] /\
  sentp_ok ascii_uni0 [SWord [101;116]; SSpace 1; SWord [65;76]]%N = false.
Proof.
  cbv zeta. split; [vm_compute; reflexivity|]. split; [vm_compute; reflexivity|].
  split; [apply (sentp_doc_words ascii_uni0 ascii_letter_laws ascii_digit_law); vm_compute; reflexivity|].
  split; [unfold dict_nodup; vm_compute; repeat constructor; cbn; intuition discriminate|].
  repeat split; vm_compute; reflexivity.
Qed.

(* ================= phase 6, step 2: CONTRACTIONS inside a sentence ================= *)
(* C02's theorems say that the output of condense_pattern is SOME grouping of the input into single tokens and matches; that
   a match IS merged needs a functional characterisation (Proofs/C06CondFun.v), for any matcher: when the matches fam_scan
   finds form a chain (sorted, pairwise disjoint, inside the vector), find_all_matches drops none of them and
   condense_pattern returns `regroup`: each match replaced by one token over its hull, kind = edit (kind of its first token) *)
Theorem C06_condense_pattern_functional :
  forall (edit : tkind -> tkind) (ts : list token) (a b : nat), Tiling a b ts ->
  forall (m : list token -> res nat) (found : list span),
  fam_scan m ts 0 = Ok found -> Chain (length ts) 0 found ->
  condense_pattern m edit ts = Ok (regroup edit 0 found ts).
Proof. exact condense_pattern_fun. Qed.
Check C06_condense_pattern_functional :
  forall (edit : tkind -> tkind) (ts : list token) (a b : nat), Tiling a b ts ->
  forall (m : list token -> res nat) (found : list span),
  fam_scan m ts 0 = Ok found -> Chain (length ts) 0 found ->
  condense_pattern m edit ts = Ok (regroup edit 0 found ts).
Print Assumptions C06_condense_pattern_functional.

(* The class (Model/C06SentenceContr.v): word items, CONTRACTIONS  w1 q w2  (w1, w2 words of phase 5, q = ' or U+2019; not the
   shape <one character> ' s, which lex_plural_digit glues in the lexer), blank runs, separator punctuation; no two word-like
   items and no two blank runs adjacent.  `expand cs` is the text as the lexer cuts it (Word Apostrophe Word), `collapse cs` the
   items after condense_contractions (one word item  w1 q w2).  The token vector of Document::new_plain_english is one
   token per collapsed item: every Word ' Word is merged, nothing else changes. *)
Theorem C06_sentence_contraction_tokens :
  forall u : uni, letter_laws u -> digit_law u -> forall cs : list citem, sentc_ok u cs = true ->
  document_plain u (sent_text (expand cs)) = Ok (sent_tokens 0 (collapse cs)) /\
  doc_words u (sent_text (expand cs)) = Ok (sent_words 0 (collapse cs)) /\
  sent_text (collapse cs) = sent_text (expand cs).
Proof. exact (fun u L Dl cs H => conj (sentc_document u L Dl cs H) (conj (sentc_doc_words u L Dl cs H) (collapse_text cs))). Qed.
Check C06_sentence_contraction_tokens :
  forall u : uni, letter_laws u -> digit_law u -> forall cs : list citem, sentc_ok u cs = true ->
  document_plain u (sent_text (expand cs)) = Ok (sent_tokens 0 (collapse cs)) /\
  doc_words u (sent_text (expand cs)) = Ok (sent_words 0 (collapse cs)) /\
  sent_text (collapse cs) = sent_text (expand cs).
Print Assumptions C06_sentence_contraction_tokens.

(* converse half: a word or contraction of such a sentence (an item w of collapse cs) whose id no entry has is reported with
   exactly its span — e.g. `dosn't` at [|pre|, |pre|+6) *)
Theorem C06_sentence_contraction_unlisted_reported :
  forall (u : uni) (lc uc : char -> list char) (is_lower is_upper : char -> bool) (fuzzy : dict -> text -> nat -> list text),
  letter_laws u -> digit_law u -> (forall c, uc c <> []) -> fuzzy_listed fuzzy ->
  forall D d cs pre w post, dict_nodup lc is_lower D -> sentc_ok u cs = true -> collapse cs = pre ++ SWord w :: post ->
  (forall e, In e D -> word_id lc is_lower (canon e) <> word_id lc is_lower w) ->
  exists ls sg, lint_text u lc uc is_lower is_upper fuzzy D d (sent_text (expand cs)) = Ok ls /\
                In (mkslint (word_at pre w) sg) ls.
Proof. exact sentc_unlisted_reported. Qed.
Check C06_sentence_contraction_unlisted_reported :
  forall (u : uni) (lc uc : char -> list char) (is_lower is_upper : char -> bool) (fuzzy : dict -> text -> nat -> list text),
  letter_laws u -> digit_law u -> (forall c, uc c <> []) -> fuzzy_listed fuzzy ->
  forall D d cs pre w post, dict_nodup lc is_lower D -> sentc_ok u cs = true -> collapse cs = pre ++ SWord w :: post ->
  (forall e, In e D -> word_id lc is_lower (canon e) <> word_id lc is_lower w) ->
  exists ls sg, lint_text u lc uc is_lower is_upper fuzzy D d (sent_text (expand cs)) = Ok ls /\
                In (mkslint (word_at pre w) sg) ls.
Print Assumptions C06_sentence_contraction_unlisted_reported.

(* positive half: no lint has the span of a word / contraction spelt like a listed form (don't, Don't, DON'T, MP3's) *)
Theorem C06_sentence_contraction_listed_accepted :
  forall (u : uni) (lc uc : char -> list char) (is_lower is_upper : char -> bool) (fuzzy : dict -> text -> nat -> list text),
  letter_laws u -> digit_law u -> lower_fix lc is_lower ->
  forall D d e cs pre w post ls, dict_nodup lc is_lower D -> In e D -> dialect_ok (edialect e) d = true ->
  sentc_ok u cs = true -> collapse cs = pre ++ SWord w :: post ->
  ( w = canon e
    \/ (normalized (canon e) = canon e /\ lower_case lc is_lower (canon e) /\ w = capitalise uc (canon e) /\
        Forall (case_regular lc uc) (firstn 1 (canon e)))
    \/ (normalized (canon e) = canon e /\ lower_case lc is_lower (canon e) /\ w = upper uc (canon e) /\
        Forall (case_regular lc uc) (canon e)) ) ->
  lint_text u lc uc is_lower is_upper fuzzy D d (sent_text (expand cs)) = Ok ls ->
  forall l, In l ls -> sl_span l <> word_at pre w.
Proof. exact sentc_listed_accepted. Qed.
Check C06_sentence_contraction_listed_accepted :
  forall (u : uni) (lc uc : char -> list char) (is_lower is_upper : char -> bool) (fuzzy : dict -> text -> nat -> list text),
  letter_laws u -> digit_law u -> lower_fix lc is_lower ->
  forall D d e cs pre w post ls, dict_nodup lc is_lower D -> In e D -> dialect_ok (edialect e) d = true ->
  sentc_ok u cs = true -> collapse cs = pre ++ SWord w :: post ->
  ( w = canon e
    \/ (normalized (canon e) = canon e /\ lower_case lc is_lower (canon e) /\ w = capitalise uc (canon e) /\
        Forall (case_regular lc uc) (firstn 1 (canon e)))
    \/ (normalized (canon e) = canon e /\ lower_case lc is_lower (canon e) /\ w = upper uc (canon e) /\
        Forall (case_regular lc uc) (canon e)) ) ->
  lint_text u lc uc is_lower is_upper fuzzy D d (sent_text (expand cs)) = Ok ls ->
  forall l, In l ls -> sl_span l <> word_at pre w.
Print Assumptions C06_sentence_contraction_listed_accepted.

(* every lint of such a sentence covers exactly one word / whole contraction (never a half of a contraction, never the apostrophe) *)
Theorem C06_sentence_contraction_lints_on_words :
  forall (u : uni) (lc uc : char -> list char) (is_lower is_upper : char -> bool) (fuzzy : dict -> text -> nat -> list text),
  letter_laws u -> digit_law u -> fuzzy_listed fuzzy ->
  forall D d cs ls l, dict_nodup lc is_lower D -> sentc_ok u cs = true ->
  lint_text u lc uc is_lower is_upper fuzzy D d (sent_text (expand cs)) = Ok ls -> In l ls ->
  exists pre w post, collapse cs = pre ++ SWord w :: post /\ sl_span l = word_at pre w.
Proof. exact sentc_lints_on_words. Qed.
Check C06_sentence_contraction_lints_on_words :
  forall (u : uni) (lc uc : char -> list char) (is_lower is_upper : char -> bool) (fuzzy : dict -> text -> nat -> list text),
  letter_laws u -> digit_law u -> fuzzy_listed fuzzy ->
  forall D d cs ls l, dict_nodup lc is_lower D -> sentc_ok u cs = true ->
  lint_text u lc uc is_lower is_upper fuzzy D d (sent_text (expand cs)) = Ok ls -> In l ls ->
  exists pre w post, collapse cs = pre ++ SWord w :: post /\ sl_span l = word_at pre w.
Print Assumptions C06_sentence_contraction_lints_on_words.

(* non-vacuity: `don't kno, it’s` = [don ' t] blank [kno] , blank [it ’ s]: the lexer yields 9 tokens, Document::parse 6; the
   Word tokens are [0,5) [6,9) [11,15); with {don't, it's} exactly `kno` is reported; a's (glued by the lexer) is outside *)
Example C06_nonvacuous_sentence_contraction :
  let cs := [CC [100;111;110] 39 [116]; CS 1; CW [107;110;111]; CP 44; CS 1; CC [105;116] 8217 [115]]%N in
  let D := [mkentry [100;111;110;39;116]%N None; mkentry [105;116;39;115]%N None] in
  sentc_ok ascii_uni0 cs = true /\ length (expand cs) = 10 /\ length (collapse cs) = 6 /\
  sent_words 0 (collapse cs) = [mkspan 0 5; mkspan 6 9; mkspan 11 15] /\
  doc_words ascii_uni0 (sent_text (expand cs)) = Ok (sent_words 0 (collapse cs)) /\
  dict_nodup ascii_lc ascii_is_lower D /\
  lint_text ascii_uni0 ascii_lc ascii_uc ascii_is_lower ascii_is_upper no_fuzzy D American (sent_text (expand cs))
    = Ok [mkslint (mkspan 6 9) []] /\
  sentc_ok ascii_uni0 [CC [97] 39 [115]]%N = false /\ sentc_ok ascii_uni0 [CC [97] 8217 [115]]%N = true /\
  sentc_ok ascii_uni0 [CC [97] 39 [115;111]]%N = true.
Proof.
  cbv zeta. split; [vm_compute; reflexivity|]. split; [reflexivity|]. split; [reflexivity|]. split; [vm_compute; reflexivity|].
  split; [apply (sentc_doc_words ascii_uni0 ascii_letter_laws ascii_digit_law); vm_compute; reflexivity|].
  split; [unfold dict_nodup; vm_compute; repeat constructor; cbn; intuition discriminate|].
  repeat split; vm_compute; reflexivity.
Qed.

(* ================= phase 7, step 1: contractions AND a sentence-final period (the two classes of phase 6 combined) =================
   The text is sent_text (expand cs) ++ "." with cs a sentence with contractions (sentc_ok) whose last collapsed item, when a word,
   is none of etc / vs / al (sentcp_ok).  The lexer yields one token per part and a Period; condense_contractions merges every
   Word ' Word and leaves the Period (C06_condense_pattern_functional + regroup_tail); the remaining passes are the identity on
   the merged vector (C06_passes_identity_period).  No premise about tokens. *)
Theorem C06_sentence_contraction_period_tokens :
  forall u : uni, letter_laws u -> digit_law u -> forall cs : list citem, sentcp_ok u cs = true ->
  document_plain u (sentcp_text cs) = Ok (sentcp_tokens cs) /\
  doc_words u (sentcp_text cs) = Ok (sent_words 0 (collapse cs)).
Proof. exact (fun u L Dl cs H => conj (sentcp_document u L Dl cs H) (sentcp_doc_words u L Dl cs H)). Qed.
Check C06_sentence_contraction_period_tokens :
  forall u : uni, letter_laws u -> digit_law u -> forall cs : list citem, sentcp_ok u cs = true ->
  document_plain u (sentcp_text cs) = Ok (sentcp_tokens cs) /\
  doc_words u (sentcp_text cs) = Ok (sent_words 0 (collapse cs)).
Print Assumptions C06_sentence_contraction_period_tokens.

Theorem C06_sentence_contraction_period_unlisted_reported :
  forall (u : uni) (lc uc : char -> list char) (is_lower is_upper : char -> bool) (fuzzy : dict -> text -> nat -> list text),
  letter_laws u -> digit_law u -> (forall c, uc c <> []) -> fuzzy_listed fuzzy ->
  forall D d cs pre w post, dict_nodup lc is_lower D -> sentcp_ok u cs = true -> collapse cs = pre ++ SWord w :: post ->
  (forall e, In e D -> word_id lc is_lower (canon e) <> word_id lc is_lower w) ->
  exists ls sg, lint_text u lc uc is_lower is_upper fuzzy D d (sentcp_text cs) = Ok ls /\
                In (mkslint (word_at pre w) sg) ls.
Proof. exact sentcp_unlisted_reported. Qed.
Check C06_sentence_contraction_period_unlisted_reported :
  forall (u : uni) (lc uc : char -> list char) (is_lower is_upper : char -> bool) (fuzzy : dict -> text -> nat -> list text),
  letter_laws u -> digit_law u -> (forall c, uc c <> []) -> fuzzy_listed fuzzy ->
  forall D d cs pre w post, dict_nodup lc is_lower D -> sentcp_ok u cs = true -> collapse cs = pre ++ SWord w :: post ->
  (forall e, In e D -> word_id lc is_lower (canon e) <> word_id lc is_lower w) ->
  exists ls sg, lint_text u lc uc is_lower is_upper fuzzy D d (sentcp_text cs) = Ok ls /\
                In (mkslint (word_at pre w) sg) ls.
Print Assumptions C06_sentence_contraction_period_unlisted_reported.

Theorem C06_sentence_contraction_period_listed_accepted :
  forall (u : uni) (lc uc : char -> list char) (is_lower is_upper : char -> bool) (fuzzy : dict -> text -> nat -> list text),
  letter_laws u -> digit_law u -> lower_fix lc is_lower ->
  forall D d e cs pre w post ls, dict_nodup lc is_lower D -> In e D -> dialect_ok (edialect e) d = true ->
  sentcp_ok u cs = true -> collapse cs = pre ++ SWord w :: post ->
  ( w = canon e
    \/ (normalized (canon e) = canon e /\ lower_case lc is_lower (canon e) /\ w = capitalise uc (canon e) /\
        Forall (case_regular lc uc) (firstn 1 (canon e)))
    \/ (normalized (canon e) = canon e /\ lower_case lc is_lower (canon e) /\ w = upper uc (canon e) /\
        Forall (case_regular lc uc) (canon e)) ) ->
  lint_text u lc uc is_lower is_upper fuzzy D d (sentcp_text cs) = Ok ls ->
  forall l, In l ls -> sl_span l <> word_at pre w.
Proof. exact sentcp_listed_accepted. Qed.
Check C06_sentence_contraction_period_listed_accepted :
  forall (u : uni) (lc uc : char -> list char) (is_lower is_upper : char -> bool) (fuzzy : dict -> text -> nat -> list text),
  letter_laws u -> digit_law u -> lower_fix lc is_lower ->
  forall D d e cs pre w post ls, dict_nodup lc is_lower D -> In e D -> dialect_ok (edialect e) d = true ->
  sentcp_ok u cs = true -> collapse cs = pre ++ SWord w :: post ->
  ( w = canon e
    \/ (normalized (canon e) = canon e /\ lower_case lc is_lower (canon e) /\ w = capitalise uc (canon e) /\
        Forall (case_regular lc uc) (firstn 1 (canon e)))
    \/ (normalized (canon e) = canon e /\ lower_case lc is_lower (canon e) /\ w = upper uc (canon e) /\
        Forall (case_regular lc uc) (canon e)) ) ->
  lint_text u lc uc is_lower is_upper fuzzy D d (sentcp_text cs) = Ok ls ->
  forall l, In l ls -> sl_span l <> word_at pre w.
Print Assumptions C06_sentence_contraction_period_listed_accepted.

Theorem C06_sentence_contraction_period_lints_on_words :
  forall (u : uni) (lc uc : char -> list char) (is_lower is_upper : char -> bool) (fuzzy : dict -> text -> nat -> list text),
  letter_laws u -> digit_law u -> fuzzy_listed fuzzy ->
  forall D d cs ls l, dict_nodup lc is_lower D -> sentcp_ok u cs = true ->
  lint_text u lc uc is_lower is_upper fuzzy D d (sentcp_text cs) = Ok ls -> In l ls ->
  exists pre w post, collapse cs = pre ++ SWord w :: post /\ sl_span l = word_at pre w.
Proof. exact sentcp_lints_on_words. Qed.
Check C06_sentence_contraction_period_lints_on_words :
  forall (u : uni) (lc uc : char -> list char) (is_lower is_upper : char -> bool) (fuzzy : dict -> text -> nat -> list text),
  letter_laws u -> digit_law u -> fuzzy_listed fuzzy ->
  forall D d cs ls l, dict_nodup lc is_lower D -> sentcp_ok u cs = true ->
  lint_text u lc uc is_lower is_upper fuzzy D d (sentcp_text cs) = Ok ls -> In l ls ->
  exists pre w post, collapse cs = pre ++ SWord w :: post /\ sl_span l = word_at pre w.
Print Assumptions C06_sentence_contraction_period_lints_on_words.

(* non-vacuity: `don't kno, it’s.` — the lexer yields 10 tokens, Document::parse 7 (6 items + Period [15,16)); Word tokens
   [0,5) [6,9) [11,15); with {don't, it's} exactly `kno` is reported; `I don't etc.` is outside (etc. would be merged) *)
Example C06_nonvacuous_sentence_contraction_period :
  let cs := [CC [100;111;110] 39 [116]; CS 1; CW [107;110;111]; CP 44; CS 1; CC [105;116] 8217 [115]]%N in
  let D := [mkentry [100;111;110;39;116]%N None; mkentry [105;116;39;115]%N None] in
  sentcp_ok ascii_uni0 cs = true /\ length (sentcp_tokens cs) = 7 /\
  last (map tspan (sentcp_tokens cs)) (mkspan 0 0) = mkspan 15 16 /\
  doc_words ascii_uni0 (sentcp_text cs) = Ok [mkspan 0 5; mkspan 6 9; mkspan 11 15] /\
  dict_nodup ascii_lc ascii_is_lower D /\
  lint_text ascii_uni0 ascii_lc ascii_uc ascii_is_lower ascii_is_upper no_fuzzy D American (sentcp_text cs)
    = Ok [mkslint (mkspan 6 9) []] /\
  sentcp_ok ascii_uni0 [CC [100;111;110] 39 [116]; CS 1; CW [101;116;99]]%N = false /\
  sentc_ok ascii_uni0 [CC [100;111;110] 39 [116]; CS 1; CW [101;116;99]]%N = true.
Proof.
  cbv zeta. split; [vm_compute; reflexivity|]. split; [reflexivity|]. split; [vm_compute; reflexivity|].
  split; [rewrite (sentcp_doc_words ascii_uni0 ascii_letter_laws ascii_digit_law) by (vm_compute; reflexivity); vm_compute; reflexivity|].
  split; [unfold dict_nodup; vm_compute; repeat constructor; cbn; intuition discriminate|].
  repeat split; vm_compute; reflexivity.
Qed.

(* ================= phase 7, step 2 — the PASSES half only: periods anywhere (several sentences) =================
   For ANY token vector: a tiling with kinds Word / Space / separator punctuation / Period, no two adjacent Space tokens, every Period
   followed by a Space token or by nothing, no Word in front of a Period one of etc / vs / al (periods_ok, decidable): all nine passes of
   Document::parse and the dictionary loop are the identity.  Generalises C06_passes_identity_period (ONE final Period).  PARTIAL as a
   step: that PlainEnglish::parse yields such a vector on `One two. Three four.` (the lexer half) is not proved. *)
Theorem C06_passes_identity_periods_partial :
  forall (src : text) (ts : list token), Tiling 0 (length src) ts ->
  Forall (fun t => simple_kind (tkind_of t) || is_period (tkind_of t) = true) ts -> no_adj_spaces ts ->
  periods_ok src ts = true ->
  document_passes src ts = Ok ts.
Proof. exact passes_identity_periods. Qed.
Check C06_passes_identity_periods_partial :
  forall (src : text) (ts : list token), Tiling 0 (length src) ts ->
  Forall (fun t => simple_kind (tkind_of t) || is_period (tkind_of t) = true) ts -> no_adj_spaces ts ->
  periods_ok src ts = true ->
  document_passes src ts = Ok ts.
Print Assumptions C06_passes_identity_periods_partial.

(* non-vacuity: `Hi. Yo.` = Word Period Space Word Period is what the lexer model yields, satisfies every hypothesis, and the passes
   return it unchanged; `etc. x` (Word etc in front of a Period) and `a.b` (a Period followed by a Word) do not satisfy periods_ok *)
Example C06_nonvacuous_passes_periods :
  let src := [72;105;46;32;89;111;46]%N in
  let ts := [mktok (mkspan 0 2) KWord; mktok (mkspan 2 3) (KPunct PPeriod); mktok (mkspan 3 4) (KSpace 1);
             mktok (mkspan 4 6) KWord; mktok (mkspan 6 7) (KPunct PPeriod)] in
  plain_parse ascii_uni0 src = Ok ts /\ Tiling 0 (length src) ts /\
  Forall (fun t => simple_kind (tkind_of t) || is_period (tkind_of t) = true) ts /\ no_adj_spaces ts /\
  periods_ok src ts = true /\ document_passes src ts = Ok ts /\
  periods_ok [101;116;99;46;32;120]%N [mktok (mkspan 0 3) KWord; mktok (mkspan 3 4) (KPunct PPeriod); mktok (mkspan 4 5) (KSpace 1);
                                       mktok (mkspan 5 6) KWord] = false /\
  periods_ok [97;46;98]%N [mktok (mkspan 0 1) KWord; mktok (mkspan 1 2) (KPunct PPeriod); mktok (mkspan 2 3) KWord] = false.
Proof.
  cbv zeta.
  assert (E : plain_parse ascii_uni0 [72;105;46;32;89;111;46]%N =
              Ok [mktok (mkspan 0 2) KWord; mktok (mkspan 2 3) (KPunct PPeriod); mktok (mkspan 3 4) (KSpace 1);
                  mktok (mkspan 4 6) KWord; mktok (mkspan 6 7) (KPunct PPeriod)]) by (vm_compute; reflexivity).
  split; [exact E|]. split.
  { destruct (plain_tiling ascii_uni0 [72;105;46;32;89;111;46]%N) as (ts' & E' & T). rewrite E in E'. injection E' as <-. exact T. }
  split; [repeat constructor|]. split; [cbn; repeat split; intros [A B]; discriminate|].
  repeat split; vm_compute; reflexivity.
Qed.
