(* C08 — Editor diagnostics and quick-fix edits land exactly on the flagged text.
   Pinned statements only.  Model: Model/PosConv.v (harper-ls pos_conv.rs, the TextEdit of
   diagnostics.rs, the lint selection of document_state.rs; specification side: resolve /
   client_apply and their LSP-line-end versions).  Proofs: Proofs/PosConvProofs.v.
   The model follows /repo since 229693d (fix of F9): the lookup theorems carry no class premise any
   more.  History/C08History.v holds what was true of the code before that commit. *)
Require Import Base Suggestion PosConv ListLemmas SuggestionProofs PosConvProofs C08History.

(* diagnostic ranges: the position harper computes for a character index, read back as line /
   UTF-16 column (lines split at '\n', astral characters = 2 code units: len_utf16), is that index.
   Unbounded: every text, every index up to and including the end. *)
Theorem C08_index_to_position_sound :
  forall (t : text) (i : nat), i <= length t ->
  exists p, index_to_position t i = Ok p /\ resolve t p = Some i.
Proof. exact index_to_position_sound. Qed.
Check C08_index_to_position_sound :
  forall (t : text) (i : nat), i <= length t ->
  exists p, index_to_position t i = Ok p /\ resolve t p = Some i.
Print Assumptions C08_index_to_position_sound.

(* ... explicitly: line = number of '\n' before i; character = sum of len_utf16 over the
   newline-free text between the last '\n' before i and i *)
Theorem C08_index_to_position_value :
  forall (t : text) (i : nat), i <= length t ->
  exists P ln, firstn i t = P ++ ln /\ complete P /\ nonl ln /\
    index_to_position t i = Ok (count_nl (firstn i t), sum_utf16 ln).
Proof. exact index_to_position_value. Qed.
Check C08_index_to_position_value :
  forall (t : text) (i : nat), i <= length t ->
  exists P ln, firstn i t = P ++ ln /\ complete P /\ nonl ln /\
    index_to_position t i = Ok (count_nl (firstn i t), sum_utf16 ln).
Print Assumptions C08_index_to_position_value.

(* the range of a diagnostic covers exactly the characters of the lint's span *)
Theorem C08_span_to_range_sound :
  forall (t : text) (sp : span), span_in (length t) sp ->
  exists pa pb, span_to_range t sp = Ok (pa, pb) /\
    resolve t pa = Some (sstart sp) /\ resolve t pb = Some (send sp).
Proof. exact span_to_range_sound. Qed.
Check C08_span_to_range_sound :
  forall (t : text) (sp : span), span_in (length t) sp ->
  exists pa pb, span_to_range t sp = Ok (pa, pb) /\
    resolve t pa = Some (sstart sp) /\ resolve t pb = Some (send sp).
Print Assumptions C08_span_to_range_sound.

(* the same with the line ends an LSP client knows ("\n", "\r\n", "\r"): holds for texts whose
   every '\r' is followed by '\n', at every index except the one between a '\r' and its '\n'
   (premises monitored by the harness on every lint: "lint span endpoints not between CR and LF") *)
Theorem C08_index_to_position_sound_lsp :
  forall (t : text) (i : nat), i <= length t -> no_lone_cr t -> ~ inside_crlf t i ->
  exists p, index_to_position t i = Ok p /\ resolve_lsp t p = Some i.
Proof. exact index_to_position_sound_lsp. Qed.
Check C08_index_to_position_sound_lsp :
  forall (t : text) (i : nat), i <= length t -> no_lone_cr t -> ~ inside_crlf t i ->
  exists p, index_to_position t i = Ok p /\ resolve_lsp t p = Some i.
Print Assumptions C08_index_to_position_sound_lsp.

(* ... and that premise cannot be dropped ("a\r\nb", index 2: harper counts '\r' as line content) *)
Theorem C08_crlf_premise_needed :
  exists t i p, i <= length t /\ no_lone_cr t /\ inside_crlf t i /\
    index_to_position t i = Ok p /\ resolve_lsp t p = None.
Proof. exact crlf_premise_needed. Qed.
Check C08_crlf_premise_needed :
  exists t i p, i <= length t /\ no_lone_cr t /\ inside_crlf t i /\
    index_to_position t i = Ok p /\ resolve_lsp t p = None.
Print Assumptions C08_crlf_premise_needed.

(* quick fixes: the TextEdit built by lint_to_code_actions (range = span_to_range, new_text per
   suggestion kind, InsertAfter re-emitting the flagged text), applied the way a client applies
   it, is Suggestion::apply on the lint's character span — all three kinds, any span inside the text *)
Theorem C08_edit_equiv :
  forall (s : suggestion) (sp : span) (t : text), span_in (length t) sp ->
  exists r nt out,
    text_edit s sp t = Ok (r, nt) /\ client_apply t r nt = Some out /\ apply s sp t = Ok out.
Proof. exact edit_equiv. Qed.
Check C08_edit_equiv :
  forall (s : suggestion) (sp : span) (t : text), span_in (length t) sp ->
  exists r nt out,
    text_edit s sp t = Ok (r, nt) /\ client_apply t r nt = Some out /\ apply s sp t = Ok out.
Print Assumptions C08_edit_equiv.

(* ... the client's document afterwards, kind by kind *)
Theorem C08_edit_equiv_value :
  forall (s : suggestion) (sp : span) (t : text), span_in (length t) sp ->
  exists r nt,
    text_edit s sp t = Ok (r, nt) /\
    client_apply t r nt =
      Some (firstn (sstart sp) t ++
            match s with
            | ReplaceWith cs => cs
            | InsertAfter cs => slice t (sstart sp) (send sp) ++ cs
            | Remove => []
            end ++ skipn (send sp) t).
Proof. exact edit_equiv_value. Qed.
Check C08_edit_equiv_value :
  forall (s : suggestion) (sp : span) (t : text), span_in (length t) sp ->
  exists r nt,
    text_edit s sp t = Ok (r, nt) /\
    client_apply t r nt =
      Some (firstn (sstart sp) t ++
            match s with
            | ReplaceWith cs => cs
            | InsertAfter cs => slice t (sstart sp) (send sp) ++ cs
            | Remove => []
            end ++ skipn (send sp) t).
Print Assumptions C08_edit_equiv_value.

(* ... and for a client with LSP line ends, under the CR-LF premise *)
Theorem C08_edit_equiv_lsp :
  forall (s : suggestion) (sp : span) (t : text),
  span_in (length t) sp -> no_lone_cr t ->
  ~ inside_crlf t (sstart sp) -> ~ inside_crlf t (send sp) ->
  exists r nt out,
    text_edit s sp t = Ok (r, nt) /\ client_apply_lsp t r nt = Some out /\ apply s sp t = Ok out.
Proof. exact edit_equiv_lsp. Qed.
Check C08_edit_equiv_lsp :
  forall (s : suggestion) (sp : span) (t : text),
  span_in (length t) sp -> no_lone_cr t ->
  ~ inside_crlf t (sstart sp) -> ~ inside_crlf t (send sp) ->
  exists r nt out,
    text_edit s sp t = Ok (r, nt) /\ client_apply_lsp t r nt = Some out /\ apply s sp t = Ok out.
Print Assumptions C08_edit_equiv_lsp.

(* code-action lookup: position_to_index inverts `resolve` on EVERY valid position of EVERY text (also
   on the final line, also at the end of the text) — full strength, no class premise *)
Theorem C08_lookup :
  forall (t : text) (line col i : nat),
  resolve t (line, col) = Some i -> position_to_index t line col = Ok i.
Proof. exact lookup_correct. Qed.
Check C08_lookup :
  forall (t : text) (line col i : nat),
  resolve t (line, col) = Some i -> position_to_index t line col = Ok i.
Print Assumptions C08_lookup.

(* ... in particular on every position an LSP client regards as valid *)
Theorem C08_lookup_lsp :
  forall (t : text) (line col i : nat),
  no_lone_cr t -> resolve_lsp t (line, col) = Some i -> position_to_index t line col = Ok i.
Proof. exact lookup_correct_lsp. Qed.
Check C08_lookup_lsp :
  forall (t : text) (line col i : nat),
  no_lone_cr t -> resolve_lsp t (line, col) = Some i -> position_to_index t line col = Ok i.
Print Assumptions C08_lookup_lsp.

(* range_to_span (Span::new can panic): total and exact on every valid ordered range *)
Theorem C08_range_to_span :
  forall (t : text) (p1 p2 : position) (i1 i2 : nat),
  resolve t p1 = Some i1 -> resolve t p2 = Some i2 -> i1 <= i2 ->
  range_to_span t (p1, p2) = Ok (mkspan i1 i2).
Proof. exact range_to_span_correct. Qed.
Check C08_range_to_span :
  forall (t : text) (p1 p2 : position) (i1 i2 : nat),
  resolve t p1 = Some i1 -> resolve t p2 = Some i2 -> i1 <= i2 ->
  range_to_span t (p1, p2) = Ok (mkspan i1 i2).
Print Assumptions C08_range_to_span.

(* generate_code_actions offers exactly the lints whose span contains the character at the start
   of the requested range *)
Theorem C08_selected_exact :
  forall (t : text) (p1 p2 : position) (i1 i2 : nat) (lints : list span),
  resolve t p1 = Some i1 -> resolve t p2 = Some i2 -> i1 <= i2 ->
  selected t (p1, p2) lints = Ok (filter (covers i1) lints).
Proof. exact selected_correct. Qed.
Check C08_selected_exact :
  forall (t : text) (p1 p2 : position) (i1 i2 : nat) (lints : list span),
  resolve t p1 = Some i1 -> resolve t p2 = Some i2 -> i1 <= i2 ->
  selected t (p1, p2) lints = Ok (filter (covers i1) lints).
Print Assumptions C08_selected_exact.

(* hence: requesting code actions anywhere inside a diagnostic's range returns that lint *)
Theorem C08_code_action_selected :
  forall (t : text) (p1 p2 : position) (i1 i2 : nat) (lints : list span) (sp : span),
  resolve t p1 = Some i1 -> resolve t p2 = Some i2 -> i1 <= i2 ->
  In sp lints -> sstart sp <= i1 < send sp ->
  exists sel, selected t (p1, p2) lints = Ok sel /\ In sp sel.
Proof. exact code_action_selected. Qed.
Check C08_code_action_selected :
  forall (t : text) (p1 p2 : position) (i1 i2 : nat) (lints : list span) (sp : span),
  resolve t p1 = Some i1 -> resolve t p2 = Some i2 -> i1 <= i2 ->
  In sp lints -> sstart sp <= i1 < send sp ->
  exists sel, selected t (p1, p2) lints = Ok sel /\ In sp sel.
Print Assumptions C08_code_action_selected.

(* harper's two conversions are inverse to each other: index -> position -> index ... *)
Theorem C08_roundtrip_index :
  forall (t : text) (i : nat), i <= length t ->
  exists l c, index_to_position t i = Ok (l, c) /\ position_to_index t l c = Ok i.
Proof. exact roundtrip_index. Qed.
Check C08_roundtrip_index :
  forall (t : text) (i : nat), i <= length t ->
  exists l c, index_to_position t i = Ok (l, c) /\ position_to_index t l c = Ok i.
Print Assumptions C08_roundtrip_index.

(* ... and span -> range -> span (the range of a diagnostic sent back by the editor is the lint's span) *)
Theorem C08_roundtrip_span :
  forall (t : text) (sp : span), span_in (length t) sp ->
  exists r, span_to_range t sp = Ok r /\ range_to_span t r = Ok (mkspan (sstart sp) (send sp)).
Proof. exact roundtrip_span. Qed.
Check C08_roundtrip_span :
  forall (t : text) (sp : span), span_in (length t) sp ->
  exists r, span_to_range t sp = Ok r /\ range_to_span t r = Ok (mkspan (sstart sp) (send sp)).
Print Assumptions C08_roundtrip_span.

(* end to end inside the conversion layer: at ANY character of ANY lint inside the text, addressed by the
   position harper itself publishes for it, a cursor request and a selection up to the diagnostic's end
   both offer that lint *)
Theorem C08_code_action_at_published :
  forall (t : text) (lints : list span) (sp : span) (i : nat),
  span_in (length t) sp -> In sp lints -> sstart sp <= i < send sp ->
  exists p pe sel sel',
    index_to_position t i = Ok p /\ index_to_position t (send sp) = Ok pe /\
    selected t (p, p) lints = Ok sel /\ In sp sel /\
    selected t (p, pe) lints = Ok sel' /\ In sp sel'.
Proof. exact code_action_at_published. Qed.
Check C08_code_action_at_published :
  forall (t : text) (lints : list span) (sp : span) (i : nat),
  span_in (length t) sp -> In sp lints -> sstart sp <= i < send sp ->
  exists p pe sel sel',
    index_to_position t i = Ok p /\ index_to_position t (send sp) = Ok pe /\
    selected t (p, p) lints = Ok sel /\ In sp sel /\
    selected t (p, pe) lints = Ok sel' /\ In sp sel'.
Print Assumptions C08_code_action_at_published.

(* totality (no panic) of the four conversion functions on in-range inputs *)
Theorem C08_index_to_position_total :
  forall (t : text) (i : nat), i <= length t -> is_ok (index_to_position t i) = true.
Proof. exact index_to_position_total. Qed.
Check C08_index_to_position_total :
  forall (t : text) (i : nat), i <= length t -> is_ok (index_to_position t i) = true.
Print Assumptions C08_index_to_position_total.

(* ... the error branch: an index beyond the text panics in &source[0..index] *)
Theorem C08_index_to_position_rejects :
  forall (t : text) (i : nat), length t < i -> index_to_position t i = Panic PIndex.
Proof. exact index_to_position_rejects. Qed.
Check C08_index_to_position_rejects :
  forall (t : text) (i : nat), length t < i -> index_to_position t i = Panic PIndex.
Print Assumptions C08_index_to_position_rejects.

Theorem C08_span_to_range_total :
  forall (t : text) (sp : span), span_in (length t) sp -> is_ok (span_to_range t sp) = true.
Proof. exact span_to_range_total. Qed.
Check C08_span_to_range_total :
  forall (t : text) (sp : span), span_in (length t) sp -> is_ok (span_to_range t sp) = true.
Print Assumptions C08_span_to_range_total.

(* position_to_index never panics — any text, any position, existing or not — and stays in the text *)
Theorem C08_position_to_index_total :
  forall (t : text) (line col : nat), exists i, position_to_index t line col = Ok i /\ i <= length t.
Proof. exact position_to_index_total. Qed.
Check C08_position_to_index_total :
  forall (t : text) (line col : nat), exists i, position_to_index t line col = Ok i /\ i <= length t.
Print Assumptions C08_position_to_index_total.

(* ---- HISTORY (the code before 229693d, Model: position_to_index_old; NOT the current tree) ---- *)
(* the fix of F9 changed the answer only for positions on the final line of a text, line >= 1 ... *)
Theorem C08_fix_confined :
  forall (t : text) (line col : nat),
  ~ KnownClass t line -> position_to_index t line col = position_to_index_old t line col.
Proof. exact fix_confined. Qed.
Check C08_fix_confined :
  forall (t : text) (line col : nat),
  ~ KnownClass t line -> position_to_index t line col = position_to_index_old t line col.
Print Assumptions C08_fix_confined.

(* ... and there it changed the answer for EVERY valid position, from a wrong one to the right one: what
   the reverse patch notes/mutations/C08-revert-F9.diff brings back is exactly KnownClass *)
Theorem C08_lookup_old_known_class_exact :
  forall (t : text) (line col i : nat),
  resolve t (line, col) = Some i -> KnownClass t line ->
  position_to_index t line col = Ok i /\ position_to_index_old t line col <> Ok i.
Proof. exact fix_changes_every_valid_position_of_the_class. Qed.
Check C08_lookup_old_known_class_exact :
  forall (t : text) (line col i : nat),
  resolve t (line, col) = Some i -> KnownClass t line ->
  position_to_index t line col = Ok i /\ position_to_index_old t line col <> Ok i.
Print Assumptions C08_lookup_old_known_class_exact.

(* F9 as it was, the concrete witness (corpus/C08/edge.json): "ab\ncd", cursor (1,0) on the 'c' of a lint
   on "cd": the OLD code answered index 0 and the lint was not offered *)
Theorem C08_lookup_old_refuted :
  exists t line col i,
    KnownClass t line /\ resolve t (line, col) = Some i /\ i < length t /\
    position_to_index_old t line col <> Ok i /\
    selected_old t ((line, col), (line, col)) [mkspan 3 5] = Ok [].
Proof. exact lookup_old_refuted. Qed.
Check C08_lookup_old_refuted :
  exists t line col i,
    KnownClass t line /\ resolve t (line, col) = Some i /\ i < length t /\
    position_to_index_old t line col <> Ok i /\
    selected_old t ((line, col), (line, col)) [mkspan 3 5] = Ok [].
Print Assumptions C08_lookup_old_refuted.

(* ------------------------------------------------------------------------------------------ *)
(*  non-vacuity: the hypotheses are satisfiable on non-trivial inputs                            *)
(* ------------------------------------------------------------------------------------------ *)
(* "a😀\r\nb𝒜c\nd"  (astral characters at 1 and 5; CR-LF; last line without newline) *)
Definition ex_text : text := [97; 128512; 13; 10; 98; 119964; 99; 10; 100]%N.

(* index 6 = 'c' on line 1 behind an astral character: column 3, not 2 *)
Example C08_ex_sound :
  6 <= length ex_text /\ no_lone_cr ex_text /\ ~ inside_crlf ex_text 6 /\
  index_to_position ex_text 6 = Ok (1, 3) /\ resolve ex_text (1, 3) = Some 6 /\
  resolve_lsp ex_text (1, 3) = Some 6 /\ resolve ex_text (1, 2) = None.
Proof.
  split; [cbn; lia|]. split.
  - cbn. repeat split; try discriminate. intros _. now eexists.
  - split; [|now vm_compute].
    intros [a [b [E L]]]. assert (length a = 5) as La by lia.
    do 6 (destruct a as [|? a]; [discriminate|]). discriminate.
Qed.

(* the three kinds on the multi-line span [1,6) = "😀\r\nb𝒜" *)
Example C08_ex_edit :
  span_in (length ex_text) (mkspan 1 6) /\
  text_edit (InsertAfter [120%N]) (mkspan 1 6) ex_text = Ok (((0, 1), (1, 3)), [128512; 13; 10; 98; 119964; 120]%N) /\
  client_apply_lsp ex_text ((0, 1), (1, 3)) [128512; 13; 10; 98; 119964; 120]%N
    = Some [97; 128512; 13; 10; 98; 119964; 120; 99; 10; 100]%N /\
  apply (InsertAfter [120%N]) (mkspan 1 6) ex_text = Ok [97; 128512; 13; 10; 98; 119964; 120; 99; 10; 100]%N /\
  text_edit Remove (mkspan 1 6) ex_text = Ok (((0, 1), (1, 3)), []) /\
  text_edit (ReplaceWith [120%N]) (mkspan 1 6) ex_text = Ok (((0, 1), (1, 3)), [120%N]).
Proof. split; [split; cbn; lia|]. now vm_compute. Qed.

(* a valid position on a middle line and one on the final line (line 2, not newline-terminated: the
   class the fix of F9 repaired; the OLD code answered 4 there) *)
Example C08_ex_lookup :
  resolve ex_text (1, 3) = Some 6 /\ position_to_index ex_text 1 3 = Ok 6 /\
  resolve ex_text (2, 0) = Some 8 /\ KnownClass ex_text 2 /\ position_to_index ex_text 2 0 = Ok 8 /\
  position_to_index_old ex_text 2 0 = Ok 4 /\
  resolve ex_text (2, 1) = Some 9 /\ position_to_index ex_text 2 1 = Ok 9 /\
  selected ex_text ((1, 3), (1, 4)) [mkspan 0 2; mkspan 4 7; mkspan 6 7; mkspan 7 9] = Ok [mkspan 4 7; mkspan 6 7] /\
  selected ex_text ((2, 0), (2, 1)) [mkspan 0 2; mkspan 4 7; mkspan 6 7; mkspan 7 9] = Ok [mkspan 7 9].
Proof.
  split; [now vm_compute|]. split; [now vm_compute|]. split; [now vm_compute|].
  split; [unfold KnownClass; vm_compute; lia|]. now vm_compute.
Qed.

(* the hypotheses of C08_code_action_at_published / C08_roundtrip_span on the lint [8,9) = "d", the last
   character of a text whose last line has no newline *)
Example C08_ex_published :
  span_in (length ex_text) (mkspan 8 9) /\ In (mkspan 8 9) [mkspan 0 2; mkspan 8 9] /\
  index_to_position ex_text 8 = Ok (2, 0) /\ index_to_position ex_text 9 = Ok (2, 1) /\
  selected ex_text ((2, 0), (2, 1)) [mkspan 0 2; mkspan 8 9] = Ok [mkspan 8 9] /\
  range_to_span ex_text ((2, 0), (2, 1)) = Ok (mkspan 8 9).
Proof. split; [split; cbn; lia|]. split; [right; now left|]. now vm_compute. Qed.

(* the model keeps the answers the pinned harper-ls tests encode (they constrain the fix: a column past
   the end of an EMPTY last line keeps its historical answer):
   end_of_file "This is a short test" (1,20) -> 20 is checked on the shape "abc" (1,3) -> 3;
   issue_250 "Hello thur\n" (1,9) -> 9, (1,10) -> 10 and end_of_line on "Hello thur\n" directly *)
Example C08_ex_keeps_pinned_tests :
  let hello := [72; 101; 108; 108; 111; 32; 116; 104; 117; 114; 10]%N in
  position_to_index hello 1 9 = Ok 9 /\ position_to_index hello 1 10 = Ok 10 /\
  position_to_index hello 1 0 = Ok 11 /\ position_to_index_old hello 1 0 = Ok 0 /\
  position_to_index [97; 98; 99]%N 1 3 = Ok 3 /\
  position_to_index [97; 98; 10; 99; 100]%N 1 0 = Ok 3.
Proof. now vm_compute. Qed.

(* ========================================================================================== *)
(*  PHASE 3: the u32 casts, DocumentState as a state machine, the handler glue                 *)
(*  Model: Model/C08DocState.v; proofs: Proofs/C08DocStateProofs.v                              *)
(* ========================================================================================== *)
Require Import Tables_posconvcasts C08DocState C08DocStateProofs.

(* `lines as u32` / `cols as u32` are the identity on every text with fewer than 2^32 line ends whose every
   line is narrower than 2^32 UTF-16 code units: there all theorems above hold for the code WITH its casts *)
Theorem C08_u32_exact_in_bound :
  forall (t : text) (i : nat), text_fits_u32 t -> index_to_position_u32 t i = index_to_position t i.
Proof. exact index_to_position_u32_exact. Qed.
Check C08_u32_exact_in_bound :
  forall (t : text) (i : nat), text_fits_u32 t -> index_to_position_u32 t i = index_to_position t i.
Print Assumptions C08_u32_exact_in_bound.

Theorem C08_u32_span_to_range_exact :
  forall (t : text) (sp : span), text_fits_u32 t -> span_to_range_u32 t sp = span_to_range t sp.
Proof. exact span_to_range_u32_exact. Qed.
Check C08_u32_span_to_range_exact :
  forall (t : text) (sp : span), text_fits_u32 t -> span_to_range_u32 t sp = span_to_range t sp.
Print Assumptions C08_u32_span_to_range_exact.

Theorem C08_u32_text_edit_exact :
  forall (s : suggestion) (sp : span) (t : text), text_fits_u32 t -> text_edit_u32 s sp t = text_edit s sp t.
Proof. exact text_edit_u32_exact. Qed.
Check C08_u32_text_edit_exact :
  forall (s : suggestion) (sp : span) (t : text), text_fits_u32 t -> text_edit_u32 s sp t = text_edit s sp t.
Print Assumptions C08_u32_text_edit_exact.

(* outside the bound: the published position is the exact one reduced modulo 2^32, componentwise *)
Theorem C08_u32_value :
  forall (t : text) (i l c : nat), index_to_position t i = Ok (l, c) ->
  index_to_position_u32 t i = Ok (as_u32 l, as_u32 c) /\ fits_u32 (as_u32 l) /\ fits_u32 (as_u32 c).
Proof. exact index_to_position_u32_value. Qed.
Check C08_u32_value :
  forall (t : text) (i l c : nat), index_to_position t i = Ok (l, c) ->
  index_to_position_u32 t i = Ok (as_u32 l, as_u32 c) /\ fits_u32 (as_u32 l) /\ fits_u32 (as_u32 c).
Print Assumptions C08_u32_value.

(* the truncation branch, and that the bound is sharp: with exactly n = 2^32 line ends in front, the
   character behind them (index n, exact position (n,0)) is published as (0,0), which denotes index 0 <> n *)
Theorem C08_u32_line_truncation_refuted :
  forall (rest : text) (n : nat), n = N.to_nat u32_modulus ->
  let t := repeat NL n ++ rest in
  n <= length t /\ ~ text_fits_u32 t /\
  index_to_position t n = Ok (n, 0) /\ index_to_position_u32 t n = Ok (0, 0) /\
  resolve t (0, 0) = Some 0 /\ n <> 0.
Proof. exact u32_line_truncation. Qed.
Check C08_u32_line_truncation_refuted :
  forall (rest : text) (n : nat), n = N.to_nat u32_modulus ->
  let t := repeat NL n ++ rest in
  n <= length t /\ ~ text_fits_u32 t /\
  index_to_position t n = Ok (n, 0) /\ index_to_position_u32 t n = Ok (0, 0) /\
  resolve t (0, 0) = Some 0 /\ n <> 0.
Print Assumptions C08_u32_line_truncation_refuted.

(* ... and with n = 2^32 BMP characters on one line the column wraps to 0 *)
Theorem C08_u32_column_truncation_refuted :
  forall (rest : text) (n : nat), n = N.to_nat u32_modulus ->
  let t := repeat 97%N n ++ rest in
  n <= length t /\ ~ text_fits_u32 t /\
  index_to_position t n = Ok (0, n) /\ index_to_position_u32 t n = Ok (0, 0) /\
  resolve t (0, 0) = Some 0 /\ n <> 0.
Proof. exact u32_column_truncation. Qed.
Check C08_u32_column_truncation_refuted :
  forall (rest : text) (n : nat), n = N.to_nat u32_modulus ->
  let t := repeat 97%N n ++ rest in
  n <= length t /\ ~ text_fits_u32 t /\
  index_to_position t n = Ok (0, n) /\ index_to_position_u32 t n = Ok (0, 0) /\
  resolve t (0, 0) = Some 0 /\ n <> 0.
Print Assumptions C08_u32_column_truncation_refuted.

(* DocumentState: generate_code_actions is read-only (the linter config it fills is restored) and answers from
   the fields as they are now *)
Theorem C08_state_code_actions_readonly :
  forall (doc : Type) (source : doc -> text) (cfg : Type) (fill : cfg -> cfg) (ctx_key : dlint -> doc -> N)
         (url_at : doc -> nat -> option span) (s : dstate doc cfg) (r : range) (fs : bool),
  generate_code_actions doc source cfg fill ctx_key url_at s r fs
  = (s, code_actions_of doc source cfg fill ctx_key url_at (ds_doc s) (ds_lint s) (ds_config s) (ds_ignored s) r fs).
Proof. exact generate_code_actions_spec. Qed.
Check C08_state_code_actions_readonly :
  forall (doc : Type) (source : doc -> text) (cfg : Type) (fill : cfg -> cfg) (ctx_key : dlint -> doc -> N)
         (url_at : doc -> nat -> option span) (s : dstate doc cfg) (r : range) (fs : bool),
  generate_code_actions doc source cfg fill ctx_key url_at s r fs
  = (s, code_actions_of doc source cfg fill ctx_key url_at (ds_doc s) (ds_lint s) (ds_config s) (ds_ignored s) r fs).
Print Assumptions C08_state_code_actions_readonly.

Theorem C08_state_diagnostics_readonly :
  forall (doc : Type) (source : doc -> text) (cfg : Type) (fill : cfg -> cfg) (ctx_key : dlint -> doc -> N)
         (s : dstate doc cfg) (sev : nat),
  generate_diagnostics doc source cfg fill ctx_key s sev
  = (s, diagnostics_of doc source cfg fill ctx_key (ds_doc s) (ds_lint s) (ds_config s) (ds_ignored s) sev).
Proof. exact generate_diagnostics_spec. Qed.
Check C08_state_diagnostics_readonly :
  forall (doc : Type) (source : doc -> text) (cfg : Type) (fill : cfg -> cfg) (ctx_key : dlint -> doc -> N)
         (s : dstate doc cfg) (sev : nat),
  generate_diagnostics doc source cfg fill ctx_key s sev
  = (s, diagnostics_of doc source cfg fill ctx_key (ds_doc s) (ds_lint s) (ds_config s) (ds_ignored s) sev).
Print Assumptions C08_state_diagnostics_readonly.

(* the state after ANY history is what its operations say (last document set, last linter set, the keys
   ignored - each against the document of its moment); requests and diagnostics leave no trace *)
Theorem C08_history_state :
  forall (doc : Type) (source : doc -> text) (cfg : Type) (fill : cfg -> cfg) (ctx_key : dlint -> doc -> N)
         (url_at : doc -> nat -> option span) (h : list (op doc cfg)) (s : dstate doc cfg),
  fst (run doc source cfg fill ctx_key url_at s h)
  = mkdstate (doc_after doc cfg (ds_doc s) h) (lint_after doc cfg (ds_lint s) h)
             (config_after doc cfg (ds_config s) h) (ignored_after doc cfg ctx_key (ds_doc s) (ds_ignored s) h).
Proof. exact run_state. Qed.
Check C08_history_state :
  forall (doc : Type) (source : doc -> text) (cfg : Type) (fill : cfg -> cfg) (ctx_key : dlint -> doc -> N)
         (url_at : doc -> nat -> option span) (h : list (op doc cfg)) (s : dstate doc cfg),
  fst (run doc source cfg fill ctx_key url_at s h)
  = mkdstate (doc_after doc cfg (ds_doc s) h) (lint_after doc cfg (ds_lint s) h)
             (config_after doc cfg (ds_config s) h) (ignored_after doc cfg ctx_key (ds_doc s) (ds_ignored s) h).
Print Assumptions C08_history_state.

(* THE HISTORY PROPERTY: for every history, generate_code_actions answers from the CURRENT document only -
   its answer is the single-shot function of the last document set (and the current linter / ignore set) *)
Theorem C08_history_code_actions :
  forall (doc : Type) (source : doc -> text) (cfg : Type) (fill : cfg -> cfg) (ctx_key : dlint -> doc -> N)
         (url_at : doc -> nat -> option span) (s0 : dstate doc cfg) (h : list (op doc cfg)) (r : range) (fs : bool),
  snd (step doc source cfg fill ctx_key url_at (fst (run doc source cfg fill ctx_key url_at s0 h)) (OCodeActions r fs))
  = RActions (code_actions_of doc source cfg fill ctx_key url_at
                (doc_after doc cfg (ds_doc s0) h) (lint_after doc cfg (ds_lint s0) h)
                (config_after doc cfg (ds_config s0) h)
                (ignored_after doc cfg ctx_key (ds_doc s0) (ds_ignored s0) h) r fs).
Proof. exact history_code_actions. Qed.
Check C08_history_code_actions :
  forall (doc : Type) (source : doc -> text) (cfg : Type) (fill : cfg -> cfg) (ctx_key : dlint -> doc -> N)
         (url_at : doc -> nat -> option span) (s0 : dstate doc cfg) (h : list (op doc cfg)) (r : range) (fs : bool),
  snd (step doc source cfg fill ctx_key url_at (fst (run doc source cfg fill ctx_key url_at s0 h)) (OCodeActions r fs))
  = RActions (code_actions_of doc source cfg fill ctx_key url_at
                (doc_after doc cfg (ds_doc s0) h) (lint_after doc cfg (ds_lint s0) h)
                (config_after doc cfg (ds_config s0) h)
                (ignored_after doc cfg ctx_key (ds_doc s0) (ds_ignored s0) h) r fs).
Print Assumptions C08_history_code_actions.

(* ... for every request INSIDE a history: the answer at position |h1| of the run *)
Theorem C08_history_every_answer :
  forall (doc : Type) (source : doc -> text) (cfg : Type) (fill : cfg -> cfg) (ctx_key : dlint -> doc -> N)
         (url_at : doc -> nat -> option span) (s0 : dstate doc cfg) (h1 h2 : list (op doc cfg)) (r : range) (fs : bool),
  nth_error (snd (run doc source cfg fill ctx_key url_at s0 (h1 ++ OCodeActions r fs :: h2))) (length h1)
  = Some (RActions (code_actions_of doc source cfg fill ctx_key url_at
                      (doc_after doc cfg (ds_doc s0) h1) (lint_after doc cfg (ds_lint s0) h1)
                      (config_after doc cfg (ds_config s0) h1)
                      (ignored_after doc cfg ctx_key (ds_doc s0) (ds_ignored s0) h1) r fs)).
Proof. exact history_every_answer. Qed.
Check C08_history_every_answer :
  forall (doc : Type) (source : doc -> text) (cfg : Type) (fill : cfg -> cfg) (ctx_key : dlint -> doc -> N)
         (url_at : doc -> nat -> option span) (s0 : dstate doc cfg) (h1 h2 : list (op doc cfg)) (r : range) (fs : bool),
  nth_error (snd (run doc source cfg fill ctx_key url_at s0 (h1 ++ OCodeActions r fs :: h2))) (length h1)
  = Some (RActions (code_actions_of doc source cfg fill ctx_key url_at
                      (doc_after doc cfg (ds_doc s0) h1) (lint_after doc cfg (ds_lint s0) h1)
                      (config_after doc cfg (ds_config s0) h1)
                      (ignored_after doc cfg ctx_key (ds_doc s0) (ds_ignored s0) h1) r fs)).
Print Assumptions C08_history_every_answer.

Theorem C08_history_diagnostics :
  forall (doc : Type) (source : doc -> text) (cfg : Type) (fill : cfg -> cfg) (ctx_key : dlint -> doc -> N)
         (url_at : doc -> nat -> option span) (s0 : dstate doc cfg) (h : list (op doc cfg)) (sev : nat),
  snd (step doc source cfg fill ctx_key url_at (fst (run doc source cfg fill ctx_key url_at s0 h)) (ODiagnostics sev))
  = RDiagnostics (diagnostics_of doc source cfg fill ctx_key
                    (doc_after doc cfg (ds_doc s0) h) (lint_after doc cfg (ds_lint s0) h)
                    (config_after doc cfg (ds_config s0) h)
                    (ignored_after doc cfg ctx_key (ds_doc s0) (ds_ignored s0) h) sev).
Proof. exact history_diagnostics. Qed.
Check C08_history_diagnostics :
  forall (doc : Type) (source : doc -> text) (cfg : Type) (fill : cfg -> cfg) (ctx_key : dlint -> doc -> N)
         (url_at : doc -> nat -> option span) (s0 : dstate doc cfg) (h : list (op doc cfg)) (sev : nat),
  snd (step doc source cfg fill ctx_key url_at (fst (run doc source cfg fill ctx_key url_at s0 h)) (ODiagnostics sev))
  = RDiagnostics (diagnostics_of doc source cfg fill ctx_key
                    (doc_after doc cfg (ds_doc s0) h) (lint_after doc cfg (ds_lint s0) h)
                    (config_after doc cfg (ds_config s0) h)
                    (ignored_after doc cfg ctx_key (ds_doc s0) (ds_ignored s0) h) sev).
Print Assumptions C08_history_diagnostics.

(* END TO END OVER HISTORIES (u32 casts included): after any history, a request at any character i of any
   lint visible for the CURRENT document, at the position harper publishes for i, is answered (no panic)
   with that lint's HarperIgnoreLint command and, per suggestion, a TextEdit carrying the diagnostic's range
   whose application by a client to the current text is Suggestion::apply on the lint's span.
   Premises: the current text is within the u32 bound; the visible lints and Url tokens lie inside the text *)
Theorem C08_history_code_action_at_published :
  forall (doc : Type) (source : doc -> text) (cfg : Type) (fill : cfg -> cfg) (ctx_key : dlint -> doc -> N)
         (url_at : doc -> nat -> option span) (s0 : dstate doc cfg) (h : list (op doc cfg))
         (l : dlint) (i : nat) (fs : bool),
  let d := doc_after doc cfg (ds_doc s0) h in
  let t := source d in
  let vis := visible_lints doc cfg fill ctx_key d (lint_after doc cfg (ds_lint s0) h)
               (config_after doc cfg (ds_config s0) h) (ignored_after doc cfg ctx_key (ds_doc s0) (ds_ignored s0) h) in
  text_fits_u32 t ->
  Forall (fun x => span_in (length t) (lspan x)) vis ->
  (forall j sp, url_at d j = Some sp -> span_in (length t) sp) ->
  In l vis -> sstart (lspan l) <= i < send (lspan l) ->
  exists p acts,
    index_to_position_u32 t i = Ok p /\ resolve t p = Some i /\
    snd (step doc source cfg fill ctx_key url_at (fst (run doc source cfg fill ctx_key url_at s0 h))
              (OCodeActions (p, p) fs)) = RActions (Ok acts) /\
    In (AIgnore l) acts /\
    forall s, In s (lsugs l) ->
      exists r nt out, In (AEdit r nt (ltag l)) acts /\ span_to_range_u32 t (lspan l) = Ok r /\
                       client_apply t r nt = Some out /\ apply s (lspan l) t = Ok out.
Proof. exact history_code_action_at_published. Qed.
Check C08_history_code_action_at_published :
  forall (doc : Type) (source : doc -> text) (cfg : Type) (fill : cfg -> cfg) (ctx_key : dlint -> doc -> N)
         (url_at : doc -> nat -> option span) (s0 : dstate doc cfg) (h : list (op doc cfg))
         (l : dlint) (i : nat) (fs : bool),
  let d := doc_after doc cfg (ds_doc s0) h in
  let t := source d in
  let vis := visible_lints doc cfg fill ctx_key d (lint_after doc cfg (ds_lint s0) h)
               (config_after doc cfg (ds_config s0) h) (ignored_after doc cfg ctx_key (ds_doc s0) (ds_ignored s0) h) in
  text_fits_u32 t ->
  Forall (fun x => span_in (length t) (lspan x)) vis ->
  (forall j sp, url_at d j = Some sp -> span_in (length t) sp) ->
  In l vis -> sstart (lspan l) <= i < send (lspan l) ->
  exists p acts,
    index_to_position_u32 t i = Ok p /\ resolve t p = Some i /\
    snd (step doc source cfg fill ctx_key url_at (fst (run doc source cfg fill ctx_key url_at s0 h))
              (OCodeActions (p, p) fs)) = RActions (Ok acts) /\
    In (AIgnore l) acts /\
    forall s, In s (lsugs l) ->
      exists r nt out, In (AEdit r nt (ltag l)) acts /\ span_to_range_u32 t (lspan l) = Ok r /\
                       client_apply t r nt = Some out /\ apply s (lspan l) t = Ok out.
Print Assumptions C08_history_code_action_at_published.

(* the diagnostics published after any history: one per visible lint of the current document, with the
   configured severity, its range read as LSP positions covering exactly the lint's characters *)
Theorem C08_history_diagnostics_sound :
  forall (doc : Type) (source : doc -> text) (cfg : Type) (fill : cfg -> cfg) (ctx_key : dlint -> doc -> N)
         (url_at : doc -> nat -> option span) (s0 : dstate doc cfg) (h : list (op doc cfg)) (sev : nat),
  let d := doc_after doc cfg (ds_doc s0) h in
  let t := source d in
  let vis := visible_lints doc cfg fill ctx_key d (lint_after doc cfg (ds_lint s0) h)
               (config_after doc cfg (ds_config s0) h) (ignored_after doc cfg ctx_key (ds_doc s0) (ds_ignored s0) h) in
  text_fits_u32 t ->
  Forall (fun x => span_in (length t) (lspan x)) vis ->
  exists ds, snd (step doc source cfg fill ctx_key url_at (fst (run doc source cfg fill ctx_key url_at s0 h))
                       (ODiagnostics sev)) = RDiagnostics (Ok ds) /\
    forall x, In x vis ->
      exists pa pb, In ((pa, pb), severity_to_lsp sev, ltag x) ds /\
                    resolve t pa = Some (sstart (lspan x)) /\ resolve t pb = Some (send (lspan x)).
Proof. exact history_diagnostics_sound. Qed.
Check C08_history_diagnostics_sound :
  forall (doc : Type) (source : doc -> text) (cfg : Type) (fill : cfg -> cfg) (ctx_key : dlint -> doc -> N)
         (url_at : doc -> nat -> option span) (s0 : dstate doc cfg) (h : list (op doc cfg)) (sev : nat),
  let d := doc_after doc cfg (ds_doc s0) h in
  let t := source d in
  let vis := visible_lints doc cfg fill ctx_key d (lint_after doc cfg (ds_lint s0) h)
               (config_after doc cfg (ds_config s0) h) (ignored_after doc cfg ctx_key (ds_doc s0) (ds_ignored s0) h) in
  text_fits_u32 t ->
  Forall (fun x => span_in (length t) (lspan x)) vis ->
  exists ds, snd (step doc source cfg fill ctx_key url_at (fst (run doc source cfg fill ctx_key url_at s0 h))
                       (ODiagnostics sev)) = RDiagnostics (Ok ds) /\
    forall x, In x vis ->
      exists pa pb, In ((pa, pb), severity_to_lsp sev, ltag x) ds /\
                    resolve t pa = Some (sstart (lspan x)) /\ resolve t pb = Some (send (lspan x)).
Print Assumptions C08_history_diagnostics_sound.

(* backend.rs: the code_action handler = generate_code_actions of the url's DocumentState, [] for an unknown url *)
Theorem C08_handler_code_action :
  forall (doc : Type) (source : doc -> text) (cfg : Type) (fill : cfg -> cfg) (ctx_key : dlint -> doc -> N)
         (url_at : doc -> nat -> option span) (o : option (dstate doc cfg)) (r : range) (fs : bool),
  handle_code_action doc source cfg fill ctx_key url_at o r fs =
    match o with
    | None => (None, Ok [])
    | Some s => (Some s, code_actions_of doc source cfg fill ctx_key url_at
                           (ds_doc s) (ds_lint s) (ds_config s) (ds_ignored s) r fs)
    end.
Proof. exact handle_code_action_spec. Qed.
Check C08_handler_code_action :
  forall (doc : Type) (source : doc -> text) (cfg : Type) (fill : cfg -> cfg) (ctx_key : dlint -> doc -> N)
         (url_at : doc -> nat -> option span) (o : option (dstate doc cfg)) (r : range) (fs : bool),
  handle_code_action doc source cfg fill ctx_key url_at o r fs =
    match o with
    | None => (None, Ok [])
    | Some s => (Some s, code_actions_of doc source cfg fill ctx_key url_at
                           (ds_doc s) (ds_lint s) (ds_config s) (ds_ignored s) r fs)
    end.
Print Assumptions C08_handler_code_action.

(* backend.rs: HarperIgnoreLint sent back with the lint JSON a code action embedded (premise: Lint survives the
   serde round trip - monitored on every embedded lint): the lint's context key joins the ignore set, nothing
   else changes, the diagnostics published in reply are the current document's without that lint *)
Theorem C08_handler_ignore_embedded :
  forall (doc : Type) (source : doc -> text) (cfg : Type) (fill : cfg -> cfg) (ctx_key : dlint -> doc -> N)
         (json : Type) (lint_to_json : dlint -> json) (lint_of_json : json -> option dlint),
  (forall l, lint_of_json (lint_to_json l) = Some l) ->
  forall (s : dstate doc cfg) (l : dlint) (sev : nat),
  let ign := ctx_key l (ds_doc s) :: ds_ignored s in
  handle_ignore doc source cfg fill ctx_key json lint_of_json (Some s) (lint_to_json l) sev
  = (Some (mkdstate (ds_doc s) (ds_lint s) (ds_config s) ign),
     Some (diagnostics_of doc source cfg fill ctx_key (ds_doc s) (ds_lint s) (ds_config s) ign sev))
  /\ ~ In l (visible_lints doc cfg fill ctx_key (ds_doc s) (ds_lint s) (ds_config s) ign).
Proof. exact handle_ignore_embedded. Qed.
Check C08_handler_ignore_embedded :
  forall (doc : Type) (source : doc -> text) (cfg : Type) (fill : cfg -> cfg) (ctx_key : dlint -> doc -> N)
         (json : Type) (lint_to_json : dlint -> json) (lint_of_json : json -> option dlint),
  (forall l, lint_of_json (lint_to_json l) = Some l) ->
  forall (s : dstate doc cfg) (l : dlint) (sev : nat),
  let ign := ctx_key l (ds_doc s) :: ds_ignored s in
  handle_ignore doc source cfg fill ctx_key json lint_of_json (Some s) (lint_to_json l) sev
  = (Some (mkdstate (ds_doc s) (ds_lint s) (ds_config s) ign),
     Some (diagnostics_of doc source cfg fill ctx_key (ds_doc s) (ds_lint s) (ds_config s) ign sev))
  /\ ~ In l (visible_lints doc cfg fill ctx_key (ds_doc s) (ds_lint s) (ds_config s) ign).
Print Assumptions C08_handler_ignore_embedded.

(* ------------------------------------------------------------------------------------------ *)
(*  non-vacuity of the phase-3 theorems                                                          *)
(* ------------------------------------------------------------------------------------------ *)
Example C08_ex_u32 :
  text_fits_u32 ex_text /\ index_to_position_u32 ex_text 6 = Ok (1, 3) /\
  as_u32 5 = 5 /\ N.to_nat u32_modulus <> 0 /\ severity_to_lsp 3 = 4 /\ severity_to_lsp 0 = 1.
Proof.
  split; [split; unfold fits_u32; now vm_compute|]. split; [now vm_compute|]. split; [now vm_compute|].
  split; [exact modulus_nat_nonzero|]. now vm_compute.
Qed.

(* a history on the driver's instantiation: "teh a" (one spelling lint), diagnostics, a request, then the
   document is replaced by "a\nteh 😀 b" (the spelling lint now on line 1, a second lint on the astral
   character); the request at 'e' of "teh" - index 3, published position (1,1) - is answered from the NEW text *)
Definition ex_l1 : dlint := mkdlint (mkspan 0 3) 63 [ReplaceWith [116; 104; 101]%N] true 1.
Definition ex_l2 : dlint := mkdlint (mkspan 2 5) 63 [ReplaceWith [116; 104; 101]%N; Remove] true 1.
Definition ex_l3 : dlint := mkdlint (mkspan 6 7) 31 [InsertAfter [33]%N] false 2.
Definition ex_d0 : ddoc := mkddoc 0 [] [] [].
Definition ex_d1 : ddoc := mkddoc 1 [116; 101; 104; 32; 97]%N [(ex_l1, 11%N)] [].
Definition ex_d2 : ddoc := mkddoc 2 [97; 10; 116; 101; 104; 32; 128512; 32; 98]%N [(ex_l2, 12%N); (ex_l3, 13%N)] [].
Definition ex_s0 : dstate ddoc nat := mkdstate ex_d0 drv_lint 0 [].
Definition ex_h : list (op ddoc nat) :=
  [OSetDocument ex_d1; ODiagnostics 3; OCodeActions ((0, 1), (0, 1)) false; OSetDocument ex_d2].

Example C08_ex_history :
  let fill := fun _ : nat => 1 in
  let key := drv_ctx_key [] in
  let d := doc_after ddoc nat (ds_doc ex_s0) ex_h in
  let t := dd_text d in
  let vis := visible_lints ddoc nat fill key d (lint_after ddoc nat (ds_lint ex_s0) ex_h)
               (config_after ddoc nat (ds_config ex_s0) ex_h)
               (ignored_after ddoc nat key (ds_doc ex_s0) (ds_ignored ex_s0) ex_h) in
  d = ex_d2 /\ vis = [ex_l2; ex_l3] /\ text_fits_u32 t /\
  Forall (fun x => span_in (length t) (lspan x)) vis /\
  (forall j sp, drv_url_at d j = Some sp -> span_in (length t) sp) /\
  In ex_l2 vis /\ sstart (lspan ex_l2) <= 3 < send (lspan ex_l2) /\
  index_to_position_u32 t 3 = Ok (1, 1) /\
  snd (step ddoc dd_text nat fill key drv_url_at (fst (run ddoc dd_text nat fill key drv_url_at ex_s0 ex_h))
            (OCodeActions ((1, 1), (1, 1)) false))
  = RActions (Ok [AEdit ((1, 0), (1, 3)) [116; 104; 101]%N 1; AEdit ((1, 0), (1, 3)) [] 1; AIgnore ex_l2;
                  AAddUser [116; 101; 104]%N; AAddFile [116; 101; 104]%N]) /\
  (* the earlier request, inside the history, was answered from the text of ITS moment *)
  nth_error (snd (run ddoc dd_text nat fill key drv_url_at ex_s0 ex_h)) 2
  = Some (RActions (Ok [AEdit ((0, 0), (0, 3)) [116; 104; 101]%N 1; AIgnore ex_l1;
                        AAddUser [116; 101; 104]%N; AAddFile [116; 101; 104]%N])) /\
  (* ignoring ex_l2 (key 12 against ex_d2) removes it from the next answer and from the diagnostics *)
  snd (step ddoc dd_text nat fill key drv_url_at
            (fst (run ddoc dd_text nat fill key drv_url_at ex_s0 (ex_h ++ [OIgnore ex_l2]))) (ODiagnostics 3))
  = RDiagnostics (Ok [(((1, 4), (1, 6)), 4, 2%N)]).
Proof.
  cbv zeta. split; [reflexivity|]. split; [now vm_compute|].
  split; [split; unfold fits_u32; now vm_compute|].
  split; [repeat constructor; cbn; lia|].
  split; [intros j sp H; vm_compute in H; discriminate H|].
  split; [now left|]. split; [cbn; lia|]. now vm_compute.
Qed.

(* ------------------------------------------------------------------------------------------ *)
(*  PHASE 4: Document::get_token_at_char_index (the binary search) inside the model; the domain   *)
(* ------------------------------------------------------------------------------------------ *)
Require Import C08TokenAt C08TokenAtProofs C08DomainProofs.

(* core::slice::binary_search_by as modelled (Rust >= 1.82 loop): no index panic, no fuel exhaustion, for every
   list and EVERY comparator (ordered or not) *)
Theorem C08_binary_search_total :
  forall (A : Type) (f : A -> comparison) (l : list A), exists r, binary_search_by f l = Ok r.
Proof. exact @binary_search_by_total. Qed.
Check C08_binary_search_total :
  forall (A : Type) (f : A -> comparison) (l : list A), exists r, binary_search_by f l = Ok r.
Print Assumptions C08_binary_search_total.

(* its contract: on  Less* ++ [Equal] ++ Greater*  it answers Ok(index of the Equal element) *)
Theorem C08_binary_search_finds :
  forall (A : Type) (f : A -> comparison) (P Q : list A) (t : A),
  Forall (fun x => f x = Lt) P -> f t = Eq -> Forall (fun x => f x = Gt) Q ->
  binary_search_by f (P ++ t :: Q) = Ok (inl (length P)).
Proof. exact @binary_search_by_finds. Qed.
Check C08_binary_search_finds :
  forall (A : Type) (f : A -> comparison) (P Q : list A) (t : A),
  Forall (fun x => f x = Lt) P -> f t = Eq -> Forall (fun x => f x = Gt) Q ->
  binary_search_by f (P ++ t :: Q) = Ok (inl (length P)).
Print Assumptions C08_binary_search_finds.

(* Document::get_token_at_char_index never panics, whatever the token vector *)
Theorem C08_token_at_total :
  forall (toks : list dtoken) (i : nat), exists r, token_at toks i = Ok r.
Proof. exact token_at_total. Qed.
Check C08_token_at_total :
  forall (toks : list dtoken) (i : nat), exists r, token_at toks i = Ok r.
Print Assumptions C08_token_at_total.

(* ... and is sound on EVERY vector, sorted or not: the token answered is a token of the document that contains
   the character, or an empty (or reversed) token starting at it - the comparator's second way to say Equal *)
Theorem C08_token_at_sound :
  forall (toks : list dtoken) (i : nat) (t : dtoken),
  token_at toks i = Ok (Some t) ->
  In t toks /\ (tok_contains t i \/ (sstart (tspan t) = i /\ send (tspan t) <= i)).
Proof. exact token_at_sound. Qed.
Check C08_token_at_sound :
  forall (toks : list dtoken) (i : nat) (t : dtoken),
  token_at toks i = Ok (Some t) ->
  In t toks /\ (tok_contains t i \/ (sstart (tspan t) = i /\ send (tspan t) <= i)).
Print Assumptions C08_token_at_sound.

(* on sorted vectors of non-empty tokens (gaps allowed) the binary search IS the linear scan for the token
   containing the character: found iff there is one *)
Theorem C08_token_at_sorted_is_scan :
  forall (toks : list dtoken) (i : nat), toks_sorted toks -> token_at toks i = Ok (token_at_spec toks i).
Proof. exact token_at_sorted_is_scan. Qed.
Check C08_token_at_sorted_is_scan :
  forall (toks : list dtoken) (i : nat), toks_sorted toks -> token_at toks i = Ok (token_at_spec toks i).
Print Assumptions C08_token_at_sorted_is_scan.

(* in particular every Url token of such a vector is found at each of its characters *)
Theorem C08_token_at_complete_sorted :
  forall (toks : list dtoken) (i : nat) (t : dtoken),
  toks_sorted toks -> In t toks -> tok_contains t i -> token_at toks i = Ok (Some t).
Proof. exact token_at_complete_sorted. Qed.
Check C08_token_at_complete_sorted :
  forall (toks : list dtoken) (i : nat) (t : dtoken),
  toks_sorted toks -> In t toks -> tok_contains t i -> token_at toks i = Ok (Some t).
Print Assumptions C08_token_at_complete_sorted.

(* REFUTED off sorted vectors.  Witness: the token vector harper's Markdown parser builds for "https://c.ex\n\nb"
   - [Url [0,12); ParagraphBreak [0,0); Word [14,15)], the zero-width break of a paragraph sits BEHIND its tokens
   with the span of its start -: at NO character of the Url does the lookup answer it (so no "Open URL" command
   is offered), although the linear scan finds it.  Outside C08's property text (Open URL is not a lint's fix:
   C08_url_lookup_only_appends); observation + proposed patch fixes/c08-token-at-char-index-linear.diff;
   replayed on the implementation by the K stream of the correspondence (corpus/C08/tokens.json) *)
Theorem C08_token_at_unsorted_refuted :
  exists toks t, In t toks /\ turl t = true /\ ~ toks_sorted toks /\
    forall i, tok_contains t i ->
      token_at_spec toks i = Some t /\ token_at toks i <> Ok (Some t) /\ url_token_at_vec toks i = None.
Proof. exact token_at_unsorted_refuted. Qed.
Check C08_token_at_unsorted_refuted :
  exists toks t, In t toks /\ turl t = true /\ ~ toks_sorted toks /\
    forall i, tok_contains t i ->
      token_at_spec toks i = Some t /\ token_at toks i <> Ok (Some t) /\ url_token_at_vec toks i = None.
Print Assumptions C08_token_at_unsorted_refuted.

(* DECISION on the Url-token lookup: it cannot change the lint part of a code-action answer - whatever the lookup
   says, the answer is the answer without any lookup, or that plus ONE trailing Open-URL command *)
Theorem C08_url_lookup_only_appends :
  forall (doc : Type) (source : doc -> text) (url_at : doc -> nat -> option span) (d : doc)
         (lints : list dlint) (r : range) (fs : bool) (acts : list action),
  code_actions_core doc source url_at d lints r fs = Ok acts ->
  exists acts0, code_actions_core doc source (fun _ _ => None) d lints r fs = Ok acts0 /\
                (acts = acts0 \/ exists u, acts = acts0 ++ [AOpenUrl u]).
Proof. exact code_actions_core_url_only_appends. Qed.
Check C08_url_lookup_only_appends :
  forall (doc : Type) (source : doc -> text) (url_at : doc -> nat -> option span) (d : doc)
         (lints : list dlint) (r : range) (fs : bool) (acts : list action),
  code_actions_core doc source url_at d lints r fs = Ok acts ->
  exists acts0, code_actions_core doc source (fun _ _ => None) d lints r fs = Ok acts0 /\
                (acts = acts0 \/ exists u, acts = acts0 ++ [AOpenUrl u]).
Print Assumptions C08_url_lookup_only_appends.

(* END TO END with the lookup AS CODED (binary search over the document's token vector, no order assumed): the
   abstract premise on url_at of C08_history_code_action_at_published is replaced by "every token of the current
   document lies inside its text" (C02's business); holds for sorted and unsorted (Markdown) vectors alike *)
Theorem C08_history_code_action_at_published_tokens :
  forall (doc : Type) (source : doc -> text) (cfg : Type) (fill : cfg -> cfg) (ctx_key : dlint -> doc -> N)
         (tokens : doc -> list dtoken) (s0 : dstate doc cfg) (h : list (op doc cfg))
         (l : dlint) (i : nat) (fs : bool),
  let url_at := url_at_tokens doc tokens in
  let d := doc_after doc cfg (ds_doc s0) h in
  let t := source d in
  let vis := visible_lints doc cfg fill ctx_key d (lint_after doc cfg (ds_lint s0) h)
               (config_after doc cfg (ds_config s0) h) (ignored_after doc cfg ctx_key (ds_doc s0) (ds_ignored s0) h) in
  text_fits_u32 t ->
  Forall (fun x => span_in (length t) (lspan x)) vis ->
  Forall (fun tk => span_in (length t) (tspan tk)) (tokens d) ->
  In l vis -> sstart (lspan l) <= i < send (lspan l) ->
  exists p acts,
    index_to_position_u32 t i = Ok p /\ resolve t p = Some i /\
    snd (step doc source cfg fill ctx_key url_at (fst (run doc source cfg fill ctx_key url_at s0 h))
              (OCodeActions (p, p) fs)) = RActions (Ok acts) /\
    In (AIgnore l) acts /\
    forall s, In s (lsugs l) ->
      exists r nt out, In (AEdit r nt (ltag l)) acts /\ span_to_range_u32 t (lspan l) = Ok r /\
                       client_apply t r nt = Some out /\ apply s (lspan l) t = Ok out.
Proof. exact history_code_action_at_published_tokens. Qed.
Check C08_history_code_action_at_published_tokens :
  forall (doc : Type) (source : doc -> text) (cfg : Type) (fill : cfg -> cfg) (ctx_key : dlint -> doc -> N)
         (tokens : doc -> list dtoken) (s0 : dstate doc cfg) (h : list (op doc cfg))
         (l : dlint) (i : nat) (fs : bool),
  let url_at := url_at_tokens doc tokens in
  let d := doc_after doc cfg (ds_doc s0) h in
  let t := source d in
  let vis := visible_lints doc cfg fill ctx_key d (lint_after doc cfg (ds_lint s0) h)
               (config_after doc cfg (ds_config s0) h) (ignored_after doc cfg ctx_key (ds_doc s0) (ds_ignored s0) h) in
  text_fits_u32 t ->
  Forall (fun x => span_in (length t) (lspan x)) vis ->
  Forall (fun tk => span_in (length t) (tspan tk)) (tokens d) ->
  In l vis -> sstart (lspan l) <= i < send (lspan l) ->
  exists p acts,
    index_to_position_u32 t i = Ok p /\ resolve t p = Some i /\
    snd (step doc source cfg fill ctx_key url_at (fst (run doc source cfg fill ctx_key url_at s0 h))
              (OCodeActions (p, p) fs)) = RActions (Ok acts) /\
    In (AIgnore l) acts /\
    forall s, In s (lsugs l) ->
      exists r nt out, In (AEdit r nt (ltag l)) acts /\ span_to_range_u32 t (lspan l) = Ok r /\
                       client_apply t r nt = Some out /\ apply s (lspan l) t = Ok out.
Print Assumptions C08_history_code_action_at_published_tokens.

(* DOMAIN.  The property's quantifier names LF and CRLF line ends: a text with a lone CR is outside it.  The
   theorems read with harper's line ends (resolve) hold for EVERY text; the _lsp theorems carry `no_lone_cr`,
   and it cannot be dropped: "a\rb", index 2 (not between a CR and its LF) is published as (0,2), which an
   LSP 3.17 client - for which the lone CR ends line 0 - cannot resolve *)
Theorem C08_lone_cr_premise_needed :
  exists t i p, i <= length t /\ ~ no_lone_cr t /\ ~ inside_crlf t i /\
    index_to_position t i = Ok p /\ resolve t p = Some i /\ resolve_lsp t p = None.
Proof. exact lone_cr_premise_needed. Qed.
Check C08_lone_cr_premise_needed :
  exists t i p, i <= length t /\ ~ no_lone_cr t /\ ~ inside_crlf t i /\
    index_to_position t i = Ok p /\ resolve t p = Some i /\ resolve_lsp t p = None.
Print Assumptions C08_lone_cr_premise_needed.

(* ... likewise for edits: replacing [2,3) of "a\rb": right under harper's reading, no such range for that client *)
Theorem C08_lone_cr_edit_needed :
  exists t sp nt r, span_in (length t) sp /\ ~ no_lone_cr t /\
    text_edit (ReplaceWith nt) sp t = Ok (r, nt) /\
    client_apply t r nt = Some [97; 13; 99]%N /\ client_apply_lsp t r nt = None.
Proof. exact lone_cr_edit_needed. Qed.
Check C08_lone_cr_edit_needed :
  exists t sp nt r, span_in (length t) sp /\ ~ no_lone_cr t /\
    text_edit (ReplaceWith nt) sp t = Ok (r, nt) /\
    client_apply t r nt = Some [97; 13; 99]%N /\ client_apply_lsp t r nt = None.
Print Assumptions C08_lone_cr_edit_needed.

(* non-vacuity: a sorted vector with a gap ("see https://c.ex now" without its second space token), the Url
   found at its first and last character, nothing in the gap; the premises of the refutation's positive
   counterpart (toks_sorted) exhibited *)
Definition ex_toks : list dtoken :=
  [mkdtoken (mkspan 0 3) false; mkdtoken (mkspan 3 4) false; mkdtoken (mkspan 4 16) true; mkdtoken (mkspan 17 20) false].
Example C08_ex_token_at :
  toks_sorted ex_toks /\
  token_at ex_toks 4 = Ok (Some (mkdtoken (mkspan 4 16) true)) /\
  url_token_at_vec ex_toks 15 = Some (mkspan 4 16) /\
  token_at ex_toks 16 = Ok None /\ url_token_at_vec ex_toks 0 = None /\
  binary_search_by (tok_cmp 16) ex_toks = Ok (inr 3) /\
  Forall (fun tk => span_in 20 (tspan tk)) ex_toks.
Proof.
  split; [cbn; lia|]. do 5 (split; [now vm_compute|]). repeat constructor; cbn; lia.
Qed.
