(* C08 — Editor diagnostics and quick-fix edits land exactly on the flagged text.
   Pinned statements only. *)
Require Import Base Suggestion PosConv ListLemmas SuggestionProofs PosConvProofs.

Theorem C08_lookup_refuted :
  exists t line col i,
    KnownClass t line /\ resolve t (line, col) = Some i /\ i < length t /\
    position_to_index t line col <> Ok i /\
    selected t ((line, col), (line, col)) [mkspan 3 5] = Ok [].
Proof. exact lookup_refuted. Qed.
Check C08_lookup_refuted :
  exists t line col i,
    KnownClass t line /\ resolve t (line, col) = Some i /\ i < length t /\
    position_to_index t line col <> Ok i /\
    selected t ((line, col), (line, col)) [mkspan 3 5] = Ok [].
Print Assumptions C08_lookup_refuted.
