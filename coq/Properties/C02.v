(* C02 — Tokens are in bounds, ordered, disjoint, and mean what their text says.
   This file pins the statements; it contains nothing but `exact`.
   Models: Model/Lexer.v (lex_token and every sub-lexer, PlainEnglish::parse), Model/Condense.v (the passes
   of Document::parse, in the order the code applies them).  `uni` = the Unicode predicates, parameters of the
   model; `uni_laws u` = the three laws the shape theorems use (monitored over all scalar values).
   Invariants: Proofs/TokenInv.v (Tiling, InBounds, OrderedDisjoint, ZeroWidthOnlyBreaks), Proofs/Shape.v
   (kind_shape / Shape), Proofs/CondenseInv.v (Grouped + the grouping rule G_* of each pass, QuotesOk). *)
Require Import Base Overlap Mask MaskProofs.
Require Import OverlapProofs Tables_lexer Lexer Condense ListLemmas TokenInv CondenseInv LexerProofs
  CondPatterns3 CondPattern CondSpaces CondInitialisms CondSuffixQuotes Shape NumberFinite WordsMaximal DocumentProofs
  C02Wrappers C02Gapped C02WrappersProofs C02Quotes C02GapPasses C02Markdown C02MarkdownProofs C02NumberText C02Findings C02ZeroWidth C02ZeroWidthSuffix C02ZeroWidthDoc C02Inert C02ZeroWidthNl.
From Coq Require Import ZArith.

(* ---------- the lexer ---------- *)
(* every sub-lexer that succeeds consumes at least one and at most the remaining characters (ANY Unicode tables) *)
Theorem C02_lex_progress : forall u src n k,
  src <> [] -> lex_token u src = Some (n, k) -> 1 <= n <= length src.
Proof. exact lex_progress. Qed.
Check C02_lex_progress : forall u src n k,
  src <> [] -> lex_token u src = Some (n, k) -> 1 <= n <= length src.
Print Assumptions C02_lex_progress.

(* PlainEnglish::parse never panics, fuel |s| suffices, and its tokens tile [0,|s|) exactly:
   consecutive, non-empty, first starts at 0, last ends at |s| *)
Theorem C02_plain_tiling : forall u s,
  exists ts, plain_parse u s = Ok ts /\ Tiling 0 (length s) ts.
Proof. exact plain_tiling. Qed.
Check C02_plain_tiling : forall u s,
  exists ts, plain_parse u s = Ok ts /\ Tiling 0 (length s) ts.
Print Assumptions C02_plain_tiling.

(* a tiling is in bounds, ordered and disjoint, and has no zero-width token at all *)
Theorem C02_tiling_invariants : forall n ts,
  Tiling 0 n ts -> InBounds n ts /\ OrderedDisjoint ts /\ ZeroWidthOnlyBreaks ts.
Proof. exact tiling_invariants. Qed.
Check C02_tiling_invariants : forall n ts,
  Tiling 0 n ts -> InBounds n ts /\ OrderedDisjoint ts /\ ZeroWidthOnlyBreaks ts.
Print Assumptions C02_tiling_invariants.

(* every raw token has the lexical shape of its kind: word => no whitespace, space => blanks with the right
   count, newline => that many '\n', number => the text is the literal that denotes the value (decimal by
   the float grammar, with a value that rounds to a FINITE f64; hex as 0x<digits>), punctuation => the one character from_char maps to it (quotes: a
   quote character) *)
Theorem C02_plain_shape : forall u, uni_laws u -> forall s ts,
  plain_parse u s = Ok ts -> Shape u false false s ts.
Proof. exact plain_parse_shape. Qed.
Check C02_plain_shape : forall u, uni_laws u -> forall s ts,
  plain_parse u s = Ok ts -> Shape u false false s ts.
Print Assumptions C02_plain_shape.

(* Lexer.f64_finite — the test lex_number applies to a parse since b5c1992, part of the number shape — means:
   the exact value mant * 10^ex is below 2^1024 - 2^970, the midpoint between f64::MAX and 2^1024, i.e. the
   correctly rounded (nearest, ties to even) f64 is finite *)
Theorem C02_f64_finite_spec : forall mant ex, f64_finite mant ex = true <-> below_overflow mant ex.
Proof. exact f64_finite_spec. Qed.
Check C02_f64_finite_spec : forall mant ex, f64_finite mant ex = true <-> below_overflow mant ex.
Print Assumptions C02_f64_finite_spec.

(* a raw Word token is a whole word: two Word tokens are never adjacent in the output of PlainEnglish::parse
   (7202fd4; under three Unicode laws: lingual => alphabetic, ASCII letters are lingual, ASCII digits numeric) *)
Theorem C02_words_maximal : forall u, word_laws u -> forall s ts,
  plain_parse u s = Ok ts -> NoAdjacentWords ts.
Proof. exact plain_words_maximal. Qed.
Check C02_words_maximal : forall u, word_laws u -> forall s ts,
  plain_parse u s = Ok ts -> NoAdjacentWords ts.
Print Assumptions C02_words_maximal.

(* ---------- the passes of Document::parse, one preservation theorem each ---------- *)
(* cutting a tiling into groups and replacing each group by one token spanning it keeps the tiling *)
Theorem C02_grouped_tiling : forall G ts ts',
  Grouped G ts ts' -> forall a b, Tiling a b ts -> Tiling a b ts'.
Proof. exact grouped_tiling. Qed.
Check C02_grouped_tiling : forall G ts ts',
  Grouped G ts ts' -> forall a b, Tiling a b ts -> Tiling a b ts'.
Print Assumptions C02_grouped_tiling.

Theorem C02_condense_spaces : forall a b ts, Tiling a b ts ->
  exists ts', condense_spaces ts = Ok ts' /\ Grouped G_spaces ts ts'.
Proof. exact condense_spaces_grouped. Qed.
Check C02_condense_spaces : forall a b ts, Tiling a b ts ->
  exists ts', condense_spaces ts = Ok ts' /\ Grouped G_spaces ts ts'.
Print Assumptions C02_condense_spaces.

Theorem C02_condense_newlines : forall a b ts, Tiling a b ts ->
  exists ts', condense_newlines ts = Ok ts' /\ Grouped G_newlines ts ts'.
Proof. exact condense_newlines_grouped. Qed.
Check C02_condense_newlines : forall a b ts, Tiling a b ts ->
  exists ts', condense_newlines ts = Ok ts' /\ Grouped G_newlines ts ts'.
Print Assumptions C02_condense_newlines.

Theorem C02_newlines_to_breaks : forall ts, Grouped G_breaks ts (newlines_to_breaks ts).
Proof. exact newlines_to_breaks_grouped. Qed.
Check C02_newlines_to_breaks : forall ts, Grouped G_breaks ts (newlines_to_breaks ts).
Print Assumptions C02_newlines_to_breaks.

(* condense_pattern for ANY matcher that answers on every suffix within bounds and whose matches have
   monotone ends: find_all_matches keeps pairwise disjoint matches, the index queue remove_indices gets is
   strictly increasing, and the result is the grouping by the kept matches (C02_matches_sorted_disjoint) *)
Theorem C02_condense_pattern : forall m edit a b ts,
  Tiling a b ts -> matcher_ok m ts -> monotone_ends m ts ->
  exists ts', condense_pattern m edit ts = Ok ts' /\ Grouped (G_pattern_in ts m edit) ts ts'.
Proof. exact condense_pattern_grouped_in. Qed.
Check C02_condense_pattern : forall m edit a b ts,
  Tiling a b ts -> matcher_ok m ts -> monotone_ends m ts ->
  exists ts', condense_pattern m edit ts = Ok ts' /\ Grouped (G_pattern_in ts m edit) ts ts'.
Print Assumptions C02_condense_pattern.

(* the three fixed patterns meet those premises *)
Theorem C02_patterns_ok : forall src ts,
  (matcher_ok (contraction_matches src) ts /\ monotone_ends (contraction_matches src) ts) /\
  (matcher_ok (ellipsis_matches src) ts /\ monotone_ends (ellipsis_matches src) ts) /\
  (Tiling 0 (length src) ts -> matcher_ok (latin_matches src) ts /\ monotone_ends (latin_matches src) ts).
Proof. exact (fun src ts => conj (contraction_ok src ts) (conj (ellipsis_ok src ts) (latin_ok src ts))). Qed.
Check C02_patterns_ok : forall src ts,
  (matcher_ok (contraction_matches src) ts /\ monotone_ends (contraction_matches src) ts) /\
  (matcher_ok (ellipsis_matches src) ts /\ monotone_ends (ellipsis_matches src) ts) /\
  (Tiling 0 (length src) ts -> matcher_ok (latin_matches src) ts /\ monotone_ends (latin_matches src) ts).
Print Assumptions C02_patterns_ok.

Theorem C02_condense_dotted_initialisms : forall a b ts, Tiling a b ts ->
  exists ts', condense_dotted_initialisms ts = Ok ts' /\ Grouped G_initialism ts ts'.
Proof. exact condense_dotted_initialisms_grouped. Qed.
Check C02_condense_dotted_initialisms : forall a b ts, Tiling a b ts ->
  exists ts', condense_dotted_initialisms ts = Ok ts' /\ Grouped G_initialism ts ts'.
Print Assumptions C02_condense_dotted_initialisms.

Theorem C02_condense_number_suffixes : forall src ts, Tiling 0 (length src) ts ->
  exists ts', condense_number_suffixes src ts = Ok ts' /\ Grouped (G_suffix src) ts ts'.
Proof. exact condense_number_suffixes_grouped. Qed.
Check C02_condense_number_suffixes : forall src ts, Tiling 0 (length src) ts ->
  exists ts', condense_number_suffixes src ts = Ok ts' /\ Grouped (G_suffix src) ts ts'.
Print Assumptions C02_condense_number_suffixes.

(* match_quotes keeps every span and kind tag, only fills twin_loc, and afterwards quote tokens point at
   existing twin quotes that point back *)
Theorem C02_match_quotes : forall ts, NoTwins ts ->
  exists ts', match_quotes ts = Ok ts' /\ SameButTwins ts ts' /\ QuotesOk ts'.
Proof. exact match_quotes_spec. Qed.
Check C02_match_quotes : forall ts, NoTwins ts ->
  exists ts', match_quotes ts = Ok ts' /\ SameButTwins ts ts' /\ QuotesOk ts'.
Print Assumptions C02_match_quotes.

(* ---------- the whole plain-English document ---------- *)
(* for ANY Unicode tables: Document::new_plain_english never panics, its tokens tile the text exactly (no
   character lost or duplicated by any condensing step), and quotes are paired *)
Theorem C02_document_tiling : forall u s,
  exists ts, document_plain u s = Ok ts /\ Tiling 0 (length s) ts /\ QuotesOk ts.
Proof. exact document_plain_tiling. Qed.
Check C02_document_tiling : forall u s,
  exists ts, document_plain u s = Ok ts /\ Tiling 0 (length s) ts /\ QuotesOk ts.
Print Assumptions C02_document_tiling.

(* and every token has the lexical shape of its kind; for words: no whitespace OR the text is
   `et <whitespace> al.` — the known class of finding F7, see C02_word_no_whitespace_refuted *)
Theorem C02_document_shape : forall u, uni_laws u -> forall s,
  exists ts, document_plain u s = Ok ts /\ Tiling 0 (length s) ts /\ Shape u true true s ts /\ QuotesOk ts.
Proof. exact document_plain_ok. Qed.
Check C02_document_shape : forall u, uni_laws u -> forall s,
  exists ts, document_plain u s = Ok ts /\ Tiling 0 (length s) ts /\ Shape u true true s ts /\ QuotesOk ts.
Print Assumptions C02_document_shape.

(* no decimal Number token of the document carries a value that overflows f64 (F16 is repaired: b5c1992) *)
Theorem C02_document_numbers_finite : forall u, uni_laws u -> forall s,
  exists ts, document_plain u s = Ok ts /\ Forall number_finite ts.
Proof. exact document_numbers_finite. Qed.
Check C02_document_numbers_finite : forall u, uni_laws u -> forall s,
  exists ts, document_plain u s = Ok ts /\ Forall number_finite ts.
Print Assumptions C02_document_numbers_finite.

(* the property's clause "a word contains no whitespace" is REFUTED by the faithful model: `et al.` is one Word
   token over six characters, the third of which is a space (finding F7, condense_latin; replayed on the
   implementation by corpus/C02) *)
Theorem C02_word_no_whitespace_refuted :
  document_plain ascii_uni [101; 116; 32; 97; 108; 46]%N = Ok [mktok (mkspan 0 6) KWord]
  /\ u_whitespace ascii_uni 32 = true.
Proof. exact word_with_space_witness. Qed.
Check C02_word_no_whitespace_refuted :
  document_plain ascii_uni [101; 116; 32; 97; 108; 46]%N = Ok [mktok (mkspan 0 6) KWord]
  /\ u_whitespace ascii_uni 32 = true.
Print Assumptions C02_word_no_whitespace_refuted.

(* ---------- non-vacuity ---------- *)
(* the laws are satisfiable *)
Example C02_laws_satisfiable : uni_laws ascii_uni.
Proof. exact ascii_uni_laws. Qed.
Example C02_word_laws_satisfiable : word_laws ascii_uni.
Proof. exact ascii_uni_word_laws. Qed.

(* both sides of the overflow boundary *)
Example C02_f64_finite_nonvacuous :
  f64_finite 1 308 = true /\ f64_finite 1 999 = false /\ f64_finite 17976931348623157 292 = true /\
  f64_finite f64_overflow_bound 0 = false /\ f64_finite (f64_overflow_bound - 1) 0 = true /\
  f64_finite 1 (-99999999999999999999) = true /\ f64_finite (f64_overflow_bound * 1000) (-3) = false.
Proof. exact f64_finite_examples. Qed.

(* HISTORY — witnesses of repaired defects (the old behaviour, over `_old` definitions, or the new tokens):
   F16 / b5c1992: `1e999` is no longer one Number token with an infinite value *)
Example C02_number_overflow_old_refuted :
  plain_parse ascii_uni [49; 101; 57; 57; 57]%N
  = Ok [mktok (mkspan 0 4) (KNumber (mknumber false 1 99%Z None 10 0));
        mktok (mkspan 4 5) (KNumber (mknumber false 9 0%Z None 10 0))]
  /\ parse_f64 [49; 101; 57; 57; 57]%N = Some (false, 1%N, 999%Z) /\ f64_finite 1 999 = false.
Proof. exact number_overflow_witness. Qed.
(* FC06a / 7202fd4: the old ASCII-only look-ahead cut `as` off `asüs`; now it is one Word *)
Example C02_plural_digit_old_refuted :
  word_laws uni_u_umlaut /\
  lex_plural_digit_old [97; 115; 252; 115]%N = Some (2, KWord) /\
  lex_plural_digit uni_u_umlaut [97; 115; 252; 115]%N = None /\
  plain_parse uni_u_umlaut [97; 115; 252; 115]%N = Ok [mktok (mkspan 0 4) KWord].
Proof. exact plural_digit_old_splits_a_word. Qed.
(* FC17a / dcfd71f: `2st's` keeps its (wrong) ordinal suffix on the Number token *)
Example C02_suffix_before_contraction :
  document_plain ascii_uni [50; 115; 116; 39; 115]%N
  = Ok [mktok (mkspan 0 3) (KNumber (mknumber false 2 0%Z (Some SufSt) 10 0));
        mktok (mkspan 3 4) (KPunct PApostrophe); mktok (mkspan 4 5) KWord].
Proof. exact suffix_before_contraction_witness. Qed.

(* "Hi  th3re, 1st." lexes to eight tokens tiling 15 characters *)
Example C02_plain_nonvacuous :
  plain_parse ascii_uni [72; 105; 32; 32; 116; 104; 51; 114; 101; 44; 32; 49; 115; 116; 46]%N
  = Ok [mktok (mkspan 0 2) KWord; mktok (mkspan 2 4) (KSpace 2); mktok (mkspan 4 9) KWord;
        mktok (mkspan 9 10) (KPunct PComma); mktok (mkspan 10 11) (KSpace 1);
        mktok (mkspan 11 12) (KNumber (mknumber false 1 0%Z None 10 0)); mktok (mkspan 12 14) KWord;
        mktok (mkspan 14 15) (KPunct PPeriod)].
Proof. vm_compute. reflexivity. Qed.

(* `"1st" e.g.  it's...` : suffix, quotes, initialism, merged spaces, contraction, ellipsis *)
Example C02_document_nonvacuous :
  document_plain ascii_uni
    [34; 49; 115; 116; 34; 32; 101; 46; 103; 46; 32; 9; 105; 116; 39; 115; 46; 46; 46]%N
  = Ok [mktok (mkspan 0 1) (KPunct (PQuote (Some 2)));
        mktok (mkspan 1 4) (KNumber (mknumber false 1 0%Z (Some SufSt) 10 0));
        mktok (mkspan 4 5) (KPunct (PQuote (Some 0)));
        mktok (mkspan 5 6) (KSpace 1); mktok (mkspan 6 10) KWord; mktok (mkspan 10 12) (KSpace 3);
        mktok (mkspan 12 16) KWord; mktok (mkspan 16 19) (KPunct PEllipsis)].
Proof. vm_compute. reflexivity. Qed.

(* ====================== phase 3: wrapper parsers, gapped vectors, match_quotes on every vector ======================
   Models: Model/C02Wrappers.v (IsolateEnglish::parse with iter_chunks and is_likely_english; CollapseIdentifiers::parse
   with its pattern, find_all_matches and `.sorted().unique()`); `dict` = Dictionary::contains_word, a parameter.
   Invariants: Proofs/C02Gapped.v — Gapped a b ts (non-empty, ordered, disjoint tokens inside [a,b): a tiling with
   gaps), Sub (sub-sequence), TokInv n ts (the property's front-end independent clauses: start <= end, covering
   tokens in bounds and ordered/disjoint, zero-width tokens only Newline / ParagraphBreak), Coarse ts ts' (every token of
   ts' spans a run of consecutive tokens of the vector ts). *)

(* a gapped tiling has the three front-end independent invariants of the property *)
Theorem C02_gapped_invariants : forall n ts,
  Gapped 0 n ts -> InBounds n ts /\ OrderedDisjoint ts /\ ZeroWidthOnlyBreaks ts.
Proof. exact gapped_invariants. Qed.
Check C02_gapped_invariants : forall n ts,
  Gapped 0 n ts -> InBounds n ts /\ OrderedDisjoint ts /\ ZeroWidthOnlyBreaks ts.
Print Assumptions C02_gapped_invariants.

(* IsolateEnglish on ANY inner vector whose Word tokens lie inside the text (wgood), any dictionary: never panics;
   iter_chunks cuts the vector into pieces that concatenate to it; the output is the concatenation of the kept
   chunks (every chunk of fewer than 4 tokens, and the chunks is_likely_english accepts) — a sub-sequence *)
Theorem C02_isolate_english_chunks : forall dict src inner, Forall (wgood src) inner ->
  exists chunks, iter_chunks inner = Ok chunks /\ concat chunks = inner /\
    isolate_english dict src inner = Ok (concat (filter (ie_keep dict src) chunks)) /\
    Sub (concat (filter (ie_keep dict src) chunks)) inner.
Proof. exact isolate_english_spec. Qed.
Check C02_isolate_english_chunks : forall dict src inner, Forall (wgood src) inner ->
  exists chunks, iter_chunks inner = Ok chunks /\ concat chunks = inner /\
    isolate_english dict src inner = Ok (concat (filter (ie_keep dict src) chunks)) /\
    Sub (concat (filter (ie_keep dict src) chunks)) inner.
Print Assumptions C02_isolate_english_chunks.

(* hence IsolateEnglish preserves the token invariant of the property, for every inner parser that has it *)
Theorem C02_isolate_english : forall dict src inner, TokInv (length src) inner ->
  exists out, isolate_english dict src inner = Ok out /\ Sub out inner /\ TokInv (length src) out.
Proof. exact isolate_english_tokinv. Qed.
Check C02_isolate_english : forall dict src inner, TokInv (length src) inner ->
  exists out, isolate_english dict src inner = Ok out /\ Sub out inner /\ TokInv (length src) out.
Print Assumptions C02_isolate_english.

(* ... and turns a (gapped) tiling into a gapped tiling — NOT into a tiling: the root of finding F28 *)
Theorem C02_isolate_english_gapped : forall dict src inner a b, a <= b -> b <= length src -> Gapped a b inner ->
  exists out, isolate_english dict src inner = Ok out /\ Sub out inner /\ Gapped a b out.
Proof. exact isolate_english_gapped. Qed.
Check C02_isolate_english_gapped : forall dict src inner a b, a <= b -> b <= length src -> Gapped a b inner ->
  exists out, isolate_english dict src inner = Ok out /\ Sub out inner /\ Gapped a b out.
Print Assumptions C02_isolate_english_gapped.

(* CollapseIdentifiers on any inner vector with the token invariant, any dictionary: never panics; the output is
   a grouping of the vector — a run `word (hyphen|underscore word)+` whose text the dictionary contains becomes ONE
   Word spanning it, everything else is kept — and has the token invariant again *)
Theorem C02_collapse_identifiers : forall dict src inner, TokInv (length src) inner ->
  exists out, collapse_identifiers dict src inner = Ok out /\ Grouped (G_ident dict src) inner out /\
              TokInv (length src) out.
Proof. exact collapse_identifiers_tokinv. Qed.
Check C02_collapse_identifiers : forall dict src inner, TokInv (length src) inner ->
  exists out, collapse_identifiers dict src inner = Ok out /\ Grouped (G_ident dict src) inner out /\
              TokInv (length src) out.
Print Assumptions C02_collapse_identifiers.

(* it keeps tilings tilings and gapped tilings gapped *)
Theorem C02_collapse_identifiers_tiling : forall dict src inner, Tiling 0 (length src) inner ->
  exists out, collapse_identifiers dict src inner = Ok out /\ Grouped (G_ident dict src) inner out /\
              Tiling 0 (length src) out.
Proof. exact collapse_identifiers_tiling. Qed.
Check C02_collapse_identifiers_tiling : forall dict src inner, Tiling 0 (length src) inner ->
  exists out, collapse_identifiers dict src inner = Ok out /\ Grouped (G_ident dict src) inner out /\
              Tiling 0 (length src) out.
Print Assumptions C02_collapse_identifiers_tiling.

Theorem C02_collapse_identifiers_gapped : forall dict src inner, Gapped 0 (length src) inner ->
  exists out, collapse_identifiers dict src inner = Ok out /\ Grouped (G_ident dict src) inner out /\
              Gapped 0 (length src) out.
Proof. exact collapse_identifiers_gapped. Qed.
Check C02_collapse_identifiers_gapped : forall dict src inner, Gapped 0 (length src) inner ->
  exists out, collapse_identifiers dict src inner = Ok out /\ Grouped (G_ident dict src) inner out /\
              Gapped 0 (length src) out.
Print Assumptions C02_collapse_identifiers_gapped.

(* a grouping of a gapped tiling is a gapped tiling; a sub-sequence of one too *)
Theorem C02_grouped_gapped : forall G ts ts', Grouped G ts ts' -> forall a b, Gapped a b ts -> Gapped a b ts'.
Proof. exact grouped_gapped. Qed.
Check C02_grouped_gapped : forall G ts ts', Grouped G ts ts' -> forall a b, Gapped a b ts -> Gapped a b ts'.
Print Assumptions C02_grouped_gapped.

(* match_quotes on EVERY token vector (no NoTwins premise): never panics, keeps spans and kinds, and every quote
   except the unpaired last one of an odd number of quotes points at an existing quote that points back; that last
   quote is left exactly as it arrived *)
Theorem C02_match_quotes_any : forall ts,
  exists ts', match_quotes ts = Ok ts' /\ SameButTwins ts ts' /\
    QuotesOkBut (unpaired_quote ts) ts' /\
    (forall i, unpaired_quote ts = Some i -> nth_error ts' i = nth_error ts i).
Proof. exact match_quotes_any. Qed.
Check C02_match_quotes_any : forall ts,
  exists ts', match_quotes ts = Ok ts' /\ SameButTwins ts ts' /\
    QuotesOkBut (unpaired_quote ts) ts' /\
    (forall i, unpaired_quote ts = Some i -> nth_error ts' i = nth_error ts i).
Print Assumptions C02_match_quotes_any.

(* so QuotesOk needs only that this ONE quote arrives without a twin (C02_match_quotes asked it of all) *)
Theorem C02_match_quotes_ok_if : forall ts,
  (forall i t, unpaired_quote ts = Some i -> nth_error ts i = Some t -> quote_twin t = Some None) ->
  exists ts', match_quotes ts = Ok ts' /\ SameButTwins ts ts' /\ QuotesOk ts'.
Proof. exact match_quotes_ok_if. Qed.
Check C02_match_quotes_ok_if : forall ts,
  (forall i t, unpaired_quote ts = Some i -> nth_error ts i = Some t -> quote_twin t = Some None) ->
  exists ts', match_quotes ts = Ok ts' /\ SameButTwins ts ts' /\ QuotesOk ts'.
Print Assumptions C02_match_quotes_ok_if.

(* the whole of Document::parse on a GAPPED vector inside the text (what IsolateEnglish / Mask-based front-ends hand
   it): never panics; the result is gapped again (in bounds, ordered, disjoint, no zero-width token); every token
   of the result spans a run of consecutive tokens of the given VECTOR; quotes are paired up to the unpaired last
   one, fully when the vector arrives without twins.  The positive half of finding F28. *)
Theorem C02_document_passes_gapped : forall src t0, Gapped 0 (length src) t0 ->
  exists t9, document_passes src t0 = Ok t9 /\ Gapped 0 (length src) t9 /\ Coarse t0 t9 /\
    QuotesOkBut (unpaired_quote t9) t9 /\ (NoTwins t0 -> QuotesOk t9).
Proof. exact document_passes_gapped. Qed.
Check C02_document_passes_gapped : forall src t0, Gapped 0 (length src) t0 ->
  exists t9, document_passes src t0 = Ok t9 /\ Gapped 0 (length src) t9 /\ Coarse t0 t9 /\
    QuotesOkBut (unpaired_quote t9) t9 /\ (NoTwins t0 -> QuotesOk t9).
Print Assumptions C02_document_passes_gapped.

(* the negative half (finding F28): "a. zz q.." with a dictionary that knows only `a` — IsolateEnglish drops the chunk
   ` zz q.`, the two periods become neighbours in the vector, condense_ellipsis makes ONE Ellipsis token 1..9 whose
   text `. zz q..` is not an ellipsis: the result is gapped but does not have the lexical shapes *)
Theorem C02_condense_across_gap_refuted :
  plain_parse ascii_uni f28_src = Ok f28_raw /\
  isolate_english f28_dict f28_src f28_raw = Ok f28_kept /\
  Gapped 0 (length f28_src) f28_kept /\
  document_passes f28_src f28_kept = Ok f28_out /\
  Gapped 0 (length f28_src) f28_out /\
  ~ Shape ascii_uni true true f28_src f28_out.
Proof. exact condense_across_gap_witness. Qed.
Check C02_condense_across_gap_refuted :
  plain_parse ascii_uni f28_src = Ok f28_raw /\
  isolate_english f28_dict f28_src f28_raw = Ok f28_kept /\
  Gapped 0 (length f28_src) f28_kept /\
  document_passes f28_src f28_kept = Ok f28_out /\
  Gapped 0 (length f28_src) f28_out /\
  ~ Shape ascii_uni true true f28_src f28_out.
Print Assumptions C02_condense_across_gap_refuted.

(* PlainEnglish wrapped by IsolateEnglish, then Document::parse: for ANY Unicode tables and dictionary no panic, the
   tokens are a gapped tiling of the text, quotes paired;  wrapped by CollapseIdentifiers: still an exact tiling *)
Theorem C02_document_plain_ie : forall u dict s,
  exists ts, document_plain_ie u dict s = Ok ts /\ Gapped 0 (length s) ts /\ QuotesOk ts.
Proof. exact document_plain_ie_gapped. Qed.
Check C02_document_plain_ie : forall u dict s,
  exists ts, document_plain_ie u dict s = Ok ts /\ Gapped 0 (length s) ts /\ QuotesOk ts.
Print Assumptions C02_document_plain_ie.

Theorem C02_document_plain_ci : forall u dict s,
  exists ts, document_plain_ci u dict s = Ok ts /\ Tiling 0 (length s) ts /\ QuotesOk ts.
Proof. exact document_plain_ci_tiling. Qed.
Check C02_document_plain_ci : forall u dict s,
  exists ts, document_plain_ci u dict s = Ok ts /\ Tiling 0 (length s) ts /\ QuotesOk ts.
Print Assumptions C02_document_plain_ci.

(* ---------- non-vacuity of the phase-3 theorems ---------- *)
(* the inner vector of the F28 witness tiles its text, has the token invariant and no twins; IsolateEnglish really
   drops a chunk of it (C02_condense_across_gap_refuted) *)
Example C02_isolate_english_nonvacuous :
  Tiling 0 (length f28_src) f28_raw /\ TokInv (length f28_src) f28_raw /\ NoTwins f28_raw.
Proof. exact f28_raw_tiling. Qed.
(* "a_b c-d", dictionary {a_b}: one identifier collapsed, the other kept *)
Example C02_collapse_identifiers_nonvacuous :
  plain_parse ascii_uni ci_src = Ok ci_raw /\
  collapse_identifiers (dict_of [[97; 95; 98]%N]) ci_src ci_raw
  = Ok [mktok (mkspan 0 3) KWord; mktok (mkspan 3 4) (KSpace 1);
        mktok (mkspan 4 5) KWord; mktok (mkspan 5 6) (KPunct PHyphen); mktok (mkspan 6 7) KWord] /\
  Tiling 0 (length ci_src) ci_raw.
Proof. exact collapse_example. Qed.
(* match_quotes with stale twins on the first two of three quotes; and the limit of the statement: a lone quote that
   ARRIVES with a twin keeps it (no parser of harper-core produces such a token: lex_quote emits None) *)
Example C02_match_quotes_any_nonvacuous :
  let q tw i := mktok (mkspan i (i + 1)) (KPunct (PQuote tw)) in
  match_quotes [q (Some 9) 0; mktok (mkspan 1 2) KWord; q (Some 0) 2; q None 3]
  = Ok [q (Some 2) 0; mktok (mkspan 1 2) KWord; q (Some 0) 2; q None 3]
  /\ unpaired_quote [q (Some 9) 0; mktok (mkspan 1 2) KWord; q (Some 0) 2; q None 3] = Some 3.
Proof. exact match_quotes_any_example. Qed.
Example C02_match_quotes_stale_twin_limit :
  let ts := [mktok (mkspan 0 1) (KPunct (PQuote (Some 7)))] in
  match_quotes ts = Ok ts /\ unpaired_quote ts = Some 0 /\ ~ QuotesOk ts.
Proof. exact match_quotes_stale_witness. Qed.

(* ====================== phase 4: the Markdown glue ======================
   Model: Model/C02Markdown.v — Markdown::parse (as it is after a37d1cc, 8b26ba4 and b736ef8) over an ABSTRACT
   pulldown-cmark event stream (an event = the arm of `match event` it falls into, its payload's char count, its source
   BYTE range), with the real inner parser (plain_parse), the byte/char bookkeeping of Model/Mask.v, the covered_until /
   behind_cursor guard, the final pop and the two wikilink passes.
   md_contract src evs (decidable: md_contractb = forallb ev_ok; monitored on every generated document) is a property of
   each event ON ITS OWN — nothing is assumed about the order of the events or their position relative to each other
   (the guard enforces what the proof needs):
     K1 the range starts on a char boundary; the range of a token-bearing event (SoftBreak, HardBreak, Code / Math, Html,
        Text) is start <= end on char boundaries;
     K3 the payload fits its own range: >= 1 character for the breaks, >= the payload for Code / Math / Html; an Html
        payload is not empty.
   valid_char = Rust's `char` invariant (a scalar value), a fact about the input type. *)

(* under the contract Markdown::parse never panics; the loop's tokens `raw` and the final tokens `ts` (a sub-sequence:
   the pop of a trailing break and the two wikilink passes only remove tokens, whatever queue they build) have the
   token invariant of the property — start <= end, covering tokens in bounds, ordered and disjoint, zero-width tokens
   only Newline / ParagraphBreak — and EVERY token, the zero-width ones too, ends inside the text *)
Theorem C02_markdown_glue : forall u ilt src evs,
  Forall valid_char src -> md_contract src evs ->
  exists raw ts,
    markdown_raw u ilt src evs = Ok raw /\ markdown_parse u ilt src evs = Ok ts /\ Sub ts raw /\
    TokInv (length src) raw /\ TokInv (length src) ts /\
    Forall (fun t => tend t <= length src) ts.
Proof. exact markdown_glue. Qed.
Check C02_markdown_glue : forall u ilt src evs,
  Forall valid_char src -> md_contract src evs ->
  exists raw ts,
    markdown_raw u ilt src evs = Ok raw /\ markdown_parse u ilt src evs = Ok ts /\ Sub ts raw /\
    TokInv (length src) raw /\ TokInv (length src) ts /\
    Forall (fun t => tend t <= length src) ts.
Print Assumptions C02_markdown_glue.

(* VecExt::remove_indices returns a sub-sequence for EVERY queue (the wikilink passes hand it queues that are not
   sorted and contain duplicates) *)
Theorem C02_remove_indices_sub : forall (xs : list token) i q, Sub (remove_indices i q xs) xs.
Proof. exact remove_indices_sub. Qed.
Check C02_remove_indices_sub : forall (xs : list token) i q, Sub (remove_indices i q xs) xs.
Print Assumptions C02_remove_indices_sub.

(* FC02b, repaired by 8b26ba4 — `[[a|]] b`: pulldown-cmark 0.13 still reports the text after the link twice, but the
   stream now MEETS the contract, the guard skips the repeat, and the tokens tile 4..8 *)
Theorem C02_markdown_repeated_text_skipped :
  md_contract md_dup_src md_dup_evs /\
  markdown_parse ascii_uni false md_dup_src md_dup_evs = Ok md_dup_out /\
  Tiling 4 8 md_dup_out.
Proof. exact markdown_repeated_text_skipped. Qed.
Check C02_markdown_repeated_text_skipped :
  md_contract md_dup_src md_dup_evs /\
  markdown_parse ascii_uni false md_dup_src md_dup_evs = Ok md_dup_out /\
  Tiling 4 8 md_dup_out.
Print Assumptions C02_markdown_repeated_text_skipped.

(* FC02a, repaired by a37d1cc — `$$$$`: the contract holds, no token *)
Theorem C02_markdown_empty_math_no_token :
  md_contract md_math_src md_math_evs /\
  markdown_parse ascii_uni false md_math_src md_math_evs = Ok [].
Proof. exact markdown_empty_math_no_token. Qed.
Check C02_markdown_empty_math_no_token :
  md_contract md_math_src md_math_evs /\
  markdown_parse ascii_uni false md_math_src md_math_evs = Ok [].
Print Assumptions C02_markdown_empty_math_no_token.

(* HISTORY (labelled): the loop before the two fixes (markdown_parse_old) on the same streams — the tokens of ` b`
   twice, not ordered / disjoint; a zero-width Unlintable token *)
Example C02_markdown_old_refuted :
  (markdown_parse_old ascii_uni false md_dup_src md_dup_evs
   = Ok (md_dup_out ++ [mktok (mkspan 6 7) (KSpace 1); mktok (mkspan 7 8) KWord]) /\
   ~ OrderedDisjoint (md_dup_out ++ [mktok (mkspan 6 7) (KSpace 1); mktok (mkspan 7 8) KWord])) /\
  (markdown_parse_old ascii_uni false md_math_src md_math_evs = Ok [mktok (mkspan 0 0) KUnlintable] /\
   ~ ZeroWidthOnlyBreaks [mktok (mkspan 0 0) KUnlintable]).
Proof. exact markdown_old_witnesses. Qed.

(* FC02c, repaired by b736ef8 (the residue of FC02b) — `x ![[a|]] Old _a_ b`: the repeat happens inside an image whose
   texts push no token; the repeated Text ` Old ` lies behind the cursor and is skipped; the stream meets the contract,
   the tokens are a gapped tiling of the 19 characters *)
Theorem C02_markdown_backward_event_skipped :
  md_contract md_back_src md_back_evs /\
  markdown_parse ascii_uni false md_back_src md_back_evs = Ok md_back_out /\
  Gapped 0 19 md_back_out.
Proof. exact markdown_backward_event_skipped. Qed.
Check C02_markdown_backward_event_skipped :
  md_contract md_back_src md_back_evs /\
  markdown_parse ascii_uni false md_back_src md_back_evs = Ok md_back_out /\
  Gapped 0 19 md_back_out.
Print Assumptions C02_markdown_backward_event_skipped.
(* HISTORY (labelled): the loop of 8b26ba4, without the behind_cursor test, panics on that stream (`&source[17..22]`) *)
Example C02_markdown_8b26ba4_refuted :
  mk_loop_8b26ba4 ascii_uni false md_back_src (encode md_back_src) md_back_evs 0 0 0 None [] = Panic PIndex.
Proof. exact markdown_8b26ba4_witness. Qed.

(* non-vacuity: "ü [[a|b]] `c`\n" with the event stream pulldown-cmark really delivers meets the contract; a
   multi-byte character, a wikilink whose hidden target and brackets are removed, inline code, a kept trailing break *)
Example C02_markdown_glue_nonvacuous :
  Forall valid_char md_ex_src /\ md_contract md_ex_src md_ex_evs /\
  markdown_parse uni_u_umlaut false md_ex_src md_ex_evs
  = Ok [mktok (mkspan 0 1) KWord; mktok (mkspan 1 2) (KSpace 1); mktok (mkspan 6 7) KWord;
        mktok (mkspan 9 10) (KSpace 1); mktok (mkspan 10 11) KUnlintable; mktok (mkspan 10 10) KParagraphBreak].
Proof. exact markdown_glue_example. Qed.

(* the lists of markdown.rs the model copies, re-read from the source on every run (Tables_lexer.v): the prose tags
   (Link only when !ignore_link_title), the span length / Newline count of the SoftBreak, HardBreak and Start(List)
   tokens, the End(..) tags that push a ParagraphBreak *)
Theorem C02_markdown_tables : forall u ilt src bs stack tc rs re,
  map md_tag_name (filter (tag_is_prose ilt) md_all_tags)
    = map fst (filter (fun p => negb (snd p && ilt)) md_prose_tags) /\
  map (fun e => match mk_step u ilt src bs stack tc (mkmev e rs re) with
                | Ok [t] => Some (Lexer.tspan t, tkind_of t)
                | _ => None
                end) [MSoftBreak; MHardBreak; MStart TList]
    = map (fun '(_, len, n) => Some (span_new_with_len tc len, KNewline n)) md_break_arms /\
  md_breaking_ends = map md_tag_name [TParagraph; TItem; THeading; TCodeBlock; TTableCell].
Proof. exact (fun u ilt src bs stack tc rs re => conj (md_prose_table ilt) (conj (md_break_table u ilt src bs stack tc rs re) md_breaking_ends_pinned)). Qed.
Check C02_markdown_tables : forall u ilt src bs stack tc rs re,
  map md_tag_name (filter (tag_is_prose ilt) md_all_tags)
    = map fst (filter (fun p => negb (snd p && ilt)) md_prose_tags) /\
  map (fun e => match mk_step u ilt src bs stack tc (mkmev e rs re) with
                | Ok [t] => Some (Lexer.tspan t, tkind_of t)
                | _ => None
                end) [MSoftBreak; MHardBreak; MStart TList]
    = map (fun '(_, len, n) => Some (span_new_with_len tc len, KNewline n)) md_break_arms /\
  md_breaking_ends = map md_tag_name [TParagraph; TItem; THeading; TCodeBlock; TTableCell].
Print Assumptions C02_markdown_tables.

(* ====================== phase 4: a number token's text denotes its value and suffix ======================
   Proofs/C02NumberText.v.  pos_value base dv ds = sum of dv(digit) * base^position: the POSITIONAL value of a digit
   string, defined without the Horner folds the lexer model runs.  DecLit lit neg mant ex = the GRAMMAR of a decimal
   literal with its meaning:  lit = sign? ip [`.` fp] [(e|E) sign? digits],  ip and fp digit strings not both empty,
   mant = pos_value of the digits ip fp read as one integer,  ex = written exponent - |fp|
   (so  (-1)^neg * mant * 10^ex  is the number the literal writes). *)

(* the folds of the model compute positional values *)
Theorem C02_digits_positional : forall ds,
  digits_val ds = pos_value 10 digit_val ds /\ hex_digits_val ds = pos_value 16 hex_val ds.
Proof. exact (fun ds => conj (digits_val_pos ds) (hex_digits_val_pos ds)). Qed.
Check C02_digits_positional : forall ds,
  digits_val ds = pos_value 10 digit_val ds /\ hex_digits_val ds = pos_value 16 hex_val ds.
Print Assumptions C02_digits_positional.

(* the model of str::parse::<f64> accepts EXACTLY the literals of the grammar, with exactly the denoted value *)
Theorem C02_parse_f64_grammar : forall lit neg mant ex,
  parse_f64 lit = Some (neg, mant, ex) <-> DecLit lit neg mant ex.
Proof. exact parse_f64_declit. Qed.
Check C02_parse_f64_grammar : forall lit neg mant ex,
  parse_f64 lit = Some (neg, mant, ex) <-> DecLit lit neg mant ex.
Print Assumptions C02_parse_f64_grammar.

(* every Number token of a plain-English document (under uni_laws): its text is  literal ++ suffix letters  where
   - decimal (radix 10): DecLit literal (stored sign, mantissa, exponent), the exact value is below the f64 overflow
     threshold, the stored precision is the number of characters after the last `.` of the literal;
   - hex (radix 16): literal = `0x` ++ ds, ds non-empty hex digits, stored value = pos_value 16 of ds;
   - no suffix stored: no letters;  suffix s stored: exactly two letters a b with NumberSuffix::from_chars a b = s *)
Theorem C02_document_number_text : forall u, uni_laws u -> forall s,
  exists ts, document_plain u s = Ok ts /\ Forall (number_tok_denotes s) ts.
Proof. exact document_number_text. Qed.
Check C02_document_number_text : forall u, uni_laws u -> forall s,
  exists ts, document_plain u s = Ok ts /\ Forall (number_tok_denotes s) ts.
Print Assumptions C02_document_number_text.

(* non-vacuity: `0x1F 21st -1.5e2` has a hex number, a number with a suffix and a float with an exponent (the `-` is a
   Hyphen token; precision 3 = the characters `5e2` after the last `.`, a quirk kept);  and `-1.5e2` is a DecLit *)
Example C02_number_text_nonvacuous :
  document_plain ascii_uni [48;120;49;70;32;50;49;115;116;32;45;49;46;53;101;50]%N
  = Ok [mktok (mkspan 0 4) (KNumber (mknumber false 31 0%Z None 16 0)); mktok (mkspan 4 5) (KSpace 1);
        mktok (mkspan 5 9) (KNumber (mknumber false 21 0%Z (Some SufSt) 10 0)); mktok (mkspan 9 10) (KSpace 1);
        mktok (mkspan 10 11) (KPunct PHyphen);
        mktok (mkspan 11 16) (KNumber (mknumber false 15 1%Z None 10 3))]
  /\ DecLit [45;49;46;53;101;50]%N true 15 1%Z.
Proof. split; [vm_compute; reflexivity|apply parse_f64_declit; vm_compute; reflexivity]. Qed.

(* ====================== phase 5: the open findings characterised exactly; Document::parse over Markdown ======================
   Proofs/C02Findings.v. *)

(* F7 as an EQUIVALENCE: under uni_laws a Word token of a plain-English document contains a whitespace character
   if and only if its text is `et <blanks / tabs / newlines, at least one> al.` in any capitalisation (et_al_text) —
   the class the harness marks `[et <whitespace> al.]` is exactly the failing class of the clause "a word contains no
   whitespace" (C02_document_shape gave only the direction  whitespace => et al.) *)
Theorem C02_word_whitespace_iff : forall u, uni_laws u -> forall s,
  exists ts, document_plain u s = Ok ts /\
    Forall (fun t => tkind_of t = KWord -> (~ no_ws u (tok_text s t) <-> et_al_text (tok_text s t))) ts.
Proof. exact document_word_ws_iff. Qed.
Check C02_word_whitespace_iff : forall u, uni_laws u -> forall s,
  exists ts, document_plain u s = Ok ts /\
    Forall (fun t => tkind_of t = KWord -> (~ no_ws u (tok_text s t) <-> et_al_text (tok_text s t))) ts.
Print Assumptions C02_word_whitespace_iff.

(* a run of a gapped vector is contiguous in the text (tiles start..end) iff every position start..end is covered by
   one of its tokens *)
Theorem C02_gapped_contiguous_iff : forall a b g, g <> [] -> Gapped a b g -> (Contiguous g <-> AllCovered g).
Proof. exact gapped_contiguous_iff. Qed.
Check C02_gapped_contiguous_iff : forall a b g, g <> [] -> Gapped a b g -> (Contiguous g <-> AllCovered g).
Print Assumptions C02_gapped_contiguous_iff.

(* F28 as an EQUIVALENCE: on every gapped vector inside the text Document::parse returns a gapped vector each of whose
   tokens spans a run g of consecutive tokens of the given vector, and that token covers only characters the run
   covers (AllCovered) if and only if the run is contiguous in the text (Contiguous): the harness marker
   `[condensed across a gap]` (a document token with uncovered text between two of the parser tokens it spans) is
   exactly "the condensed run was not contiguous" *)
Theorem C02_across_gap_iff : forall src t0, Gapped 0 (length src) t0 ->
  exists t9, document_passes src t0 = Ok t9 /\ Gapped 0 (length src) t9 /\
    Grouped (fun g _ => True /\ (Contiguous g <-> AllCovered g)) t0 t9.
Proof. exact document_passes_gap_iff. Qed.
Check C02_across_gap_iff : forall src t0, Gapped 0 (length src) t0 ->
  exists t9, document_passes src t0 = Ok t9 /\ Gapped 0 (length src) t9 /\
    Grouped (fun g _ => True /\ (Contiguous g <-> AllCovered g)) t0 t9.
Print Assumptions C02_across_gap_iff.

(* Document::new(text, Markdown) END TO END, partial: under the contract of the event stream Markdown::parse has the
   token invariant, and when all its tokens cover characters (no zero-width Newline / ParagraphBreak survives the final
   pop: single-block documents) Document::parse never panics on them, the document's tokens are a gapped tiling of the
   text, each spanning a run of consecutive Markdown tokens, quotes paired up to the unpaired one.
   MISSING (hence _partial): vectors that keep zero-width breaks; the three _limit Examples below show that the token
   invariant alone does not carry through condense_spaces / condense_newlines / condense_latin *)
Theorem C02_document_markdown_partial : forall u ilt src evs,
  Forall valid_char src -> md_contract src evs ->
  exists ts, markdown_parse u ilt src evs = Ok ts /\ TokInv (length src) ts /\
    (Forall covers_chars ts ->
     exists t9, document_markdown u ilt src evs = Ok t9 /\ Gapped 0 (length src) t9 /\ Coarse ts t9 /\
       QuotesOkBut (unpaired_quote t9) t9 /\ (NoTwins ts -> QuotesOk t9)).
Proof. exact document_markdown_partial. Qed.
Check C02_document_markdown_partial : forall u ilt src evs,
  Forall valid_char src -> md_contract src evs ->
  exists ts, markdown_parse u ilt src evs = Ok ts /\ TokInv (length src) ts /\
    (Forall covers_chars ts ->
     exists t9, document_markdown u ilt src evs = Ok t9 /\ Gapped 0 (length src) t9 /\ Coarse ts t9 /\
       QuotesOkBut (unpaired_quote t9) t9 /\ (NoTwins ts -> QuotesOk t9)).
Print Assumptions C02_document_markdown_partial.

(* ---------- non-vacuity ---------- *)
(* the run behind the Ellipsis 1..9 of the F28 witness is gapped, not contiguous, and position 2 is uncovered *)
Example C02_across_gap_nonvacuous :
  let g := [mktok (mkspan 1 2) (KPunct PPeriod); mktok (mkspan 8 9) (KPunct PPeriod)] in
  Gapped 0 9 g /\ group_token g (KPunct PEllipsis) = mktok (mkspan 1 9) (KPunct PEllipsis) /\
  ~ Contiguous g /\ ~ covered_by g 2.
Proof. exact gap_iff_example. Qed.
(* the real stream of `x ![[a|]] Old _a_ b`: contract met, five covering tokens, the document has the same five *)
Example C02_document_markdown_nonvacuous :
  md_contract md_back_src md_back_evs /\
  markdown_parse ascii_uni false md_back_src md_back_evs = Ok md_back_out /\
  Forall covers_chars md_back_out /\
  document_markdown ascii_uni false md_back_src md_back_evs = Ok md_back_out.
Proof. exact document_markdown_example. Qed.

(* ---------- LIMITS (labelled): what a theorem about vectors WITH zero-width tokens has to exclude ----------
   (a) a zero-width Newline that sits before the end of an earlier token is merged by condense_newlines with a covering
       Newline that follows it in the vector: TokInv in, every token inside the text, overlapping tokens out *)
Example C02_zero_width_newline_limit :
  TokInv (length lim_a_src) lim_a_in /\ Forall (fun t => tend t <= length lim_a_src) lim_a_in /\
  document_passes lim_a_src lim_a_in = Ok lim_a_out /\ ~ OrderedDisjoint lim_a_out.
Proof. exact zero_width_newline_limit. Qed.
(* (b) the double cursor increment of condense_spaces skips a zero-width token and absorbs the Space after it: the
       pass is not a grouping of the vector (the skipped token stays behind the merged Space 0..3) *)
Example C02_zero_width_space_quirk_limit :
  TokInv 3 lim_b_in /\ condense_spaces lim_b_in = Ok [mktok (mkspan 0 3) (KSpace 4); zw 2 2].
Proof. exact zero_width_space_quirk_limit. Qed.
(* (c) TokInv bounds covering tokens only: a zero-width Newline beyond the text enters the hull of `et <nl> al.`, the
       Word 0..100 is out of bounds and the dictionary look-up panics — Document::parse is not total on TokInv vectors *)
Example C02_zero_width_out_of_text_limit :
  TokInv (length lim_c_src) lim_c_in /\ document_passes lim_c_src lim_c_in = Panic PIndex.
Proof. exact zero_width_out_of_text_limit. Qed.

(* ================= phase 6: the first passes of Document::parse on vectors WITH zero-width ParagraphBreaks =================
   PbGapped a b ts (Proofs/C02ZeroWidth.v): the covering tokens are a gapped tiling of [a,b); every other token is a
   zero-width ParagraphBreak, anywhere in the vector, at any position ("floating", as Markdown::parse pushes it). *)
(* PbGapped is exactly the property's invariant + "every zero-width token is a ParagraphBreak" *)
Theorem C02_pbgapped_iff_tokinv : forall n ts,
  PbGapped 0 n ts <->
  TokInv n ts /\ Forall (fun t => tstart t = tend t -> tkind_of t = KParagraphBreak) ts.
Proof. exact pbgapped_iff_tokinv. Qed.
Check C02_pbgapped_iff_tokinv : forall n ts,
  PbGapped 0 n ts <->
  TokInv n ts /\ Forall (fun t => tstart t = tend t -> tkind_of t = KParagraphBreak) ts.
Print Assumptions C02_pbgapped_iff_tokinv.

(* condense_spaces: total, invariant kept — although the pass is NOT a grouping there (C02_zero_width_space_quirk_limit:
   the double increment skips a floating break and absorbs the Space behind it; a skipped covering token ends the run) *)
Theorem C02_condense_spaces_pb : forall a b ts, PbGapped a b ts ->
  exists ts', condense_spaces ts = Ok ts' /\ PbGapped a b ts'.
Proof. exact condense_spaces_pb. Qed.
Check C02_condense_spaces_pb : forall a b ts, PbGapped a b ts ->
  exists ts', condense_spaces ts = Ok ts' /\ PbGapped a b ts'.
Print Assumptions C02_condense_spaces_pb.

(* condense_newlines: total, a grouping, invariant kept (a merged run holds Newline tokens only, all covering) *)
Theorem C02_condense_newlines_pb : forall a b ts, PbGapped a b ts ->
  exists ts', condense_newlines ts = Ok ts' /\ Grouped G_newlines ts ts' /\ PbGapped a b ts'.
Proof. exact condense_newlines_pb. Qed.
Check C02_condense_newlines_pb : forall a b ts, PbGapped a b ts ->
  exists ts', condense_newlines ts = Ok ts' /\ Grouped G_newlines ts ts' /\ PbGapped a b ts'.
Print Assumptions C02_condense_newlines_pb.

(* newlines_to_breaks: invariant kept (a floating break stays what it is) *)
Theorem C02_newlines_to_breaks_pb : forall a b ts, PbGapped a b ts ->
  Grouped G_breaks ts (newlines_to_breaks ts) /\ PbGapped a b (newlines_to_breaks ts).
Proof. exact newlines_to_breaks_pb. Qed.
Check C02_newlines_to_breaks_pb : forall a b ts, PbGapped a b ts ->
  Grouped G_breaks ts (newlines_to_breaks ts) /\ PbGapped a b (newlines_to_breaks ts).
Print Assumptions C02_newlines_to_breaks_pb.

(* any grouping whose rule is break-safe keeps the invariant (every rule G_* of Document::parse is break-safe on such vectors) *)
Theorem C02_grouped_pbgapped : forall G ts ts', pb_rule G -> Grouped G ts ts' ->
  forall a b, PbGapped a b ts -> PbGapped a b ts'.
Proof. exact grouped_pbgapped. Qed.
Check C02_grouped_pbgapped : forall G ts ts', pb_rule G -> Grouped G ts ts' ->
  forall a b, PbGapped a b ts -> PbGapped a b ts'.
Print Assumptions C02_grouped_pbgapped.

(* non-vacuity: `Space Space <break> Space Newline Newline <break> Word` — the quirk shape with a floating break *)
Example C02_zero_width_breaks_nonvacuous :
  PbGapped 0 6 pb_ex_in /\ (Forall covers_chars pb_ex_in -> False) /\ 
  condense_spaces pb_ex_in = Ok pb_ex_spaces /\ 
  (exists t2, condense_newlines pb_ex_spaces = Ok t2 /\ newlines_to_breaks t2 = pb_ex_out) /\ 
  PbGapped 0 6 pb_ex_out.
Proof. exact pb_three_passes_example. Qed.

(* condense_dotted_initialisms: total, a grouping ((one-letter Word, Period)+ holds no break), invariant kept *)
Theorem C02_condense_dotted_initialisms_pb : forall a b ts, PbGapped a b ts ->
  exists ts', condense_dotted_initialisms ts = Ok ts' /\ Grouped G_initialism ts ts' /\ PbGapped a b ts'.
Proof. exact condense_dotted_initialisms_pb. Qed.
Check C02_condense_dotted_initialisms_pb : forall a b ts, PbGapped a b ts ->
  exists ts', condense_dotted_initialisms ts = Ok ts' /\ Grouped G_initialism ts ts' /\ PbGapped a b ts'.
Print Assumptions C02_condense_dotted_initialisms_pb.

(* condense_pattern, generic: a total, bounded matcher with monotone match ends whose matches never hold a ParagraphBreak *)
Theorem C02_condense_pattern_pb : forall m edit a b ts,
  PbGapped a b ts -> matcher_ok m ts -> monotone_ends m ts -> no_break_matches m ts ->
  exists ts', condense_pattern m edit ts = Ok ts' /\ Grouped (G_pattern_in ts m edit) ts ts' /\ PbGapped a b ts'.
Proof. exact condense_pattern_pb. Qed.
Check C02_condense_pattern_pb : forall m edit a b ts,
  PbGapped a b ts -> matcher_ok m ts -> monotone_ends m ts -> no_break_matches m ts ->
  exists ts', condense_pattern m edit ts = Ok ts' /\ Grouped (G_pattern_in ts m edit) ts ts' /\ PbGapped a b ts'.
Print Assumptions C02_condense_pattern_pb.

(* the three fixed patterns meet the premises there: contraction and ellipsis on every vector; the Latin pattern reads the
   span of Word tokens only (latin_refit), so CondPatterns3's facts carry over to vectors with floating breaks *)
Theorem C02_patterns_ok_pb : forall src a ts, PbGapped a (length src) ts ->
  no_break_matches (contraction_matches src) ts /\ no_break_matches (ellipsis_matches src) ts /\
  matcher_ok (latin_matches src) ts /\ monotone_ends (latin_matches src) ts /\ no_break_matches (latin_matches src) ts.
Proof. exact patterns_ok_pb. Qed.
Check C02_patterns_ok_pb : forall src a ts, PbGapped a (length src) ts ->
  no_break_matches (contraction_matches src) ts /\ no_break_matches (ellipsis_matches src) ts /\
  matcher_ok (latin_matches src) ts /\ monotone_ends (latin_matches src) ts /\ no_break_matches (latin_matches src) ts.
Print Assumptions C02_patterns_ok_pb.

(* condense_number_suffixes + condense_indices: only the WORD operand's span is read (goodw) *)
Theorem C02_condense_number_suffixes_pb : forall src a ts, PbGapped a (length src) ts ->
  exists ts', condense_number_suffixes src ts = Ok ts' /\ Grouped (G_suffix src) ts ts' /\
    PbGapped a (length src) ts'.
Proof. exact condense_number_suffixes_pb. Qed.
Check C02_condense_number_suffixes_pb : forall src a ts, PbGapped a (length src) ts ->
  exists ts', condense_number_suffixes src ts = Ok ts' /\ Grouped (G_suffix src) ts ts' /\
    PbGapped a (length src) ts'.
Print Assumptions C02_condense_number_suffixes_pb.

(* match_quotes: spans and kinds kept, so the invariant is *)
Theorem C02_match_quotes_pb : forall a b ts, PbGapped a b ts ->
  exists ts', match_quotes ts = Ok ts' /\ SameButTwins ts ts' /\ PbGapped a b ts' /\
    QuotesOkBut (unpaired_quote ts) ts' /\ (NoTwins ts -> QuotesOk ts').
Proof. exact match_quotes_pb. Qed.
Check C02_match_quotes_pb : forall a b ts, PbGapped a b ts ->
  exists ts', match_quotes ts = Ok ts' /\ SameButTwins ts ts' /\ PbGapped a b ts' /\
    QuotesOkBut (unpaired_quote ts) ts' /\ (NoTwins ts -> QuotesOk ts').
Print Assumptions C02_match_quotes_pb.

(* ALL of Document::parse: never panics on a vector with floating zero-width ParagraphBreaks inside the text and keeps the
   invariant (= TokInv + zero-width tokens are ParagraphBreaks, C02_pbgapped_iff_tokinv); quotes paired up to the unpaired one, all paired when the
   vector arrives without twins (condense_spaces invents no quote: condense_spaces_notwins, for ANY vector) *)
Theorem C02_document_passes_pb : forall src t0, PbGapped 0 (length src) t0 ->
  exists t9, document_passes src t0 = Ok t9 /\ PbGapped 0 (length src) t9 /\
    QuotesOkBut (unpaired_quote t9) t9 /\ (NoTwins t0 -> QuotesOk t9).
Proof. exact document_passes_pb. Qed.
Check C02_document_passes_pb : forall src t0, PbGapped 0 (length src) t0 ->
  exists t9, document_passes src t0 = Ok t9 /\ PbGapped 0 (length src) t9 /\
    QuotesOkBut (unpaired_quote t9) t9 /\ (NoTwins t0 -> QuotesOk t9).
Print Assumptions C02_document_passes_pb.

(* Document::new over Markdown, end to end, for every stream whose surviving zero-width tokens are ParagraphBreaks (no
   Start(List) Newline): the document has the property's invariant.  Supersedes the domain of C02_document_markdown_partial *)
Theorem C02_document_markdown_breaks : forall u ilt src evs,
  Forall valid_char src -> md_contract src evs ->
  exists ts, markdown_parse u ilt src evs = Ok ts /\ TokInv (length src) ts /\
    (zw_only_breaks ts ->
     exists t9, document_markdown u ilt src evs = Ok t9 /\
       TokInv (length src) t9 /\ zw_only_breaks t9 /\ QuotesOkBut (unpaired_quote t9) t9 /\
       (NoTwins ts -> QuotesOk t9)).
Proof. exact document_markdown_breaks. Qed.
Check C02_document_markdown_breaks : forall u ilt src evs,
  Forall valid_char src -> md_contract src evs ->
  exists ts, markdown_parse u ilt src evs = Ok ts /\ TokInv (length src) ts /\
    (zw_only_breaks ts ->
     exists t9, document_markdown u ilt src evs = Ok t9 /\
       TokInv (length src) t9 /\ zw_only_breaks t9 /\ QuotesOkBut (unpaired_quote t9) t9 /\
       (NoTwins ts -> QuotesOk t9)).
Print Assumptions C02_document_markdown_breaks.

(* non-vacuity: the real stream of `ab\n\ncd` — Word 0..2, ParagraphBreak 0..0 (zero-width, behind the Word), Word 4..6 *)
Example C02_document_markdown_breaks_nonvacuous :
  md_contract md_pb_src md_pb_evs /\
  markdown_parse ascii_uni false md_pb_src md_pb_evs = Ok md_pb_out /\
  zw_only_breaks md_pb_out /\ (Forall covers_chars md_pb_out -> False) /\
  document_markdown ascii_uni false md_pb_src md_pb_evs = Ok md_pb_out.
Proof. exact document_markdown_breaks_example. Qed.

(* ---------- phase 7: zero-width NEWLINES (Markdown's Start(List) arm) that condense_newlines leaves alone ---------- *)
(* condense_spaces is parametric in every token that is no Space: it commutes with ANY map that keeps spans, fixes Spaces
   and makes no new ones (same panics, same merges, same removals) — in particular with nl2pb *)
Theorem C02_condense_spaces_parametric : forall (f : token -> token),
  (forall t, tspan (f t) = tspan t) ->
  (forall t n, tkind_of t = KSpace n -> f t = t) ->
  (forall t, (forall n, tkind_of t <> KSpace n) -> forall n, tkind_of (f t) <> KSpace n) ->
  forall ts, condense_spaces (map f ts) =
    match condense_spaces ts with Ok t1 => Ok (map f t1) | Panic p => Panic p end.
Proof. exact condense_spaces_map. Qed.
Check C02_condense_spaces_parametric : forall (f : token -> token),
  (forall t, tspan (f t) = tspan t) ->
  (forall t n, tkind_of t = KSpace n -> f t = t) ->
  (forall t, (forall n, tkind_of t <> KSpace n) -> forall n, tkind_of (f t) <> KSpace n) ->
  forall ts, condense_spaces (map f ts) =
    match condense_spaces ts with Ok t1 => Ok (map f t1) | Panic p => Panic p end.
Print Assumptions C02_condense_spaces_parametric.

(* EVERY vector with the property's invariant is PbGapped once its zero-width Newlines are read as floating breaks (no order
   clause, no premise on the zero-width tokens) *)
Theorem C02_tokinv_nl2pb : forall n ts, TokInv n ts -> PbGapped 0 n (map nl2pb ts).
Proof. exact tokinv_nl2pb. Qed.
Check C02_tokinv_nl2pb : forall n ts, TokInv n ts -> PbGapped 0 n (map nl2pb ts).
Print Assumptions C02_tokinv_nl2pb.

(* Document::parse (all nine passes + the look-up) on every TokInv vector of the decidable class nl_inertb (zero-width
   Newlines count >= 2 lines; after condense_spaces none is a vector-neighbour of a Newline): never panics, result PbGapped
   (TokInv, zero-width only ParagraphBreaks), quotes paired *)
Theorem C02_document_passes_inert_newlines : forall src t0,
  TokInv (length src) t0 -> nl_inertb t0 = true ->
  exists t9, document_passes src t0 = Ok t9 /\ PbGapped 0 (length src) t9 /\
    QuotesOkBut (unpaired_quote t9) t9 /\ (NoTwins t0 -> QuotesOk t9).
Proof. exact document_passes_tokinv_nl. Qed.
Check C02_document_passes_inert_newlines : forall src t0,
  TokInv (length src) t0 -> nl_inertb t0 = true ->
  exists t9, document_passes src t0 = Ok t9 /\ PbGapped 0 (length src) t9 /\
    QuotesOkBut (unpaired_quote t9) t9 /\ (NoTwins t0 -> QuotesOk t9).
Print Assumptions C02_document_passes_inert_newlines.

(* Document::new over Markdown for the streams WITH a Start(List) Newline of class nl_inertb; what is left is exactly
   md_doc_class ts = 2 (a zero-width Newline that condense_newlines merges with a neighbour: needs the order clause) *)
Theorem C02_document_markdown_inert_newlines : forall u ilt src evs,
  Forall valid_char src -> md_contract src evs ->
  exists ts, markdown_parse u ilt src evs = Ok ts /\ TokInv (length src) ts /\
    (nl_inertb ts = true ->
     exists t9, document_markdown u ilt src evs = Ok t9 /\
       TokInv (length src) t9 /\ zw_only_breaks t9 /\ QuotesOkBut (unpaired_quote t9) t9 /\
       (NoTwins ts -> QuotesOk t9)).
Proof. exact document_markdown_inert_newlines. Qed.
Check C02_document_markdown_inert_newlines : forall u ilt src evs,
  Forall valid_char src -> md_contract src evs ->
  exists ts, markdown_parse u ilt src evs = Ok ts /\ TokInv (length src) ts /\
    (nl_inertb ts = true ->
     exists t9, document_markdown u ilt src evs = Ok t9 /\
       TokInv (length src) t9 /\ zw_only_breaks t9 /\ QuotesOkBut (unpaired_quote t9) t9 /\
       (NoTwins ts -> QuotesOk t9)).
Print Assumptions C02_document_markdown_inert_newlines.

(* non-vacuity: the real stream of `a\n\n- b` — Word 0..1, ParagraphBreak 0..0, zero-width Newline(2) 3..3, Word 5..6: class 1 *)
Example C02_document_markdown_inert_newlines_nonvacuous :
  md_contract md_nl_src md_nl_evs /\
  markdown_parse ascii_uni false md_nl_src md_nl_evs = Ok md_nl_out /\
  md_doc_class md_nl_out = 1 /\ nl_inertb md_nl_out = true /\
  document_markdown ascii_uni false md_nl_src md_nl_evs = Ok md_nl_doc.
Proof. exact document_markdown_inert_newlines_example. Qed.

(* the remaining class is inhabited (the vector of C02_zero_width_newline_limit, Newline(2)) *)
Example C02_md_doc_class_remaining :
  md_doc_class [mktok (mkspan 0 3) KWord; mktok (mkspan 1 1) (KNewline 2); mktok (mkspan 3 4) (KNewline 1)] = 2.
Proof. exact md_doc_class_remaining_example. Qed.
