(* C04W — the '+ie' / '+ci' wrappers of harper-ls composed with a masked front-end keep offsets true.
   A second pinned-statement file of C04 (C02's typed tokens and Mask.v's coded tokens share field names, so the two
   vocabularies are kept in separate files).  Nothing but `exact`. *)
Require Import Base Mask MaskProofs.
Require Import Overlap Tables_lexer Lexer Condense TokenInv CondenseInv C02Wrappers C02Gapped C02WrappersProofs
  C04Wrappers C04WrappersProofs.

(* ---- the typed Mask::parse used below is, kinds erased by ANY coding that maps ParagraphBreak to its code, the function
   Mask.mask_parse_loop of Model/Mask.v — the one that is extracted and run against parsers::Mask::parse (same panics) *)
Theorem C04_typed_mask_is_mask_parse : forall (code : tkind -> N) (inner : text -> list token),
  code KParagraphBreak = Mask.K_PARBREAK ->
  forall src m last,
    Mask.mask_parse_loop (fun c => map (erase code) (inner c)) src last m =
    match mask_parse_loop_t inner src last m with
    | Ok t => Ok (map (erase code) t)
    | Panic w => Panic w
    end.
Proof. exact erase_mask_parse. Qed.
Check C04_typed_mask_is_mask_parse : forall (code : tkind -> N) (inner : text -> list token),
  code KParagraphBreak = Mask.K_PARBREAK ->
  forall src m last,
    Mask.mask_parse_loop (fun c => map (erase code) (inner c)) src last m =
    match mask_parse_loop_t inner src last m with
    | Ok t => Ok (map (erase code) t)
    | Panic w => Panic w
    end.
Print Assumptions C04_typed_mask_is_mask_parse.

(* ---- '+ie': IsolateEnglish over a masked parser (well-formed mask; inner tokens well-formed spans inside their slice,
   Word / Hyphen / Underscore tokens non-empty) never panics; its output is a SUB-SEQUENCE of the masked parse, so every
   token still is an inner token of ONE allowed span shifted by that span's start (inside it, same text in the file
   as in the inner parse) or a ParagraphBreak over a newline-containing gap: no token moves, none is invented *)
Theorem C04_masked_ie_offsets : forall (inner : text -> list token) (dict : text -> bool),
  (forall c t0, In t0 (inner c) -> tstart t0 <= tend t0) ->
  (forall c t0, In t0 (inner c) -> tend t0 <= length c) ->
  (forall c t0, In t0 (inner c) -> word_or_sep t0 -> tstart t0 < tend t0) ->
  forall src m, mask_wf (length src) m ->
  exists toks out, mask_parse_t inner src m = Ok toks /\ masked_ie inner dict src m = Ok out /\
    Sub out toks /\ Forall (located inner src m) out.
Proof. exact masked_ie_offsets. Qed.
Check C04_masked_ie_offsets : forall (inner : text -> list token) (dict : text -> bool),
  (forall c t0, In t0 (inner c) -> tstart t0 <= tend t0) ->
  (forall c t0, In t0 (inner c) -> tend t0 <= length c) ->
  (forall c t0, In t0 (inner c) -> word_or_sep t0 -> tstart t0 < tend t0) ->
  forall src m, mask_wf (length src) m ->
  exists toks out, mask_parse_t inner src m = Ok toks /\ masked_ie inner dict src m = Ok out /\
    Sub out toks /\ Forall (located inner src m) out.
Print Assumptions C04_masked_ie_offsets.

(* ---- '+ci': CollapseIdentifiers over a masked parser whose inner parser additionally delivers its tokens in order never
   panics; its output is a grouping of the masked parse: every token is a token of the masked parse, unchanged, or a
   Word that starts at the true start of one inner Word and ends at the true end of a LATER inner Word of a run
   word (sep word)+, and the text of the FILE between these two offsets is a word of the dictionary (when the run
   crosses from one allowed span into the next — no ParagraphBreak between them — that text includes the masked-out
   characters in between: only a dictionary entry containing them can make that happen) *)
Theorem C04_masked_ci_offsets : forall (inner : text -> list token) (dict : text -> bool),
  (forall c t0, In t0 (inner c) -> tstart t0 <= tend t0) ->
  (forall c t0, In t0 (inner c) -> tend t0 <= length c) ->
  (forall c t0, In t0 (inner c) -> word_or_sep t0 -> tstart t0 < tend t0) ->
  (forall c, ordered_from 0 (map tspan (inner c))) ->
  forall src m, mask_wf (length src) m ->
  exists toks out, mask_parse_t inner src m = Ok toks /\ masked_ci inner dict src m = Ok out /\
    Grouped (G_ident dict src) toks out /\ Forall (ci_located inner dict src m toks) out.
Proof. exact masked_ci_offsets. Qed.
Check C04_masked_ci_offsets : forall (inner : text -> list token) (dict : text -> bool),
  (forall c t0, In t0 (inner c) -> tstart t0 <= tend t0) ->
  (forall c t0, In t0 (inner c) -> tend t0 <= length c) ->
  (forall c t0, In t0 (inner c) -> word_or_sep t0 -> tstart t0 < tend t0) ->
  (forall c, ordered_from 0 (map tspan (inner c))) ->
  forall src m, mask_wf (length src) m ->
  exists toks out, mask_parse_t inner src m = Ok toks /\ masked_ci inner dict src m = Ok out /\
    Grouped (G_ident dict src) toks out /\ Forall (ci_located inner dict src m toks) out.
Print Assumptions C04_masked_ci_offsets.

(* ---- non-vacuity: "ab_cd // x" with allowed [0,5) and [9,10); the inner parser splits at '_' ---- *)
Example C04_masked_wrappers_nonvacuous :
  let inner := fun c : text =>
    match c with
    | [97; 98; 95; 99; 100]%N => [mktok (mkspan 0 2) KWord; mktok (mkspan 2 3) (KPunct PUnderscore); mktok (mkspan 3 5) KWord]
    | _ => [mktok (mkspan 0 (length c)) KWord]
    end in
  let src := [97; 98; 95; 99; 100; 32; 47; 47; 32; 120]%N in
  let m := [mkspan 0 5; mkspan 9 10] in
  mask_wf (length src) m /\
  mask_parse_t inner src m = Ok [mktok (mkspan 0 2) KWord; mktok (mkspan 2 3) (KPunct PUnderscore); mktok (mkspan 3 5) KWord;
                                 mktok (mkspan 9 10) KWord] /\
  masked_ci inner (fun w => match w with [97; 98; 95; 99; 100]%N => true | _ => false end) src m
    = Ok [mktok (mkspan 0 5) KWord; mktok (mkspan 9 10) KWord] /\
  masked_ci inner (fun _ => false) src m
    = Ok [mktok (mkspan 0 2) KWord; mktok (mkspan 2 3) (KPunct PUnderscore); mktok (mkspan 3 5) KWord; mktok (mkspan 9 10) KWord] /\
  masked_ie inner (fun _ => true) src m
    = Ok [mktok (mkspan 0 2) KWord; mktok (mkspan 2 3) (KPunct PUnderscore); mktok (mkspan 3 5) KWord; mktok (mkspan 9 10) KWord].
Proof.
  cbv zeta. split.
  - split; [cbn; lia|]. repeat constructor; cbn; lia.
  - vm_compute. repeat split; reflexivity.
Qed.
