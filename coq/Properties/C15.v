(* C15 — All dictionary back-ends agree, and fuzzy search returns true near matches.
   This file pins the statements; it contains nothing but `exact` (+ non-vacuity Examples). *)
Require Import Base EditDistance DictModel Fuzzy C15Suggest C15Automaton EditDistanceProofs DictProofs FuzzyProofs
  C15SuggestProofs C15CompleteProofs C15AutomatonProofs Tables_c15spell C15SpellTable C15ZipProofs.
From Coq Require Import ZArith Permutation Sorting.Sorted.

(* ---------- the distance function ---------- *)
(* edit_distance_min_alloc (after fix 7a7de79) — u8 two-row Wagner–Fischer up to 254 characters, usize rows
   beyond — never panics and returns the Levenshtein distance saturated at u8::MAX, for ALL strings, debug
   and release arithmetic, whatever the reused buffers hold; hence the exact distance whenever it is <= 255 *)
Theorem C15_wf_correct : forall dbg s t buf_a buf_b,
  (exists buf_a' buf_b', wf_min_alloc dbg s t buf_a buf_b = Ok (Nat.min (lev s t) 255, buf_a', buf_b')) /\
  (lev s t <= 255 -> exists buf_a' buf_b', wf_min_alloc dbg s t buf_a buf_b = Ok (lev s t, buf_a', buf_b')).
Proof. exact wf_min_alloc_total_correct. Qed.
Check C15_wf_correct : forall dbg s t buf_a buf_b,
  (exists buf_a' buf_b', wf_min_alloc dbg s t buf_a buf_b = Ok (Nat.min (lev s t) 255, buf_a', buf_b')) /\
  (lev s t <= 255 -> exists buf_a' buf_b', wf_min_alloc dbg s t buf_a buf_b = Ok (lev s t, buf_a', buf_b')).
Print Assumptions C15_wf_correct.

(* `lev` (the textbook recursion) is the cost of a cheapest edit script *)
Theorem C15_lev_is_min_edit_script : forall s t,
  align (lev s t) s t /\ forall n, align n s t -> lev s t <= n.
Proof. exact lev_min_alignment. Qed.
Check C15_lev_is_min_edit_script : forall s t,
  align (lev s t) s t /\ forall n, align n s t -> lev s t <= n.
Print Assumptions C15_lev_is_min_edit_script.

(* the length window of MutableDictionary::fuzzy_match drops nothing *)
Theorem C15_lev_len : forall s t,
  length s <= length t + lev s t /\ length t <= length s + lev s t.
Proof. exact lev_len. Qed.
Check C15_lev_len : forall s t,
  length s <= length t + lev s t /\ length t <= length s + lev s t.
Print Assumptions C15_lev_len.

(* lev is a metric *)
Theorem C15_lev_metric : forall s t u,
  (lev s t = 0 <-> s = t) /\ lev s t = lev t s /\ lev s u <= lev s t + lev t u /\
  lev s t <= Nat.max (length s) (length t).
Proof. exact lev_metric. Qed.
Check C15_lev_metric : forall s t u,
  (lev s t = 0 <-> s = t) /\ lev s t = lev t s /\ lev s u <= lev s t + lev t u /\
  lev s t <= Nat.max (length s) (length t).
Print Assumptions C15_lev_metric.

(* ---------- the back-ends agree ---------- *)
(* every MutableDictionary reachable by new() + extend_words is a finite map keyed by id *)
Theorem C15_wordmap_invariant : forall is_lower lower ws,
  wm_wf is_lower lower (mut_extend is_lower lower [] ws).
Proof. exact mut_extend_nil_wf. Qed.
Check C15_wordmap_invariant : forall is_lower lower ws,
  wm_wf is_lower lower (mut_extend is_lower lower [] ws).
Print Assumptions C15_wordmap_invariant.

(* (fix ebb53b3) every word of a dictionary is an exact word of it — also one stored with typographic apostrophes *)
Theorem C15_exact_own_word : forall is_lower lower m k e,
  wm_wf is_lower lower m -> In (k, e) m -> mut_exact is_lower lower m (e_canon e) = true.
Proof. exact mut_exact_own_word. Qed.
Check C15_exact_own_word : forall is_lower lower m k e,
  wm_wf is_lower lower m -> In (k, e) m -> mut_exact is_lower lower m (e_canon e) = true.
Print Assumptions C15_exact_own_word.

(* FstDictionary::from(MutableDictionary) — the only way the crate builds one — answers membership,
   exact-capitalisation, metadata, canonical-spelling and by-id queries exactly like the
   MutableDictionary it was built from, for every query string *)
Theorem C15_backends_agree : forall is_lower lower m q,
  wm_wf is_lower lower m ->
  fst_contains is_lower lower (fst_of_mutable is_lower lower m) q = mut_contains is_lower lower m q /\
  fst_exact is_lower lower (fst_of_mutable is_lower lower m) q = mut_exact is_lower lower m q /\
  fst_meta is_lower lower (fst_of_mutable is_lower lower m) q = mut_meta is_lower lower m q /\
  fst_canon is_lower lower (fst_of_mutable is_lower lower m) q = mut_canon is_lower lower m q /\
  (forall id, fst_from_id (fst_of_mutable is_lower lower m) id = mut_from_id m id).
Proof. exact fst_agrees_with_mutable. Qed.
Check C15_backends_agree : forall is_lower lower m q,
  wm_wf is_lower lower m ->
  fst_contains is_lower lower (fst_of_mutable is_lower lower m) q = mut_contains is_lower lower m q /\
  fst_exact is_lower lower (fst_of_mutable is_lower lower m) q = mut_exact is_lower lower m q /\
  fst_meta is_lower lower (fst_of_mutable is_lower lower m) q = mut_meta is_lower lower m q /\
  fst_canon is_lower lower (fst_of_mutable is_lower lower m) q = mut_canon is_lower lower m q /\
  (forall id, fst_from_id (fst_of_mutable is_lower lower m) id = mut_from_id m id).
Print Assumptions C15_backends_agree.

(* … and its own word list (what its fuzzy search ranges over) and words_iter are the dictionary's words *)
Theorem C15_fst_words : forall is_lower lower m,
  wm_wf is_lower lower m ->
  Permutation (f_words (fst_of_mutable is_lower lower m)) (entries_of m) /\
  Permutation (fst_words_iter (fst_of_mutable is_lower lower m)) (mut_words m).
Proof. exact fst_of_mutable_words. Qed.
Check C15_fst_words : forall is_lower lower m,
  wm_wf is_lower lower m ->
  Permutation (f_words (fst_of_mutable is_lower lower m)) (entries_of m) /\
  Permutation (fst_words_iter (fst_of_mutable is_lower lower m)) (mut_words m).
Print Assumptions C15_fst_words.

(* FstDictionary::new(words) for EVERY word list (after fix 71c98b2; colliding ids, repeated spellings and the
   empty word included): its word map is a finite map keyed by id, its fuzzy index `words` holds exactly the
   entries of that map, and words_iter lists exactly the spellings of the index *)
Theorem C15_fst_new_in_step : forall is_lower lower ws,
  wm_wf is_lower lower (f_full (fst_new is_lower lower ws)) /\
  (forall w md, In (w, md) (f_words (fst_new is_lower lower ws)) <->
                In (word_id is_lower lower w, mkentry md w) (f_full (fst_new is_lower lower ws))) /\
  Permutation (f_words (fst_new is_lower lower ws)) (entries_of (f_full (fst_new is_lower lower ws))) /\
  Permutation (fst_words_iter (fst_new is_lower lower ws)) (map fst (f_words (fst_new is_lower lower ws))).
Proof. exact fst_new_in_step. Qed.
Check C15_fst_new_in_step : forall is_lower lower ws,
  wm_wf is_lower lower (f_full (fst_new is_lower lower ws)) /\
  (forall w md, In (w, md) (f_words (fst_new is_lower lower ws)) <->
                In (word_id is_lower lower w, mkentry md w) (f_full (fst_new is_lower lower ws))) /\
  Permutation (f_words (fst_new is_lower lower ws)) (entries_of (f_full (fst_new is_lower lower ws))) /\
  Permutation (fst_words_iter (fst_new is_lower lower ws)) (map fst (f_words (fst_new is_lower lower ws))).
Print Assumptions C15_fst_new_in_step.

(* FstDictionary::new(words) called directly: agrees with MutableDictionary::extend_words(words')
   for any ordering words' of the same entries, provided the ids are pairwise distinct (the premise is
   needed: C15_fst_new_order_refuted) *)
Theorem C15_fst_new_agrees : forall is_lower lower ws ws' q,
  NoDup (ids_of is_lower lower ws) -> Permutation ws' ws ->
  fst_contains is_lower lower (fst_new is_lower lower ws) q = mut_contains is_lower lower (mut_extend is_lower lower [] ws') q /\
  fst_exact is_lower lower (fst_new is_lower lower ws) q = mut_exact is_lower lower (mut_extend is_lower lower [] ws') q /\
  fst_meta is_lower lower (fst_new is_lower lower ws) q = mut_meta is_lower lower (mut_extend is_lower lower [] ws') q /\
  fst_canon is_lower lower (fst_new is_lower lower ws) q = mut_canon is_lower lower (mut_extend is_lower lower [] ws') q /\
  (forall id, fst_from_id (fst_new is_lower lower ws) id = mut_from_id (mut_extend is_lower lower [] ws') id).
Proof. exact fst_new_agrees_with_mutable. Qed.
Check C15_fst_new_agrees : forall is_lower lower ws ws' q,
  NoDup (ids_of is_lower lower ws) -> Permutation ws' ws ->
  fst_contains is_lower lower (fst_new is_lower lower ws) q = mut_contains is_lower lower (mut_extend is_lower lower [] ws') q /\
  fst_exact is_lower lower (fst_new is_lower lower ws) q = mut_exact is_lower lower (mut_extend is_lower lower [] ws') q /\
  fst_meta is_lower lower (fst_new is_lower lower ws) q = mut_meta is_lower lower (mut_extend is_lower lower [] ws') q /\
  fst_canon is_lower lower (fst_new is_lower lower ws) q = mut_canon is_lower lower (mut_extend is_lower lower [] ws') q /\
  (forall id, fst_from_id (fst_new is_lower lower ws) id = mut_from_id (mut_extend is_lower lower [] ws') id).
Print Assumptions C15_fst_new_agrees.

(* FC15b (what remains of FC15a): of two spellings of one id FstDictionary::new keeps the last in SORTED order,
   MutableDictionary::extend_words the last INSERTED — on ["abc", "Abc"] the two constructors answer
   canonical-spelling, exact and metadata queries differently *)
Theorem C15_fst_new_order_refuted : let ws := [(w_abc, 1); (w_Abc, 2)] in
  let f := fst_new ascii_is_lower ascii_lower ws in
  let m := mut_extend ascii_is_lower ascii_lower [] ws in
  ~ NoDup (ids_of ascii_is_lower ascii_lower ws) /\
  fst_canon ascii_is_lower ascii_lower f w_abc = Some w_abc /\ mut_canon ascii_is_lower ascii_lower m w_abc = Some w_Abc /\
  fst_exact ascii_is_lower ascii_lower f w_Abc = false /\ mut_exact ascii_is_lower ascii_lower m w_Abc = true /\
  fst_meta ascii_is_lower ascii_lower f w_abc = Some 1 /\ mut_meta ascii_is_lower ascii_lower m w_abc = Some 2.
Proof. exact fst_new_order. Qed.
Check C15_fst_new_order_refuted : let ws := [(w_abc, 1); (w_Abc, 2)] in
  let f := fst_new ascii_is_lower ascii_lower ws in
  let m := mut_extend ascii_is_lower ascii_lower [] ws in
  ~ NoDup (ids_of ascii_is_lower ascii_lower ws) /\
  fst_canon ascii_is_lower ascii_lower f w_abc = Some w_abc /\ mut_canon ascii_is_lower ascii_lower m w_abc = Some w_Abc /\
  fst_exact ascii_is_lower ascii_lower f w_Abc = false /\ mut_exact ascii_is_lower ascii_lower m w_Abc = true /\
  fst_meta ascii_is_lower ascii_lower f w_abc = Some 1 /\ mut_meta ascii_is_lower ascii_lower m w_abc = Some 2.
Print Assumptions C15_fst_new_order_refuted.

(* ---------- a merged dictionary is the (first-wins) union of its parts ---------- *)
Theorem C15_merged_union : forall cs w,
  (merged_contains cs w = true <-> exists c, In c cs /\ d_contains c w = true) /\
  (merged_exact cs w = true <-> exists c, In c cs /\ d_exact c w = true) /\
  (forall v, merged_meta cs w = Some v <->
             exists l1 c l2, cs = l1 ++ c :: l2 /\ (forall c', In c' l1 -> d_meta c' w = None) /\ d_meta c w = Some v) /\
  (forall v, merged_canon cs w = Some v <->
             exists l1 c l2, cs = l1 ++ c :: l2 /\ (forall c', In c' l1 -> d_canon c' w = None) /\ d_canon c w = Some v) /\
  (merged_meta cs w = None <-> forall c, In c cs -> d_meta c w = None) /\
  (merged_canon cs w = None <-> forall c, In c cs -> d_canon c w = None).
Proof. exact merged_union. Qed.
Check C15_merged_union : forall cs w,
  (merged_contains cs w = true <-> exists c, In c cs /\ d_contains c w = true) /\
  (merged_exact cs w = true <-> exists c, In c cs /\ d_exact c w = true) /\
  (forall v, merged_meta cs w = Some v <->
             exists l1 c l2, cs = l1 ++ c :: l2 /\ (forall c', In c' l1 -> d_meta c' w = None) /\ d_meta c w = Some v) /\
  (forall v, merged_canon cs w = Some v <->
             exists l1 c l2, cs = l1 ++ c :: l2 /\ (forall c', In c' l1 -> d_canon c' w = None) /\ d_canon c w = Some v) /\
  (merged_meta cs w = None <-> forall c, In c cs -> d_meta c w = None) /\
  (merged_canon cs w = None <-> forall c, In c cs -> d_canon c w = None).
Print Assumptions C15_merged_union.

(* over mutable children: lookups go to the concatenation of the children's word maps *)
Theorem C15_merged_mutable_concat : forall is_lower lower dbg ms w,
  merged_meta (map (mut_ops is_lower lower dbg) ms) w = mut_meta is_lower lower (concat ms) w /\
  merged_canon (map (mut_ops is_lower lower dbg) ms) w = mut_canon is_lower lower (concat ms) w /\
  merged_contains (map (mut_ops is_lower lower dbg) ms) w = mut_contains is_lower lower (concat ms) w /\
  merged_exact (map (mut_ops is_lower lower dbg) ms) w = existsb (fun m => mut_exact is_lower lower m w) ms.
Proof. exact merged_mutable_is_concat. Qed.
Check C15_merged_mutable_concat : forall is_lower lower dbg ms w,
  merged_meta (map (mut_ops is_lower lower dbg) ms) w = mut_meta is_lower lower (concat ms) w /\
  merged_canon (map (mut_ops is_lower lower dbg) ms) w = mut_canon is_lower lower (concat ms) w /\
  merged_contains (map (mut_ops is_lower lower dbg) ms) w = mut_contains is_lower lower (concat ms) w /\
  merged_exact (map (mut_ops is_lower lower dbg) ms) w = existsb (fun m => mut_exact is_lower lower m w) ms.
Print Assumptions C15_merged_mutable_concat.

(* MergedDictionary's content hash / PartialEq (after fix f2dc537), for any hash function: the hash of a
   child does not depend on the order in which its hash map iterates, so two merged dictionaries whose
   children list the same words compare equal *)
Theorem C15_merged_hash_order_independent : forall hash_one,
  (forall ws ws', Permutation ws ws' -> hash_words hash_one ws = hash_words hash_one ws') /\
  (forall cs cs', Forall2 (@Permutation text) cs cs' -> merged_eqb hash_one cs cs' = true).
Proof. exact merged_hash_order_independent. Qed.
Check C15_merged_hash_order_independent : forall hash_one,
  (forall ws ws', Permutation ws ws' -> hash_words hash_one ws = hash_words hash_one ws') /\
  (forall cs cs', Forall2 (@Permutation text) cs cs' -> merged_eqb hash_one cs cs' = true).
Print Assumptions C15_merged_hash_order_independent.

(* ---------- fuzzy search: MutableDictionary ----------
   for EVERY dictionary and query (no length bound since fix 7a7de79) the search neither panics nor
   overflows (debug or release arithmetic), and what it returns is the outcome of sorting the scored
   candidates by (distance, word) and taking k *)
Theorem C15_mutable_fuzzy_total : forall is_lower lower dbg m q d k,
  wm_wf is_lower lower m ->
  exists r, mut_fuzzy is_lower lower dbg m q d k = Ok r /\ mut_fuzzy_outcome is_lower lower m q d k r.
Proof. exact mut_fuzzy_total. Qed.
Check C15_mutable_fuzzy_total : forall is_lower lower dbg m q d k,
  wm_wf is_lower lower m ->
  exists r, mut_fuzzy is_lower lower dbg m q d k = Ok r /\ mut_fuzzy_outcome is_lower lower m q d k r.
Print Assumptions C15_mutable_fuzzy_total.

(* the outcome: each result is a (non-empty) dictionary word carrying that word's metadata, its distance is
   min(lev q' w, lev (lower q') w) — saturated at 255, i.e. exact for every max_distance <= 254 — and <= d for
   the normalised query q'; results are ordered by (distance, word), at most k, no word twice; and complete
   up to the cap — a non-empty dictionary word within the bound of q' (or of lower q' when that has the same
   length) is returned unless the result is full of words that are at least as close *)
Theorem C15_mutable_fuzzy : forall is_lower lower m q d k r,
  wm_wf is_lower lower m -> mut_fuzzy_outcome is_lower lower m q d k r ->
  let qn := normalized q in
  let ql := to_lower is_lower lower qn in
  (forall x, In x r ->
     (exists e, In (word_id is_lower lower (r_word x), e) m /\ e_canon e = r_word x /\ e_meta e = r_meta x) /\
     r_dist x = Nat.min (min_dist qn ql (r_word x)) 255 /\ r_dist x <= d /\
     (d <= 254 -> r_dist x = min_dist qn ql (r_word x)) /\ r_word x <> []) /\
  StronglySorted fres_order r /\
  StronglySorted (fun a b => r_dist a <= r_dist b) r /\ length r <= k /\
  NoDup (map r_word r) /\
  (forall k0 e, In (k0, e) m -> e_canon e <> [] ->
     (lev qn (e_canon e) <= d \/ (length ql = length qn /\ lev ql (e_canon e) <= d)) ->
     (exists x, In x r /\ r_word x = e_canon e) \/
     (length r = k /\ forall x, In x r -> r_dist x <= min_dist qn ql (e_canon e))).
Proof. exact mut_fuzzy_sound. Qed.
Check C15_mutable_fuzzy : forall is_lower lower m q d k r,
  wm_wf is_lower lower m -> mut_fuzzy_outcome is_lower lower m q d k r ->
  let qn := normalized q in
  let ql := to_lower is_lower lower qn in
  (forall x, In x r ->
     (exists e, In (word_id is_lower lower (r_word x), e) m /\ e_canon e = r_word x /\ e_meta e = r_meta x) /\
     r_dist x = Nat.min (min_dist qn ql (r_word x)) 255 /\ r_dist x <= d /\
     (d <= 254 -> r_dist x = min_dist qn ql (r_word x)) /\ r_word x <> []) /\
  StronglySorted fres_order r /\
  StronglySorted (fun a b => r_dist a <= r_dist b) r /\ length r <= k /\
  NoDup (map r_word r) /\
  (forall k0 e, In (k0, e) m -> e_canon e <> [] ->
     (lev qn (e_canon e) <= d \/ (length ql = length qn /\ lev ql (e_canon e) <= d)) ->
     (exists x, In x r /\ r_word x = e_canon e) \/
     (length r = k /\ forall x, In x r -> r_dist x <= min_dist qn ql (e_canon e))).
Print Assumptions C15_mutable_fuzzy.

(* (fix 5a329ea) the result is a function of the SET of entries: two word maps holding the same entries in
   different (hash) orders — and the debug and the release build — give the same result, ties included *)
Theorem C15_mutable_fuzzy_deterministic : forall is_lower lower dbg dbg' m m' q d k,
  wm_wf is_lower lower m -> Permutation m m' ->
  mut_fuzzy is_lower lower dbg m q d k = mut_fuzzy is_lower lower dbg' m' q d k.
Proof. exact mut_fuzzy_deterministic. Qed.
Check C15_mutable_fuzzy_deterministic : forall is_lower lower dbg dbg' m m' q d k,
  wm_wf is_lower lower m -> Permutation m m' ->
  mut_fuzzy is_lower lower dbg m q d k = mut_fuzzy is_lower lower dbg' m' q d k.
Print Assumptions C15_mutable_fuzzy_deterministic.

(* F19b (what remains of F19): the u8 result saturates — with max_distance = 255, a query of 256 a's and the
   dictionary {"b"}, the word is returned at "distance 255" although its distance is 256 > bound.  The
   premise d <= 254 of the exact-distance clause above is sharp. *)
Theorem C15_mutable_fuzzy_saturation_refuted : let m := mut_extend ascii_is_lower ascii_lower [] [(b_1, 1)] in
  mut_fuzzy ascii_is_lower ascii_lower true m (a_n 256) 255 10 = Ok [mkfres b_1 255 1] /\
  min_dist (normalized (a_n 256)) (to_lower ascii_is_lower ascii_lower (normalized (a_n 256))) b_1 = 256.
Proof. exact mut_fuzzy_saturation. Qed.
Check C15_mutable_fuzzy_saturation_refuted : let m := mut_extend ascii_is_lower ascii_lower [] [(b_1, 1)] in
  mut_fuzzy ascii_is_lower ascii_lower true m (a_n 256) 255 10 = Ok [mkfres b_1 255 1] /\
  min_dist (normalized (a_n 256)) (to_lower ascii_is_lower ascii_lower (normalized (a_n 256))) b_1 = 256.
Print Assumptions C15_mutable_fuzzy_saturation_refuted.

(* ---------- fuzzy search: FstDictionary ----------
   under the stream contract (for this dictionary's word list and this bound) the zip loop never
   indexes out of range and the model's run is an admissible outcome *)
Theorem C15_fst_fuzzy_total : forall stream f d,
  (forall x, stream (f_words f) x d = spec_stream lev (f_words f) x d) ->
  forall q lq k, exists r, fst_fuzzy stream f q lq d k = Ok r /\ fst_fuzzy_outcome stream f q lq d k r.
Proof. exact fst_fuzzy_total. Qed.
Check C15_fst_fuzzy_total : forall stream f d,
  (forall x, stream (f_words f) x d = spec_stream lev (f_words f) x d) ->
  forall q lq k, exists r, fst_fuzzy stream f q lq d k = Ok r /\ fst_fuzzy_outcome stream f q lq d k r.
Print Assumptions C15_fst_fuzzy_total.

(* every admissible outcome (whatever the unstable sorts do): each result is a word of the FST's list
   with its metadata, its distance is lev q' w or lev lq w (lq = String::to_lowercase q') and <= d;
   ordered, at most k, no word twice *)
Theorem C15_fst_fuzzy : forall stream f d,
  (forall x, stream (f_words f) x d = spec_stream lev (f_words f) x d) ->
  forall q lq k r, fst_fuzzy_outcome stream f q lq d k r ->
  (forall x, In x r ->
     In (r_word x, r_meta x) (f_words f) /\
     (r_dist x = lev (normalized q) (r_word x) \/ r_dist x = lev lq (r_word x)) /\ r_dist x <= d) /\
  StronglySorted (fun a b => r_dist a <= r_dist b) r /\ length r <= k /\ NoDup (map r_word r).
Proof. exact fst_fuzzy_sound. Qed.
Check C15_fst_fuzzy : forall stream f d,
  (forall x, stream (f_words f) x d = spec_stream lev (f_words f) x d) ->
  forall q lq k r, fst_fuzzy_outcome stream f q lq d k r ->
  (forall x, In x r ->
     In (r_word x, r_meta x) (f_words f) /\
     (r_dist x = lev (normalized q) (r_word x) \/ r_dist x = lev lq (r_word x)) /\ r_dist x <= d) /\
  StronglySorted (fun a b => r_dist a <= r_dist b) r /\ length r <= k /\ NoDup (map r_word r).
Print Assumptions C15_fst_fuzzy.

(* for a lower-case query (lq = q') no word within the bound is missed, up to the cap *)
Theorem C15_fst_fuzzy_complete : forall stream f d,
  (forall x, stream (f_words f) x d = spec_stream lev (f_words f) x d) ->
  forall q k r, fst_fuzzy_outcome stream f q (normalized q) d k r ->
  forall w md, In (w, md) (f_words f) -> lev (normalized q) w <= d ->
    (exists x, In x r /\ r_word x = w) \/
    (length r = k /\ forall x, In x r -> r_dist x <= lev (normalized q) w).
Proof. exact fst_fuzzy_complete. Qed.
Check C15_fst_fuzzy_complete : forall stream f d,
  (forall x, stream (f_words f) x d = spec_stream lev (f_words f) x d) ->
  forall q k r, fst_fuzzy_outcome stream f q (normalized q) d k r ->
  forall w md, In (w, md) (f_words f) -> lev (normalized q) w <= d ->
    (exists x, In x r /\ r_word x = w) \/
    (length r = k /\ forall x, In x r -> r_dist x <= lev (normalized q) w).
Print Assumptions C15_fst_fuzzy_complete.

(* why completeness is claimed for lower-case queries only: dictionary {"AB"}, query "AB", bound 0 — the
   lower-case stream is empty, the positional zip pairs nothing, the result is empty although "AB" is
   in the dictionary at distance 0 *)
Theorem C15_fst_zip_incomplete : let f := fst_new ascii_is_lower ascii_lower [(w_AB, 1)] in
  fst_fuzzy (spec_stream lev) f w_AB w_ab 0 10 = Ok [] /\
  In (w_AB, 1) (f_words f) /\ lev (normalized w_AB) w_AB = 0 /\
  fst_contains ascii_is_lower ascii_lower f w_AB = true.
Proof. exact fst_zip_incomplete. Qed.
Check C15_fst_zip_incomplete : let f := fst_new ascii_is_lower ascii_lower [(w_AB, 1)] in
  fst_fuzzy (spec_stream lev) f w_AB w_ab 0 10 = Ok [] /\
  In (w_AB, 1) (f_words f) /\ lev (normalized w_AB) w_AB = 0 /\
  fst_contains ascii_is_lower ascii_lower f w_AB = true.
Print Assumptions C15_fst_zip_incomplete.

(* ---------- fuzzy search: MergedDictionary ----------
   a function of what the children return: their results concatenated, stably sorted by distance, cut at k *)
Theorem C15_merged_fuzzy_spec : forall cs q lq d k rs,
  Forall2 (fun c r => d_fuzzy c q lq d k = Ok r) cs rs ->
  merged_fuzzy cs q lq d k = Ok (firstn k (isort dist_le (concat rs))) /\
  topk_outcome r_dist (concat rs) k (firstn k (isort dist_le (concat rs))).
Proof. exact merged_fuzzy_spec. Qed.
Check C15_merged_fuzzy_spec : forall cs q lq d k rs,
  Forall2 (fun c r => d_fuzzy c q lq d k = Ok r) cs rs ->
  merged_fuzzy cs q lq d k = Ok (firstn k (isort dist_le (concat rs))) /\
  topk_outcome r_dist (concat rs) k (firstn k (isort dist_le (concat rs))).
Print Assumptions C15_merged_fuzzy_spec.

(* hence only children's results, ordered, capped, and complete up to the cap whenever some child is *)
Theorem C15_merged_fuzzy : forall (rs : list (list fres)) k r,
  topk_outcome r_dist (concat rs) k r ->
  (forall x, In x r -> exists ri, In ri rs /\ In x ri) /\
  StronglySorted (fun a b => r_dist a <= r_dist b) r /\ length r <= k /\
  (forall w dw, (exists ri, In ri rs /\ covers ri k w dw) -> covers r k w dw).
Proof. exact merged_fuzzy_sound. Qed.
Check C15_merged_fuzzy : forall (rs : list (list fres)) k r,
  topk_outcome r_dist (concat rs) k r ->
  (forall x, In x r -> exists ri, In ri rs /\ In x ri) /\
  StronglySorted (fun a b => r_dist a <= r_dist b) r /\ length r <= k /\
  (forall w dw, (exists ri, In ri rs /\ covers ri k w dw) -> covers r k w dw).
Print Assumptions C15_merged_fuzzy.

(* ---------- what the extracted driver relies on ----------
   the functional two-row distance and the length-prefiltered stream it runs are the specification;
   the bulk loads of the curated dictionary equal extend_words / FstDictionary::new when the ids are
   pairwise distinct (and, for the FST, the list is already sorted) *)
Theorem C15_driver_shortcuts : (forall s t, lev_fast s t = lev s t) /\
  (forall ws x d, spec_stream_fast lev_fast ws x d = spec_stream lev ws x d) /\
  (forall is_lower lower ws, NoDup (ids_of is_lower lower ws) ->
     mut_extend is_lower lower [] ws = map (entry_of is_lower lower) ws) /\
  (forall is_lower lower ws, adj_sorted ws = true -> NoDup (ids_of is_lower lower ws) ->
     fst_new is_lower lower ws = mkfst (map (entry_of is_lower lower) ws) ws).
Proof. exact driver_shortcuts. Qed.
Check C15_driver_shortcuts : (forall s t, lev_fast s t = lev s t) /\
  (forall ws x d, spec_stream_fast lev_fast ws x d = spec_stream lev ws x d) /\
  (forall is_lower lower ws, NoDup (ids_of is_lower lower ws) ->
     mut_extend is_lower lower [] ws = map (entry_of is_lower lower) ws) /\
  (forall is_lower lower ws, adj_sorted ws = true -> NoDup (ids_of is_lower lower ws) ->
     fst_new is_lower lower ws = mkfst (map (entry_of is_lower lower) ws) ws).
Print Assumptions C15_driver_shortcuts.

(* ---------- suggest_correct_spelling / order_suggestions (spell/mod.rs) ----------
   score_suggestion cannot overflow its i32: the distance is a u8, so a score is i32::MAX (empty word) or lies in
   [-25, 2550] *)
Theorem C15_score_no_overflow : forall is_common mw x, r_dist x <= 255 ->
  score_suggestion is_common mw x = i32_max \/ (-25 <= score_suggestion is_common mw x <= 2550)%Z.
Proof. exact score_range. Qed.
Check C15_score_no_overflow : forall is_common mw x, r_dist x <= 255 ->
  score_suggestion is_common mw x = i32_max \/ (-25 <= score_suggestion is_common mw x <= 2550)%Z.
Print Assumptions C15_score_no_overflow.

(* order_suggestions: the suggestions are the words of the fuzzy matches — all of them, each as often as it was
   matched (nothing filtered, nothing added) — in THE stable arrangement by score: ascending scores, equal scores in
   the order fuzzy_match returned them; a stable sort has no other outcome, whatever the algorithm *)
Theorem C15_order_suggestions : forall is_common mw matches,
  exists s, order_suggestions is_common mw matches = map r_word s /\
    stable_sort_of (score_suggestion is_common mw) matches s /\
    (forall s', stable_sort_of (score_suggestion is_common mw) matches s' -> s' = s) /\
    Permutation (order_suggestions is_common mw matches) (map r_word matches) /\
    length (order_suggestions is_common mw matches) = length matches.
Proof. exact order_suggestions_spec. Qed.
Check C15_order_suggestions : forall is_common mw matches,
  exists s, order_suggestions is_common mw matches = map r_word s /\
    stable_sort_of (score_suggestion is_common mw) matches s /\
    (forall s', stable_sort_of (score_suggestion is_common mw) matches s' -> s' = s) /\
    Permutation (order_suggestions is_common mw matches) (map r_word matches) /\
    length (order_suggestions is_common mw matches) = length matches.
Print Assumptions C15_order_suggestions.

(* suggest_correct_spelling over ANY dictionary (mutable, FST, merged): ONE fuzzy_match call with the caller's bound
   and cap, re-ordered; it panics exactly when the search does *)
Theorem C15_suggest_spec : forall is_common (c : dict_ops) mw lq limit dist,
  (forall r, d_fuzzy c mw lq dist limit = Ok r ->
     suggest is_common c mw lq limit dist = Ok (order_suggestions is_common mw r)) /\
  (forall p, d_fuzzy c mw lq dist limit = Panic p -> suggest is_common c mw lq limit dist = Panic p).
Proof. exact suggest_spec. Qed.
Check C15_suggest_spec : forall is_common (c : dict_ops) mw lq limit dist,
  (forall r, d_fuzzy c mw lq dist limit = Ok r ->
     suggest is_common c mw lq limit dist = Ok (order_suggestions is_common mw r)) /\
  (forall p, d_fuzzy c mw lq dist limit = Panic p -> suggest is_common c mw lq limit dist = Panic p).
Print Assumptions C15_suggest_spec.

(* over a MutableDictionary: never panics; every suggestion is a non-empty dictionary word within the bound of the
   normalised query or of its lower-case form (for bounds <= 254: F19b); no word twice; the cap holds *)
Theorem C15_suggest_mutable : forall is_common is_lower lower dbg m mw lq limit dist,
  wm_wf is_lower lower m ->
  let qn := normalized mw in
  let ql := to_lower is_lower lower qn in
  exists r sug,
    mut_fuzzy is_lower lower dbg m mw dist limit = Ok r /\
    suggest is_common (mut_ops is_lower lower dbg m) mw lq limit dist = Ok sug /\
    Permutation sug (map r_word r) /\ length sug <= limit /\ NoDup sug /\
    forall w, In w sug ->
      (exists e, In (word_id is_lower lower w, e) m /\ e_canon e = w) /\ w <> [] /\
      (dist <= 254 -> lev qn w <= dist \/ lev ql w <= dist).
Proof. exact suggest_mutable. Qed.
Check C15_suggest_mutable : forall is_common is_lower lower dbg m mw lq limit dist,
  wm_wf is_lower lower m ->
  let qn := normalized mw in
  let ql := to_lower is_lower lower qn in
  exists r sug,
    mut_fuzzy is_lower lower dbg m mw dist limit = Ok r /\
    suggest is_common (mut_ops is_lower lower dbg m) mw lq limit dist = Ok sug /\
    Permutation sug (map r_word r) /\ length sug <= limit /\ NoDup sug /\
    forall w, In w sug ->
      (exists e, In (word_id is_lower lower w, e) m /\ e_canon e = w) /\ w <> [] /\
      (dist <= 254 -> lev qn w <= dist \/ lev ql w <= dist).
Print Assumptions C15_suggest_mutable.

(* words AND order of the suggestions are a function of (word, SET of dictionary entries): no dependence on the
   iteration order of the hash map, on the build mode or on the (unused) lower-case string *)
Theorem C15_suggest_mutable_deterministic : forall is_common is_lower lower dbg dbg' m m' mw lq lq' limit dist,
  wm_wf is_lower lower m -> Permutation m m' ->
  suggest is_common (mut_ops is_lower lower dbg m) mw lq limit dist
  = suggest is_common (mut_ops is_lower lower dbg' m') mw lq' limit dist.
Proof. exact suggest_mutable_deterministic. Qed.
Check C15_suggest_mutable_deterministic : forall is_common is_lower lower dbg dbg' m m' mw lq lq' limit dist,
  wm_wf is_lower lower m -> Permutation m m' ->
  suggest is_common (mut_ops is_lower lower dbg m) mw lq limit dist
  = suggest is_common (mut_ops is_lower lower dbg' m') mw lq' limit dist.
Print Assumptions C15_suggest_mutable_deterministic.

(* FstDictionary::from(MutableDictionary) — word map AND fuzzy index — does not depend on the iteration order of the
   hash map it is built from (the spellings of a word map are pairwise distinct, so the sort by spelling has one
   outcome); hence neither do its suggestions *)
Theorem C15_fst_of_mutable_deterministic : forall is_common is_lower lower stream m m' mw lq limit dist,
  wm_wf is_lower lower m -> Permutation m m' ->
  fst_of_mutable is_lower lower m = fst_of_mutable is_lower lower m' /\
  suggest is_common (fst_ops is_lower lower stream (fst_of_mutable is_lower lower m)) mw lq limit dist
  = suggest is_common (fst_ops is_lower lower stream (fst_of_mutable is_lower lower m')) mw lq limit dist.
Proof. exact fst_of_mutable_deterministic. Qed.
Check C15_fst_of_mutable_deterministic : forall is_common is_lower lower stream m m' mw lq limit dist,
  wm_wf is_lower lower m -> Permutation m m' ->
  fst_of_mutable is_lower lower m = fst_of_mutable is_lower lower m' /\
  suggest is_common (fst_ops is_lower lower stream (fst_of_mutable is_lower lower m)) mw lq limit dist
  = suggest is_common (fst_ops is_lower lower stream (fst_of_mutable is_lower lower m')) mw lq limit dist.
Print Assumptions C15_fst_of_mutable_deterministic.

(* over an FstDictionary, under the stream contract: never panics; every suggestion is a word of the FST's list within
   the bound of the normalised query or of String::to_lowercase of it; no word twice; the cap holds *)
Theorem C15_suggest_fst : forall is_common is_lower lower stream (f : fst_dict) mw lq limit dist,
  (forall x, stream (f_words f) x dist = spec_stream lev (f_words f) x dist) ->
  exists r sug,
    fst_fuzzy stream f mw lq dist limit = Ok r /\
    suggest is_common (fst_ops is_lower lower stream f) mw lq limit dist = Ok sug /\
    Permutation sug (map r_word r) /\ length sug <= limit /\ NoDup sug /\
    forall w, In w sug ->
      In w (map fst (f_words f)) /\ (lev (normalized mw) w <= dist \/ lev lq w <= dist).
Proof. exact suggest_fst. Qed.
Check C15_suggest_fst : forall is_common is_lower lower stream (f : fst_dict) mw lq limit dist,
  (forall x, stream (f_words f) x dist = spec_stream lev (f_words f) x dist) ->
  exists r sug,
    fst_fuzzy stream f mw lq dist limit = Ok r /\
    suggest is_common (fst_ops is_lower lower stream f) mw lq limit dist = Ok sug /\
    Permutation sug (map r_word r) /\ length sug <= limit /\ NoDup sug /\
    forall w, In w sug ->
      In w (map fst (f_words f)) /\ (lev (normalized mw) w <= dist \/ lev lq w <= dist).
Print Assumptions C15_suggest_fst.

(* ---------- the contract of fst::Map::search_with_state + levenshtein_automata, declaratively ----------
   indices strictly increasing (the map's key order, each key once), every item a word within the bound with its exact
   distance, every word within the bound streamed — this is what the harness monitors against brute force, and it is
   EQUIVALENT to the executable `spec_stream lev` the FST theorems are stated with *)
Theorem C15_stream_contract_declarative : forall words x d s,
  stream_contract words x d s <-> s = spec_stream lev words x d.
Proof. exact stream_contract_iff. Qed.
Check C15_stream_contract_declarative : forall words x d s,
  stream_contract words x d s <-> s = spec_stream lev words x d.
Print Assumptions C15_stream_contract_declarative.

(* ---------- "for lower-case queries no word within the bound is missed" ----------
   MutableDictionary: premise = the normalised query is its own CharStringExt::to_lower; the length window drops no
   NON-EMPTY word within the bound (C15_lev_len); covered = returned at no more than its distance, or the result is
   full (k entries) of results at least as close *)
Theorem C15_mutable_fuzzy_complete : forall is_lower lower m q d k r,
  wm_wf is_lower lower m -> mut_fuzzy_outcome is_lower lower m q d k r ->
  to_lower is_lower lower (normalized q) = normalized q ->
  forall w, In w (mut_words m) -> w <> [] -> lev (normalized q) w <= d ->
    covers r k w (lev (normalized q) w).
Proof. exact mut_fuzzy_complete. Qed.
Check C15_mutable_fuzzy_complete : forall is_lower lower m q d k r,
  wm_wf is_lower lower m -> mut_fuzzy_outcome is_lower lower m q d k r ->
  to_lower is_lower lower (normalized q) = normalized q ->
  forall w, In w (mut_words m) -> w <> [] -> lev (normalized q) w <= d ->
    covers r k w (lev (normalized q) w).
Print Assumptions C15_mutable_fuzzy_complete.

(* FstDictionary::new(ws) for every word list, under the stream contract; premise = String::to_lowercase of the
   normalised query is the normalised query; ranges over words_iter *)
Theorem C15_fst_answers_completely : forall is_lower lower stream ws q d k,
  let f := fst_new is_lower lower ws in
  (forall x, stream (f_words f) x d = spec_stream lev (f_words f) x d) ->
  answers_completely (fst_ops is_lower lower stream f) q (normalized q) d k.
Proof. exact fst_answers_completely. Qed.
Check C15_fst_answers_completely : forall is_lower lower stream ws q d k,
  let f := fst_new is_lower lower ws in
  (forall x, stream (f_words f) x d = spec_stream lev (f_words f) x d) ->
  answers_completely (fst_ops is_lower lower stream f) q (normalized q) d k.
Print Assumptions C15_fst_answers_completely.

(* MergedDictionary = union: if every child answers completely (no panic, no non-empty word of its words_iter within
   the bound missed up to the cap) so does the merged dictionary for the words of ALL children — compositional, the
   children may be merged dictionaries themselves *)
Theorem C15_merged_answers_completely : forall cs q lq d k,
  Forall (fun c => answers_completely c q lq d k) cs ->
  answers_completely (merged_ops cs) q lq d k.
Proof. exact merged_answers_completely. Qed.
Check C15_merged_answers_completely : forall cs q lq d k,
  Forall (fun c => answers_completely c q lq d k) cs ->
  answers_completely (merged_ops cs) q lq d k.
Print Assumptions C15_merged_answers_completely.

(* in particular over MutableDictionary children, with the exact premises *)
Theorem C15_merged_mutable_fuzzy_complete : forall is_lower lower dbg ms q lq d k,
  Forall (wm_wf is_lower lower) ms -> to_lower is_lower lower (normalized q) = normalized q ->
  exists r, merged_fuzzy (map (mut_ops is_lower lower dbg) ms) q lq d k = Ok r /\
    forall m k0 e, In m ms -> In (k0, e) m -> e_canon e <> [] -> lev (normalized q) (e_canon e) <= d ->
      covers r k (e_canon e) (lev (normalized q) (e_canon e)).
Proof. exact merged_mutable_fuzzy_complete. Qed.
Check C15_merged_mutable_fuzzy_complete : forall is_lower lower dbg ms q lq d k,
  Forall (wm_wf is_lower lower) ms -> to_lower is_lower lower (normalized q) = normalized q ->
  exists r, merged_fuzzy (map (mut_ops is_lower lower dbg) ms) q lq d k = Ok r /\
    forall m k0 e, In m ms -> In (k0, e) m -> e_canon e <> [] -> lev (normalized q) (e_canon e) <= d ->
      covers r k (e_canon e) (lev (normalized q) (e_canon e)).
Print Assumptions C15_merged_mutable_fuzzy_complete.

(* ---------- the Levenshtein automaton x key list product (Model/C15Automaton.v) ----------
   state of the automaton of x after reading w = the Wagner–Fischer row: cell i is lev (firstn i x) w, the last cell
   is lev x w, DFA::distance is Exact(lev x w) within the bound and AtLeast(bound + 1) (None) beyond *)
Theorem C15_automaton_state : forall x w,
  (forall i, i <= length x -> nth_error (la_run x w) i = Some (lev (firstn i x) w)) /\
  last (la_run x w) 0 = lev x w /\
  (forall d, la_distance d (la_run x w) = if lev x w <=? d then Some (lev x w) else None).
Proof. exact la_run_spec. Qed.
Check C15_automaton_state : forall x w,
  (forall i, i <= length x -> nth_error (la_run x w) i = Some (lev (firstn i x) w)) /\
  last (la_run x w) 0 = lev x w /\
  (forall d, la_distance d (la_run x w) = if lev x w <=? d then Some (lev x w) else None).
Print Assumptions C15_automaton_state.

(* fst's pruning (Automaton::can_match) loses nothing: when no cell of the state of a prefix p is within the bound, no
   key that extends p is within the bound *)
Theorem C15_automaton_prune_sound : forall x d p,
  la_can_match d (la_run x p) = false -> forall r, d < lev x (p ++ r).
Proof. exact la_prune_sound. Qed.
Check C15_automaton_prune_sound : forall x d p,
  la_can_match d (la_run x p) = false -> forall r, d < lev x (p ++ r).
Print Assumptions C15_automaton_prune_sound.

(* the stream of the product (keys walked in order, abandoned at the first prefix that cannot match, emitted with index
   and DFA::distance when the final state matches) IS the contract stream, for every word list, query and bound —
   the contract is satisfiable by an automaton, and what is assumed of fst + levenshtein_automata is only that their
   stream equals this executable one (the `A` cases of the correspondence compare them item by item) *)
Theorem C15_automaton_search : forall words x d,
  la_search words x d = spec_stream lev words x d /\ stream_contract words x d (la_search words x d).
Proof. exact (fun words x d => conj (la_search_correct words x d) (la_search_contract words x d)). Qed.
Check C15_automaton_search : forall words x d,
  la_search words x d = spec_stream lev words x d /\ stream_contract words x d (la_search words x d).
Print Assumptions C15_automaton_search.

(* FstDictionary::fuzzy_match over the automaton product — NO hypothesis: never panics; only words of the index, true
   distances (to the normalised query or its lower-case form) within the bound, ordered, capped, no word twice *)
Theorem C15_fst_fuzzy_automaton : forall (f : fst_dict) q lq d k,
  exists r, fst_fuzzy la_search f q lq d k = Ok r /\
    (forall x, In x r ->
       In (r_word x, r_meta x) (f_words f) /\
       (r_dist x = lev (normalized q) (r_word x) \/ r_dist x = lev lq (r_word x)) /\ r_dist x <= d) /\
    StronglySorted (fun a b => r_dist a <= r_dist b) r /\ length r <= k /\ NoDup (map r_word r).
Proof. exact fst_fuzzy_automaton. Qed.
Check C15_fst_fuzzy_automaton : forall (f : fst_dict) q lq d k,
  exists r, fst_fuzzy la_search f q lq d k = Ok r /\
    (forall x, In x r ->
       In (r_word x, r_meta x) (f_words f) /\
       (r_dist x = lev (normalized q) (r_word x) \/ r_dist x = lev lq (r_word x)) /\ r_dist x <= d) /\
    StronglySorted (fun a b => r_dist a <= r_dist b) r /\ length r <= k /\ NoDup (map r_word r).
Print Assumptions C15_fst_fuzzy_automaton.

(* … complete for lower-case queries, for FstDictionary::new of every word list *)
Theorem C15_fst_answers_completely_automaton : forall is_lower lower ws q d k,
  answers_completely (fst_ops is_lower lower la_search (fst_new is_lower lower ws)) q (normalized q) d k.
Proof. exact fst_answers_completely_automaton. Qed.
Check C15_fst_answers_completely_automaton : forall is_lower lower ws q d k,
  answers_completely (fst_ops is_lower lower la_search (fst_new is_lower lower ws)) q (normalized q) d k.
Print Assumptions C15_fst_answers_completely_automaton.

(* … and suggest_correct_spelling over it *)
Theorem C15_suggest_fst_automaton : forall is_common is_lower lower (f : fst_dict) mw lq limit dist,
  exists r sug,
    fst_fuzzy la_search f mw lq dist limit = Ok r /\
    suggest is_common (fst_ops is_lower lower la_search f) mw lq limit dist = Ok sug /\
    Permutation sug (map r_word r) /\ length sug <= limit /\ NoDup sug /\
    forall w, In w sug ->
      In w (map fst (f_words f)) /\ (lev (normalized mw) w <= dist \/ lev lq w <= dist).
Proof. exact suggest_fst_automaton. Qed.
Check C15_suggest_fst_automaton : forall is_common is_lower lower (f : fst_dict) mw lq limit dist,
  exists r sug,
    fst_fuzzy la_search f mw lq dist limit = Ok r /\
    suggest is_common (fst_ops is_lower lower la_search f) mw lq limit dist = Ok sug /\
    Permutation sug (map r_word r) /\ length sug <= limit /\ NoDup sug /\
    forall w, In w sug ->
      In w (map fst (f_words f)) /\ (lev (normalized mw) w <= dist \/ lev lq w <= dist).
Print Assumptions C15_suggest_fst_automaton.

(* the model's score is the score built from the constants the translator reads from spell/mod.rs on every run
   (weights, the plural and apostrophe characters, the apostrophe count); the same translator pins that the sort is
   `Vec::sort_by_key` (stable) and that the Levenshtein automata are built without the transposition rule *)
Theorem C15_score_table : forall is_common mw sug,
  score_suggestion is_common mw sug = score_suggestion_tab is_common mw sug /\
  spell_sort_stable = true /\ fst_transposition_cost_one = false.
Proof. exact score_suggestion_is_table. Qed.
Check C15_score_table : forall is_common mw sug,
  score_suggestion is_common mw sug = score_suggestion_tab is_common mw sug /\
  spell_sort_stable = true /\ fst_transposition_cost_one = false.
Print Assumptions C15_score_table.

(* ---------- the two automata and the positional zip ----------
   `aligned ws qn lq d`: every index word is within the bound of both strings or of neither (always so for a lower-case
   query, qn = lq).  Then the zip loop yields EVERY index word within the bound exactly once, at the SMALLER of its two
   distances (the query's automaton wins ties) — under the stream contract *)
Theorem C15_fst_merged_aligned : forall stream (f : fst_dict) qn lq d,
  (forall x, stream (f_words f) x d = spec_stream lev (f_words f) x d) ->
  aligned (f_words f) qn lq d ->
  fst_merged stream f qn lq d = Ok (merged_min (f_words f) qn lq d).
Proof. exact fst_merged_aligned. Qed.
Check C15_fst_merged_aligned : forall stream (f : fst_dict) qn lq d,
  (forall x, stream (f_words f) x d = spec_stream lev (f_words f) x d) ->
  aligned (f_words f) qn lq d ->
  fst_merged stream f qn lq d = Ok (merged_min (f_words f) qn lq d).
Print Assumptions C15_fst_merged_aligned.

(* … hence FstDictionary::fuzzy_match over the automaton product (no hypothesis on a stream) reports for each result
   the minimum of its distances to the normalised query and to the lower-case form, both within the bound.  Without
   alignment the zip pairs unrelated words and only "one of the two distances" holds (C15_fst_fuzzy,
   C15_fst_zip_incomplete) *)
Theorem C15_fst_fuzzy_aligned_min : forall (f : fst_dict) q lq d k,
  aligned (f_words f) (normalized q) lq d ->
  exists r, fst_fuzzy la_search f q lq d k = Ok r /\
    forall x, In x r ->
      r_dist x = Nat.min (lev (normalized q) (r_word x)) (lev lq (r_word x)) /\
      In (r_word x, r_meta x) (f_words f) /\ lev (normalized q) (r_word x) <= d /\ lev lq (r_word x) <= d.
Proof. exact fst_fuzzy_aligned_min_automaton. Qed.
Check C15_fst_fuzzy_aligned_min : forall (f : fst_dict) q lq d k,
  aligned (f_words f) (normalized q) lq d ->
  exists r, fst_fuzzy la_search f q lq d k = Ok r /\
    forall x, In x r ->
      r_dist x = Nat.min (lev (normalized q) (r_word x)) (lev lq (r_word x)) /\
      In (r_word x, r_meta x) (f_words f) /\ lev (normalized q) (r_word x) <= d /\ lev lq (r_word x) <= d.
Print Assumptions C15_fst_fuzzy_aligned_min.

(* ---------- non-vacuity ---------- *)
Example C15_wf_nonvacuous :
  let kitten := [107; 105; 116; 116; 101; 110]%N in
  let sitting := [115; 105; 116; 116; 105; 110; 103]%N in
  length kitten <= 254 /\ length sitting <= 254 /\ lev kitten sitting = 3 /\
  wf_u8 true kitten sitting = Ok 3 /\ wf_u8 false kitten sitting = Ok 3 /\ lev_fast kitten sitting = 3 /\
  wf_long kitten sitting = Ok 3 /\
  wf_u8 true (a_n 256) b_1 = Ok 255 /\ wf_u8 false (a_n 256) b_1 = Ok 255 /\ lev (a_n 256) b_1 = 256.
Proof. cbv zeta. repeat split; try (cbn; lia); vm_compute; reflexivity. Qed.

(* HISTORY (F19, fixed by 7a7de79): the function as it was — u8 rows for every length.  255 characters: debug
   build panicked (u8 overflow), release build wrapped to distance 0; 256 characters: assertion (debug) /
   truncated row and index panic (release) *)
Example C15_wf_u8_old_refuted :
  (exists s t, length s = 255 /\ length t = 1 /\ wf_u8_old true s t = Panic POverflow) /\
  (exists s t, length s = 1 /\ length t = 255 /\ wf_u8_old true s t = Panic POverflow) /\
  (exists s t, length s = 255 /\ length t = 1 /\ wf_u8_old false s t = Ok 0 /\ 254 <= lev s t) /\
  (exists s t, length s = 256 /\ wf_u8_old true s t = Panic PUnwrap) /\
  (exists s t, length s = 256 /\ wf_u8_old false s t = Panic PIndex).
Proof. exact wf_u8_old_refuted. Qed.

(* HISTORY (FC15a, fixed by 71c98b2): FstDictionary::new as it was kept "Abc" in its fuzzy index although its
   word map had dropped it; now index and map hold the one spelling "abc" *)
Example C15_fst_new_collision_old_refuted : let ws := [(w_abc, 1); (w_Abc, 2)] in
  let f := fst_new_old ascii_is_lower ascii_lower ws in
  In (w_Abc, 2) (f_words f) /\ ~ In w_Abc (fst_words_iter f) /\
  fst_meta ascii_is_lower ascii_lower f w_Abc = Some 1 /\
  fst_fuzzy (spec_stream lev) f w_Abc w_abc 1 10 = Ok [mkfres w_Abc 0 2; mkfres w_abc 0 1].
Proof. exact fst_new_collision_old. Qed.

Example C15_fst_new_collision_now : let ws := [(w_abc, 1); (w_Abc, 2)] in
  let f := fst_new ascii_is_lower ascii_lower ws in
  f_words f = [(w_abc, 1)] /\ fst_words_iter f = [w_abc] /\
  fst_fuzzy (spec_stream lev) f w_Abc w_abc 1 10 = Ok [mkfres w_abc 0 1].
Proof. exact fst_new_collision_now. Qed.

(* HISTORY (fixed by f2dc537): the old content hash fed all characters into one hasher — whatever the hasher,
   {"ab","c"}, {"a","bc"} and {"abc"} collided *)
Example C15_merged_hash_old_refuted : forall hs,
  hash_words_old hs [[97; 98]; [99]]%N = hash_words_old hs [[97]; [98; 99]]%N /\
  hash_words_old hs [[97; 98]; [99]]%N = hash_words_old hs [[97; 98; 99]]%N.
Proof. exact hash_words_old_collision. Qed.

(* quirks of the length window of MutableDictionary::fuzzy_match (outside the property's claim: the
   query is not lower-case / the word is empty) *)
Example C15_mutable_window_uses_query_length :
  let w := [105; 775]%N in
  let m := mut_extend ascii_is_lower dot_lower [] [(w, 1)] in
  let q := [304]%N in
  to_lower ascii_is_lower dot_lower (normalized q) = w /\ lev w w = 0 /\
  mut_fuzzy ascii_is_lower dot_lower true m q 0 10 = Ok [].
Proof. exact mut_window_uses_query_length. Qed.

Example C15_mutable_window_skips_empty_word :
  let m := mut_extend ascii_is_lower ascii_lower [] [([], 1)] in
  lev [97%N] [] = 1 /\ mut_contains ascii_is_lower ascii_lower m [] = true /\
  mut_fuzzy ascii_is_lower ascii_lower true m [97%N] 1 10 = Ok [].
Proof. exact mut_window_skips_empty_word. Qed.

(* the fuzzy theorems' hypotheses are satisfiable: a three-word dictionary through all three back-ends *)
Example C15_fuzzy_nonvacuous :
  let ws := [(w_abc, 1); (w_ab, 2); ([98%N], 3)] in
  let m := mut_extend ascii_is_lower ascii_lower [] ws in
  let f := fst_of_mutable ascii_is_lower ascii_lower m in
  let q := [97; 98; 100]%N in
  mut_fuzzy ascii_is_lower ascii_lower true m q 1 10 = Ok [mkfres w_ab 1 2; mkfres w_abc 1 1] /\
  fst_fuzzy (spec_stream lev) f q q 1 10 = Ok [mkfres w_ab 1 2; mkfres w_abc 1 1] /\
  merged_fuzzy [mut_ops ascii_is_lower ascii_lower true m; fst_ops ascii_is_lower ascii_lower (spec_stream lev) f] q q 1 3
    = Ok [mkfres w_ab 1 2; mkfres w_abc 1 1; mkfres w_ab 1 2].
Proof. exact fuzzy_example. Qed.

(* the premise of C15_fst_new_agrees is satisfiable, and fails exactly when two spellings share an id *)
Example C15_fst_new_agrees_nonvacuous :
  let ws := [(w_abc, 1); (w_ab, 2); (w_AB ++ [99%N], 3)] in
  NoDup (ids_of ascii_is_lower ascii_lower [(w_abc, 1); (w_ab, 2)]) /\
  ~ NoDup (ids_of ascii_is_lower ascii_lower ws) /\
  fst_exact ascii_is_lower ascii_lower (fst_new ascii_is_lower ascii_lower [(w_abc, 1); (w_ab, 2)]) w_AB = false /\
  fst_canon ascii_is_lower ascii_lower (fst_new ascii_is_lower ascii_lower [(w_abc, 1); (w_ab, 2)]) w_AB = Some w_ab.
Proof. exact fst_new_agrees_example. Qed.

(* ---------- non-vacuity of the deepening theorems ---------- *)
(* "ths" against {this, thus, the, th's, tis, as}: the first-letter, plural-s, `common` (odd tags) and
   one-apostrophe heuristics, a stable tie ("th's" stays in front of "this", "the" in front of "thus"), the cap taken
   by the SEARCH (limit 2 keeps the two (distance, word)-smallest matches, not the two best scores), empty words *)
Example C15_suggest_nonvacuous :
  let m := mut_extend ascii_is_lower ascii_lower []
             [(w_this, 1); (w_thus, 2); (w_the, 1); (w_th's, 2); (w_tis, 2); (w_as, 2)] in
  mut_fuzzy ascii_is_lower ascii_lower true m w_ths 1 10
    = Ok [mkfres w_th's 1 2; mkfres w_the 1 1; mkfres w_this 1 1; mkfres w_thus 1 2; mkfres w_tis 1 2] /\
  map (score_suggestion odd_common w_ths)
      [mkfres w_th's 1 2; mkfres w_the 1 1; mkfres w_this 1 1; mkfres w_thus 1 2; mkfres w_tis 1 2]
    = [-10; -5; -10; -5; -5]%Z /\
  suggest odd_common (mut_ops ascii_is_lower ascii_lower true m) w_ths w_ths 10 1
    = Ok [w_th's; w_this; w_the; w_thus; w_tis] /\
  suggest odd_common (mut_ops ascii_is_lower ascii_lower true m) w_ths w_ths 2 1 = Ok [w_th's; w_the] /\
  score_suggestion odd_common [] (mkfres w_the 1 1) = i32_max /\
  score_suggestion odd_common w_ths (mkfres [] 3 1) = i32_max.
Proof. exact suggest_example. Qed.

Example C15_stream_contract_nonvacuous :
  let ws := [(w_ab, 2); (w_abc, 1); ([98%N], 3)] in
  stream_contract ws w_ab 1 [(0, 0); (1, 1); (2, 1)] /\
  ~ stream_contract ws w_ab 1 [(0, 0); (2, 1)] /\
  ~ stream_contract ws w_ab 1 [(0, 0); (1, 0); (2, 1)].
Proof. exact stream_contract_example. Qed.

Example C15_complete_nonvacuous :
  let m := mut_extend ascii_is_lower ascii_lower [] [(w_abc, 1); ([98%N], 3)] in
  let ws := [(w_ab, 2); (w_AB, 4)] in
  let q := [97; 98; 100]%N in
  to_lower ascii_is_lower ascii_lower (normalized q) = normalized q /\
  wm_wf ascii_is_lower ascii_lower m /\
  merged_fuzzy [mut_ops ascii_is_lower ascii_lower true m;
                fst_ops ascii_is_lower ascii_lower (spec_stream lev) (fst_new ascii_is_lower ascii_lower ws)]
               q (normalized q) 1 1 = Ok [mkfres w_abc 1 1] /\
  lev (normalized q) w_ab = 1 /\ lev (normalized q) w_abc = 1 /\
  covers [mkfres w_abc 1 1] 1 w_ab 1.
Proof. exact complete_example. Qed.

(* "ab" against [ab; abc; b; bbbb], bound 1: three keys streamed with their distances, "bbbb" abandoned at "bbb" *)
Example C15_automaton_nonvacuous :
  let ws := [(w_ab, 2); (w_abc, 1); ([98%N], 3); ([98; 98; 98; 98]%N, 4)] in
  la_search ws w_ab 1 = [(0, 0); (1, 1); (2, 1)] /\
  la_run w_ab [98; 98]%N = [2; 2; 1] /\ la_run w_ab [98; 98; 98]%N = [3; 3; 2] /\
  la_walk w_ab 1 (la_start w_ab) [98; 98; 98; 98]%N = None /\
  la_can_match 1 (la_run w_ab [98; 98; 98]%N) = false /\ lev w_ab [98; 98; 98; 98]%N = 3.
Proof. exact la_example. Qed.

Example C15_score_table_nonvacuous :
  score_suggestion_tab odd_common w_ths (mkfres w_th's 1 2) = (-10)%Z /\
  score_suggestion_tab odd_common w_ths (mkfres w_the 1 1) = (-5)%Z /\
  score_suggestion_tab odd_common w_ths (mkfres [] 3 1) = i32_max.
Proof. exact score_table_example. Qed.

(* aligned streams with the minimum taken from different automata: {"AB", "Bc", "b"}, query "AB" / "ab", bound 2 *)
Example C15_aligned_nonvacuous :
  let f := fst_new ascii_is_lower ascii_lower [(w_AB, 1); ([66; 99]%N, 2); ([98%N], 3)] in
  f_words f = [(w_AB, 1); ([66; 99]%N, 2); ([98%N], 3)] /\
  spec_stream lev (f_words f) w_AB 2 = [(0, 0); (1, 2); (2, 2)] /\
  spec_stream lev (f_words f) w_ab 2 = [(0, 2); (1, 2); (2, 1)] /\
  fst_merged (spec_stream lev) f w_AB w_ab 2
    = Ok [mkfres w_AB 0 1; mkfres [66; 99]%N 2 2; mkfres [98%N] 1 3] /\
  merged_min (f_words f) w_AB w_ab 2 = [mkfres w_AB 0 1; mkfres [66; 99]%N 2 2; mkfres [98%N] 1 3].
Proof. exact aligned_example. Qed.
