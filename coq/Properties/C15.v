(* C15 — All dictionary back-ends agree, and fuzzy search returns true near matches.
   This file pins the statements; it contains nothing but `exact` (+ non-vacuity Examples). *)
Require Import Base EditDistance DictModel Fuzzy EditDistanceProofs DictProofs.
From Coq Require Import Permutation.

(* ---------- the distance function ---------- *)
(* the u8 two-row Wagner–Fischer of edit_distance.rs returns the Levenshtein distance whenever both
   strings have at most 254 characters — debug and release build, whatever the reused buffers hold *)
Theorem C15_wf_correct : forall dbg s t buf_a buf_b,
  length s <= 254 -> length t <= 254 ->
  exists buf_a' buf_b', wf_min_alloc dbg s t buf_a buf_b = Ok (lev s t, buf_a', buf_b').
Proof. exact wf_min_alloc_correct. Qed.
Check C15_wf_correct : forall dbg s t buf_a buf_b,
  length s <= 254 -> length t <= 254 ->
  exists buf_a' buf_b', wf_min_alloc dbg s t buf_a buf_b = Ok (lev s t, buf_a', buf_b').
Print Assumptions C15_wf_correct.

(* F19: the bound is sharp.  255 characters: debug build panics (u8 overflow), release build wraps
   and reports distance 0 for strings at distance >= 254; 256 characters: assertion (debug) /
   truncated row and index panic (release) *)
Theorem C15_wf_u8_refuted :
  (exists s t, length s = 255 /\ length t = 1 /\ wf_u8 true s t = Panic POverflow) /\
  (exists s t, length s = 1 /\ length t = 255 /\ wf_u8 true s t = Panic POverflow) /\
  (exists s t, length s = 255 /\ length t = 1 /\ wf_u8 false s t = Ok 0 /\ 254 <= lev s t) /\
  (exists s t, length s = 256 /\ wf_u8 true s t = Panic PUnwrap) /\
  (exists s t, length s = 256 /\ wf_u8 false s t = Panic PIndex).
Proof. exact wf_u8_refuted. Qed.
Check C15_wf_u8_refuted :
  (exists s t, length s = 255 /\ length t = 1 /\ wf_u8 true s t = Panic POverflow) /\
  (exists s t, length s = 1 /\ length t = 255 /\ wf_u8 true s t = Panic POverflow) /\
  (exists s t, length s = 255 /\ length t = 1 /\ wf_u8 false s t = Ok 0 /\ 254 <= lev s t) /\
  (exists s t, length s = 256 /\ wf_u8 true s t = Panic PUnwrap) /\
  (exists s t, length s = 256 /\ wf_u8 false s t = Panic PIndex).
Print Assumptions C15_wf_u8_refuted.

(* `lev` (the textbook recursion) is the cost of a cheapest edit script *)
Theorem C15_lev_is_min_edit_script : forall s t,
  align (lev s t) s t /\ forall n, align n s t -> lev s t <= n.
Proof. exact lev_min_alignment. Qed.
Check C15_lev_is_min_edit_script : forall s t,
  align (lev s t) s t /\ forall n, align n s t -> lev s t <= n.
Print Assumptions C15_lev_is_min_edit_script.

(* the length window of MutableDictionary::fuzzy_match drops nothing *)
Theorem C15_lev_len : forall s t,
  length s <= length t + lev s t /\ length t <= length s + lev s t.
Proof. exact lev_len. Qed.
Check C15_lev_len : forall s t,
  length s <= length t + lev s t /\ length t <= length s + lev s t.
Print Assumptions C15_lev_len.

(* lev is a metric *)
Theorem C15_lev_metric : forall s t u,
  (lev s t = 0 <-> s = t) /\ lev s t = lev t s /\ lev s u <= lev s t + lev t u /\
  lev s t <= Nat.max (length s) (length t).
Proof. exact (fun s t u => conj (lev_0_iff s t) (conj (lev_sym s t) (conj (lev_triangle s t u) (lev_le_max s t)))). Qed.
Check C15_lev_metric : forall s t u,
  (lev s t = 0 <-> s = t) /\ lev s t = lev t s /\ lev s u <= lev s t + lev t u /\
  lev s t <= Nat.max (length s) (length t).
Print Assumptions C15_lev_metric.

(* ---------- the back-ends agree ---------- *)
(* every MutableDictionary reachable by new() + extend_words is a finite map keyed by id *)
Theorem C15_wordmap_invariant : forall is_lower lower ws,
  wm_wf is_lower lower (mut_extend is_lower lower [] ws).
Proof. exact mut_extend_nil_wf. Qed.
Check C15_wordmap_invariant : forall is_lower lower ws,
  wm_wf is_lower lower (mut_extend is_lower lower [] ws).
Print Assumptions C15_wordmap_invariant.

(* FstDictionary::from(MutableDictionary) — the only way the crate builds one — answers membership,
   exact-capitalisation, metadata, canonical-spelling and by-id queries exactly like the
   MutableDictionary it was built from, for every query string *)
Theorem C15_backends_agree : forall is_lower lower m q,
  wm_wf is_lower lower m ->
  fst_contains is_lower lower (fst_of_mutable is_lower lower m) q = mut_contains is_lower lower m q /\
  fst_exact is_lower lower (fst_of_mutable is_lower lower m) q = mut_exact is_lower lower m q /\
  fst_meta is_lower lower (fst_of_mutable is_lower lower m) q = mut_meta is_lower lower m q /\
  fst_canon is_lower lower (fst_of_mutable is_lower lower m) q = mut_canon is_lower lower m q /\
  (forall id, fst_from_id (fst_of_mutable is_lower lower m) id = mut_from_id m id).
Proof. exact fst_agrees_with_mutable. Qed.
Check C15_backends_agree : forall is_lower lower m q,
  wm_wf is_lower lower m ->
  fst_contains is_lower lower (fst_of_mutable is_lower lower m) q = mut_contains is_lower lower m q /\
  fst_exact is_lower lower (fst_of_mutable is_lower lower m) q = mut_exact is_lower lower m q /\
  fst_meta is_lower lower (fst_of_mutable is_lower lower m) q = mut_meta is_lower lower m q /\
  fst_canon is_lower lower (fst_of_mutable is_lower lower m) q = mut_canon is_lower lower m q /\
  (forall id, fst_from_id (fst_of_mutable is_lower lower m) id = mut_from_id m id).
Print Assumptions C15_backends_agree.

(* … and its own word list (what its fuzzy search ranges over) and words_iter are the dictionary's words *)
Theorem C15_fst_words : forall is_lower lower m,
  wm_wf is_lower lower m ->
  Permutation (f_words (fst_of_mutable is_lower lower m)) (entries_of m) /\
  Permutation (fst_words_iter (fst_of_mutable is_lower lower m)) (mut_words m).
Proof. exact fst_of_mutable_words. Qed.
Check C15_fst_words : forall is_lower lower m,
  wm_wf is_lower lower m ->
  Permutation (f_words (fst_of_mutable is_lower lower m)) (entries_of m) /\
  Permutation (fst_words_iter (fst_of_mutable is_lower lower m)) (mut_words m).
Print Assumptions C15_fst_words.

(* FstDictionary::new(words) called directly: agrees with MutableDictionary::extend_words(words')
   for any ordering words' of the same entries, provided the ids are pairwise distinct *)
Theorem C15_fst_new_agrees : forall is_lower lower ws ws' q,
  NoDup (ids_of is_lower lower ws) -> Permutation ws' ws ->
  fst_contains is_lower lower (fst_new is_lower lower ws) q = mut_contains is_lower lower (mut_extend is_lower lower [] ws') q /\
  fst_exact is_lower lower (fst_new is_lower lower ws) q = mut_exact is_lower lower (mut_extend is_lower lower [] ws') q /\
  fst_meta is_lower lower (fst_new is_lower lower ws) q = mut_meta is_lower lower (mut_extend is_lower lower [] ws') q /\
  fst_canon is_lower lower (fst_new is_lower lower ws) q = mut_canon is_lower lower (mut_extend is_lower lower [] ws') q /\
  (forall id, fst_from_id (fst_new is_lower lower ws) id = mut_from_id (mut_extend is_lower lower [] ws') id).
Proof. exact fst_new_agrees_with_mutable. Qed.
Check C15_fst_new_agrees : forall is_lower lower ws ws' q,
  NoDup (ids_of is_lower lower ws) -> Permutation ws' ws ->
  fst_contains is_lower lower (fst_new is_lower lower ws) q = mut_contains is_lower lower (mut_extend is_lower lower [] ws') q /\
  fst_exact is_lower lower (fst_new is_lower lower ws) q = mut_exact is_lower lower (mut_extend is_lower lower [] ws') q /\
  fst_meta is_lower lower (fst_new is_lower lower ws) q = mut_meta is_lower lower (mut_extend is_lower lower [] ws') q /\
  fst_canon is_lower lower (fst_new is_lower lower ws) q = mut_canon is_lower lower (mut_extend is_lower lower [] ws') q /\
  (forall id, fst_from_id (fst_new is_lower lower ws) id = mut_from_id (mut_extend is_lower lower [] ws') id).
Print Assumptions C15_fst_new_agrees.

(* ---------- a merged dictionary is the (first-wins) union of its parts ---------- *)
Theorem C15_merged_union : forall cs w,
  (merged_contains cs w = true <-> exists c, In c cs /\ d_contains c w = true) /\
  (merged_exact cs w = true <-> exists c, In c cs /\ d_exact c w = true) /\
  (forall v, merged_meta cs w = Some v <->
             exists l1 c l2, cs = l1 ++ c :: l2 /\ (forall c', In c' l1 -> d_meta c' w = None) /\ d_meta c w = Some v) /\
  (forall v, merged_canon cs w = Some v <->
             exists l1 c l2, cs = l1 ++ c :: l2 /\ (forall c', In c' l1 -> d_canon c' w = None) /\ d_canon c w = Some v) /\
  (merged_meta cs w = None <-> forall c, In c cs -> d_meta c w = None) /\
  (merged_canon cs w = None <-> forall c, In c cs -> d_canon c w = None).
Proof. exact merged_union. Qed.
Check C15_merged_union : forall cs w,
  (merged_contains cs w = true <-> exists c, In c cs /\ d_contains c w = true) /\
  (merged_exact cs w = true <-> exists c, In c cs /\ d_exact c w = true) /\
  (forall v, merged_meta cs w = Some v <->
             exists l1 c l2, cs = l1 ++ c :: l2 /\ (forall c', In c' l1 -> d_meta c' w = None) /\ d_meta c w = Some v) /\
  (forall v, merged_canon cs w = Some v <->
             exists l1 c l2, cs = l1 ++ c :: l2 /\ (forall c', In c' l1 -> d_canon c' w = None) /\ d_canon c w = Some v) /\
  (merged_meta cs w = None <-> forall c, In c cs -> d_meta c w = None) /\
  (merged_canon cs w = None <-> forall c, In c cs -> d_canon c w = None).
Print Assumptions C15_merged_union.

(* over mutable children: lookups go to the concatenation of the children's word maps *)
Theorem C15_merged_mutable_concat : forall is_lower lower dbg ms w,
  merged_meta (map (mut_ops is_lower lower dbg) ms) w = mut_meta is_lower lower (concat ms) w /\
  merged_canon (map (mut_ops is_lower lower dbg) ms) w = mut_canon is_lower lower (concat ms) w /\
  merged_contains (map (mut_ops is_lower lower dbg) ms) w = mut_contains is_lower lower (concat ms) w /\
  merged_exact (map (mut_ops is_lower lower dbg) ms) w = existsb (fun m => mut_exact is_lower lower m w) ms.
Proof. exact merged_mutable_is_concat. Qed.
Check C15_merged_mutable_concat : forall is_lower lower dbg ms w,
  merged_meta (map (mut_ops is_lower lower dbg) ms) w = mut_meta is_lower lower (concat ms) w /\
  merged_canon (map (mut_ops is_lower lower dbg) ms) w = mut_canon is_lower lower (concat ms) w /\
  merged_contains (map (mut_ops is_lower lower dbg) ms) w = mut_contains is_lower lower (concat ms) w /\
  merged_exact (map (mut_ops is_lower lower dbg) ms) w = existsb (fun m => mut_exact is_lower lower m w) ms.
Print Assumptions C15_merged_mutable_concat.

(* ---------- non-vacuity ---------- *)
Example C15_wf_nonvacuous :
  let kitten := [107; 105; 116; 116; 101; 110]%N in
  let sitting := [115; 105; 116; 116; 105; 110; 103]%N in
  length kitten <= 254 /\ length sitting <= 254 /\ lev kitten sitting = 3 /\
  wf_u8 true kitten sitting = Ok 3 /\ wf_u8 false kitten sitting = Ok 3 /\ lev_fast kitten sitting = 3.
Proof. cbv zeta. repeat split; try (cbn; lia); vm_compute; reflexivity. Qed.
