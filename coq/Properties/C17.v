(* C17 — Ordinal suffixes are judged correctly for every number.
   This file pins the statements; it contains nothing but `exact` (+ non-vacuity Examples by vm_compute). *)
Require Import Base Overlap Suggestion Tables_number Number NumberArith NumberLex NumberPasses NumberProofs.
Require Import C17Tails C17TailsProofs C17Multi C17Texts C17MultiText C17Unreach C17Later C17LaterProofs C17Bounds C17Order C17LexBound.
From Coq Require Import String.
From Coq Require Import List NArith Bool.
Import ListNotations.
Local Open Scope string_scope.
Local Open Scope list_scope.
Local Open Scope bool_scope.

(* correct_suffix_for (generated `mod 100` / `mod 10` table) is the English rule, for EVERY n: by N.mod
   arithmetic, not by a sweep.  `ordinal` is written independently of the tables (Number.v). *)
Theorem C17_ordinal_spec : forall n : N, correct_suffix_for_int n = Some (ordinal n).
Proof. exact ordinal_spec. Qed.
Check C17_ordinal_spec : forall n : N, correct_suffix_for_int n = Some (ordinal n).
Print Assumptions C17_ordinal_spec.

(* ... and `ordinal` says what the property says: 11, 12, 13 and every number ending in them take th,
   otherwise the last digit decides *)
Theorem C17_ordinal_meaning : forall n : N,
  ((11 <= n mod 100 <= 13)%N -> ordinal n = Th) /\
  (~ (11 <= n mod 100 <= 13)%N ->
   ordinal n = match (n mod 10)%N with 1%N => St | 2%N => Nd | 3%N => Rd | _ => Th end).
Proof. exact (fun n => conj (ordinal_teens n) (ordinal_last_digit n)). Qed.
Check C17_ordinal_meaning : forall n : N,
  ((11 <= n mod 100 <= 13)%N -> ordinal n = Th) /\
  (~ (11 <= n mod 100 <= 13)%N ->
   ordinal n = match (n mod 10)%N with 1%N => St | 2%N => Nd | 3%N => Rd | _ => Th end).
Print Assumptions C17_ordinal_meaning.

(* from_chars (generated table): a two-character string is recognised as suffix s exactly when it is a
   casing of s (16 casings in all); shorter strings are never recognised; only the first two
   characters are looked at *)
Theorem C17_from_chars_complete :
  (forall a b s, from_chars [a; b] = Some s <-> map lower_ascii [a; b] = to_chars s)
  /\ (forall cs, length cs < 2 -> from_chars cs = None)
  /\ (forall a b rest, from_chars (a :: b :: rest) = from_chars [a; b])
  /\ length from_chars_table = 16.
Proof. exact from_chars_complete. Qed.
Check C17_from_chars_complete :
  (forall a b s, from_chars [a; b] = Some s <-> map lower_ascii [a; b] = to_chars s)
  /\ (forall cs, length cs < 2 -> from_chars cs = None)
  /\ (forall a b rest, from_chars (a :: b :: rest) = from_chars [a; b])
  /\ length from_chars_table = 16.
Print Assumptions C17_from_chars_complete.

(* decimal rendering: digits only, never empty, no leading zero, parse . render = id, injective *)
Theorem C17_render : forall n : N,
  Forall (fun c => is_ascii_digit c = true) (render n)
  /\ render n <> []
  /\ parse_dec (render n) = n
  /\ (n <> 0%N -> hd 0%N (render n) <> 48%N)
  /\ (n = 0%N -> render n = [48%N]).
Proof. exact render_spec. Qed.
Check C17_render : forall n : N,
  Forall (fun c => is_ascii_digit c = true) (render n)
  /\ render n <> []
  /\ parse_dec (render n) = n
  /\ (n <> 0%N -> hd 0%N (render n) <> 48%N)
  /\ (n = 0%N -> render n = [48%N]).
Print Assumptions C17_render.

Theorem C17_render_injective : forall n m : N, render n = render m -> n = m.
Proof. exact render_injective. Qed.
Check C17_render_injective : forall n m : N, render n = render m -> n = m.
Print Assumptions C17_render_injective.

(* ================================================================================================
   The main theorem.  Model: Number.v (lexer dispatch with all 14 sub-lexers, PlainEnglish::parse,
   condense_spaces / newlines / newlines_to_breaks / contractions / dotted_initialisms / number_suffixes,
   CorrectNumberSuffix).  `lint_text U ut et pp src` = what the rule reports on the document of `src`
   (Panic = the implementation panics, None = a value outside the modelled domain).
     U   : Rust's char predicates; `ascii_laws U` = the four ASCII facts used (monitored on every run);
     pp  : the passes after condense_dotted_initialisms; `numbers_preserved pp` = they leave the Number tokens
           alone (monitored + checked by the correspondence on the final document's number tokens);
     ut, et : the tails of the URL / e-mail lexers: arbitrary, never reached on covered texts;
     n < 2^53 : the premise of the property (the f64 trip is exact there; the value is modelled as N);
     from_chars [a; b] = Some sx : any of the 16 casings (C17_from_chars_complete);
     ctx_ok U pre (render n) [a; b] post : the covered contexts, a decidable syntactic class (Number.v):
       pre has no numeric character, no '[', no '@' and does not end in a word character; post has no
       numeric character, no '@' and does not start with a word character or a digit (an apostrophe is
       allowed: C17_apostrophe_lint); the text has no "://" and no '.' directly followed by [A-Za-z0-9-].
   Conclusion: the output is [] iff the suffix is the ordinal one, and otherwise exactly one lint covering
   exactly the two suffix characters with the single suggestion ReplaceWith(correct suffix).
   ================================================================================================ *)
(* for every n < 2^53, every casing of every suffix, every covered context *)
Theorem C17_lint_iff :
  forall (U : uni) (ut : text -> nat) (et : text -> nat -> option nat) (pp : text -> list token -> list token),
  ascii_laws U -> numbers_preserved pp ->
  forall (n : N) (a b : N) (sx : suffix) (pre post : text),
  (n < two53)%N -> from_chars [a; b] = Some sx ->
  ctx_ok U pre (render n) [a; b] post = true ->
  exists ls, lint_text U ut et pp (pre ++ render n ++ [a; b] ++ post) = Ok (Some ls)
    /\ (ls = [] <-> sx = ordinal n)
    /\ (sx <> ordinal n ->
        ls = [mkmlint (mkspan (length pre + length (render n)) (length pre + length (render n) + 2))
                      [ReplaceWith (to_chars (ordinal n))]]).
Proof. exact lint_iff_thm. Qed.
Check C17_lint_iff :
  forall (U : uni) (ut : text -> nat) (et : text -> nat -> option nat) (pp : text -> list token -> list token),
  ascii_laws U -> numbers_preserved pp ->
  forall (n : N) (a b : N) (sx : suffix) (pre post : text),
  (n < two53)%N -> from_chars [a; b] = Some sx ->
  ctx_ok U pre (render n) [a; b] post = true ->
  exists ls, lint_text U ut et pp (pre ++ render n ++ [a; b] ++ post) = Ok (Some ls)
    /\ (ls = [] <-> sx = ordinal n)
    /\ (sx <> ordinal n ->
        ls = [mkmlint (mkspan (length pre + length (render n)) (length pre + length (render n) + 2))
                      [ReplaceWith (to_chars (ordinal n))]]).
Print Assumptions C17_lint_iff.

(* the reported suggestion, applied (Suggestion.apply), yields the text with the correct suffix, on which nothing is reported *)
Theorem C17_fix_is_fixpoint :
  forall (U : uni) (ut : text -> nat) (et : text -> nat -> option nat) (pp : text -> list token -> list token),
  ascii_laws U -> numbers_preserved pp ->
  forall (n : N) (a b : N) (sx : suffix) (pre post : text),
  (n < two53)%N -> from_chars [a; b] = Some sx ->
  ctx_ok U pre (render n) [a; b] post = true -> sx <> ordinal n ->
  lint_text U ut et pp (pre ++ render n ++ [a; b] ++ post)
    = Ok (Some [mkmlint (mkspan (length pre + length (render n)) (length pre + length (render n) + 2))
                        [ReplaceWith (to_chars (ordinal n))]])
  /\ apply (ReplaceWith (to_chars (ordinal n)))
           (mkspan (length pre + length (render n)) (length pre + length (render n) + 2))
           (pre ++ render n ++ [a; b] ++ post)
       = Ok (pre ++ render n ++ to_chars (ordinal n) ++ post)
  /\ lint_text U ut et pp (pre ++ render n ++ to_chars (ordinal n) ++ post) = Ok (Some []).
Proof. exact fix_is_fixpoint_thm. Qed.
Check C17_fix_is_fixpoint :
  forall (U : uni) (ut : text -> nat) (et : text -> nat -> option nat) (pp : text -> list token -> list token),
  ascii_laws U -> numbers_preserved pp ->
  forall (n : N) (a b : N) (sx : suffix) (pre post : text),
  (n < two53)%N -> from_chars [a; b] = Some sx ->
  ctx_ok U pre (render n) [a; b] post = true -> sx <> ordinal n ->
  lint_text U ut et pp (pre ++ render n ++ [a; b] ++ post)
    = Ok (Some [mkmlint (mkspan (length pre + length (render n)) (length pre + length (render n) + 2))
                        [ReplaceWith (to_chars (ordinal n))]])
  /\ apply (ReplaceWith (to_chars (ordinal n)))
           (mkspan (length pre + length (render n)) (length pre + length (render n) + 2))
           (pre ++ render n ++ [a; b] ++ post)
       = Ok (pre ++ render n ++ to_chars (ordinal n) ++ post)
  /\ lint_text U ut et pp (pre ++ render n ++ to_chars (ordinal n) ++ post) = Ok (Some []).
Print Assumptions C17_fix_is_fixpoint.

(* the same verdict for ANY digit string (leading zeros included) whose value is below 2^53: the number need not be written canonically *)
Theorem C17_lint_digits :
  forall (U : uni) (ut : text -> nat) (et : text -> nat -> option nat) (pp : text -> list token -> list token),
  ascii_laws U -> numbers_preserved pp ->
  forall (D : text) (a b : N) (sx : suffix) (pre post : text),
  D <> [] -> Forall (fun c => is_ascii_digit c = true) D -> (parse_dec D < two53)%N ->
  from_chars [a; b] = Some sx -> ctx_ok U pre D [a; b] post = true ->
  lint_text U ut et pp (pre ++ D ++ [a; b] ++ post) = Ok (Some (expected pre D sx (parse_dec D))).
Proof. exact lint_digits_thm. Qed.
Check C17_lint_digits :
  forall (U : uni) (ut : text -> nat) (et : text -> nat -> option nat) (pp : text -> list token -> list token),
  ascii_laws U -> numbers_preserved pp ->
  forall (D : text) (a b : N) (sx : suffix) (pre post : text),
  D <> [] -> Forall (fun c => is_ascii_digit c = true) D -> (parse_dec D < two53)%N ->
  from_chars [a; b] = Some sx -> ctx_ok U pre D [a; b] post = true ->
  lint_text U ut et pp (pre ++ D ++ [a; b] ++ post) = Ok (Some (expected pre D sx (parse_dec D))).
Print Assumptions C17_lint_digits.

(* the hypotheses on U and pp are satisfiable (ASCII classes as Rust has them; the identity) *)
Theorem C17_hypotheses_satisfiable :
  ascii_laws ascii_uni /\ numbers_preserved id_passes.
Proof. exact (conj ascii_uni_laws id_passes_preserve). Qed.
Check C17_hypotheses_satisfiable :
  ascii_laws ascii_uni /\ numbers_preserved id_passes.
Print Assumptions C17_hypotheses_satisfiable.

(* FC17a (fixed in /repo by dcfd71f; formerly C17_apostrophe_refuted): a suffix directly followed by an apostrophe
   — the possessive `the 2st's value`, `11st’s` — is judged like any other.  ctx_ok no longer excludes a right
   context starting with an apostrophe, so this is the instance post = q :: post' of C17_lint_iff, pinned here
   because it used to be the counterexample. *)
Theorem C17_apostrophe_lint :
  forall (U : uni) (ut : text -> nat) (et : text -> nat -> option nat) (pp : text -> list token -> list token),
  ascii_laws U -> numbers_preserved pp ->
  forall (n : N) (a b : N) (sx : suffix) (pre : text) (q : N) (post : text),
  (n < two53)%N -> from_chars [a; b] = Some sx -> is_apostrophe_char q = true ->
  ctx_ok U pre (render n) [a; b] (q :: post) = true ->
  exists ls, lint_text U ut et pp (pre ++ render n ++ [a; b] ++ q :: post) = Ok (Some ls)
    /\ (ls = [] <-> sx = ordinal n)
    /\ (sx <> ordinal n ->
        ls = [mkmlint (mkspan (length pre + length (render n)) (length pre + length (render n) + 2))
                      [ReplaceWith (to_chars (ordinal n))]]).
Proof. exact apostrophe_lint_thm. Qed.
Check C17_apostrophe_lint :
  forall (U : uni) (ut : text -> nat) (et : text -> nat -> option nat) (pp : text -> list token -> list token),
  ascii_laws U -> numbers_preserved pp ->
  forall (n : N) (a b : N) (sx : suffix) (pre : text) (q : N) (post : text),
  (n < two53)%N -> from_chars [a; b] = Some sx -> is_apostrophe_char q = true ->
  ctx_ok U pre (render n) [a; b] (q :: post) = true ->
  exists ls, lint_text U ut et pp (pre ++ render n ++ [a; b] ++ q :: post) = Ok (Some ls)
    /\ (ls = [] <-> sx = ordinal n)
    /\ (sx <> ordinal n ->
        ls = [mkmlint (mkspan (length pre + length (render n)) (length pre + length (render n) + 2))
                      [ReplaceWith (to_chars (ordinal n))]]).
Print Assumptions C17_apostrophe_lint.

(* non-vacuity: ' and ’ are apostrophes, the former witness is a covered context and draws exactly the lint *)
Example C17_ex_apostrophe :
  is_apostrophe_char 39%N = true /\ is_apostrophe_char 8217%N = true
  /\ ctx_ok ascii_uni (txt "the ") (render 2) (txt "st") (txt "'s value") = true
  /\ lint_ascii (txt "the 2st's value") = Ok (Some [mkmlint (mkspan 5 7) [ReplaceWith (txt "nd")]])
  /\ lint_ascii (txt "the 2nd's value") = Ok (Some [])
  /\ lint_ascii (txt "11ST'") = Ok (Some [mkmlint (mkspan 2 4) [ReplaceWith (txt "th")]]).
Proof. exact apostrophe_example. Qed.
(* HISTORY (regression witness over the OLD pass order, doc_tokens_old: condense_number_suffixes last): no lint *)
Example C17_apostrophe_old_refuted : lint_ascii_old (txt "the 2st's value") = Ok (Some []).
Proof. exact apostrophe_old_refuted. Qed.

(* the clauses of ctx_ok cannot be dropped: `[2st]` (Regexish), `x.2st`, `2st.Then` (Hostname), `a2st`, `2sts` (words), `2st5`, a second number in the context, `1.2st` (the float 1.2) *)
Theorem C17_ctx_needed :
  lint_ascii (txt "[2st]") = Ok (Some [])
  /\ lint_ascii (txt "x.2st") = Ok (Some [])
  /\ lint_ascii (txt "I came 2st.Then") = Ok (Some [])
  /\ lint_ascii (txt "a2st") = Ok (Some [])
  /\ ctx_ok ascii_uni (txt "a") (render 2) (txt "st") [] = false
  /\ lint_ascii (txt "2sts") = Ok (Some [])
  /\ lint_ascii (txt "2st5") = Ok (Some [])
  /\ lint_ascii (txt "3th 2st") = Ok (Some [mkmlint (mkspan 1 3) [ReplaceWith (txt "rd")];
                                            mkmlint (mkspan 5 7) [ReplaceWith (txt "nd")]])
  /\ lint_ascii (txt "1.2st") = Ok None.
Proof. exact ctx_needed. Qed.
Check C17_ctx_needed :
  lint_ascii (txt "[2st]") = Ok (Some [])
  /\ lint_ascii (txt "x.2st") = Ok (Some [])
  /\ lint_ascii (txt "I came 2st.Then") = Ok (Some [])
  /\ lint_ascii (txt "a2st") = Ok (Some [])
  /\ ctx_ok ascii_uni (txt "a") (render 2) (txt "st") [] = false
  /\ lint_ascii (txt "2sts") = Ok (Some [])
  /\ lint_ascii (txt "2st5") = Ok (Some [])
  /\ lint_ascii (txt "3th 2st") = Ok (Some [mkmlint (mkspan 1 3) [ReplaceWith (txt "rd")];
                                            mkmlint (mkspan 5 7) [ReplaceWith (txt "nd")]])
  /\ lint_ascii (txt "1.2st") = Ok None.
Print Assumptions C17_ctx_needed.

(* ================================================================================================
   The URL / e-mail tails (Model/C17Tails.v: lex_ip_schemepart behind "//", lex_email_address behind the `@`
   search, line by line from lexing/url.rs and email_address.rs; tied by the correspondence on texts with
   `@` / `://`).  lint_full = lint_text with these tails: the main theorem holds for it (it holds for every ut, et),
   and the texts that used to be outside the model are decided by it.
   ================================================================================================ *)
Theorem C17_lint_iff_full :
  forall (U : uni) (pp : text -> list token -> list token),
  ascii_laws U -> numbers_preserved pp ->
  forall (n : N) (a b : N) (sx : suffix) (pre post : text),
  (n < two53)%N -> from_chars [a; b] = Some sx ->
  ctx_ok U pre (render n) [a; b] post = true ->
  exists ls, lint_full U pp (pre ++ render n ++ [a; b] ++ post) = Ok (Some ls)
    /\ (ls = [] <-> sx = ordinal n)
    /\ (sx <> ordinal n ->
        ls = [mkmlint (mkspan (length pre + length (render n)) (length pre + length (render n) + 2))
                      [ReplaceWith (to_chars (ordinal n))]]).
Proof. exact lint_iff_full_thm. Qed.
Check C17_lint_iff_full :
  forall (U : uni) (pp : text -> list token -> list token),
  ascii_laws U -> numbers_preserved pp ->
  forall (n : N) (a b : N) (sx : suffix) (pre post : text),
  (n < two53)%N -> from_chars [a; b] = Some sx ->
  ctx_ok U pre (render n) [a; b] post = true ->
  exists ls, lint_full U pp (pre ++ render n ++ [a; b] ++ post) = Ok (Some ls)
    /\ (ls = [] <-> sx = ordinal n)
    /\ (sx <> ordinal n ->
        ls = [mkmlint (mkspan (length pre + length (render n)) (length pre + length (render n) + 2))
                      [ReplaceWith (to_chars (ordinal n))]]).
Print Assumptions C17_lint_iff_full.

(* the `@` and `://` clauses of ctx_ok cannot be dropped (by design of the lexer, not findings): `2st@x.com` is the
   number 2 + the e-mail address `st@x.com`, `1th://` is the number 1 + the URL `th://` -> no lint; inside a local
   part or a URL path the ordinal is swallowed; the lex_hostport quirk (`http://a.b:80/p` = Url `http://` + Hostname
   `a.b` + ...); next to a URL / an address ordinals are judged as usual.  Raw tokens: (start, end, (kind, arg)),
   kind 0 Number, 1 Word, 5 Punctuation, 8 Url, 9 EmailAddress, 10 Hostname. *)
Theorem C17_url_email_needed :
  run_lex_full ascii_uni (txt "2st@x.com") = Some [(0, 1, (0, 0)); (1, 9, (9, 0))]
  /\ lint_ascii_full (txt "2st@x.com") = Ok (Some [])
  /\ ctx_ok ascii_uni [] (render 2) (txt "st") (txt "@x.com") = false
  /\ run_lex_full ascii_uni (txt "1th://") = Some [(0, 1, (0, 0)); (1, 6, (8, 0))]
  /\ lint_ascii_full (txt "1th://") = Ok (Some [])
  /\ ctx_ok ascii_uni [] (render 1) (txt "th") (txt "://") = false
  /\ lint_ascii_full (txt "mail me at a.2st@x.com now") = Ok (Some [])
  /\ lint_ascii_full (txt "see http://x.com/2st ok") = Ok (Some [])
  /\ run_lex_full ascii_uni (txt "http://a.b:80/p") = Some [(0, 7, (8, 0)); (7, 10, (10, 0)); (10, 11, (5, 0)); (11, 13, (0, 0)); (13, 14, (5, 0)); (14, 15, (1, 0))]
  /\ lint_ascii_full (txt "x 2st http://a.b/p%20q 3th")
     = Ok (Some [mkmlint (mkspan 3 5) [ReplaceWith (txt "nd")]; mkmlint (mkspan 24 26) [ReplaceWith (txt "rd")]])
  /\ lint_ascii_full (txt "write u@x.org the 2st time") = Ok (Some [mkmlint (mkspan 19 21) [ReplaceWith (txt "nd")]]).
Proof. exact tails_witnesses. Qed.
Check C17_url_email_needed :
  run_lex_full ascii_uni (txt "2st@x.com") = Some [(0, 1, (0, 0)); (1, 9, (9, 0))]
  /\ lint_ascii_full (txt "2st@x.com") = Ok (Some [])
  /\ ctx_ok ascii_uni [] (render 2) (txt "st") (txt "@x.com") = false
  /\ run_lex_full ascii_uni (txt "1th://") = Some [(0, 1, (0, 0)); (1, 6, (8, 0))]
  /\ lint_ascii_full (txt "1th://") = Ok (Some [])
  /\ ctx_ok ascii_uni [] (render 1) (txt "th") (txt "://") = false
  /\ lint_ascii_full (txt "mail me at a.2st@x.com now") = Ok (Some [])
  /\ lint_ascii_full (txt "see http://x.com/2st ok") = Ok (Some [])
  /\ run_lex_full ascii_uni (txt "http://a.b:80/p") = Some [(0, 7, (8, 0)); (7, 10, (10, 0)); (10, 11, (5, 0)); (11, 13, (0, 0)); (13, 14, (5, 0)); (14, 15, (1, 0))]
  /\ lint_ascii_full (txt "x 2st http://a.b/p%20q 3th")
     = Ok (Some [mkmlint (mkspan 3 5) [ReplaceWith (txt "nd")]; mkmlint (mkspan 24 26) [ReplaceWith (txt "rd")]])
  /\ lint_ascii_full (txt "write u@x.org the 2st time") = Ok (Some [mkmlint (mkspan 19 21) [ReplaceWith (txt "nd")]]).
Print Assumptions C17_url_email_needed.

(* Several numbers in one document, RULE LEVEL: on ANY token list whose suffixed Number tokens carry known values the
   rule's output is the concatenation, in document order, of one independent verdict per token (`judge`: exactly one
   lint on the last two characters when the suffix is wrong, nothing otherwise).  (Was C17_rule_per_number_partial; the
   text-level list form it lacked is C17_lint_list below.) *)
Theorem C17_rule_per_number :
  forall l : list token, known_values l ->
  rule l = Some (flat_map judge l) /\ (forall t, length (judge t) <= 1).
Proof. exact (fun l H => conj (rule_per_number l H) judge_length). Qed.
Check C17_rule_per_number :
  forall l : list token, known_values l ->
  rule l = Some (flat_map judge l) /\ (forall t, length (judge t) <= 1).
Print Assumptions C17_rule_per_number.

(* ================================================================================================
   TEXT LEVEL, SEVERAL ORDINALS: "one lint per wrong ordinal".  A text is given by its instances (the stretch in
   front, the digits, the two suffix letters) and the final right context (Model/C17Texts.v):
       mtext [i1; ..; ik] post = pre1 ++ D1 ++ [a1; b1] ++ pre2 ++ D2 ++ [a2; b2] ++ .. ++ post.
   mctx_ok U l post (decidable, syntactic): every pre_j has no numeric character, no '[', no '@' and does not end in
   a word character; every D_j is a non-empty ASCII digit string with value < 2^53; [a_j; b_j] is one of the 16
   casings; what follows a suffix (the next pre_j — hence not empty — or post) does not start with a word character
   or a digit; post has no numeric character and no '@'; the text has no "://" and no '.' directly followed by
   [A-Za-z0-9-].  For k = 1 this is ctx_ok + the hypotheses of C17_lint_digits (C17_list_extends_one).
   Conclusion: the document is built without panic and the rule reports exactly mexpected 0 l: in document order,
   for each instance nothing when its suffix is the ordinal one, otherwise one lint on exactly its two suffix letters
   with the single suggestion ReplaceWith(correct suffix); so the number of lints is the number of wrong instances.
   The proof runs condense_indices with ALL its merges (ci_spans, ci_mid, the three slices) by induction over the
   instance list.
   ================================================================================================ *)
Theorem C17_lint_list :
  forall (U : uni) (ut : text -> nat) (et : text -> nat -> option nat) (pp : text -> list token -> list token),
  ascii_laws U -> numbers_preserved pp ->
  forall (l : list inst) (post : text),
  mctx_ok U l post = true ->
  lint_text U ut et pp (mtext l post) = Ok (Some (mexpected 0 l))
  /\ length (mexpected 0 l) = length (filter wrongb l).
Proof. exact (fun U ut et pp HU Hpp l post H => conj (lint_list_thm U ut et pp HU Hpp l post H) (mexpected_count l 0)). Qed.
Check C17_lint_list :
  forall (U : uni) (ut : text -> nat) (et : text -> nat -> option nat) (pp : text -> list token -> list token),
  ascii_laws U -> numbers_preserved pp ->
  forall (l : list inst) (post : text),
  mctx_ok U l post = true ->
  lint_text U ut et pp (mtext l post) = Ok (Some (mexpected 0 l))
  /\ length (mexpected 0 l) = length (filter wrongb l).
Print Assumptions C17_lint_list.

(* the token level of the same: the document of such a text (before the later passes) contains exactly one Number
   token per instance, in order, each spanning digits + suffix letters and carrying value and suffix *)
Theorem C17_doc_number_tokens :
  forall (U : uni) (ut : text -> nat) (et : text -> nat -> option nat),
  ascii_laws U ->
  forall (l : list inst) (post : text),
  mctx_ok U l post = true ->
  exists T, doc_tokens U ut et (mtext l post) = Ok T /\ filter is_number T = mlist 0 l.
Proof. exact doc_multi_shape. Qed.
Check C17_doc_number_tokens :
  forall (U : uni) (ut : text -> nat) (et : text -> nat -> option nat),
  ascii_laws U ->
  forall (l : list inst) (post : text),
  mctx_ok U l post = true ->
  exists T, doc_tokens U ut et (mtext l post) = Ok T /\ filter is_number T = mlist 0 l.
Print Assumptions C17_doc_number_tokens.

(* k = 1: the hypotheses of C17_lint_digits put the one-instance text into the class, with the same text and verdict;
   and render n is an admissible digit string exactly as in C17_lint_iff *)
Theorem C17_list_extends_one :
  (forall (U : uni) (pre D : text) (a b : N) (sx : suffix) (post : text),
   D <> [] -> Forall (fun c => is_ascii_digit c = true) D -> (parse_dec D < two53)%N ->
   from_chars [a; b] = Some sx -> ctx_ok U pre D [a; b] post = true ->
   mctx_ok U [mkinst pre D a b] post = true
   /\ mtext [mkinst pre D a b] post = pre ++ D ++ [a; b] ++ post
   /\ mexpected 0 [mkinst pre D a b] = expected pre D sx (parse_dec D))
  /\ (forall n : N, (n < two53)%N -> digits_okb (render n) = true).
Proof. exact (conj mctx_ok_one digits_okb_render). Qed.
Check C17_list_extends_one :
  (forall (U : uni) (pre D : text) (a b : N) (sx : suffix) (post : text),
   D <> [] -> Forall (fun c => is_ascii_digit c = true) D -> (parse_dec D < two53)%N ->
   from_chars [a; b] = Some sx -> ctx_ok U pre D [a; b] post = true ->
   mctx_ok U [mkinst pre D a b] post = true
   /\ mtext [mkinst pre D a b] post = pre ++ D ++ [a; b] ++ post
   /\ mexpected 0 [mkinst pre D a b] = expected pre D sx (parse_dec D))
  /\ (forall n : N, (n < two53)%N -> digits_okb (render n) = true).
Print Assumptions C17_list_extends_one.

(* non-vacuity: `3th 2st, 11th and 113rd, 0021st.` — five instances (one correct, one with leading zeros), in the class,
   four lints *)
Example C17_ex_list :
  mtext ex_list (txt ".") = txt "3th 2st, 11th and 113rd, 0021ST."
  /\ mctx_ok ascii_uni ex_list (txt ".") = true
  /\ mexpected 0 ex_list =
      [mkmlint (mkspan 1 3) [ReplaceWith (txt "rd")]; mkmlint (mkspan 5 7) [ReplaceWith (txt "nd")];
       mkmlint (mkspan 21 23) [ReplaceWith (txt "th")]]
  /\ lint_ascii (txt "3th 2st, 11th and 113rd, 0021ST.") = Ok (Some (mexpected 0 ex_list))
  /\ length (filter wrongb ex_list) = 3.
Proof. vm_compute. repeat split; reflexivity. Qed.

(* ================================================================================================
   THE PASSES AFTER condense_dotted_initialisms (Model/C17Later.v: condense_ellipsis, condense_latin over the generic
   condense_pattern / find_all_matches, the metadata loop; match_quotes and articles_imply_nouns are the identity on
   this token abstraction and pinned verbatim by the translator).  The former hypothesis `numbers_preserved pp` is a
   theorem about them: for EVERY source and EVERY token list, whenever they return, the Number tokens (kind, value,
   suffix, span, order) are the ones they were given, hence the rule's report is unchanged.
   ================================================================================================ *)
Theorem C17_later_passes_numbers :
  forall (src : text) (toks toks' : list token),
  later_passes src toks = Ok toks' ->
  filter is_number toks' = filter is_number toks /\ rule toks' = rule toks.
Proof. exact later_passes_numbers. Qed.
Check C17_later_passes_numbers :
  forall (src : text) (toks toks' : list token),
  later_passes src toks = Ok toks' ->
  filter is_number toks' = filter is_number toks /\ rule toks' = rule toks.
Print Assumptions C17_later_passes_numbers.

(* `numbers_preserved` holds of the modelled later passes (as a total function: the list is kept when they panic), so
   every theorem above that carries the hypothesis holds with pp := later_total and NO hypothesis on the passes *)
Theorem C17_numbers_preserved_discharged :
  numbers_preserved later_total
  /\ (forall (U : uni) (ut : text -> nat) (et : text -> nat -> option nat), ascii_laws U ->
      forall (l : list inst) (post : text), mctx_ok U l post = true ->
      lint_text U ut et later_total (mtext l post) = Ok (Some (mexpected 0 l))).
Proof. exact (conj later_total_preserves (fun U ut et HU => lint_list_thm U ut et later_total HU later_total_preserves)). Qed.
Check C17_numbers_preserved_discharged :
  numbers_preserved later_total
  /\ (forall (U : uni) (ut : text -> nat) (et : text -> nat -> option nat), ascii_laws U ->
      forall (l : list inst) (post : text), mctx_ok U l post = true ->
      lint_text U ut et later_total (mtext l post) = Ok (Some (mexpected 0 l))).
Print Assumptions C17_numbers_preserved_discharged.

(* The list theorem over the WHOLE modelled Document::parse, panics of the later passes not hidden:
   doc_final = lexer, the six passes of doc_tokens, then later_passes; lint_doc = the rule on it.  For a text in the
   class: the first six passes do not panic; whatever document the later passes return has exactly the promised
   Number tokens; and whenever lint_doc returns, it returns exactly the promised lints.  Only hypothesis: ascii_laws.
   (Not claimed: that condense_latin / the metadata loop do not panic — they call Span::get_content on Word spans;
   C17_ex_later shows lint_doc = Ok on a concrete in-class text on which both later passes fire.) *)
Theorem C17_lint_list_doc :
  forall (U : uni) (ut : text -> nat) (et : text -> nat -> option nat),
  ascii_laws U ->
  forall (l : list inst) (post : text),
  mctx_ok U l post = true ->
  (exists T, doc_tokens U ut et (mtext l post) = Ok T)
  /\ (forall T', doc_final U ut et (mtext l post) = Ok T' -> filter is_number T' = mlist 0 l)
  /\ (forall r, lint_doc U ut et (mtext l post) = Ok r -> r = Some (mexpected 0 l)).
Proof. exact lint_list_doc_thm. Qed.
Check C17_lint_list_doc :
  forall (U : uni) (ut : text -> nat) (et : text -> nat -> option nat),
  ascii_laws U ->
  forall (l : list inst) (post : text),
  mctx_ok U l post = true ->
  (exists T, doc_tokens U ut et (mtext l post) = Ok T)
  /\ (forall T', doc_final U ut et (mtext l post) = Ok T' -> filter is_number T' = mlist 0 l)
  /\ (forall r, lint_doc U ut et (mtext l post) = Ok r -> r = Some (mexpected 0 l)).
Print Assumptions C17_lint_list_doc.

(* PHASE 7 — freedom from panics of the later passes.  `tokok n l`: every coordinate of every token of l is <= n and
   every Word token has start <= end.  For EVERY source and EVERY token list inside the source, condense_ellipsis,
   condense_latin and the metadata loop return (no Span::get_content / Span::len / index / slice / unwrap panic)
   and the result is inside the source again.  No hypothesis. *)
Theorem C17_later_passes_total :
  forall (src : text) (toks : list token),
  tokok (length src) toks ->
  exists toks', later_passes src toks = Ok toks' /\ tokok (length src) toks'.
Proof. exact later_passes_total. Qed.
Check C17_later_passes_total :
  forall (src : text) (toks : list token),
  tokok (length src) toks ->
  exists toks', later_passes src toks = Ok toks' /\ tokok (length src) toks'.
Print Assumptions C17_later_passes_total.

(* The first six passes keep the token coordinates in order and inside the text.  `J n l`: the token starts are
   sorted and every token has start <= end <= n.  For EVERY text: if the lexer's list satisfies J, so does whatever
   condense_spaces / condense_newlines / newlines_to_breaks / condense_number_suffixes / condense_contractions /
   condense_dotted_initialisms return (every new span takes its start from the token it replaces and its end from a
   token at or behind it; removals keep the order).  No hypothesis. *)
Theorem C17_six_passes_inside :
  forall (U : uni) (ut : text -> nat) (et : text -> nat -> option nat) (src : text) (n : nat) (T0 T : list token),
  lex_doc U ut et src = Ok T0 -> J n T0 -> doc_tokens U ut et src = Ok T -> J n T.
Proof. exact doc_tokens_J. Qed.
Check C17_six_passes_inside :
  forall (U : uni) (ut : text -> nat) (et : text -> nat -> option nat) (src : text) (n : nat) (T0 T : list token),
  lex_doc U ut et src = Ok T0 -> J n T0 -> doc_tokens U ut et src = Ok T -> J n T.
Print Assumptions C17_six_passes_inside.

(* PlainEnglish::parse: on a text all of whose suffixes are `quiet` (lex_url, lex_email_address and lex_hostname
   answer None, so the two sub-lexers with open tails never decide) every sub-lexer returns a length inside the
   remaining text (lex_token_le, sub-lexer by sub-lexer), hence the token list satisfies J (length src). *)
Theorem C17_lex_inside :
  forall (U : uni) (ut : text -> nat) (et : text -> nat -> option nat) (src : text) (L : list token),
  (forall j, quiet U ut et (skipn j src)) -> lex_doc U ut et src = Ok L -> J (length src) L.
Proof. exact lex_doc_J. Qed.
Check C17_lex_inside :
  forall (U : uni) (ut : text -> nat) (et : text -> nat -> option nat) (src : text) (L : list token),
  (forall j, quiet U ut et (skipn j src)) -> lex_doc U ut et src = Ok L -> J (length src) L.
Print Assumptions C17_lex_inside.

(* ... hence, TEXT level, FREEDOM FROM PANICS of the whole modelled Document::parse: for every text of the class
   (only hypothesis ascii_laws) the document is built — lexer, the six passes, condense_ellipsis, condense_latin, the
   metadata loop all return —, the final document has exactly the promised Number tokens, lies inside the text, and
   the rule reports exactly the promised lints.  This is C17_lint_list_doc without "whenever it returns". *)
Theorem C17_lint_list_total :
  forall (U : uni) (ut : text -> nat) (et : text -> nat -> option nat),
  ascii_laws U ->
  forall (l : list inst) (post : text),
  mctx_ok U l post = true ->
  (exists T', doc_final U ut et (mtext l post) = Ok T' /\ filter is_number T' = mlist 0 l
              /\ tokok (length (mtext l post)) T')
  /\ lint_doc U ut et (mtext l post) = Ok (Some (mexpected 0 l)).
Proof. exact lint_list_total. Qed.
Check C17_lint_list_total :
  forall (U : uni) (ut : text -> nat) (et : text -> nat -> option nat),
  ascii_laws U ->
  forall (l : list inst) (post : text),
  mctx_ok U l post = true ->
  (exists T', doc_final U ut et (mtext l post) = Ok T' /\ filter is_number T' = mlist 0 l
              /\ tokok (length (mtext l post)) T')
  /\ lint_doc U ut et (mtext l post) = Ok (Some (mexpected 0 l)).
Print Assumptions C17_lint_list_total.

(* non-vacuity: the text of C17_ex_later (in the class, both later passes fire): the lexer's list satisfies J, the
   list after the six passes satisfies J and tokok *)
Example C17_ex_total :
  mctx_ok ascii_uni ex_later (txt ".") = true
  /\ match lex_doc ascii_uni no_tail_url no_tail_email (mtext ex_later (txt ".")) with
     | Ok T => Jb (length (mtext ex_later (txt "."))) T | Panic _ => false end = true
  /\ match doc_tokens ascii_uni no_tail_url no_tail_email (mtext ex_later (txt ".")) with
     | Ok T => Jb (length (mtext ex_later (txt "."))) T && tokokb (length (mtext ex_later (txt "."))) T
     | Panic _ => false end = true.
Proof. vm_compute. repeat split; reflexivity. Qed.

(* the generic condense_pattern / find_all_matches of C17Later.v, at the contraction matcher, IS the
   condense_contractions of Number.v that all theorems above run *)
Theorem C17_contractions_generic :
  forall toks : list token, condense_contractions_g toks = condense_contractions toks.
Proof. exact condense_contractions_generic. Qed.
Check C17_contractions_generic :
  forall toks : list token, condense_contractions_g toks = condense_contractions toks.
Print Assumptions C17_contractions_generic.

(* non-vacuity: `Smith et al. came 2st... etc. and 3rd.` is in the class; both later passes fire (21 tokens before,
   15 after: `et al.` -> 1, `...` -> 1, `etc.` -> 1); the document is built and the one lint is reported *)
Example C17_ex_later :
  mtext ex_later (txt ".") = txt "Smith et al. came 2st... etc. and 3rd."
  /\ mctx_ok ascii_uni ex_later (txt ".") = true
  /\ (match doc_tokens ascii_uni no_tail_url no_tail_email (txt "Smith et al. came 2st... etc. and 3rd.") with
      | Ok T => length T | Panic _ => 0 end) = 21
  /\ (match doc_final ascii_uni no_tail_url no_tail_email (txt "Smith et al. came 2st... etc. and 3rd.") with
      | Ok T => length T | Panic _ => 0 end) = 15
  /\ lint_doc ascii_uni no_tail_url no_tail_email (txt "Smith et al. came 2st... etc. and 3rd.")
     = Ok (Some [mkmlint (mkspan 19 21) [ReplaceWith (txt "nd")]])
  /\ mexpected 0 ex_later = [mkmlint (mkspan 19 21) [ReplaceWith (txt "nd")]].
Proof. vm_compute. repeat split; reflexivity. Qed.

(* ================================================================================================
   Unreachable code (mutation C17-d4): validate_local_part's test `local_part.first() == '.'` can never decide
   anything through PlainEnglish::parse — a token that starts with '.' is the Period (lex_punctuation is asked before
   lex_email_address), so ANY two e-mail tails that agree on texts not starting with '.' give the same tokens, the
   same document and the same lints for every text; the model's tail and the tail without that test are such a pair
   (they differ as functions: C17_ex_unreach).
   ================================================================================================ *)
Theorem C17_email_leading_dot_unreachable :
  (forall U ut et rest, lex_token U ut et (46%N :: rest) = Some (1, KPunct PPeriod))
  /\ (forall U ut et1 et2, agree_off_dot et1 et2 ->
      forall pp src, lex_doc U ut et1 src = lex_doc U ut et2 src
                     /\ doc_tokens U ut et1 src = doc_tokens U ut et2 src
                     /\ lint_text U ut et1 pp src = lint_text U ut et2 pp src)
  /\ agree_off_dot email_tail email_tail_d4
  /\ (forall U src, run_lex U (url_tail U) email_tail_d4 src = run_lex_full U src
                    /\ run_doc U (url_tail U) email_tail_d4 src = run_doc_full U src).
Proof. exact email_leading_dot_unreachable. Qed.
Check C17_email_leading_dot_unreachable :
  (forall U ut et rest, lex_token U ut et (46%N :: rest) = Some (1, KPunct PPeriod))
  /\ (forall U ut et1 et2, agree_off_dot et1 et2 ->
      forall pp src, lex_doc U ut et1 src = lex_doc U ut et2 src
                     /\ doc_tokens U ut et1 src = doc_tokens U ut et2 src
                     /\ lint_text U ut et1 pp src = lint_text U ut et2 pp src)
  /\ agree_off_dot email_tail email_tail_d4
  /\ (forall U src, run_lex U (url_tail U) email_tail_d4 src = run_lex_full U src
                    /\ run_doc U (url_tail U) email_tail_d4 src = run_doc_full U src).
Print Assumptions C17_email_leading_dot_unreachable.
Example C17_ex_unreach :
  email_tail (txt ".a@b.c") 2 = None /\ email_tail_d4 (txt ".a@b.c") 2 = Some 6
  /\ run_lex_full ascii_uni (txt ".a@b.c") = Some [(0, 1, (5, 2)); (1, 6, (9, 0))]
  /\ run_lex ascii_uni (url_tail ascii_uni) email_tail_d4 (txt ".a@b.c") = Some [(0, 1, (5, 2)); (1, 6, (9, 0))].
Proof. exact unreach_example. Qed.

Example C17_ex_multi :
  lint_ascii (txt "3th 2st, 11th and 113rd") =
    Ok (Some [mkmlint (mkspan 1 3) [ReplaceWith (txt "rd")]; mkmlint (mkspan 5 7) [ReplaceWith (txt "nd")];
              mkmlint (mkspan 21 23) [ReplaceWith (txt "th")]]).
Proof. exact multi_example. Qed.

Example C17_ex_ordinals :
  map ordinal [0; 1; 2; 3; 4; 11; 12; 13; 21; 22; 23; 101; 111; 112; 113; 1011; 9007199254740991]%N
  = [Th; St; Nd; Rd; Th; Th; Th; Th; St; Nd; Rd; St; Th; Th; Th; Th; St].
Proof. vm_compute. reflexivity. Qed.
Example C17_ex_render : render 1990 = [49; 57; 57; 48]%N /\ render 9007199254740991 = [57;48;48;55;49;57;57;50;53;52;55;52;48;57;57;49]%N.
Proof. vm_compute. split; reflexivity. Qed.
Example C17_ex_from_chars : from_chars [115; 84]%N = Some St /\ from_chars [116; 116]%N = None.
Proof. vm_compute. split; reflexivity. Qed.
Example C17_ex_covered :
  ctx_ok ascii_uni (txt "The ") (render 2) (txt "st") (txt " item.") = true
  /\ lint_ascii (txt "The 2st item.") = Ok (Some [mkmlint (mkspan 5 7) [ReplaceWith (txt "nd")]])
  /\ lint_ascii (txt "The 2nd item.") = Ok (Some [])
  /\ ctx_ok ascii_uni (txt "($") (render 113) (txt "RD") (txt ")...") = true
  /\ lint_ascii (txt "($113RD)...") = Ok (Some [mkmlint (mkspan 5 7) [ReplaceWith (txt "th")]])
  /\ ctx_ok ascii_uni (txt "x - ") (render 1990) (txt "sT") (txt "-y") = true
  /\ lint_ascii (txt "x - 1990sT-y") = Ok (Some [mkmlint (mkspan 8 10) [ReplaceWith (txt "th")]])
  /\ ctx_ok ascii_uni [] (render 9007199254740991) (txt "th") [] = true
  /\ lint_ascii (txt "9007199254740991th") = Ok (Some [mkmlint (mkspan 16 18) [ReplaceWith (txt "st")]]).
Proof. exact examples_covered. Qed.
