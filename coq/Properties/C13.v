(* C13 — Overlap resolution returns a conflict-free subset of the lints.
   This file pins the statements; it contains nothing but `exact`. *)
Require Import Base Overlap Suggestion OverlapProofs SuggestionProofs BackToFront Tables_overlapcallers OverlapCallers.
Require Import C13Algebra C13Callers C13CallersProofs C13Maximal.
From Coq Require Import Sorting.Sorted Sorting.Permutation.

(* nothing invented, nothing altered: the result is a subsequence of the key-sorted input, the sort
   is a permutation, and kept ++ dropped is a permutation of the input *)
Theorem C13_sublist : forall ls,
  subseq (remove_overlaps ls) (lsort ls) /\ Permutation (lsort ls) ls /\
  Permutation (remove_overlaps ls ++ dropped ls) ls.
Proof. exact ro_sublist. Qed.
Check C13_sublist : forall ls,
  subseq (remove_overlaps ls) (lsort ls) /\ Permutation (lsort ls) ls /\
  Permutation (remove_overlaps ls ++ dropped ls) ls.
Print Assumptions C13_sublist.

(* no two kept lints cover a common character (zero-width spans included) *)
Theorem C13_disjoint : forall ls, Forall lwf ls ->
  ForallOrdPairs (fun a b =>
     lend a <= lstart b /\ overlaps (lspan a) (lspan b) = false /\ overlaps (lspan b) (lspan a) = false
     /\ forall c, ~ (covers a c /\ covers b c)) (remove_overlaps ls).
Proof. exact ro_disjoint. Qed.
Check C13_disjoint : forall ls, Forall lwf ls ->
  ForallOrdPairs (fun a b =>
     lend a <= lstart b /\ overlaps (lspan a) (lspan b) = false /\ overlaps (lspan b) (lspan a) = false
     /\ forall c, ~ (covers a c /\ covers b c)) (remove_overlaps ls).
Print Assumptions C13_disjoint.

(* every dropped lint starts inside (or at the start of) a kept one *)
Theorem C13_dropped_inside : forall ls d,
  In d (dropped ls) -> exists k, In k (remove_overlaps ls) /\ lstart k <= lstart d < lend k.
Proof. exact ro_dropped_inside. Qed.
Check C13_dropped_inside : forall ls d,
  In d (dropped ls) -> exists k, In k (remove_overlaps ls) /\ lstart k <= lstart d < lend k.
Print Assumptions C13_dropped_inside.

(* remove_indices is "filter by position" for strictly increasing queues, and the sweep only
   produces such queues *)
Theorem C13_remove_indices_spec : forall (A : Type) q (xs : list A),
  StronglySorted lt q -> remove_indices 0 q xs = filter_idx 0 q xs.
Proof. exact (@remove_indices_filter0). Qed.
Check C13_remove_indices_spec : forall (A : Type) q (xs : list A),
  StronglySorted lt q -> remove_indices 0 q xs = filter_idx 0 q xs.
Print Assumptions C13_remove_indices_spec.

Theorem C13_sweep_queue_sorted : forall cur i ls, StronglySorted lt (sweep cur i ls).
Proof. exact sweep_sorted. Qed.
Check C13_sweep_queue_sorted : forall cur i ls, StronglySorted lt (sweep cur i ls).
Print Assumptions C13_sweep_queue_sorted.

(* the model's sort is a stable sort by the implementation's key *)
Theorem C13_sort_stable : forall ls,
  Permutation (lsort ls) ls /\ StronglySorted kle (lsort ls) /\
  forall k, filter (fun y => (lstart y =? lstart k) && (lend y =? lend k)) (lsort ls)
          = filter (fun y => (lstart y =? lstart k) && (lend y =? lend k)) ls.
Proof. exact sort_is_stable_sort. Qed.
Check C13_sort_stable : forall ls,
  Permutation (lsort ls) ls /\ StronglySorted kle (lsort ls) /\
  forall k, filter (fun y => (lstart y =? lstart k) && (lend y =? lend k)) (lsort ls)
          = filter (fun y => (lstart y =? lstart k) && (lend y =? lend k)) ls.
Print Assumptions C13_sort_stable.

(* the early return *)
Theorem C13_len_lt_2 : forall ls, length ls < 2 -> remove_overlaps ls = ls.
Proof. exact ro_short. Qed.
Check C13_len_lt_2 : forall ls, length ls < 2 -> remove_overlaps ls = ls.
Print Assumptions C13_len_lt_2.

(* hence: one suggestion per kept lint, applied back to front, never panics and equals the
   simultaneous splice — each edit leaves the characters of every other kept span unchanged *)
Theorem C13_back_to_front : forall src sug ls,
  Forall lwf ls -> Forall (fun l => lend l <= length src) ls ->
  apply_back_to_front src (edits sug (remove_overlaps ls))
  = Ok (splice_sim 0 src (edits sug (remove_overlaps ls))).
Proof. exact back_to_front. Qed.
Check C13_back_to_front : forall src sug ls,
  Forall lwf ls -> Forall (fun l => lend l <= length src) ls ->
  apply_back_to_front src (edits sug (remove_overlaps ls))
  = Ok (splice_sim 0 src (edits sug (remove_overlaps ls))).
Print Assumptions C13_back_to_front.

(* the tie for "the lints that the JS API and the CLI report": the four call sites (wasm Linter::lint,
   the CLI lint command, CurrencyPlacement, the merge_linters! macro) still pass their lints through
   remove_overlaps unconditionally before they leave — table regenerated from the sources every run *)
Theorem C13_callers_apply_it :
  forallb (fun e => snd e) overlap_call_sites = true /\ List.length overlap_call_sites = 4.
Proof. exact overlap_call_sites_ok. Qed.
Check C13_callers_apply_it :
  forallb (fun e => snd e) overlap_call_sites = true /\ List.length overlap_call_sites = 4.
Print Assumptions C13_callers_apply_it.

(* non-vacuity: nested, touching, equal and zero-width spans *)
Example C13_nonvacuous :
  let ls := [mklint (mkspan 2 6) 0; mklint (mkspan 0 4) 1; mklint (mkspan 0 4) 2; mklint (mkspan 4 4) 3;
             mklint (mkspan 1 2) 4; mklint (mkspan 4 7) 5; mklint (mkspan 7 7) 6; mklint (mkspan 7 9) 7] in
  Forall lwf ls /\ map lid (remove_overlaps ls) = [1; 5; 7] /\ map lid (dropped ls) = [2; 4; 0; 3; 6].
Proof. cbv zeta. split; [repeat constructor|]. split; vm_compute; reflexivity. Qed.

(* ================= phase 3: algebra of remove_overlaps and its callers ================= *)

(* running it twice changes nothing (no premise: ill-formed spans included) *)
Theorem C13_idempotent : forall ls, remove_overlaps (remove_overlaps ls) = remove_overlaps ls.
Proof. exact ro_idempotent. Qed.
Check C13_idempotent : forall ls, remove_overlaps (remove_overlaps ls) = remove_overlaps ls.
Print Assumptions C13_idempotent.

(* the output is sorted by the implementation's key, hence by start: list order = text order *)
Theorem C13_sorted : forall ls, StronglySorted kle (remove_overlaps ls) /\ StronglySorted (fun a b => lstart a <= lstart b) (remove_overlaps ls).
Proof. exact ro_sorted. Qed.
Check C13_sorted : forall ls, StronglySorted kle (remove_overlaps ls) /\ StronglySorted (fun a b => lstart a <= lstart b) (remove_overlaps ls).
Print Assumptions C13_sorted.

(* the kept SPANS (as a sequence) do not depend on the order of the input, ties included *)
Theorem C13_perm_spans : forall l1 l2, Permutation l1 l2 -> map lkey (remove_overlaps l1) = map lkey (remove_overlaps l2).
Proof. exact ro_perm_spans. Qed.
Check C13_perm_spans : forall l1 l2, Permutation l1 l2 -> map lkey (remove_overlaps l1) = map lkey (remove_overlaps l2).
Print Assumptions C13_perm_spans.

(* with pairwise distinct (start, end) pairs the kept LIST does not depend on the order of the input *)
Theorem C13_perm_distinct : forall l1 l2, NoDup (map lkey l1) -> Permutation l1 l2 -> remove_overlaps l1 = remove_overlaps l2.
Proof. exact ro_perm_distinct. Qed.
Check C13_perm_distinct : forall l1 l2, NoDup (map lkey l1) -> Permutation l1 l2 -> remove_overlaps l1 = remove_overlaps l2.
Print Assumptions C13_perm_distinct.

(* ties: of the lints carrying one and the same non-empty span at most one survives, the first in input order (the stable sort decides) *)
Theorem C13_tie_first : forall ls k, lstart k < lend k ->
  filter (same_key k) (remove_overlaps ls) = [] \/
  exists x rest, filter (same_key k) ls = x :: rest /\ filter (same_key k) (remove_overlaps ls) = [x].
Proof. exact ro_tie_first. Qed.
Check C13_tie_first : forall ls k, lstart k < lend k ->
  filter (same_key k) (remove_overlaps ls) = [] \/
  exists x rest, filter (same_key k) ls = x :: rest /\ filter (same_key k) (remove_overlaps ls) = [x].
Print Assumptions C13_tie_first.

(* so for ties the kept lints DO depend on the input order (same spans, other lints) *)
Theorem C13_perm_ties_counterexample : exists l1 l2, Permutation l1 l2 /\ map lkey (remove_overlaps l1) = map lkey (remove_overlaps l2) /\
    ~ Permutation (remove_overlaps l1) (remove_overlaps l2).
Proof. exact ro_perm_ties_counterexample. Qed.
Check C13_perm_ties_counterexample : exists l1 l2, Permutation l1 l2 /\ map lkey (remove_overlaps l1) = map lkey (remove_overlaps l2) /\
    ~ Permutation (remove_overlaps l1) (remove_overlaps l2).
Print Assumptions C13_perm_ties_counterexample.

(* hence, generalised: ANY sub-list of the kept lints, fixed in list order last to first, is the simultaneous splice *)
Theorem C13_fix_sublist : forall src sug raw ks,
  Forall lwf raw -> Forall (in_text src) raw -> subseq ks (remove_overlaps raw) ->
  fix_all sug src ks = Ok (splice_sim 0 src (edits sug ks)).
Proof. exact fix_sublist. Qed.
Check C13_fix_sublist : forall src sug raw ks,
  Forall lwf raw -> Forall (in_text src) raw -> subseq ks (remove_overlaps raw) ->
  fix_all sug src ks = Ok (splice_sim 0 src (edits sug ks)).
Print Assumptions C13_fix_sublist.

(* harper-wasm Linter::lint = remove_overlaps then remove_ignored: what the JS API reports *)
Theorem C13_wasm_lint_spec : forall e ig raw, Forall lwf raw ->
  subseq (wasm_lint e ig raw) (lsort raw) /\
  ForallOrdPairs disjoint_pair (wasm_lint e ig raw) /\
  StronglySorted (fun a b => lstart a <= lstart b) (wasm_lint e ig raw) /\
  (e = false -> forall l, In l (wasm_lint e ig raw) -> ig l = false) /\
  (forall d, In d raw -> ~ In d (wasm_lint e ig raw) ->
     (e = false /\ ig d = true) \/
     exists k, In k (remove_overlaps raw) /\ lstart k <= lstart d < lend k).
Proof. exact wasm_lint_spec. Qed.
Check C13_wasm_lint_spec : forall e ig raw, Forall lwf raw ->
  subseq (wasm_lint e ig raw) (lsort raw) /\
  ForallOrdPairs disjoint_pair (wasm_lint e ig raw) /\
  StronglySorted (fun a b => lstart a <= lstart b) (wasm_lint e ig raw) /\
  (e = false -> forall l, In l (wasm_lint e ig raw) -> ig l = false) /\
  (forall d, In d raw -> ~ In d (wasm_lint e ig raw) ->
     (e = false /\ ig d = true) \/
     exists k, In k (remove_overlaps raw) /\ lstart k <= lstart d < lend k).
Print Assumptions C13_wasm_lint_spec.

(* the 'hence' sentence end to end for the JS API: one apply_suggestion per reported lint, last first *)
Theorem C13_wasm_fix_all : forall e ig sug src raw,
  Forall lwf raw -> Forall (in_text src) raw ->
  fix_all sug src (wasm_lint e ig raw) = Ok (splice_sim 0 src (edits sug (wasm_lint e ig raw))).
Proof. exact wasm_fix_all. Qed.
Check C13_wasm_fix_all : forall e ig sug src raw,
  Forall lwf raw -> Forall (in_text src) raw ->
  fix_all sug src (wasm_lint e ig raw) = Ok (splice_sim 0 src (edits sug (wasm_lint e ig raw))).
Print Assumptions C13_wasm_fix_all.

(* harper-cli lint: --count counts BEFORE overlap removal; otherwise one label per kept lint (harper-cli has no apply path) *)
Theorem C13_cli_lint_spec : forall count raw,
  (count = true -> cli_lint count raw = CliCount (length raw)) /\
  (count = false -> raw = [] -> cli_lint count raw = CliNoLints) /\
  (count = false -> raw <> [] -> cli_lint count raw = CliLabels (remove_overlaps raw)).
Proof. exact cli_lint_spec. Qed.
Check C13_cli_lint_spec : forall count raw,
  (count = true -> cli_lint count raw = CliCount (length raw)) /\
  (count = false -> raw = [] -> cli_lint count raw = CliNoLints) /\
  (count = false -> raw <> [] -> cli_lint count raw = CliLabels (remove_overlaps raw)).
Print Assumptions C13_cli_lint_spec.

(* the lints the CLI labels can all be fixed in one pass *)
Theorem C13_cli_labels_fix_all : forall count sug src raw ks,
  Forall lwf raw -> Forall (in_text src) raw -> cli_lint count raw = CliLabels ks ->
  ks = remove_overlaps raw /\ ForallOrdPairs disjoint_pair ks /\
  fix_all sug src ks = Ok (splice_sim 0 src (edits sug ks)).
Proof. exact cli_labels_fix_all. Qed.
Check C13_cli_labels_fix_all : forall count sug src raw ks,
  Forall lwf raw -> Forall (in_text src) raw -> cli_lint count raw = CliLabels ks ->
  ks = remove_overlaps raw /\ ForallOrdPairs disjoint_pair ks /\
  fix_all sug src ks = Ok (splice_sim 0 src (edits sug ks)).
Print Assumptions C13_cli_labels_fix_all.

(* merge_linters!: concat in declaration order then remove_overlaps *)
Theorem C13_merge_lint_spec : forall subs, Forall (Forall lwf) subs ->
  (forall k, In k (merge_lint subs) -> exists s, In s subs /\ In k s) /\
  ForallOrdPairs disjoint_pair (merge_lint subs) /\
  remove_overlaps (merge_lint subs) = merge_lint subs.
Proof. exact merge_lint_spec. Qed.
Check C13_merge_lint_spec : forall subs, Forall (Forall lwf) subs ->
  (forall k, In k (merge_lint subs) -> exists s, In s subs /\ In k s) /\
  ForallOrdPairs disjoint_pair (merge_lint subs) /\
  remove_overlaps (merge_lint subs) = merge_lint subs.
Print Assumptions C13_merge_lint_spec.

(* and its output can be fixed in one pass *)
Theorem C13_merge_fix_all : forall sug src subs,
  Forall (Forall lwf) subs -> Forall (Forall (in_text src)) subs ->
  fix_all sug src (merge_lint subs) = Ok (splice_sim 0 src (edits sug (merge_lint subs))).
Proof. exact merge_fix_all. Qed.
Check C13_merge_fix_all : forall sug src subs,
  Forall (Forall lwf) subs -> Forall (Forall (in_text src)) subs ->
  fix_all sug src (merge_lint subs) = Ok (splice_sim 0 src (edits sug (merge_lint subs))).
Print Assumptions C13_merge_fix_all.

(* CurrencyPlacement::lint (three candidate generators per chunk, then remove_overlaps): whenever it returns, its lints are disjoint, a fixpoint, fixable in one pass *)
Theorem C13_currency_fix_all : forall wrong sug src chunks ls,
  Forall (toks_in (length src)) chunks -> currency_lint wrong chunks = Ok ls ->
  ForallOrdPairs disjoint_pair ls /\ remove_overlaps ls = ls /\
  fix_all sug src ls = Ok (splice_sim 0 src (edits sug ls)).
Proof. exact currency_fix_all. Qed.
Check C13_currency_fix_all : forall wrong sug src chunks ls,
  Forall (toks_in (length src)) chunks -> currency_lint wrong chunks = Ok ls ->
  ForallOrdPairs disjoint_pair ls /\ remove_overlaps ls = ls /\
  fix_all sug src ls = Ok (splice_sim 0 src (edits sug ls)).
Print Assumptions C13_currency_fix_all.

(* and it returns (Span::new does not panic) when the tokens of each chunk are in order *)
Theorem C13_currency_total : forall wrong chunks, Forall toks_ordered chunks -> exists ls, currency_lint wrong chunks = Ok ls.
Proof. exact currency_lint_total. Qed.
Check C13_currency_total : forall wrong chunks, Forall toks_ordered chunks -> exists ls, currency_lint wrong chunks = Ok ls.
Print Assumptions C13_currency_total.

(* tie of the caller models to the sources: statement order at each site and the census of callers (regenerated every run; the generator raises on a new or vanished caller and on an unknown statement) *)
Theorem C13_callers_shape : overlap_call_skeletons = expected_skeletons /\ overlap_call_census = expected_census.
Proof. exact overlap_call_skeletons_ok. Qed.
Check C13_callers_shape : overlap_call_skeletons = expected_skeletons /\ overlap_call_census = expected_census.
Print Assumptions C13_callers_shape.

(* ================= phase 4: maximality; what the CLI's printed report shows ================= *)

(* a dropped lint that covers a character shares its first character with a kept lint (common character AND Span::overlaps_with both ways) *)
Theorem C13_dropped_conflicts : forall ls d, In d (dropped ls) -> lstart d < lend d ->
  exists k, In k (remove_overlaps ls) /\ covers k (lstart d) /\ covers d (lstart d) /\
            overlaps (lspan k) (lspan d) = true /\ overlaps (lspan d) (lspan k) = true.
Proof. exact ro_dropped_conflicts. Qed.
Check C13_dropped_conflicts : forall ls d, In d (dropped ls) -> lstart d < lend d ->
  exists k, In k (remove_overlaps ls) /\ covers k (lstart d) /\ covers d (lstart d) /\
            overlaps (lspan k) (lspan d) = true /\ overlaps (lspan d) (lspan k) = true.
Print Assumptions C13_dropped_conflicts.

(* maximal in the greedy sense: a dropped non-empty lint put back ANYWHERE among the kept ones yields two lints sharing a character (no premise on the other spans) *)
Theorem C13_maximal : forall ls d ks, In d (dropped ls) -> lstart d < lend d -> Permutation ks (d :: remove_overlaps ls) ->
  ~ ForallOrdPairs no_common_char ks.
Proof. exact ro_maximal. Qed.
Check C13_maximal : forall ls d ks, In d (dropped ls) -> lstart d < lend d -> Permutation ks (d :: remove_overlaps ls) ->
  ~ ForallOrdPairs no_common_char ks.
Print Assumptions C13_maximal.

(* the exact picture for well-formed spans: a dropped lint could be added back without conflict iff it is zero-width *)
Theorem C13_maximal_iff : forall ls d, Forall lwf ls -> In d (dropped ls) ->
  (ForallOrdPairs no_common_char (d :: remove_overlaps ls) <-> lstart d = lend d).
Proof. exact ro_maximal_iff. Qed.
Check C13_maximal_iff : forall ls d, Forall lwf ls -> In d (dropped ls) ->
  (ForallOrdPairs no_common_char (d :: remove_overlaps ls) <-> lstart d = lend d).
Print Assumptions C13_maximal_iff.

(* counter-examples to unrestricted maximality (NOT violations of C13's text): [2,2) at the start of [2,4) is dropped although [d; k] satisfies C13_disjoint's own predicate; [2,2) inside [0,4) shares no character with it *)
Theorem C13_zero_width_not_maximal : (let k := mklint (mkspan 2 4) 0 in let d := mklint (mkspan 2 2) 1 in let ls := [k; d] in
   Forall lwf ls /\ remove_overlaps ls = [k] /\ dropped ls = [d] /\
   ForallOrdPairs disjoint_pair (d :: remove_overlaps ls)) /\
  (let k := mklint (mkspan 0 4) 0 in let d := mklint (mkspan 2 2) 1 in let ls := [d; k] in
   Forall lwf ls /\ remove_overlaps ls = [k] /\ dropped ls = [d] /\
   ForallOrdPairs no_common_char (d :: remove_overlaps ls) /\ overlaps (lspan k) (lspan d) = true).
Proof. exact ro_zero_width_not_maximal. Qed.
Check C13_zero_width_not_maximal : (let k := mklint (mkspan 2 4) 0 in let d := mklint (mkspan 2 2) 1 in let ls := [k; d] in
   Forall lwf ls /\ remove_overlaps ls = [k] /\ dropped ls = [d] /\
   ForallOrdPairs disjoint_pair (d :: remove_overlaps ls)) /\
  (let k := mklint (mkspan 0 4) 0 in let d := mklint (mkspan 2 2) 1 in let ls := [d; k] in
   Forall lwf ls /\ remove_overlaps ls = [k] /\ dropped ls = [d] /\
   ForallOrdPairs no_common_char (d :: remove_overlaps ls) /\ overlaps (lspan k) (lspan d) = true).
Print Assumptions C13_zero_width_not_maximal.

(* the function the differential run against the harper-cli BINARY executes: --count prints the raw length, the empty list prints no report, otherwise the coloured characters of the report are exactly the characters covered by a kept lint (each once, increasing), one label per kept lint *)
Theorem C13_cli_report_spec : forall count spans n rep,
  let raw := number_from 0 (map pair_span spans) in
  (run_cli_report count spans = (Some n, None) -> count = true /\ n = length spans) /\
  (run_cli_report count spans = (None, None) -> count = false /\ spans = []) /\
  (run_cli_report count spans = (None, Some rep) ->
     count = false /\ spans <> [] /\
     (forall c, In c (fst rep) <-> exists k, In k (remove_overlaps raw) /\ covers k c) /\
     map snd (snd rep) = map lid (remove_overlaps raw) /\
     (Forall lwf raw -> StronglySorted lt (fst rep))).
Proof. exact cli_report_spec. Qed.
Check C13_cli_report_spec : forall count spans n rep,
  let raw := number_from 0 (map pair_span spans) in
  (run_cli_report count spans = (Some n, None) -> count = true /\ n = length spans) /\
  (run_cli_report count spans = (None, None) -> count = false /\ spans = []) /\
  (run_cli_report count spans = (None, Some rep) ->
     count = false /\ spans <> [] /\
     (forall c, In c (fst rep) <-> exists k, In k (remove_overlaps raw) /\ covers k c) /\
     map snd (snd rep) = map lid (remove_overlaps raw) /\
     (Forall lwf raw -> StronglySorted lt (fst rep))).
Print Assumptions C13_cli_report_spec.

(* VecExt::remove_indices REQUIRES strictly increasing indices (C13_remove_indices_spec's premise is StronglySorted lt; C13_sweep_queue_sorted provides exactly that): with a repeated index it stalls and ignores every later index *)
Theorem C13_remove_indices_needs_strict : StronglySorted le [1; 1; 2] /\ ~ StronglySorted lt [1; 1; 2] /\
  remove_indices 0 [1; 1; 2] [10; 11; 12] = [10; 12] /\ filter_idx 0 [1; 1; 2] [10; 11; 12] = [10].
Proof. exact remove_indices_needs_strict. Qed.
Check C13_remove_indices_needs_strict : StronglySorted le [1; 1; 2] /\ ~ StronglySorted lt [1; 1; 2] /\
  remove_indices 0 [1; 1; 2] [10; 11; 12] = [10; 12] /\ filter_idx 0 [1; 1; 2] [10; 11; 12] = [10].
Print Assumptions C13_remove_indices_needs_strict.

(* hence remove_overlaps removes exactly the positions its sweep names, on every input — exactly equal lints included *)
Theorem C13_ro_is_filter_idx : forall ls, 2 <= length ls ->
  remove_overlaps ls = filter_idx 0 (sweep 0 0 (lsort ls)) (lsort ls).
Proof. exact ro_is_filter_idx. Qed.
Check C13_ro_is_filter_idx : forall ls, 2 <= length ls ->
  remove_overlaps ls = filter_idx 0 (sweep 0 0 (lsort ls)) (lsort ls).
Print Assumptions C13_ro_is_filter_idx.

Example C13_exact_duplicates :
  let a := mklint (mkspan 10 20) 7 in let b := mklint (mkspan 12 15) 8 in
  remove_overlaps [a; a; b] = [a] /\ remove_overlaps [b; a; a; a] = [a] /\
  sweep 0 0 (lsort [a; a; b]) = [1; 2] /\
  (let z := mklint (mkspan 5 5) 9 in remove_overlaps [z; z; a] = [z; z; a]).
Proof. exact exact_duplicates_example. Qed.

Example C13_maximal_nonvacuous :
  let ls := [mklint (mkspan 0 4) 0; mklint (mkspan 3 6) 1; mklint (mkspan 4 5) 2] in
  let d := mklint (mkspan 3 6) 1 in
  Forall lwf ls /\ In d (dropped ls) /\ lstart d < lend d /\
  map lid (remove_overlaps ls) = [0; 2] /\ Permutation [mklint (mkspan 0 4) 0; d; mklint (mkspan 4 5) 2] (d :: remove_overlaps ls).
Proof. exact maximal_example. Qed.
Example C13_cli_report_nonvacuous :
  run_cli_report false [(5, 8); (0, 3); (6, 7); (3, 4)] = (None, Some ([0; 1; 2; 3; 5; 6; 7], [(1, 1); (3, 3); (6, 0)])) /\
  run_cli_report true [(5, 8); (0, 3)] = (Some 2, None) /\ run_cli_report false [] = (None, None) /\
  run_merge_ids [[(5, 8); (0, 3)]; [(6, 7)]; []; [(0, 3)]] = [1; 0].
Proof. repeat split; vm_compute; reflexivity. Qed.

(* non-vacuity of the phase-3 statements; observations that are NOT violations of C13 *)
Example C13_callers_nonvacuous :
  let raw := [mklint (mkspan 5 8) 0; mklint (mkspan 0 3) 1; mklint (mkspan 6 7) 2; mklint (mkspan 3 4) 3] in
  let ig l := lid l =? 3 in
  let sug l := ReplaceWith [N.of_nat (lid l)] in
  let src := [10; 11; 12; 13; 14; 15; 16; 17; 18]%N in
  Forall lwf raw /\ Forall (in_text src) raw /\
  map lid (wasm_lint false ig raw) = [1; 0] /\
  fix_all sug src (wasm_lint false ig raw) = Ok [1; 13; 14; 0; 18]%N /\
  cli_lint false raw = CliLabels [mklint (mkspan 0 3) 1; mklint (mkspan 3 4) 3; mklint (mkspan 5 8) 0] /\
  merge_lint [[mklint (mkspan 5 8) 0; mklint (mkspan 0 3) 1]; [mklint (mkspan 6 7) 2]]
    = [mklint (mkspan 0 3) 1; mklint (mkspan 5 8) 0].
Proof. exact callers_example. Qed.
Example C13_currency_nonvacuous :
  let chunk := [mkctok CkNumber (mkspan 0 1); mkctok CkSpace (mkspan 1 2); mkctok CkCurrency (mkspan 2 3);
                mkctok CkSpace (mkspan 3 4); mkctok CkNumber (mkspan 4 5)] in
  toks_ordered chunk /\ toks_in 5 chunk /\
  currency_cands (fun _ _ => true) [chunk] = Ok [mkspan 0 3; mkspan 2 5] /\
  currency_lint (fun _ _ => true) [chunk] = Ok [mklint (mkspan 0 3) 0].
Proof. exact currency_example. Qed.
Example C13_tie_nonvacuous :
  let ls := [mklint (mkspan 0 4) 7; mklint (mkspan 2 3) 8; mklint (mkspan 0 4) 9] in
  NoDup (map lkey [mklint (mkspan 0 4) 7; mklint (mkspan 2 3) 8]) /\
  filter (same_key (mklint (mkspan 0 4) 0)) ls = [mklint (mkspan 0 4) 7; mklint (mkspan 0 4) 9] /\
  remove_overlaps ls = [mklint (mkspan 0 4) 7].
Proof. cbv zeta. split; [repeat constructor; cbn; intuition discriminate|]. split; vm_compute; reflexivity. Qed.
(* a lint that is not ignored vanishes because the lint it lost against is ignored afterwards *)
Example C13_wasm_shadowed_by_ignored :
  let raw := [mklint (mkspan 0 6) 0; mklint (mkspan 2 4) 1] in
  let ig l := lid l =? 0 in
  wasm_lint false ig raw = [] /\ ig (mklint (mkspan 2 4) 1) = false.
Proof. exact wasm_shadowed_by_ignored. Qed.
(* --count can exceed the number of labels *)
Example C13_cli_count_counts_raw :
  let raw := [mklint (mkspan 0 6) 0; mklint (mkspan 2 4) 1] in
  cli_lint true raw = CliCount 2 /\ cli_lint false raw = CliLabels [mklint (mkspan 0 6) 0].
Proof. exact cli_count_counts_raw. Qed.
