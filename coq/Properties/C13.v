(* C13 — Overlap resolution returns a conflict-free subset of the lints.
   This file pins the statements; it contains nothing but `exact`. *)
Require Import Base Overlap Suggestion OverlapProofs SuggestionProofs BackToFront Tables_overlapcallers OverlapCallers.
From Coq Require Import Sorting.Sorted Sorting.Permutation.

(* nothing invented, nothing altered: the result is a subsequence of the key-sorted input, the sort
   is a permutation, and kept ++ dropped is a permutation of the input *)
Theorem C13_sublist : forall ls,
  subseq (remove_overlaps ls) (lsort ls) /\ Permutation (lsort ls) ls /\
  Permutation (remove_overlaps ls ++ dropped ls) ls.
Proof. exact ro_sublist. Qed.
Check C13_sublist : forall ls,
  subseq (remove_overlaps ls) (lsort ls) /\ Permutation (lsort ls) ls /\
  Permutation (remove_overlaps ls ++ dropped ls) ls.
Print Assumptions C13_sublist.

(* no two kept lints cover a common character (zero-width spans included) *)
Theorem C13_disjoint : forall ls, Forall lwf ls ->
  ForallOrdPairs (fun a b =>
     lend a <= lstart b /\ overlaps (lspan a) (lspan b) = false /\ overlaps (lspan b) (lspan a) = false
     /\ forall c, ~ (covers a c /\ covers b c)) (remove_overlaps ls).
Proof. exact ro_disjoint. Qed.
Check C13_disjoint : forall ls, Forall lwf ls ->
  ForallOrdPairs (fun a b =>
     lend a <= lstart b /\ overlaps (lspan a) (lspan b) = false /\ overlaps (lspan b) (lspan a) = false
     /\ forall c, ~ (covers a c /\ covers b c)) (remove_overlaps ls).
Print Assumptions C13_disjoint.

(* every dropped lint starts inside (or at the start of) a kept one *)
Theorem C13_dropped_inside : forall ls d,
  In d (dropped ls) -> exists k, In k (remove_overlaps ls) /\ lstart k <= lstart d < lend k.
Proof. exact ro_dropped_inside. Qed.
Check C13_dropped_inside : forall ls d,
  In d (dropped ls) -> exists k, In k (remove_overlaps ls) /\ lstart k <= lstart d < lend k.
Print Assumptions C13_dropped_inside.

(* remove_indices is "filter by position" for strictly increasing queues, and the sweep only
   produces such queues *)
Theorem C13_remove_indices_spec : forall (A : Type) q (xs : list A),
  StronglySorted lt q -> remove_indices 0 q xs = filter_idx 0 q xs.
Proof. exact (@remove_indices_filter0). Qed.
Check C13_remove_indices_spec : forall (A : Type) q (xs : list A),
  StronglySorted lt q -> remove_indices 0 q xs = filter_idx 0 q xs.
Print Assumptions C13_remove_indices_spec.

Theorem C13_sweep_queue_sorted : forall cur i ls, StronglySorted lt (sweep cur i ls).
Proof. exact sweep_sorted. Qed.
Check C13_sweep_queue_sorted : forall cur i ls, StronglySorted lt (sweep cur i ls).
Print Assumptions C13_sweep_queue_sorted.

(* the model's sort is a stable sort by the implementation's key *)
Theorem C13_sort_stable : forall ls,
  Permutation (lsort ls) ls /\ StronglySorted kle (lsort ls) /\
  forall k, filter (fun y => (lstart y =? lstart k) && (lend y =? lend k)) (lsort ls)
          = filter (fun y => (lstart y =? lstart k) && (lend y =? lend k)) ls.
Proof. exact sort_is_stable_sort. Qed.
Check C13_sort_stable : forall ls,
  Permutation (lsort ls) ls /\ StronglySorted kle (lsort ls) /\
  forall k, filter (fun y => (lstart y =? lstart k) && (lend y =? lend k)) (lsort ls)
          = filter (fun y => (lstart y =? lstart k) && (lend y =? lend k)) ls.
Print Assumptions C13_sort_stable.

(* the early return *)
Theorem C13_len_lt_2 : forall ls, length ls < 2 -> remove_overlaps ls = ls.
Proof. exact ro_short. Qed.
Check C13_len_lt_2 : forall ls, length ls < 2 -> remove_overlaps ls = ls.
Print Assumptions C13_len_lt_2.

(* hence: one suggestion per kept lint, applied back to front, never panics and equals the
   simultaneous splice — each edit leaves the characters of every other kept span unchanged *)
Theorem C13_back_to_front : forall src sug ls,
  Forall lwf ls -> Forall (fun l => lend l <= length src) ls ->
  apply_back_to_front src (edits sug (remove_overlaps ls))
  = Ok (splice_sim 0 src (edits sug (remove_overlaps ls))).
Proof. exact back_to_front. Qed.
Check C13_back_to_front : forall src sug ls,
  Forall lwf ls -> Forall (fun l => lend l <= length src) ls ->
  apply_back_to_front src (edits sug (remove_overlaps ls))
  = Ok (splice_sim 0 src (edits sug (remove_overlaps ls))).
Print Assumptions C13_back_to_front.

(* the tie for "the lints that the JS API and the CLI report": the four call sites (wasm Linter::lint,
   the CLI lint command, CurrencyPlacement, the merge_linters! macro) still pass their lints through
   remove_overlaps unconditionally before they leave — table regenerated from the sources every run *)
Theorem C13_callers_apply_it :
  forallb (fun e => snd e) overlap_call_sites = true /\ List.length overlap_call_sites = 4.
Proof. exact overlap_call_sites_ok. Qed.
Check C13_callers_apply_it :
  forallb (fun e => snd e) overlap_call_sites = true /\ List.length overlap_call_sites = 4.
Print Assumptions C13_callers_apply_it.

(* non-vacuity: nested, touching, equal and zero-width spans *)
Example C13_nonvacuous :
  let ls := [mklint (mkspan 2 6) 0; mklint (mkspan 0 4) 1; mklint (mkspan 0 4) 2; mklint (mkspan 4 4) 3;
             mklint (mkspan 1 2) 4; mklint (mkspan 4 7) 5; mklint (mkspan 7 7) 6; mklint (mkspan 7 9) 7] in
  Forall lwf ls /\ map lid (remove_overlaps ls) = [1; 5; 7] /\ map lid (dropped ls) = [2; 4; 0; 3; 6].
Proof. cbv zeta. split; [repeat constructor|]. split; vm_compute; reflexivity. Qed.
