(* C03 — Every lint points into the text; every suggestion is a well-defined local edit.
   Pinned statements only. *)
Require Import Base Suggestion Rebase ListLemmas SuggestionProofs SpanSchemas Tables_spanexprs SpanSites.
Require Import Cache C03Span C03SpanProofs C03LintGroup C03LintGroupProofs.
Require Import C05Lru C03LintGroupLru C03LintGroupLruProofs Tables_c03cache.
Require TokenSeq Pattern.
Require Import C03ChunkPremise.
Require C03Roots Tables_c03roots C03RootsProofs.
Require C03StructRoots Tables_c03structroots C03StructRootsProofs.

(* the edit primitive: total on spans inside the text *)
Theorem C03_apply_total : forall s sp src, span_in (length src) sp -> is_ok (apply s sp src) = true.
Proof. exact apply_total. Qed.
Check C03_apply_total : forall s sp src, span_in (length src) sp -> is_ok (apply s sp src) = true.
Print Assumptions C03_apply_total.

(* ... and it is exactly the splice: prefix ++ replacement ++ suffix *)
Theorem C03_apply_spec : forall s sp src,
  span_in (length src) sp ->
  apply s sp src = Ok (firstn (sstart sp) src ++ repl s (slice src (sstart sp) (send sp)) ++ skipn (send sp) src).
Proof. exact apply_spec. Qed.
Check C03_apply_spec : forall s sp src,
  span_in (length src) sp ->
  apply s sp src = Ok (firstn (sstart sp) src ++ repl s (slice src (sstart sp) (send sp)) ++ skipn (send sp) src).
Print Assumptions C03_apply_spec.

Theorem C03_prefix_preserved : forall s sp src t,
  span_in (length src) sp -> apply s sp src = Ok t -> firstn (sstart sp) t = firstn (sstart sp) src.
Proof. exact apply_prefix. Qed.
Check C03_prefix_preserved : forall s sp src t,
  span_in (length src) sp -> apply s sp src = Ok t -> firstn (sstart sp) t = firstn (sstart sp) src.
Print Assumptions C03_prefix_preserved.

Theorem C03_suffix_preserved : forall s sp src t,
  span_in (length src) sp -> apply s sp src = Ok t -> skipn (new_end s sp) t = skipn (send sp) src.
Proof. exact apply_suffix. Qed.
Check C03_suffix_preserved : forall s sp src t,
  span_in (length src) sp -> apply s sp src = Ok t -> skipn (new_end s sp) t = skipn (send sp) src.
Print Assumptions C03_suffix_preserved.

Theorem C03_length : forall s sp src t,
  span_in (length src) sp -> apply s sp src = Ok t ->
  length t + (send sp - sstart sp) = length src + length (repl s (slice src (sstart sp) (send sp))).
Proof. exact apply_length. Qed.
Check C03_length : forall s sp src t,
  span_in (length src) sp -> apply s sp src = Ok t ->
  length t + (send sp - sstart sp) = length src + length (repl s (slice src (sstart sp) (send sp))).
Print Assumptions C03_length.

(* the error branch, explicitly: which out-of-text spans the implementation rejects by panicking *)
Theorem C03_apply_rejects : forall s sp src,
  sstart sp <= send sp ->
  match s with
  | InsertAfter _ => length src < send sp
  | ReplaceWith cs => (length cs = send sp - sstart sp /\ cs <> [] /\ length src < send sp)
                      \/ (length cs <> send sp - sstart sp /\ length src < sstart sp)
  | Remove => False
  end ->
  exists w, apply s sp src = Panic w.
Proof. exact apply_rejects. Qed.
Check C03_apply_rejects : forall s sp src,
  sstart sp <= send sp ->
  match s with
  | InsertAfter _ => length src < send sp
  | ReplaceWith cs => (length cs = send sp - sstart sp /\ cs <> [] /\ length src < send sp)
                      \/ (length cs <> send sp - sstart sp /\ length src < sstart sp)
  | Remove => False
  end ->
  exists w, apply s sp src = Panic w.
Print Assumptions C03_apply_rejects.

(* the chunk cache re-bases a lint without leaving the chunk it is re-emitted for *)
Theorem C03_rebase_in_bounds : forall (sp : span) (a b a' b' : nat),
  a <= sstart sp -> sstart sp <= send sp -> send sp <= b -> b - a = b' - a' -> a <= b -> a' <= b' ->
  exists rel, pull_by sp a = Ok rel /\
              a' <= sstart (push_by rel a') /\ sstart (push_by rel a') <= send (push_by rel a') /\
              send (push_by rel a') <= b' /\
              send (push_by rel a') - sstart (push_by rel a') = send sp - sstart sp.
Proof. exact rebase_in_bounds. Qed.
Check C03_rebase_in_bounds : forall (sp : span) (a b a' b' : nat),
  a <= sstart sp -> sstart sp <= send sp -> send sp <= b -> b - a = b' - a' -> a <= b -> a' <= b' ->
  exists rel, pull_by sp a = Ok rel /\
              a' <= sstart (push_by rel a') /\ sstart (push_by rel a') <= send (push_by rel a') /\
              send (push_by rel a') <= b' /\
              send (push_by rel a') - sstart (push_by rel a') = send sp - sstart sp.
Print Assumptions C03_rebase_in_bounds.

(* the executable cache re-basing that is run against LintGroup::lint (correspondence lines `B`):
   lints inside their chunk are shifted by the difference of the chunk starts, nothing else ... *)
Theorem C03_rebase_model_value : forall (a a' : nat) (ls : list (nat * nat)),
  Forall (fun se => a <= fst se /\ fst se <= snd se) ls ->
  run_rebase a a' ls = Some (map (fun se => (fst se - a + a', snd se - a + a')) ls).
Proof. exact run_rebase_total. Qed.
Check C03_rebase_model_value : forall (a a' : nat) (ls : list (nat * nat)),
  Forall (fun se => a <= fst se /\ fst se <= snd se) ls ->
  run_rebase a a' ls = Some (map (fun se => (fst se - a + a', snd se - a + a')) ls).
Print Assumptions C03_rebase_model_value.

(* ... and a lint that starts before its chunk makes pull_by underflow (debug panic) *)
Theorem C03_rebase_model_rejects : forall (a a' s e : nat) (t : list (nat * nat)),
  s < a -> run_rebase a a' ((s, e) :: t) = None.
Proof. exact run_rebase_panics. Qed.
Check C03_rebase_model_rejects : forall (a a' s e : nat) (t : list (nat * nat)),
  s < a -> run_rebase a a' ((s, e) :: t) = None.
Print Assumptions C03_rebase_model_rejects.

Example C03_rebase_model_example : run_rebase 10 3 [(12, 15); (10, 10)] = Some [(5, 8); (3, 3)].
Proof. vm_compute. reflexivity. Qed.

(* span schemas used by the rules, under the token invariant of C02 *)
Theorem C03_token_derived_in_bounds : forall n,
  (forall ts h, Forall (span_in n) ts -> hull ts = Some h -> span_in n h) /\
  (forall t, span_in n t -> sstart t < send t -> span_in n (with_len t 1)) /\
  (forall t, span_in n t -> 2 <= send t - sstart t ->
     exists s, pulled_by (span_new_with_len (send t) 2) 2 = Some s /\ span_in n s /\
               sstart t <= sstart s /\ send s = send t /\ send s - sstart s = 2) /\
  (forall a b, span_in n a -> span_in n b -> send a <= sstart b ->
     exists s, span_new (sstart a) (send b) = Ok s /\ span_in n s).
Proof.
  exact (fun n => conj (hull_in_bounds n) (conj (with_len_1_in_bounds n) (conj (suffix_span_in_bounds n) (between_in_bounds n)))).
Qed.
Check C03_token_derived_in_bounds : forall n,
  (forall ts h, Forall (span_in n) ts -> hull ts = Some h -> span_in n h) /\
  (forall t, span_in n t -> sstart t < send t -> span_in n (with_len t 1)) /\
  (forall t, span_in n t -> 2 <= send t - sstart t ->
     exists s, pulled_by (span_new_with_len (send t) 2) 2 = Some s /\ span_in n s /\
               sstart t <= sstart s /\ send s = send t /\ send s - sstart s = 2) /\
  (forall a b, span_in n a -> span_in n b -> send a <= sstart b ->
     exists s, span_new (sstart a) (send b) = Ok s /\ span_in n s).
Print Assumptions C03_token_derived_in_bounds.

(* the tie for rule bodies: the table of every site in harper-core/src/linting/*.rs where a span is
   computed (rather than copied from a token or taken as a hull) is regenerated from the sources on
   every run; each site must fall under one of the schemas of C03_token_derived_in_bounds.  A new
   kind of span arithmetic in a rule makes this obligation fail. *)
Theorem C03_rule_span_sites_known :
  forallb (fun e => schema_known (snd e)) rule_span_sites = true /\ 40 <= rule_files_scanned.
Proof. exact rule_span_sites_known. Qed.
Check C03_rule_span_sites_known :
  forallb (fun e => schema_known (snd e)) rule_span_sites = true /\ 40 <= rule_files_scanned.
Print Assumptions C03_rule_span_sites_known.

(* 100% of the rule files: the `span` of EVERY `Lint { .. }` constructed in a rule file (table regenerated on every run) is a
   token's span, the hull of a token slice or one of the computed schemas (a local variable is followed to its `let`);
   every rule file constructs such a Lint, except the two named files, which only instantiate MapPhraseLinter (whose
   own Lint construction is in the table) *)
Theorem C03_rule_lint_sites_known :
  forallb (fun e => lint_src_known (snd e)) rule_lint_sites = true /\
  forallb file_covered rule_files = true /\
  length rule_files = rule_files_scanned /\
  files_without_lint = files_without_lint_expected.
Proof. exact rule_lint_sites_known. Qed.
Check C03_rule_lint_sites_known :
  forallb (fun e => lint_src_known (snd e)) rule_lint_sites = true /\
  forallb file_covered rule_files = true /\
  length rule_files = rule_files_scanned /\
  files_without_lint = files_without_lint_expected.
Print Assumptions C03_rule_lint_sites_known.
Print files_without_lint_expected.

(* each classified source is in bounds under the token invariant (C02) and the side condition of its schema *)
Theorem C03_lint_src_in_bounds :
  forall n ts k s, Forall (span_in n) ts -> src_denotes ts k s -> span_in n s.
Proof. exact lint_src_in_bounds. Qed.
Check C03_lint_src_in_bounds :
  forall n ts k s, Forall (span_in n) ts -> src_denotes ts k s -> span_in n s.
Print Assumptions C03_lint_src_in_bounds.

(* `enum Suggestion` has exactly the three variants of Model/Suggestion.v (so C03_apply_spec covers every suggestion a rule
   can build) and every `Suggestion::x` used in a rule file is one of them or a helper of suggestion.rs that builds one *)
Theorem C03_rule_suggestion_sites_known :
  suggestion_variants = suggestion_variants_expected /\
  forallb (fun e => sugg_known (snd e)) rule_suggestion_sites = true /\
  60 <= length rule_suggestion_sites.
Proof. exact rule_suggestion_sites_known. Qed.
Check C03_rule_suggestion_sites_known :
  suggestion_variants = suggestion_variants_expected /\
  forallb (fun e => sugg_known (snd e)) rule_suggestion_sites = true /\
  60 <= length rule_suggestion_sites.
Print Assumptions C03_rule_suggestion_sites_known.
Print suggestion_variants_expected.

(* ================= span.rs, complete (Model/C03Span.v: 64-bit usize, debug-build panics) ================= *)
(* push_by/pull_by and pushed_by/pulled_by are inverse wherever defined; pulled_by is None exactly when by > start *)
Theorem C03_span_rebase_inverse :
  (forall s k s', u_push_by s k = Ok s' -> u_pull_by s' k = Ok s) /\
  (forall s k s', urep s -> u_pull_by s k = Ok s' -> u_push_by s' k = Ok s) /\
  (forall s k s', u_pushed_by s k = Ok s' -> u_pulled_by s' k = Ok (Some s)) /\
  (forall s k s', urep s -> u_pulled_by s k = Ok (Some s') -> u_pushed_by s' k = Ok s) /\
  (forall s k, uwf s -> (ustart s < k)%N -> u_pulled_by s k = Ok None) /\
  (forall s k, uwf s -> (k <= ustart s)%N -> u_pulled_by s k = Ok (Some (mkuspan (ustart s - k) (uend s - k)))).
Proof. exact span_rebase_inverse. Qed.
Check C03_span_rebase_inverse :
  (forall s k s', u_push_by s k = Ok s' -> u_pull_by s' k = Ok s) /\
  (forall s k s', urep s -> u_pull_by s k = Ok s' -> u_push_by s' k = Ok s) /\
  (forall s k s', u_pushed_by s k = Ok s' -> u_pulled_by s' k = Ok (Some s)) /\
  (forall s k s', urep s -> u_pulled_by s k = Ok (Some s') -> u_pushed_by s' k = Ok s) /\
  (forall s k, uwf s -> (ustart s < k)%N -> u_pulled_by s k = Ok None) /\
  (forall s k, uwf s -> (k <= ustart s)%N -> u_pulled_by s k = Ok (Some (mkuspan (ustart s - k) (uend s - k)))).
Print Assumptions C03_span_rebase_inverse.

(* with_len / set_len keep the start, set the length, panic exactly on overflow *)
Theorem C03_span_with_len_keeps_start :
  (forall s l s', u_with_len s l = Ok s' -> ustart s' = ustart s /\ uend s' = (ustart s + l)%N /\ u_len s' = Ok l /\ uwf s') /\
  (forall s l, (ustart s + l <= usize_max)%N -> u_with_len s l = Ok (mkuspan (ustart s) (ustart s + l))) /\
  (forall s l, (usize_max < ustart s + l)%N -> u_with_len s l = Panic POverflow) /\
  (forall s l, u_set_len s l = u_with_len s l).
Proof. exact span_with_len_keeps_start. Qed.
Check C03_span_with_len_keeps_start :
  (forall s l s', u_with_len s l = Ok s' -> ustart s' = ustart s /\ uend s' = (ustart s + l)%N /\ u_len s' = Ok l /\ uwf s') /\
  (forall s l, (ustart s + l <= usize_max)%N -> u_with_len s l = Ok (mkuspan (ustart s) (ustart s + l))) /\
  (forall s l, (usize_max < ustart s + l)%N -> u_with_len s l = Panic POverflow) /\
  (forall s l, u_set_len s l = u_with_len s l).
Print Assumptions C03_span_with_len_keeps_start.

(* overlaps_with is symmetric and, for non-empty spans, equivalent to sharing a character position *)
Theorem C03_span_overlaps_shared :
  (forall a b, u_overlaps_with a b = u_overlaps_with b a) /\
  (forall a b, (ustart a < uend a)%N -> (ustart b < uend b)%N ->
     (u_overlaps_with a b = true <-> exists i, u_contains a i = Ok true /\ u_contains b i = Ok true)) /\
  (forall a b i, uwf a -> uwf b -> u_contains a i = Ok true -> u_contains b i = Ok true -> u_overlaps_with a b = true).
Proof. exact span_overlaps_shared. Qed.
Check C03_span_overlaps_shared :
  (forall a b, u_overlaps_with a b = u_overlaps_with b a) /\
  (forall a b, (ustart a < uend a)%N -> (ustart b < uend b)%N ->
     (u_overlaps_with a b = true <-> exists i, u_contains a i = Ok true /\ u_contains b i = Ok true)) /\
  (forall a b i, uwf a -> uwf b -> u_contains a i = Ok true -> u_contains b i = Ok true -> u_overlaps_with a b = true).
Print Assumptions C03_span_overlaps_shared.

(* get_content = the slice; its panics: ill-formed span (underflow in is_empty), non-empty span beyond the source *)
Theorem C03_span_get_content_is_slice :
  (forall (s : uspan) (src : text), uwf s -> (uend s <= N.of_nat (length src))%N ->
     u_get_content s src = Ok (slice src (N.to_nat (ustart s)) (N.to_nat (uend s)))) /\
  (forall (s : uspan) (src : text), ustart s = uend s -> u_get_content s src = Ok []) /\
  (forall (s : uspan) (src : text), (uend s < ustart s)%N -> u_get_content s src = Panic PUnderflow) /\
  (forall (s : uspan) (src : text), (ustart s < uend s)%N -> (N.of_nat (length src) < uend s)%N -> u_get_content s src = Panic PIndex) /\
  (forall (s : uspan) (src : text), u_get_content_string s src = u_get_content s src).
Proof. exact span_get_content_is_slice. Qed.
Check C03_span_get_content_is_slice :
  (forall (s : uspan) (src : text), uwf s -> (uend s <= N.of_nat (length src))%N ->
     u_get_content s src = Ok (slice src (N.to_nat (ustart s)) (N.to_nat (uend s)))) /\
  (forall (s : uspan) (src : text), ustart s = uend s -> u_get_content s src = Ok []) /\
  (forall (s : uspan) (src : text), (uend s < ustart s)%N -> u_get_content s src = Panic PUnderflow) /\
  (forall (s : uspan) (src : text), (ustart s < uend s)%N -> (N.of_nat (length src) < uend s)%N -> u_get_content s src = Panic PIndex) /\
  (forall (s : uspan) (src : text), u_get_content_string s src = u_get_content s src).
Print Assumptions C03_span_get_content_is_slice.

(* new, from_range, new_with_len, len, is_empty, contains, into_iter: values and panics *)
Theorem C03_span_basic_ops :
  (forall a b, (a <= b)%N -> u_new a b = Ok (mkuspan a b)) /\ (forall a b, (b < a)%N -> u_new a b = Panic PSpanOrder) /\
  (forall a b, u_from_range a b = u_new a b) /\
  (forall a l, (a + l <= usize_max)%N -> u_new_with_len a l = Ok (mkuspan a (a + l))) /\
  (forall a l, (usize_max < a + l)%N -> u_new_with_len a l = Panic POverflow) /\
  (forall s, uwf s -> u_len s = Ok (uend s - ustart s)%N /\ u_is_empty s = Ok (ustart s =? uend s)%N) /\
  (forall s, (uend s < ustart s)%N -> u_len s = Panic PUnderflow /\ u_is_empty s = Panic PUnderflow) /\
  (forall s i, uwf s -> (u_contains s i = Ok true <-> (ustart s <= i < uend s)%N)) /\
  (forall s i, (uend s < ustart s)%N -> u_contains s i = Panic PSpanOrder) /\
  (forall s i, In i (u_into_iter s) <-> (ustart s <= i < uend s)%N).
Proof. exact span_basic_ops. Qed.
Check C03_span_basic_ops :
  (forall a b, (a <= b)%N -> u_new a b = Ok (mkuspan a b)) /\ (forall a b, (b < a)%N -> u_new a b = Panic PSpanOrder) /\
  (forall a b, u_from_range a b = u_new a b) /\
  (forall a l, (a + l <= usize_max)%N -> u_new_with_len a l = Ok (mkuspan a (a + l))) /\
  (forall a l, (usize_max < a + l)%N -> u_new_with_len a l = Panic POverflow) /\
  (forall s, uwf s -> u_len s = Ok (uend s - ustart s)%N /\ u_is_empty s = Ok (ustart s =? uend s)%N) /\
  (forall s, (uend s < ustart s)%N -> u_len s = Panic PUnderflow /\ u_is_empty s = Panic PUnderflow) /\
  (forall s i, uwf s -> (u_contains s i = Ok true <-> (ustart s <= i < uend s)%N)) /\
  (forall s i, (uend s < ustart s)%N -> u_contains s i = Panic PSpanOrder) /\
  (forall s i, In i (u_into_iter s) <-> (ustart s <= i < uend s)%N).
Print Assumptions C03_span_basic_ops.

(* the unbounded nat-level operations of Base.v (every other model) are this model; the only extra panics are overflows above usize::MAX *)
Theorem C03_span_base_refines :
  (forall a b, res_map to_base (u_new a b) = span_new (N.to_nat a) (N.to_nat b)) /\
  (forall s k, res_map to_base (u_pull_by s k) = pull_by (to_base s) (N.to_nat k)) /\
  (forall s k s', u_push_by s k = Ok s' -> push_by (to_base s) (N.to_nat k) = to_base s') /\
  (forall s k w, u_push_by s k = Panic w -> w = POverflow /\ (usize_max < uend s + k \/ usize_max < ustart s + k)%N) /\
  (forall s l s', u_with_len s l = Ok s' -> with_len (to_base s) (N.to_nat l) = to_base s') /\
  (forall a l s, u_new_with_len a l = Ok s -> span_new_with_len (N.to_nat a) (N.to_nat l) = to_base s) /\
  (forall s k o, uwf s -> u_pulled_by s k = Ok o -> pulled_by (to_base s) (N.to_nat k) = option_map to_base o) /\
  (forall a b, u_overlaps_with a b = overlaps (to_base a) (to_base b)) /\
  (forall s, u_len s = res_map N.of_nat (span_len (to_base s))) /\
  (forall (s : uspan) (src : text), u_try_get_content s src = try_get_content (to_base s) src) /\
  (forall (s : uspan) (src : text), u_get_content s src = get_content (to_base s) src).
Proof. exact span_base_refines. Qed.
Check C03_span_base_refines :
  (forall a b, res_map to_base (u_new a b) = span_new (N.to_nat a) (N.to_nat b)) /\
  (forall s k, res_map to_base (u_pull_by s k) = pull_by (to_base s) (N.to_nat k)) /\
  (forall s k s', u_push_by s k = Ok s' -> push_by (to_base s) (N.to_nat k) = to_base s') /\
  (forall s k w, u_push_by s k = Panic w -> w = POverflow /\ (usize_max < uend s + k \/ usize_max < ustart s + k)%N) /\
  (forall s l s', u_with_len s l = Ok s' -> with_len (to_base s) (N.to_nat l) = to_base s') /\
  (forall a l s, u_new_with_len a l = Ok s -> span_new_with_len (N.to_nat a) (N.to_nat l) = to_base s) /\
  (forall s k o, uwf s -> u_pulled_by s k = Ok o -> pulled_by (to_base s) (N.to_nat k) = option_map to_base o) /\
  (forall a b, u_overlaps_with a b = overlaps (to_base a) (to_base b)) /\
  (forall s, u_len s = res_map N.of_nat (span_len (to_base s))) /\
  (forall (s : uspan) (src : text), u_try_get_content s src = try_get_content (to_base s) src) /\
  (forall (s : uspan) (src : text), u_get_content s src = get_content (to_base s) src).
Print Assumptions C03_span_base_refines.

(* the quirk of pulled_by: the second subtraction is not guarded, an ill-formed span makes it panic *)
Theorem C03_span_pulled_by_illformed_panics : forall s k, (uend s < k)%N -> (k <= ustart s)%N -> u_pulled_by s k = Panic PUnderflow.
Proof. exact u_pulled_by_illformed_panics. Qed.
Check C03_span_pulled_by_illformed_panics : forall s k, (uend s < k)%N -> (k <= ustart s)%N -> u_pulled_by s k = Panic PUnderflow.
Print Assumptions C03_span_pulled_by_illformed_panics.

Example C03_span_nonvacuous :
  u_pushed_by (mkuspan 3 7) 5 = Ok (mkuspan 8 12) /\ u_pulled_by (mkuspan 8 12) 5 = Ok (Some (mkuspan 3 7)) /\
  u_pulled_by (mkuspan 3 7) 4 = Ok None /\ u_pulled_by (mkuspan 5 2) 3 = Panic PUnderflow /\
  u_with_len (mkuspan 3 7) 1 = Ok (mkuspan 3 4) /\ u_with_len (mkuspan 3 7) usize_max = Panic POverflow /\
  u_overlaps_with (mkuspan 1 4) (mkuspan 3 9) = true /\ u_overlaps_with (mkuspan 1 3) (mkuspan 3 9) = false /\
  u_get_content (mkuspan 1 3) [10; 11; 12; 13]%N = Ok [11; 12]%N /\ u_get_content (mkuspan 1 5) [10; 11; 12; 13]%N = Panic PIndex /\
  u_push_by (mkuspan 1 usize_max) 1 = Panic POverflow /\ u_pull_by (mkuspan 2 5) 3 = Panic PUnderflow.
Proof. vm_compute. repeat split. Qed.

(* ================= LintGroup::lint, the whole loop, over histories (Model/C03LintGroup.v) ================= *)
(* IF every whole-document rule keeps its lints inside the document and every pattern rule keeps its lints inside the
   chunk it is run on (at every call: rules may carry state), THEN for every history of configuration changes, lint
   calls and evictions on ONE LintGroup (any eviction schedule = any LRU capacity; ANY hash functions, collisions
   included) starting from a cache that satisfies the invariant (an empty one does): no call panics, every call is
   answered, and every lint of every answer lies inside the document of that call.  Documents satisfy the token
   invariant as far as needed (hist_ok: every chunk's hull ends inside the source, every token has start <= end; the
   pattern rules' premise is asked for such chunks only — phase 5 — so that C03_table_pattern_rules_ok can discharge it). *)
Theorem C03_lintgroup_history_in_bounds :
  forall (cfg kind : Type) (enabled : cfg -> N -> bool) (cfg_hash : cfg -> N) (tok_hash : list (tok kind) -> N)
         (linters : list (N * wrule kind)) (plinters : list (N * prule kind)),
    (forall n r t d, In (n, r) linters -> doc_ok kind d -> Forall (lint_in (length (l_src d))) (r t d)) ->
    (forall n r t src ts sp, In (n, r) plinters -> toks_wf kind ts -> hull_of ts = Ok (Some sp) -> send sp <= length src ->
        Forall (lint_within sp) (r t src ts)) ->
    forall (h : list (lop cfg kind)) (st : lstate cfg),
      hist_ok cfg kind h -> cache_ok (lg_cache st) ->
      exists st' outs,
        lg_run cfg kind enabled cfg_hash tok_hash linters plinters h st = Ok (st', outs) /\
        cache_ok (lg_cache st') /\
        map fst outs = hist_docs cfg kind h /\
        Forall (fun p => Forall (lint_in (length (l_src (fst p)))) (snd p)) outs.
Proof. exact lg_history_in_bounds. Qed.
Check C03_lintgroup_history_in_bounds :
  forall (cfg kind : Type) (enabled : cfg -> N -> bool) (cfg_hash : cfg -> N) (tok_hash : list (tok kind) -> N)
         (linters : list (N * wrule kind)) (plinters : list (N * prule kind)),
    (forall n r t d, In (n, r) linters -> doc_ok kind d -> Forall (lint_in (length (l_src d))) (r t d)) ->
    (forall n r t src ts sp, In (n, r) plinters -> toks_wf kind ts -> hull_of ts = Ok (Some sp) -> send sp <= length src ->
        Forall (lint_within sp) (r t src ts)) ->
    forall (h : list (lop cfg kind)) (st : lstate cfg),
      hist_ok cfg kind h -> cache_ok (lg_cache st) ->
      exists st' outs,
        lg_run cfg kind enabled cfg_hash tok_hash linters plinters h st = Ok (st', outs) /\
        cache_ok (lg_cache st') /\
        map fst outs = hist_docs cfg kind h /\
        Forall (fun p => Forall (lint_in (length (l_src (fst p)))) (snd p)) outs.
Print Assumptions C03_lintgroup_history_in_bounds.

(* the premise cannot be weakened: a pattern rule reporting a span that starts before its chunk makes the call panic
   on a miss (usize underflow in pull_by, debug build) *)
Theorem C03_lintgroup_lint_before_chunk_panics :
  forall (cfg kind : Type) (enabled : cfg -> N -> bool) (cfg_hash : cfg -> N) (tok_hash : list (tok kind) -> N)
         (plinters : list (N * prule kind)) t c src ts rest evs m sp chars rt l pl,
    hull_of ts = Ok (Some sp) -> get_content sp src = Ok chars -> rel_toks (sstart sp) ts = Ok rt ->
    lookup code_key_eqb (chars, cfg_hash c, tok_hash rt) (evict (hd keep_all evs) m) = None ->
    run_plinters cfg kind enabled plinters t c src ts = l :: pl -> sstart (cl_span l) < sstart sp ->
    lg_chunks cfg kind enabled cfg_hash tok_hash plinters t c src (ts :: rest) evs m = Panic PUnderflow.
Proof. exact lg_chunk_before_start_panics. Qed.
Check C03_lintgroup_lint_before_chunk_panics :
  forall (cfg kind : Type) (enabled : cfg -> N -> bool) (cfg_hash : cfg -> N) (tok_hash : list (tok kind) -> N)
         (plinters : list (N * prule kind)) t c src ts rest evs m sp chars rt l pl,
    hull_of ts = Ok (Some sp) -> get_content sp src = Ok chars -> rel_toks (sstart sp) ts = Ok rt ->
    lookup code_key_eqb (chars, cfg_hash c, tok_hash rt) (evict (hd keep_all evs) m) = None ->
    run_plinters cfg kind enabled plinters t c src ts = l :: pl -> sstart (cl_span l) < sstart sp ->
    lg_chunks cfg kind enabled cfg_hash tok_hash plinters t c src (ts :: rest) evs m = Panic PUnderflow.
Print Assumptions C03_lintgroup_lint_before_chunk_panics.

(* non-vacuity: concrete rules satisfy both premises, a history (two documents, a configuration change, a full
   eviction) satisfies hist_ok; the second clause of document 1 is served from the cache at another offset;
   and "inside the chunk" cannot be weakened to "inside the document" (ex_chunk_premise_needed: the lint leaves
   the LATER, shorter document when served from the cache) *)
Example C03_lintgroup_nonvacuous :
  wrules_ok N [(7%N, ex_wrule)] /\ prules_ok N [(0%N, ex_prule)] /\ hist_ok N N ex_hist /\
  exists st, ex_run [(0%N, ex_prule)] ex_hist =
    Ok (st, [(ex_doc1, [mkclint (mkspan 0 6) 20%N; mkclint (mkspan 0 2) 10%N; mkclint (mkspan 3 5) 10%N]);
             (ex_doc2, [mkclint (mkspan 0 6) 20%N; mkclint (mkspan 3 5) 10%N])]).
Proof. exact (conj ex_wrules_ok (conj ex_prules_ok (conj ex_hist_ok ex_run_value))). Qed.

(* ================= LintGroup::lint over the REAL LRU (Model/C03LintGroupLru.v) ================= *)
(* REFINEMENT.  The chunk cache as the `lru` crate has it — get promotes a hit to the front, put pops the least
   recently used entry when the cache holds `cap` entries — for EVERY capacity: every history (configuration
   assignments and lint calls) on a LintGroup over this cache is, for a suitable choice of the adversary's evictions
   (h2 shadows h: same operations, an eviction schedule added to each lint call), a history of the adversarial model
   of Model/C03LintGroup.v with the SAME answers — or the same panic.  States are related by st_sim: same
   configuration, same call counter, caches equal as maps, no duplicate key in the LRU list. *)
Theorem C03_lintgroup_lru_refines :
  forall (cfg kind : Type) (enabled : cfg -> N -> bool) (cfg_hash : cfg -> N) (tok_hash : list (tok kind) -> N)
         (linters : list (N * wrule kind)) (plinters : list (N * prule kind)) (cap : nat)
         (h : list (lrop cfg kind)) (st1 st2 : lstate cfg),
    st_sim cfg st1 st2 ->
    exists h2, shadows cfg kind h h2 /\
      match lgl_run cfg kind enabled cfg_hash tok_hash linters plinters cap h st1 with
      | Ok (s1, outs) => exists s2, lg_run cfg kind enabled cfg_hash tok_hash linters plinters h2 st2 = Ok (s2, outs) /\ st_sim cfg s1 s2
      | Panic p => lg_run cfg kind enabled cfg_hash tok_hash linters plinters h2 st2 = Panic p
      end.
Proof. exact lgl_run_refines. Qed.
Check C03_lintgroup_lru_refines :
  forall (cfg kind : Type) (enabled : cfg -> N -> bool) (cfg_hash : cfg -> N) (tok_hash : list (tok kind) -> N)
         (linters : list (N * wrule kind)) (plinters : list (N * prule kind)) (cap : nat)
         (h : list (lrop cfg kind)) (st1 st2 : lstate cfg),
    st_sim cfg st1 st2 ->
    exists h2, shadows cfg kind h h2 /\
      match lgl_run cfg kind enabled cfg_hash tok_hash linters plinters cap h st1 with
      | Ok (s1, outs) => exists s2, lg_run cfg kind enabled cfg_hash tok_hash linters plinters h2 st2 = Ok (s2, outs) /\ st_sim cfg s1 s2
      | Panic p => lg_run cfg kind enabled cfg_hash tok_hash linters plinters h2 st2 = Panic p
      end.
Print Assumptions C03_lintgroup_lru_refines.

(* ... hence the in-bounds theorem for the cache the code has (capacity = Tables_c03cache.lint_group_cache_cap, or any
   other): under the two premises on the rules, every history on a LintGroup whose cache satisfies the invariant and
   has no duplicate keys (the empty one) never panics and every lint lies inside the document of its call *)
Theorem C03_lintgroup_lru_history_in_bounds :
  forall (cfg kind : Type) (enabled : cfg -> N -> bool) (cfg_hash : cfg -> N) (tok_hash : list (tok kind) -> N)
         (linters : list (N * wrule kind)) (plinters : list (N * prule kind)) (cap : nat),
    (forall n r t d, In (n, r) linters -> doc_ok kind d -> Forall (lint_in (length (l_src d))) (r t d)) ->
    (forall n r t src ts sp, In (n, r) plinters -> toks_wf kind ts -> hull_of ts = Ok (Some sp) -> send sp <= length src ->
        Forall (lint_within sp) (r t src ts)) ->
    forall (h : list (lrop cfg kind)) (st : lstate cfg),
      rhist_ok cfg kind h -> cache_ok (lg_cache st) -> NoDup (map fst (lg_cache st)) ->
      exists st' outs,
        lgl_run cfg kind enabled cfg_hash tok_hash linters plinters cap h st = Ok (st', outs) /\
        map fst outs = rhist_docs cfg kind h /\
        Forall (fun p => Forall (lint_in (length (l_src (fst p)))) (snd p)) outs.
Proof. exact lgl_history_in_bounds. Qed.
Check C03_lintgroup_lru_history_in_bounds :
  forall (cfg kind : Type) (enabled : cfg -> N -> bool) (cfg_hash : cfg -> N) (tok_hash : list (tok kind) -> N)
         (linters : list (N * wrule kind)) (plinters : list (N * prule kind)) (cap : nat),
    (forall n r t d, In (n, r) linters -> doc_ok kind d -> Forall (lint_in (length (l_src d))) (r t d)) ->
    (forall n r t src ts sp, In (n, r) plinters -> toks_wf kind ts -> hull_of ts = Ok (Some sp) -> send sp <= length src ->
        Forall (lint_within sp) (r t src ts)) ->
    forall (h : list (lrop cfg kind)) (st : lstate cfg),
      rhist_ok cfg kind h -> cache_ok (lg_cache st) -> NoDup (map fst (lg_cache st)) ->
      exists st' outs,
        lgl_run cfg kind enabled cfg_hash tok_hash linters plinters cap h st = Ok (st', outs) /\
        map fst outs = rhist_docs cfg kind h /\
        Forall (fun p => Forall (lint_in (length (l_src (fst p)))) (snd p)) outs.
Print Assumptions C03_lintgroup_lru_history_in_bounds.

(* non-vacuity: with capacity 1 the second clause of "xy.ab." pops the first (the next call misses twice and the cache
   holds one entry), with capacity 2 the next call hits twice with the same lints; the premises of the theorem hold on
   a history with such an eviction; the capacity read from lint_group.rs (10 000 today; the model follows it) is non-zero *)
Example C03_lintgroup_lru_nonvacuous :
  (exists s1 o1 s2 o2, exl_hits 1 (lg_fresh 129%N) = Ok (s1, o1, [false; false]) /\ exl_hits 1 s1 = Ok (s2, o2, [false; false]) /\
                       length (lg_cache s2) = 1) /\
  (exists s1 o1 s2 o2, exl_hits 2 (lg_fresh 129%N) = Ok (s1, o1, [false; false]) /\ exl_hits 2 s1 = Ok (s2, o2, [true; true]) /\
                       o1 = o2 /\ Forall (lint_in 6) o2) /\
  rhist_ok N N exl_hist /\ N.leb 1 lint_group_cache_cap_N = true.
Proof. exact (conj (proj1 exl_capacity_matters) (conj (proj2 exl_capacity_matters) (conj exl_hist_ok eq_refl))). Qed.

(* ================= the chunk premise of the pattern rules, reduced to the schemas' side conditions ================= *)
(* every classified span source (a token's span, a hull, Between, SuffixSpan, WithLen1 — with its side condition, which
   is part of src_denotes) over tokens inside a window [lo, hi] denotes a span inside that window (lo = 0: the in-bounds
   lemma C03_lint_src_in_bounds) *)
Theorem C03_lint_src_within_window :
  forall lo hi ts k s,
    Forall (fun t => lo <= sstart t /\ sstart t <= send t /\ send t <= hi) ts -> src_denotes ts k s ->
    lo <= sstart s /\ sstart s <= send s /\ send s <= hi.
Proof. exact src_denotes_within. Qed.
Check C03_lint_src_within_window :
  forall lo hi ts k s,
    Forall (fun t => lo <= sstart t /\ sstart t <= send t /\ send t <= hi) ts -> src_denotes ts k s ->
    lo <= sstart s /\ sstart s <= send s /\ send s <= hi.
Print Assumptions C03_lint_src_within_window.

(* for EVERY pattern of Pattern.v's inductive, every chunk whose tokens have start <= end (C02) and every range
   run_on_chunk hands to match_to_lint (C01's roc_ranges_are_matches: a non-empty slice of the chunk): whatever span a
   classified source denotes over the spans of THOSE tokens makes a lint inside the chunk's hull — the premise
   `prules_ok` of C03_lintgroup_history_in_bounds, for a rule body that builds its span from the matched tokens by one
   of the sources of C03_rule_lint_sites_known.  What stays monitored: the side conditions, and that the body uses the
   matched tokens and nothing else (monitor pattern_rule_lint_outside_chunk). *)
Theorem C03_pattern_lint_within_chunk :
  forall leaf oracle src p (chunk : list TokenSeq.tok) l sp,
    Pattern.run_on_chunk leaf oracle p chunk src = Ok l ->
    hull_of (map cview chunk) = Ok (Some sp) ->
    Forall (fun t => sstart (TokenSeq.tspan t) <= send (TokenSeq.tspan t)) chunk ->
    Forall (fun ab => fst ab < snd ab /\ snd ab <= length chunk /\
              forall k s body, src_denotes (map TokenSeq.tspan (slice chunk (fst ab) (snd ab))) k s -> lint_within sp (mkclint s body)) l.
Proof. exact pattern_lint_within_chunk. Qed.
Check C03_pattern_lint_within_chunk :
  forall leaf oracle src p (chunk : list TokenSeq.tok) l sp,
    Pattern.run_on_chunk leaf oracle p chunk src = Ok l ->
    hull_of (map cview chunk) = Ok (Some sp) ->
    Forall (fun t => sstart (TokenSeq.tspan t) <= send (TokenSeq.tspan t)) chunk ->
    Forall (fun ab => fst ab < snd ab /\ snd ab <= length chunk /\
              forall k s body, src_denotes (map TokenSeq.tspan (slice chunk (fst ab) (snd ab))) k s -> lint_within sp (mkclint s body)) l.
Print Assumptions C03_pattern_lint_within_chunk.

Example C03_chunk_premise_nonvacuous :
  Pattern.run_on_chunk (fun _ _ _ => Ok true) (fun _ _ _ => Ok true) (Pattern.PSeq [Pattern.PAny; Pattern.PAny]) exc_chunk [] = Ok [(0, 2)] /\
  hull_of (map cview exc_chunk) = Ok (Some (mkspan 3 9)) /\
  src_denotes (map TokenSeq.tspan (slice exc_chunk 0 2)) LHull (mkspan 3 7) /\
  src_denotes (map TokenSeq.tspan (slice exc_chunk 0 2)) LTokSpan (mkspan 3 6) /\
  src_denotes (map TokenSeq.tspan (slice exc_chunk 0 2)) LBetween (mkspan 3 7) /\
  src_denotes (map TokenSeq.tspan (slice exc_chunk 0 2)) LWithLen1 (mkspan 3 4) /\
  lint_within (mkspan 3 9) (mkclint (mkspan 3 7) 0%N) /\ ~ lint_within (mkspan 3 9) (mkclint (mkspan 7 10) 0%N).
Proof. exact chunk_premise_example. Qed.

(* non-vacuity: all three kinds on a concrete text, incl. the equal-length in-place path, a span
   touching the end, and the rejected case *)
Example C03_nonvacuous :
  apply (ReplaceWith [120; 121]%N) (mkspan 1 3) [97; 98; 99; 100]%N = Ok [97; 120; 121; 100]%N /\
  apply (ReplaceWith [120]%N) (mkspan 1 3) [97; 98; 99; 100]%N = Ok [97; 120; 100]%N /\
  apply (InsertAfter [44]%N) (mkspan 2 4) [97; 98; 99; 100]%N = Ok [97; 98; 99; 100; 44]%N /\
  apply Remove (mkspan 0 2) [97; 98; 99; 100]%N = Ok [99; 100]%N /\
  apply (InsertAfter [44]%N) (mkspan 2 5) [97; 98; 99; 100]%N = Panic PIndex.
Proof. vm_compute. repeat split. Qed.


(* ================= phase 5: the pattern rules' bodies — span sources with their ROOT variable (Model/C03Roots.v) ================= *)
(* the expression language the table parses rule bodies into (a token of the matched slice by constant / first / last /
   len-k / run-time index; the hull of a sub-slice with constant or run-time bounds): whatever span an expression
   denotes on a slice whose tokens lie in a window lies in that window, for EVERY value of the run-time indices.  No
   side condition (an index out of range, `?` on None, the hull of an empty slice: no lint). *)
Theorem C03_span_expr_within_window :
  forall (kind : Type) lo hi (mt : list (Cache.tok kind)) dyn a s,
    Forall (fun t => lo <= sstart (snd t) /\ sstart (snd t) <= send (snd t) /\ send (snd t) <= hi) mt ->
    C03Roots.eval_src mt dyn a = Some s ->
    lo <= sstart s /\ sstart s <= send s /\ send s <= hi.
Proof. exact C03RootsProofs.eval_src_within. Qed.
Check C03_span_expr_within_window :
  forall (kind : Type) lo hi (mt : list (Cache.tok kind)) dyn a s,
    Forall (fun t => lo <= sstart (snd t) /\ sstart (snd t) <= send (snd t) /\ send (snd t) <= hi) mt ->
    C03Roots.eval_src mt dyn a = Some s ->
    lo <= sstart s /\ sstart s <= send s /\ send s <= hi.
Print Assumptions C03_span_expr_within_window.

(* what the regenerated table says about harper-core/src/linting/** today: in every `impl PatternLinter for X` the span of
   every Lint construction of match_to_lint, and the receiver of every get_content / get_content_string, parses into the
   language AND is rooted in the matched-tokens parameter (not shadowed) — the lists of exceptions are empty; no such
   file constructs a Lint outside match_to_lint; every name LintGroup registers with insert_pattern_rule!, and every type
   registered through add_pattern_linter elsewhere (MapPhraseLinter, ProperNounCapitalizationLinter), is a row *)
Theorem C03_pattern_rule_table_rooted :
  C03RootsProofs.rows_not_matched = nil /\ C03RootsProofs.rows_reads_not_matched = nil /\
  Tables_c03roots.pattern_files_lints_outside = nil /\
  forallb C03RootsProofs.name_is_row Tables_c03roots.curated_pattern_rules = true /\
  forallb (fun fr => C03RootsProofs.name_is_row (snd fr)) Tables_c03roots.other_pattern_registrations = true /\
  20 <= length Tables_c03roots.curated_pattern_rules /\ 30 <= length Tables_c03roots.pattern_rule_bodies.
Proof. exact C03RootsProofs.table_all_rooted_in_matched_tokens. Qed.
Check C03_pattern_rule_table_rooted :
  C03RootsProofs.rows_not_matched = nil /\ C03RootsProofs.rows_reads_not_matched = nil /\
  Tables_c03roots.pattern_files_lints_outside = nil /\
  forallb C03RootsProofs.name_is_row Tables_c03roots.curated_pattern_rules = true /\
  forallb (fun fr => C03RootsProofs.name_is_row (snd fr)) Tables_c03roots.other_pattern_registrations = true /\
  20 <= length Tables_c03roots.curated_pattern_rules /\ 30 <= length Tables_c03roots.pattern_rule_bodies.
Print Assumptions C03_pattern_rule_table_rooted.

(* THE CHUNK PREMISE, DISCHARGED: a LintGroup whose pattern rules are rules of the table — run_on_chunk (Pattern.v) with
   ANY pattern and closures, a body that reaches any of the row's Lint constructions with any run-time values and any
   payload, or none — satisfies the premise `prules_ok` of C03_lintgroup_history_in_bounds.  Trusted here: the scanner
   (that a body's lint span IS what the row says); tied by the `R` correspondence lines. *)
Theorem C03_table_pattern_rules_ok :
  forall (plinters : list (N * prule C03Roots.pkind)),
    (forall n r, In (n, r) plinters ->
       exists row leaf oracle p sel,
         In row Tables_c03roots.pattern_rule_bodies /\ C03Roots.row_lints_matched row = true /\
         r = C03Roots.pattern_prule leaf oracle p (C03Roots.row_lint_asts row) sel) ->
    forall n r t src ts sp, In (n, r) plinters -> toks_wf C03Roots.pkind ts -> hull_of ts = Ok (Some sp) -> send sp <= length src ->
      Forall (lint_within sp) (r t src ts).
Proof. exact C03RootsProofs.table_pattern_rules_ok. Qed.
Check C03_table_pattern_rules_ok :
  forall (plinters : list (N * prule C03Roots.pkind)),
    (forall n r, In (n, r) plinters ->
       exists row leaf oracle p sel,
         In row Tables_c03roots.pattern_rule_bodies /\ C03Roots.row_lints_matched row = true /\
         r = C03Roots.pattern_prule leaf oracle p (C03Roots.row_lint_asts row) sel) ->
    forall n r t src ts sp, In (n, r) plinters -> toks_wf C03Roots.pkind ts -> hull_of ts = Ok (Some sp) -> send sp <= length src ->
      Forall (lint_within sp) (r t src ts).
Print Assumptions C03_table_pattern_rules_ok.

(* ... hence over every history of such a LintGroup only the WHOLE-DOCUMENT rules need a premise *)
Theorem C03_table_lintgroup_history_in_bounds :
  forall (cfg : Type) (enabled : cfg -> N -> bool) (cfg_hash : cfg -> N) (tok_hash : list (Cache.tok C03Roots.pkind) -> N)
         (linters : list (N * wrule C03Roots.pkind)) (plinters : list (N * prule C03Roots.pkind)),
    (forall n r t d, In (n, r) linters -> doc_ok C03Roots.pkind d -> Forall (lint_in (length (l_src d))) (r t d)) ->
    (forall n r, In (n, r) plinters ->
       exists row leaf oracle p sel,
         In row Tables_c03roots.pattern_rule_bodies /\ C03Roots.row_lints_matched row = true /\
         r = C03Roots.pattern_prule leaf oracle p (C03Roots.row_lint_asts row) sel) ->
    forall (h : list (lop cfg C03Roots.pkind)) (st : lstate cfg),
      hist_ok cfg C03Roots.pkind h -> cache_ok (lg_cache st) ->
      exists st' outs,
        lg_run cfg C03Roots.pkind enabled cfg_hash tok_hash linters plinters h st = Ok (st', outs) /\
        cache_ok (lg_cache st') /\
        map fst outs = hist_docs cfg C03Roots.pkind h /\
        Forall (fun p => Forall (lint_in (length (l_src (fst p)))) (snd p)) outs.
Proof. exact C03RootsProofs.table_lintgroup_history_in_bounds. Qed.
Check C03_table_lintgroup_history_in_bounds :
  forall (cfg : Type) (enabled : cfg -> N -> bool) (cfg_hash : cfg -> N) (tok_hash : list (Cache.tok C03Roots.pkind) -> N)
         (linters : list (N * wrule C03Roots.pkind)) (plinters : list (N * prule C03Roots.pkind)),
    (forall n r t d, In (n, r) linters -> doc_ok C03Roots.pkind d -> Forall (lint_in (length (l_src d))) (r t d)) ->
    (forall n r, In (n, r) plinters ->
       exists row leaf oracle p sel,
         In row Tables_c03roots.pattern_rule_bodies /\ C03Roots.row_lints_matched row = true /\
         r = C03Roots.pattern_prule leaf oracle p (C03Roots.row_lint_asts row) sel) ->
    forall (h : list (lop cfg C03Roots.pkind)) (st : lstate cfg),
      hist_ok cfg C03Roots.pkind h -> cache_ok (lg_cache st) ->
      exists st' outs,
        lg_run cfg C03Roots.pkind enabled cfg_hash tok_hash linters plinters h st = Ok (st', outs) /\
        cache_ok (lg_cache st') /\
        map fst outs = hist_docs cfg C03Roots.pkind h /\
        Forall (fun p => Forall (lint_in (length (l_src (fst p)))) (snd p)) outs.
Print Assumptions C03_table_lintgroup_history_in_bounds.

(* every span a pattern rule body READS (the table's SRead sites are expressions over the matched tokens as well): inside
   the chunk, hence inside the source — get_content is total on it and returns end - start characters (no panic) *)
Theorem C03_pattern_reads_inside_source :
  forall (kind : Type) (ts mt : list (Cache.tok kind)) sp dyn a s (src : text),
    toks_wf kind ts -> hull_of ts = Ok (Some sp) -> send sp <= length src -> incl mt ts ->
    C03Roots.eval_src mt dyn a = Some s ->
    exists chars, get_content s src = Ok chars /\ length chars = send s - sstart s.
Proof. exact C03RootsProofs.eval_src_read_ok. Qed.
Check C03_pattern_reads_inside_source :
  forall (kind : Type) (ts mt : list (Cache.tok kind)) sp dyn a s (src : text),
    toks_wf kind ts -> hull_of ts = Ok (Some sp) -> send sp <= length src -> incl mt ts ->
    C03Roots.eval_src mt dyn a = Some s ->
    exists chars, get_content s src = Ok chars /\ length chars = send s - sstart s.
Print Assumptions C03_pattern_reads_inside_source.

(* census (regenerated table): of the Suggestion constructions in pattern rule bodies none is given characters read from a
   span that is not an expression over the matched tokens; those reading matched tokens beyond the lint's own span are
   C03RootsProofs.payloads_beyond_lint_span (DotInitialisms, ModalOf, MultipleSequentialPronouns x2, ThatWhich, WasAloud,
   LetUsRedundancy today; in all seven the token read is one of the tokens the lint span is the hull of, so by hand: the
   characters still come from inside the lint span — notes/C03.md) *)
Theorem C03_pattern_suggestion_payloads_known :
  filter C03RootsProofs.payload_other Tables_c03roots.pattern_suggestion_payloads = nil /\
  30 <= length Tables_c03roots.pattern_suggestion_payloads.
Proof. exact C03RootsProofs.pattern_suggestion_payloads_known. Qed.
Check C03_pattern_suggestion_payloads_known :
  filter C03RootsProofs.payload_other Tables_c03roots.pattern_suggestion_payloads = nil /\
  30 <= length Tables_c03roots.pattern_suggestion_payloads.
Print Assumptions C03_pattern_suggestion_payloads_known.

(* non-vacuity: the row of Hereby (`matched_tokens[0..3].span()?`) as a rule of the table on the clause "ab cd ef." at
   2..11: two matches, two lints inside the chunk; len-3, run-time bounds, an index out of range, a slice too short *)
Example C03_table_rule_nonvacuous :
  C03Roots.row_lint_asts C03RootsProofs.exr_row = [C03Roots.AHull (Some (C03Roots.IConst 0)) (C03Roots.HExcl (C03Roots.IConst 3))] /\
  C03RootsProofs.table_rule C03RootsProofs.exr_rule /\
  hull_of C03RootsProofs.exr_chunk = Ok (Some (mkspan 2 11)) /\
  C03RootsProofs.exr_rule 0 [] C03RootsProofs.exr_chunk = [mkclint (mkspan 2 7) 5%N; mkclint (mkspan 7 11) 5%N] /\
  C03Roots.eval_src C03RootsProofs.exr_chunk (fun _ => 0) (C03Roots.ATok (C03Roots.ILenMinus 3)) = Some (mkspan 7 8) /\
  C03Roots.eval_src C03RootsProofs.exr_chunk (fun j => 4 + j) (C03Roots.AHull (Some (C03Roots.IDyn 0)) (C03Roots.HIncl (C03Roots.IDyn 1))) = Some (mkspan 8 11) /\
  C03Roots.eval_src C03RootsProofs.exr_chunk (fun _ => 6) (C03Roots.ATok (C03Roots.IDyn 0)) = None /\
  C03Roots.eval_src (firstn 2 C03RootsProofs.exr_chunk) (fun _ => 0) (C03Roots.AHull (Some (C03Roots.IConst 0)) (C03Roots.HExcl (C03Roots.IConst 3))) = None.
Proof. exact (proj2 C03RootsProofs.table_rule_example). Qed.

(* ================= phase 6: the WHOLE-DOCUMENT (struct) rules' premise, reduced to one named rule =================
   Tables_c03structroots.v (regenerated on every run by tools/tables/c03structroots.py) parses the span of every Lint every
   `impl Linter for X` of linting/*.rs can construct (fn lint and the helpers it calls) into DTok | DHull | DBetween | DSuffix |
   DWithLen1 | DUnknown and records the root of its tokens (document / chunk / sentence / paragraph / helper parameter / other). *)

(* every classified source, for EVERY value of its run-time token indices, over tokens inside the source (the C02 token
   invariant: start <= end <= n) denotes a span inside the document; no side condition (Span::new out of order: panic, no lint;
   pulled_by(2) below 2: None, no lint) *)
Theorem C03_struct_span_expr_in_document :
  forall (kind : Type) n (ts : list (Cache.tok kind)) dyn a s,
    Forall (C03RootsProofs.tok_within 0 n) ts -> C03StructRoots.dsrc_classified a = true ->
    C03StructRoots.eval_dsrc ts dyn a = Some s -> span_in n s.
Proof. exact C03StructRootsProofs.eval_dsrc_in. Qed.
Check C03_struct_span_expr_in_document :
  forall (kind : Type) n (ts : list (Cache.tok kind)) dyn a s,
    Forall (C03RootsProofs.tok_within 0 n) ts -> C03StructRoots.dsrc_classified a = true ->
    C03StructRoots.eval_dsrc ts dyn a = Some s -> span_in n s.
Print Assumptions C03_struct_span_expr_in_document.

(* a whole-document rule = any number of lints per call, each made by one of the Lint constructions of a CLASSIFIED row of the
   table with any run-time indices and payload, over tokens `dtoks d` that satisfy the invariant: it satisfies wrules_ok; rules
   that are not such rows keep their premise (second disjunct) *)
Theorem C03_table_struct_rules_ok :
  forall (dtoks : ldoc C03Roots.pkind -> list (Cache.tok C03Roots.pkind)) (linters : list (N * wrule C03Roots.pkind)),
    (forall d, doc_ok C03Roots.pkind d -> Forall (C03RootsProofs.tok_within 0 (length (l_src d))) (dtoks d)) ->
    (forall n r, In (n, r) linters ->
       (exists row sel, In row Tables_c03structroots.struct_rule_bodies /\ C03StructRoots.drow_classified row = true /\
                        r = C03StructRoots.struct_wrule dtoks (C03StructRoots.drow_srcs row) sel) \/
       (forall t d, doc_ok C03Roots.pkind d -> Forall (lint_in (length (l_src d))) (r t d))) ->
    forall n r t d, In (n, r) linters -> doc_ok C03Roots.pkind d -> Forall (lint_in (length (l_src d))) (r t d).
Proof. exact C03StructRootsProofs.table_struct_rules_ok. Qed.
Check C03_table_struct_rules_ok :
  forall (dtoks : ldoc C03Roots.pkind -> list (Cache.tok C03Roots.pkind)) (linters : list (N * wrule C03Roots.pkind)),
    (forall d, doc_ok C03Roots.pkind d -> Forall (C03RootsProofs.tok_within 0 (length (l_src d))) (dtoks d)) ->
    (forall n r, In (n, r) linters ->
       (exists row sel, In row Tables_c03structroots.struct_rule_bodies /\ C03StructRoots.drow_classified row = true /\
                        r = C03StructRoots.struct_wrule dtoks (C03StructRoots.drow_srcs row) sel) \/
       (forall t d, doc_ok C03Roots.pkind d -> Forall (lint_in (length (l_src d))) (r t d))) ->
    forall n r t d, In (n, r) linters -> doc_ok C03Roots.pkind d -> Forall (lint_in (length (l_src d))) (r t d).
Print Assumptions C03_table_struct_rules_ok.

(* today's table: every `impl Linter for` of linting/*.rs is classified EXCEPT (at most) SentenceCapitalization
   (`first_word.span.with_len(1)` needs a non-empty word token) — C03StructRootsProofs.struct_rules_with_premise is the list of
   this one name; a new unclassified rule breaks this theorem *)
Theorem C03_struct_rules_with_premise :
  forallb (fun n => existsb (String.eqb n) C03StructRootsProofs.struct_rules_with_premise)
          C03StructRootsProofs.struct_rows_unclassified = true /\
  15 <= length Tables_c03structroots.struct_rule_bodies /\
  length (filter C03StructRoots.drow_classified Tables_c03structroots.struct_rule_bodies) +
    length C03StructRootsProofs.struct_rows_unclassified = length Tables_c03structroots.struct_rule_bodies.
Proof. exact C03StructRootsProofs.struct_table_today. Qed.
Check C03_struct_rules_with_premise :
  forallb (fun n => existsb (String.eqb n) C03StructRootsProofs.struct_rules_with_premise)
          C03StructRootsProofs.struct_rows_unclassified = true /\
  15 <= length Tables_c03structroots.struct_rule_bodies /\
  length (filter C03StructRoots.drow_classified Tables_c03structroots.struct_rule_bodies) +
    length C03StructRootsProofs.struct_rows_unclassified = length Tables_c03structroots.struct_rule_bodies.
Print Assumptions C03_struct_rules_with_premise.

(* the token invariant itself follows from doc_ok when the tokens are those of the document's chunks *)
Theorem C03_chunk_tokens_in_source :
  forall (kind : Type) (d : ldoc kind), doc_ok kind d ->
    Forall (C03RootsProofs.tok_within 0 (length (l_src d))) (concat (l_chunks d)).
Proof. exact C03StructRootsProofs.chunk_tokens_in_source. Qed.
Check C03_chunk_tokens_in_source :
  forall (kind : Type) (d : ldoc kind), doc_ok kind d ->
    Forall (C03RootsProofs.tok_within 0 (length (l_src d))) (concat (l_chunks d)).
Print Assumptions C03_chunk_tokens_in_source.

(* LintGroup::lint over every history: pattern rules = rules of the pattern table, whole-document rules = classified rows of the
   struct table (or rules with their own premise: today only the one named above and rules outside linting/*.rs): given the token
   invariant, no call panics and every lint lies inside the document of its call *)
Theorem C03_table_struct_lintgroup_history_in_bounds :
  forall (cfg : Type) (enabled : cfg -> N -> bool) (cfg_hash : cfg -> N) (tok_hash : list (Cache.tok C03Roots.pkind) -> N)
         (dtoks : ldoc C03Roots.pkind -> list (Cache.tok C03Roots.pkind))
         (linters : list (N * wrule C03Roots.pkind)) (plinters : list (N * prule C03Roots.pkind)),
    (forall d, doc_ok C03Roots.pkind d -> Forall (C03RootsProofs.tok_within 0 (length (l_src d))) (dtoks d)) ->
    (forall n r, In (n, r) linters ->
       (exists row sel, In row Tables_c03structroots.struct_rule_bodies /\ C03StructRoots.drow_classified row = true /\
                        r = C03StructRoots.struct_wrule dtoks (C03StructRoots.drow_srcs row) sel) \/
       (forall t d, doc_ok C03Roots.pkind d -> Forall (lint_in (length (l_src d))) (r t d))) ->
    (forall n r, In (n, r) plinters ->
       exists row leaf oracle p sel,
         In row Tables_c03roots.pattern_rule_bodies /\ C03Roots.row_lints_matched row = true /\
         r = C03Roots.pattern_prule leaf oracle p (C03Roots.row_lint_asts row) sel) ->
    forall (h : list (lop cfg C03Roots.pkind)) (st : lstate cfg),
      hist_ok cfg C03Roots.pkind h -> cache_ok (lg_cache st) ->
      exists st' outs,
        lg_run cfg C03Roots.pkind enabled cfg_hash tok_hash linters plinters h st = Ok (st', outs) /\
        cache_ok (lg_cache st') /\
        map fst outs = hist_docs cfg C03Roots.pkind h /\
        Forall (fun p => Forall (lint_in (length (l_src (fst p)))) (snd p)) outs.
Proof. exact C03StructRootsProofs.table_struct_lintgroup_history_in_bounds. Qed.
Check C03_table_struct_lintgroup_history_in_bounds :
  forall (cfg : Type) (enabled : cfg -> N -> bool) (cfg_hash : cfg -> N) (tok_hash : list (Cache.tok C03Roots.pkind) -> N)
         (dtoks : ldoc C03Roots.pkind -> list (Cache.tok C03Roots.pkind))
         (linters : list (N * wrule C03Roots.pkind)) (plinters : list (N * prule C03Roots.pkind)),
    (forall d, doc_ok C03Roots.pkind d -> Forall (C03RootsProofs.tok_within 0 (length (l_src d))) (dtoks d)) ->
    (forall n r, In (n, r) linters ->
       (exists row sel, In row Tables_c03structroots.struct_rule_bodies /\ C03StructRoots.drow_classified row = true /\
                        r = C03StructRoots.struct_wrule dtoks (C03StructRoots.drow_srcs row) sel) \/
       (forall t d, doc_ok C03Roots.pkind d -> Forall (lint_in (length (l_src d))) (r t d))) ->
    (forall n r, In (n, r) plinters ->
       exists row leaf oracle p sel,
         In row Tables_c03roots.pattern_rule_bodies /\ C03Roots.row_lints_matched row = true /\
         r = C03Roots.pattern_prule leaf oracle p (C03Roots.row_lint_asts row) sel) ->
    forall (h : list (lop cfg C03Roots.pkind)) (st : lstate cfg),
      hist_ok cfg C03Roots.pkind h -> cache_ok (lg_cache st) ->
      exists st' outs,
        lg_run cfg C03Roots.pkind enabled cfg_hash tok_hash linters plinters h st = Ok (st', outs) /\
        cache_ok (lg_cache st') /\
        map fst outs = hist_docs cfg C03Roots.pkind h /\
        Forall (fun p => Forall (lint_in (length (l_src (fst p)))) (snd p)) outs.
Print Assumptions C03_table_struct_lintgroup_history_in_bounds.

(* non-vacuity: the row of MergeWords as a rule over the chunk tokens of "ab cd ef." at 2..11 (two lints; Span::new out of
   order and a missing token give none); hull and suffix sources; why with_len(1) is not classified *)
Example C03_struct_table_rule_nonvacuous :
  C03StructRoots.d_name C03StructRootsProofs.exs_row = C03StructRootsProofs.exs_name /\
  C03StructRoots.drow_srcs C03StructRootsProofs.exs_row = [C03StructRoots.DBetween; C03StructRoots.DBetween] /\
  C03StructRootsProofs.struct_table_rule (fun d => concat (l_chunks d)) C03StructRootsProofs.exs_rule /\
  doc_ok C03Roots.pkind C03StructRootsProofs.exs_doc /\
  C03StructRootsProofs.exs_rule 0 C03StructRootsProofs.exs_doc = [mkclint (mkspan 2 7) 7%N; mkclint (mkspan 5 10) 8%N] /\
  C03StructRoots.eval_dsrc C03RootsProofs.exr_chunk (fun j => 2 * j + 2) C03StructRoots.DHull = Some (mkspan 5 8) /\
  C03StructRoots.eval_dsrc C03RootsProofs.exr_chunk (fun _ => 4) C03StructRoots.DSuffix = Some (mkspan 8 10) /\
  C03StructRoots.eval_dsrc [((0, 1%N, 0), mkspan 0 1)] (fun _ => 0) C03StructRoots.DSuffix = None /\
  C03StructRoots.eval_dsrc [((0, 1%N, 0), mkspan 11 11)] (fun _ => 0) C03StructRoots.DWithLen1 = Some (mkspan 11 12) /\
  ~ span_in 11 (mkspan 11 12).
Proof. exact C03StructRootsProofs.struct_table_rule_example. Qed.

(* ================= phase 7: SentenceCapitalization — the last struct rule's premise, from the lexer (C02) ================= *)
Require C03StructWord C03StructWordProofs.
Require Lexer Condense LexerProofs C02Gapped.

(* phase 7 — over NON-EMPTY tokens inside the source EVERY parsed source, `T.span.with_len(1)` included, denotes a span inside the
   document for every value of its run-time token indices (only DUnknown is excluded) *)
Theorem C03_struct_span_expr_in_document_nonempty :
  forall (kind : Type) n (ts : list (Cache.tok kind)) dyn a s,
    Forall (fun t : Cache.tok kind => sstart (snd t) < send (snd t) /\ send (snd t) <= n) ts ->
    a <> C03StructRoots.DUnknown -> C03StructRoots.eval_dsrc ts dyn a = Some s -> span_in n s.
Proof. exact C03StructWordProofs.eval_dsrc_in_ne_pin. Qed.
Check C03_struct_span_expr_in_document_nonempty :
  forall (kind : Type) n (ts : list (Cache.tok kind)) dyn a s,
    Forall (fun t : Cache.tok kind => sstart (snd t) < send (snd t) /\ send (snd t) <= n) ts ->
    a <> C03StructRoots.DUnknown -> C03StructRoots.eval_dsrc ts dyn a = Some s -> span_in n s.
Print Assumptions C03_struct_span_expr_in_document_nonempty.

(* the lexer side, imported from C02 (document_plain_tiling: the tokens of Document::new_plain_english tile the text): every token
   of a plain-English document — so the first word of every sentence — is non-empty and inside the source; ANY Unicode tables, any
   encoding of kinds; no hypothesis (plain_dtoks = Condense.document_plain, the C02 model, read as LintGroup's document.tokens) *)
Theorem C03_plain_tokens_nonempty_in_source :
  forall (u : Lexer.uni) (enc : Lexer.token -> C03Roots.pkind) (d : ldoc C03Roots.pkind),
    Forall (fun t : Cache.tok C03Roots.pkind => sstart (snd t) < send (snd t) /\ send (snd t) <= length (l_src d))
           (C03StructWord.plain_dtoks u enc d).
Proof. exact C03StructWordProofs.plain_tokens_pin. Qed.
Check C03_plain_tokens_nonempty_in_source :
  forall (u : Lexer.uni) (enc : Lexer.token -> C03Roots.pkind) (d : ldoc C03Roots.pkind),
    Forall (fun t : Cache.tok C03Roots.pkind => sstart (snd t) < send (snd t) /\ send (snd t) <= length (l_src d))
           (C03StructWord.plain_dtoks u enc d).
Print Assumptions C03_plain_tokens_nonempty_in_source.

(* a whole-document rule built from ANY row whose sources are all parsed (drow_classified_ne: with_len(1) allowed, roots classified)
   satisfies wrules_ok when the document's tokens are non-empty and inside the source *)
Theorem C03_table_struct_rules_ok_nonempty :
  forall (dtoks : ldoc C03Roots.pkind -> list (Cache.tok C03Roots.pkind)) (linters : list (N * wrule C03Roots.pkind)),
    (forall d, doc_ok C03Roots.pkind d ->
       Forall (fun t : Cache.tok C03Roots.pkind => sstart (snd t) < send (snd t) /\ send (snd t) <= length (l_src d)) (dtoks d)) ->
    (forall n r, In (n, r) linters ->
       (exists row sel, In row Tables_c03structroots.struct_rule_bodies /\ C03StructWord.drow_classified_ne row = true /\
                        r = C03StructRoots.struct_wrule dtoks (C03StructRoots.drow_srcs row) sel) \/
       (forall t d, doc_ok C03Roots.pkind d -> Forall (lint_in (length (l_src d))) (r t d))) ->
    forall n r t d, In (n, r) linters -> doc_ok C03Roots.pkind d -> Forall (lint_in (length (l_src d))) (r t d).
Proof. exact C03StructWordProofs.table_struct_rules_ok_ne. Qed.
Check C03_table_struct_rules_ok_nonempty :
  forall (dtoks : ldoc C03Roots.pkind -> list (Cache.tok C03Roots.pkind)) (linters : list (N * wrule C03Roots.pkind)),
    (forall d, doc_ok C03Roots.pkind d ->
       Forall (fun t : Cache.tok C03Roots.pkind => sstart (snd t) < send (snd t) /\ send (snd t) <= length (l_src d)) (dtoks d)) ->
    (forall n r, In (n, r) linters ->
       (exists row sel, In row Tables_c03structroots.struct_rule_bodies /\ C03StructWord.drow_classified_ne row = true /\
                        r = C03StructRoots.struct_wrule dtoks (C03StructRoots.drow_srcs row) sel) \/
       (forall t d, doc_ok C03Roots.pkind d -> Forall (lint_in (length (l_src d))) (r t d))) ->
    forall n r t d, In (n, r) linters -> doc_ok C03Roots.pkind d -> Forall (lint_in (length (l_src d))) (r t d).
Print Assumptions C03_table_struct_rules_ok_nonempty.

(* today's table: for documents whose tokens are non-empty (plain English) the list of struct rules that keep a premise is EMPTY;
   every with_len(1) site is dominated by `if !T.kind.is_word() { continue; }` (struct_word_guards, regenerated); the rules of
   C03_struct_rules_with_premise are the rows with a with_len(1) site *)
Theorem C03_struct_rules_with_premise_plain :
  C03StructWordProofs.struct_rows_unclassified_ne = [] /\ C03StructWordProofs.struct_rows_unguarded = [] /\
  forallb (fun n => existsb (fun r => String.eqb (C03StructRoots.d_name r) n &&
                                      existsb (fun s => match C03StructRoots.d_src s with C03StructRoots.DWithLen1 => true | _ => false end) (C03StructRoots.d_sites r))
                            Tables_c03structroots.struct_rule_bodies) C03StructRootsProofs.struct_rules_with_premise = true /\
  15 <= length (filter C03StructWord.drow_classified_ne Tables_c03structroots.struct_rule_bodies).
Proof. exact C03StructWordProofs.struct_table_plain_today. Qed.
Check C03_struct_rules_with_premise_plain :
  C03StructWordProofs.struct_rows_unclassified_ne = [] /\ C03StructWordProofs.struct_rows_unguarded = [] /\
  forallb (fun n => existsb (fun r => String.eqb (C03StructRoots.d_name r) n &&
                                      existsb (fun s => match C03StructRoots.d_src s with C03StructRoots.DWithLen1 => true | _ => false end) (C03StructRoots.d_sites r))
                            Tables_c03structroots.struct_rule_bodies) C03StructRootsProofs.struct_rules_with_premise = true /\
  15 <= length (filter C03StructWord.drow_classified_ne Tables_c03structroots.struct_rule_bodies).
Print Assumptions C03_struct_rules_with_premise_plain.

(* LintGroup::lint on plain-English documents, every history: whole-document rules = rows of the struct table over the tokens of
   Document::new_plain_english (or rules with their own premise — today: only rules that are not rows), pattern rules = rules of the
   pattern table: no call panics, every lint inside its document — NO token hypothesis, NO premise on SentenceCapitalization *)
Theorem C03_plain_struct_lintgroup_history_in_bounds :
  forall (cfg : Type) (enabled : cfg -> N -> bool) (cfg_hash : cfg -> N) (tok_hash : list (Cache.tok C03Roots.pkind) -> N)
         (u : Lexer.uni) (enc : Lexer.token -> C03Roots.pkind)
         (linters : list (N * wrule C03Roots.pkind)) (plinters : list (N * prule C03Roots.pkind)),
    (forall n r, In (n, r) linters ->
       (exists row sel, In row Tables_c03structroots.struct_rule_bodies /\ C03StructWord.drow_classified_ne row = true /\
                        r = C03StructRoots.struct_wrule (C03StructWord.plain_dtoks u enc) (C03StructRoots.drow_srcs row) sel) \/
       (forall t d, doc_ok C03Roots.pkind d -> Forall (lint_in (length (l_src d))) (r t d))) ->
    (forall n r, In (n, r) plinters ->
       exists row leaf oracle p sel,
         In row Tables_c03roots.pattern_rule_bodies /\ C03Roots.row_lints_matched row = true /\
         r = C03Roots.pattern_prule leaf oracle p (C03Roots.row_lint_asts row) sel) ->
    forall (h : list (lop cfg C03Roots.pkind)) (st : lstate cfg),
      hist_ok cfg C03Roots.pkind h -> cache_ok (lg_cache st) ->
      exists st' outs,
        lg_run cfg C03Roots.pkind enabled cfg_hash tok_hash linters plinters h st = Ok (st', outs) /\
        cache_ok (lg_cache st') /\
        map fst outs = hist_docs cfg C03Roots.pkind h /\
        Forall (fun p => Forall (lint_in (length (l_src (fst p)))) (snd p)) outs.
Proof. exact C03StructWordProofs.plain_struct_lintgroup_history_in_bounds. Qed.
Check C03_plain_struct_lintgroup_history_in_bounds :
  forall (cfg : Type) (enabled : cfg -> N -> bool) (cfg_hash : cfg -> N) (tok_hash : list (Cache.tok C03Roots.pkind) -> N)
         (u : Lexer.uni) (enc : Lexer.token -> C03Roots.pkind)
         (linters : list (N * wrule C03Roots.pkind)) (plinters : list (N * prule C03Roots.pkind)),
    (forall n r, In (n, r) linters ->
       (exists row sel, In row Tables_c03structroots.struct_rule_bodies /\ C03StructWord.drow_classified_ne row = true /\
                        r = C03StructRoots.struct_wrule (C03StructWord.plain_dtoks u enc) (C03StructRoots.drow_srcs row) sel) \/
       (forall t d, doc_ok C03Roots.pkind d -> Forall (lint_in (length (l_src d))) (r t d))) ->
    (forall n r, In (n, r) plinters ->
       exists row leaf oracle p sel,
         In row Tables_c03roots.pattern_rule_bodies /\ C03Roots.row_lints_matched row = true /\
         r = C03Roots.pattern_prule leaf oracle p (C03Roots.row_lint_asts row) sel) ->
    forall (h : list (lop cfg C03Roots.pkind)) (st : lstate cfg),
      hist_ok cfg C03Roots.pkind h -> cache_ok (lg_cache st) ->
      exists st' outs,
        lg_run cfg C03Roots.pkind enabled cfg_hash tok_hash linters plinters h st = Ok (st', outs) /\
        cache_ok (lg_cache st') /\
        map fst outs = hist_docs cfg C03Roots.pkind h /\
        Forall (fun p => Forall (lint_in (length (l_src (fst p)))) (snd p)) outs.
Print Assumptions C03_plain_struct_lintgroup_history_in_bounds.

(* the other front-ends (zero-width Newline / ParagraphBreak tokens exist): with_len(1) evaluated only on a token `isw` accepts (the
   is_word() guard) stays inside the document when tokens lie inside the source and WORD tokens are non-empty *)
Theorem C03_word_guard_span_in_document :
  forall (kind : Type) (isw : kind -> bool) n (ts : list (Cache.tok kind)) dyn a s,
    Forall (C03RootsProofs.tok_within 0 n) ts ->
    Forall (fun t : Cache.tok kind => isw (fst t) = true -> sstart (snd t) < send (snd t)) ts ->
    C03StructWord.dsrc_classified_ne a = true -> C03StructWord.eval_dsrc_w isw ts dyn a = Some s -> span_in n s.
Proof. exact C03StructWordProofs.eval_dsrc_w_in. Qed.
Check C03_word_guard_span_in_document :
  forall (kind : Type) (isw : kind -> bool) n (ts : list (Cache.tok kind)) dyn a s,
    Forall (C03RootsProofs.tok_within 0 n) ts ->
    Forall (fun t : Cache.tok kind => isw (fst t) = true -> sstart (snd t) < send (snd t)) ts ->
    C03StructWord.dsrc_classified_ne a = true -> C03StructWord.eval_dsrc_w isw ts dyn a = Some s -> span_in n s.
Print Assumptions C03_word_guard_span_in_document.

(* ... and C02's property-level invariant TokInv (proved there for the wrapped / gapped front-ends) gives exactly that: a Word token is
   never zero-width *)
Theorem C03_tokinv_word_tokens_nonempty :
  forall (enc : Lexer.token -> C03Roots.pkind) (isw : C03Roots.pkind -> bool) n ts,
    (forall t, isw (enc t) = true -> Lexer.tkind_of t = Lexer.KWord) ->
    C02Gapped.TokInv n ts ->
    Forall (fun t : Cache.tok C03Roots.pkind => isw (fst t) = true -> sstart (snd t) < send (snd t)) (C03StructWord.plain_ctoks enc ts).
Proof. exact C03StructWordProofs.tokinv_word_tokens_nonempty. Qed.
Check C03_tokinv_word_tokens_nonempty :
  forall (enc : Lexer.token -> C03Roots.pkind) (isw : C03Roots.pkind -> bool) n ts,
    (forall t, isw (enc t) = true -> Lexer.tkind_of t = Lexer.KWord) ->
    C02Gapped.TokInv n ts ->
    Forall (fun t : Cache.tok C03Roots.pkind => isw (fst t) = true -> sstart (snd t) < send (snd t)) (C03StructWord.plain_ctoks enc ts).
Print Assumptions C03_tokinv_word_tokens_nonempty.

(* rows with guarded with_len(1) sites satisfy wrules_ok under the token invariant + non-empty word tokens *)
Theorem C03_table_struct_rules_ok_word_guard :
  forall (isw : C03Roots.pkind -> bool) (dtoks : ldoc C03Roots.pkind -> list (Cache.tok C03Roots.pkind))
         (linters : list (N * wrule C03Roots.pkind)),
    (forall d, doc_ok C03Roots.pkind d -> Forall (C03RootsProofs.tok_within 0 (length (l_src d))) (dtoks d)) ->
    (forall d, doc_ok C03Roots.pkind d ->
       Forall (fun t : Cache.tok C03Roots.pkind => isw (fst t) = true -> sstart (snd t) < send (snd t)) (dtoks d)) ->
    (forall n r, In (n, r) linters ->
       (exists row sel, In row Tables_c03structroots.struct_rule_bodies /\ C03StructWord.drow_classified_ne row = true /\
                        C03StructWord.drow_guarded Tables_c03structroots.struct_word_guards row = true /\
                        r = C03StructWord.struct_wrule_w isw dtoks (C03StructRoots.drow_srcs row) sel) \/
       (forall t d, doc_ok C03Roots.pkind d -> Forall (lint_in (length (l_src d))) (r t d))) ->
    forall n r t d, In (n, r) linters -> doc_ok C03Roots.pkind d -> Forall (lint_in (length (l_src d))) (r t d).
Proof. exact C03StructWordProofs.table_struct_rules_ok_w. Qed.
Check C03_table_struct_rules_ok_word_guard :
  forall (isw : C03Roots.pkind -> bool) (dtoks : ldoc C03Roots.pkind -> list (Cache.tok C03Roots.pkind))
         (linters : list (N * wrule C03Roots.pkind)),
    (forall d, doc_ok C03Roots.pkind d -> Forall (C03RootsProofs.tok_within 0 (length (l_src d))) (dtoks d)) ->
    (forall d, doc_ok C03Roots.pkind d ->
       Forall (fun t : Cache.tok C03Roots.pkind => isw (fst t) = true -> sstart (snd t) < send (snd t)) (dtoks d)) ->
    (forall n r, In (n, r) linters ->
       (exists row sel, In row Tables_c03structroots.struct_rule_bodies /\ C03StructWord.drow_classified_ne row = true /\
                        C03StructWord.drow_guarded Tables_c03structroots.struct_word_guards row = true /\
                        r = C03StructWord.struct_wrule_w isw dtoks (C03StructRoots.drow_srcs row) sel) \/
       (forall t d, doc_ok C03Roots.pkind d -> Forall (lint_in (length (l_src d))) (r t d))) ->
    forall n r t d, In (n, r) linters -> doc_ok C03Roots.pkind d -> Forall (lint_in (length (l_src d))) (r t d).
Print Assumptions C03_table_struct_rules_ok_word_guard.

(* non-vacuity: the row of SentenceCapitalization over the tokens of the plain-English document "ab cd." (ASCII tables):
   unclassified before, classified now, guarded; tokens 0..2 2..3 3..5 5..6; with_len(1) of the first word, of the space (the
   guarded reading skips it) and of the final "." at the end of the source — all inside *)
Example C03_plain_struct_rule_nonvacuous :
  C03StructRoots.d_name C03StructWordProofs.exw_row = C03StructWordProofs.exw_name /\ C03StructRoots.drow_srcs C03StructWordProofs.exw_row = [C03StructRoots.DWithLen1] /\
  C03StructRoots.drow_classified C03StructWordProofs.exw_row = false /\ C03StructWord.drow_classified_ne C03StructWordProofs.exw_row = true /\
  C03StructWord.drow_guarded Tables_c03structroots.struct_word_guards C03StructWordProofs.exw_row = true /\
  C03StructWordProofs.struct_table_rule_ne (C03StructWord.plain_dtoks LexerProofs.ascii_uni C03StructWordProofs.exw_enc) C03StructWordProofs.exw_rule /\
  map snd (C03StructWord.plain_dtoks LexerProofs.ascii_uni C03StructWordProofs.exw_enc C03StructWordProofs.exw_doc) = [mkspan 0 2; mkspan 2 3; mkspan 3 5; mkspan 5 6] /\
  C03StructWordProofs.exw_rule 0 C03StructWordProofs.exw_doc = [mkclint (mkspan 0 1) 7%N; mkclint (mkspan 2 3) 7%N; mkclint (mkspan 5 6) 7%N] /\
  C03StructWordProofs.exw_rule_w 0 C03StructWordProofs.exw_doc = [mkclint (mkspan 0 1) 7%N] /\
  Forall (lint_in (length C03StructWordProofs.exw_src)) (C03StructWordProofs.exw_rule 0 C03StructWordProofs.exw_doc).
Proof. exact C03StructWordProofs.plain_struct_rule_example. Qed.

(* ================= phase 7: whole-document rules that are not `impl Linter` rows — blanket impl, merge_linters!, MapPhraseLinter ================= *)
Require C03Blanket C03BlanketProofs.

(* the blanket `impl<L: PatternLinter> Linter for L` (run_on_chunk over every chunk of document.iter_chunks()): a pattern rule that
   keeps its lints inside the hull of its chunk is a whole-document rule that keeps its lints inside the document *)
Theorem C03_blanket_wrule_ok :
  forall (kind : Type) (p : prule kind),
    (forall t src (ts : list (Cache.tok kind)) sp, toks_wf kind ts -> hull_of ts = Ok (Some sp) -> send sp <= length src ->
       Forall (lint_within sp) (p t src ts)) ->
    forall t d, doc_ok kind d -> Forall (lint_in (length (l_src d))) (C03Blanket.blanket_wrule p t d).
Proof. exact C03BlanketProofs.blanket_wrule_ok. Qed.
Check C03_blanket_wrule_ok :
  forall (kind : Type) (p : prule kind),
    (forall t src (ts : list (Cache.tok kind)) sp, toks_wf kind ts -> hull_of ts = Ok (Some sp) -> send sp <= length src ->
       Forall (lint_within sp) (p t src ts)) ->
    forall t d, doc_ok kind d -> Forall (lint_in (length (l_src d))) (C03Blanket.blanket_wrule p t d).
Print Assumptions C03_blanket_wrule_ok.

(* merge_linters!: the lints of the merged rules, filtered by any function that only drops lints (remove_overlaps: C13) *)
Theorem C03_merged_wrule_ok :
  forall (kind : Type) (keep : list clint -> list clint) (rs : list (wrule kind)),
    (forall l x, In x (keep l) -> In x l) ->
    Forall (fun r : wrule kind => forall t d, doc_ok kind d -> Forall (lint_in (length (l_src d))) (r t d)) rs ->
    forall t d, doc_ok kind d -> Forall (lint_in (length (l_src d))) (C03Blanket.merged_wrule keep rs t d).
Proof. exact C03BlanketProofs.merged_wrule_ok. Qed.
Check C03_merged_wrule_ok :
  forall (kind : Type) (keep : list clint -> list clint) (rs : list (wrule kind)),
    (forall l x, In x (keep l) -> In x l) ->
    Forall (fun r : wrule kind => forall t d, doc_ok kind d -> Forall (lint_in (length (l_src d))) (r t d)) rs ->
    forall t d, doc_ok kind d -> Forall (lint_in (length (l_src d))) (C03Blanket.merged_wrule keep rs t d).
Print Assumptions C03_merged_wrule_ok.

(* a rule of the PATTERN table registered as a whole-document rule — through the blanket impl (TheHowWhy, WidelyAccepted, the
   MapPhraseLinter closed compounds) or merged by merge_linters! (HopHope, CompoundNouns, PronounContraction, LetsConfusion) — needs
   no premise *)
Theorem C03_blanket_table_rule_ok :
  forall r : wrule C03Roots.pkind, C03BlanketProofs.blanket_table_rule r ->
    forall t d, doc_ok C03Roots.pkind d -> Forall (lint_in (length (l_src d))) (r t d).
Proof. exact C03BlanketProofs.blanket_table_rule_ok. Qed.
Check C03_blanket_table_rule_ok :
  forall r : wrule C03Roots.pkind, C03BlanketProofs.blanket_table_rule r ->
    forall t d, doc_ok C03Roots.pkind d -> Forall (lint_in (length (l_src d))) (r t d).
Print Assumptions C03_blanket_table_rule_ok.

(* today's tables: every PatternLinter type behind a whole-document registration of new_curated that is not a struct row (regenerated list
   whole_document_nonrow_registrations; the generator raises when a registration is of any other kind) has a rooted row in the pattern table *)
Theorem C03_blanket_rows_today :
  forallb (fun n => existsb (fun row => String.eqb (C03Roots.p_name row) n && C03Roots.row_lints_matched row)
                            Tables_c03roots.pattern_rule_bodies) C03BlanketProofs.blanket_registered = true /\
  5 <= length Tables_c03structroots.whole_document_nonrow_registrations.
Proof. exact C03BlanketProofs.blanket_rows_today. Qed.
Check C03_blanket_rows_today :
  forallb (fun n => existsb (fun row => String.eqb (C03Roots.p_name row) n && C03Roots.row_lints_matched row)
                            Tables_c03roots.pattern_rule_bodies) C03BlanketProofs.blanket_registered = true /\
  5 <= length Tables_c03structroots.whole_document_nonrow_registrations.
Print Assumptions C03_blanket_rows_today.

(* LintGroup::lint with every kind of registration new_curated makes, on plain-English documents, over every history: NO premise on any
   rule and no token hypothesis — whole-document rules are struct rows over the lexer's tokens or pattern-table rules through the
   blanket impl / merge_linters!, pattern rules are rules of the table *)
Theorem C03_plain_curated_lintgroup_history_in_bounds :
  forall (cfg : Type) (enabled : cfg -> N -> bool) (cfg_hash : cfg -> N) (tok_hash : list (Cache.tok C03Roots.pkind) -> N)
         (u : Lexer.uni) (enc : Lexer.token -> C03Roots.pkind)
         (linters : list (N * wrule C03Roots.pkind)) (plinters : list (N * prule C03Roots.pkind)),
    (forall n r, In (n, r) linters ->
       (exists row sel, In row Tables_c03structroots.struct_rule_bodies /\ C03StructWord.drow_classified_ne row = true /\
                        r = C03StructRoots.struct_wrule (C03StructWord.plain_dtoks u enc) (C03StructRoots.drow_srcs row) sel) \/
       C03BlanketProofs.blanket_table_rule r) ->
    (forall n r, In (n, r) plinters ->
       exists row leaf oracle p sel,
         In row Tables_c03roots.pattern_rule_bodies /\ C03Roots.row_lints_matched row = true /\
         r = C03Roots.pattern_prule leaf oracle p (C03Roots.row_lint_asts row) sel) ->
    forall (h : list (lop cfg C03Roots.pkind)) (st : lstate cfg),
      hist_ok cfg C03Roots.pkind h -> cache_ok (lg_cache st) ->
      exists st' outs,
        lg_run cfg C03Roots.pkind enabled cfg_hash tok_hash linters plinters h st = Ok (st', outs) /\
        cache_ok (lg_cache st') /\
        map fst outs = hist_docs cfg C03Roots.pkind h /\
        Forall (fun p => Forall (lint_in (length (l_src (fst p)))) (snd p)) outs.
Proof. exact C03BlanketProofs.plain_curated_lintgroup_history_in_bounds. Qed.
Check C03_plain_curated_lintgroup_history_in_bounds :
  forall (cfg : Type) (enabled : cfg -> N -> bool) (cfg_hash : cfg -> N) (tok_hash : list (Cache.tok C03Roots.pkind) -> N)
         (u : Lexer.uni) (enc : Lexer.token -> C03Roots.pkind)
         (linters : list (N * wrule C03Roots.pkind)) (plinters : list (N * prule C03Roots.pkind)),
    (forall n r, In (n, r) linters ->
       (exists row sel, In row Tables_c03structroots.struct_rule_bodies /\ C03StructWord.drow_classified_ne row = true /\
                        r = C03StructRoots.struct_wrule (C03StructWord.plain_dtoks u enc) (C03StructRoots.drow_srcs row) sel) \/
       C03BlanketProofs.blanket_table_rule r) ->
    (forall n r, In (n, r) plinters ->
       exists row leaf oracle p sel,
         In row Tables_c03roots.pattern_rule_bodies /\ C03Roots.row_lints_matched row = true /\
         r = C03Roots.pattern_prule leaf oracle p (C03Roots.row_lint_asts row) sel) ->
    forall (h : list (lop cfg C03Roots.pkind)) (st : lstate cfg),
      hist_ok cfg C03Roots.pkind h -> cache_ok (lg_cache st) ->
      exists st' outs,
        lg_run cfg C03Roots.pkind enabled cfg_hash tok_hash linters plinters h st = Ok (st', outs) /\
        cache_ok (lg_cache st') /\
        map fst outs = hist_docs cfg C03Roots.pkind h /\
        Forall (fun p => Forall (lint_in (length (l_src (fst p)))) (snd p)) outs.
Print Assumptions C03_plain_curated_lintgroup_history_in_bounds.

(* non-vacuity: the Hereby row as a whole-document rule on a document with the chunk "ab cd ef." at 2..11 and an empty chunk; merged
   with itself under a `keep` that drops every second lint *)
Example C03_blanket_rule_nonvacuous :
  C03RootsProofs.table_rule C03RootsProofs.exr_rule /\ doc_ok C03Roots.pkind C03BlanketProofs.exb_doc /\
  C03BlanketProofs.blanket_table_rule (C03Blanket.blanket_wrule C03RootsProofs.exr_rule) /\
  C03Blanket.blanket_wrule C03RootsProofs.exr_rule 0 C03BlanketProofs.exb_doc = [mkclint (mkspan 2 7) 5%N; mkclint (mkspan 7 11) 5%N] /\
  C03BlanketProofs.blanket_table_rule (C03Blanket.merged_wrule C03BlanketProofs.exb_keep (map C03Blanket.blanket_wrule [C03RootsProofs.exr_rule; C03RootsProofs.exr_rule])) /\
  C03Blanket.merged_wrule C03BlanketProofs.exb_keep (map C03Blanket.blanket_wrule [C03RootsProofs.exr_rule; C03RootsProofs.exr_rule]) 0 C03BlanketProofs.exb_doc =
    [mkclint (mkspan 2 7) 5%N; mkclint (mkspan 2 7) 5%N] /\
  Forall (lint_in 11) (C03Blanket.merged_wrule C03BlanketProofs.exb_keep (map C03Blanket.blanket_wrule [C03RootsProofs.exr_rule; C03RootsProofs.exr_rule]) 0 C03BlanketProofs.exb_doc).
Proof. exact C03BlanketProofs.blanket_rule_example. Qed.
