(* C03 — Every lint points into the text; every suggestion is a well-defined local edit.
   Pinned statements only. *)
Require Import Base Suggestion Rebase ListLemmas SuggestionProofs SpanSchemas Tables_spanexprs SpanSites.

(* the edit primitive: total on spans inside the text *)
Theorem C03_apply_total : forall s sp src, span_in (length src) sp -> is_ok (apply s sp src) = true.
Proof. exact apply_total. Qed.
Check C03_apply_total : forall s sp src, span_in (length src) sp -> is_ok (apply s sp src) = true.
Print Assumptions C03_apply_total.

(* ... and it is exactly the splice: prefix ++ replacement ++ suffix *)
Theorem C03_apply_spec : forall s sp src,
  span_in (length src) sp ->
  apply s sp src = Ok (firstn (sstart sp) src ++ repl s (slice src (sstart sp) (send sp)) ++ skipn (send sp) src).
Proof. exact apply_spec. Qed.
Check C03_apply_spec : forall s sp src,
  span_in (length src) sp ->
  apply s sp src = Ok (firstn (sstart sp) src ++ repl s (slice src (sstart sp) (send sp)) ++ skipn (send sp) src).
Print Assumptions C03_apply_spec.

Theorem C03_prefix_preserved : forall s sp src t,
  span_in (length src) sp -> apply s sp src = Ok t -> firstn (sstart sp) t = firstn (sstart sp) src.
Proof. exact apply_prefix. Qed.
Check C03_prefix_preserved : forall s sp src t,
  span_in (length src) sp -> apply s sp src = Ok t -> firstn (sstart sp) t = firstn (sstart sp) src.
Print Assumptions C03_prefix_preserved.

Theorem C03_suffix_preserved : forall s sp src t,
  span_in (length src) sp -> apply s sp src = Ok t -> skipn (new_end s sp) t = skipn (send sp) src.
Proof. exact apply_suffix. Qed.
Check C03_suffix_preserved : forall s sp src t,
  span_in (length src) sp -> apply s sp src = Ok t -> skipn (new_end s sp) t = skipn (send sp) src.
Print Assumptions C03_suffix_preserved.

Theorem C03_length : forall s sp src t,
  span_in (length src) sp -> apply s sp src = Ok t ->
  length t + (send sp - sstart sp) = length src + length (repl s (slice src (sstart sp) (send sp))).
Proof. exact apply_length. Qed.
Check C03_length : forall s sp src t,
  span_in (length src) sp -> apply s sp src = Ok t ->
  length t + (send sp - sstart sp) = length src + length (repl s (slice src (sstart sp) (send sp))).
Print Assumptions C03_length.

(* the error branch, explicitly: which out-of-text spans the implementation rejects by panicking *)
Theorem C03_apply_rejects : forall s sp src,
  sstart sp <= send sp ->
  match s with
  | InsertAfter _ => length src < send sp
  | ReplaceWith cs => (length cs = send sp - sstart sp /\ cs <> [] /\ length src < send sp)
                      \/ (length cs <> send sp - sstart sp /\ length src < sstart sp)
  | Remove => False
  end ->
  exists w, apply s sp src = Panic w.
Proof. exact apply_rejects. Qed.
Check C03_apply_rejects : forall s sp src,
  sstart sp <= send sp ->
  match s with
  | InsertAfter _ => length src < send sp
  | ReplaceWith cs => (length cs = send sp - sstart sp /\ cs <> [] /\ length src < send sp)
                      \/ (length cs <> send sp - sstart sp /\ length src < sstart sp)
  | Remove => False
  end ->
  exists w, apply s sp src = Panic w.
Print Assumptions C03_apply_rejects.

(* the chunk cache re-bases a lint without leaving the chunk it is re-emitted for *)
Theorem C03_rebase_in_bounds : forall (sp : span) (a b a' b' : nat),
  a <= sstart sp -> sstart sp <= send sp -> send sp <= b -> b - a = b' - a' -> a <= b -> a' <= b' ->
  exists rel, pull_by sp a = Ok rel /\
              a' <= sstart (push_by rel a') /\ sstart (push_by rel a') <= send (push_by rel a') /\
              send (push_by rel a') <= b' /\
              send (push_by rel a') - sstart (push_by rel a') = send sp - sstart sp.
Proof. exact rebase_in_bounds. Qed.
Check C03_rebase_in_bounds : forall (sp : span) (a b a' b' : nat),
  a <= sstart sp -> sstart sp <= send sp -> send sp <= b -> b - a = b' - a' -> a <= b -> a' <= b' ->
  exists rel, pull_by sp a = Ok rel /\
              a' <= sstart (push_by rel a') /\ sstart (push_by rel a') <= send (push_by rel a') /\
              send (push_by rel a') <= b' /\
              send (push_by rel a') - sstart (push_by rel a') = send sp - sstart sp.
Print Assumptions C03_rebase_in_bounds.

(* the executable cache re-basing that is run against LintGroup::lint (correspondence lines `B`):
   lints inside their chunk are shifted by the difference of the chunk starts, nothing else ... *)
Theorem C03_rebase_model_value : forall (a a' : nat) (ls : list (nat * nat)),
  Forall (fun se => a <= fst se /\ fst se <= snd se) ls ->
  run_rebase a a' ls = Some (map (fun se => (fst se - a + a', snd se - a + a')) ls).
Proof. exact run_rebase_total. Qed.
Check C03_rebase_model_value : forall (a a' : nat) (ls : list (nat * nat)),
  Forall (fun se => a <= fst se /\ fst se <= snd se) ls ->
  run_rebase a a' ls = Some (map (fun se => (fst se - a + a', snd se - a + a')) ls).
Print Assumptions C03_rebase_model_value.

(* ... and a lint that starts before its chunk makes pull_by underflow (debug panic) *)
Theorem C03_rebase_model_rejects : forall (a a' s e : nat) (t : list (nat * nat)),
  s < a -> run_rebase a a' ((s, e) :: t) = None.
Proof. exact run_rebase_panics. Qed.
Check C03_rebase_model_rejects : forall (a a' s e : nat) (t : list (nat * nat)),
  s < a -> run_rebase a a' ((s, e) :: t) = None.
Print Assumptions C03_rebase_model_rejects.

Example C03_rebase_model_example : run_rebase 10 3 [(12, 15); (10, 10)] = Some [(5, 8); (3, 3)].
Proof. vm_compute. reflexivity. Qed.

(* span schemas used by the rules, under the token invariant of C02 *)
Theorem C03_token_derived_in_bounds : forall n,
  (forall ts h, Forall (span_in n) ts -> hull ts = Some h -> span_in n h) /\
  (forall t, span_in n t -> sstart t < send t -> span_in n (with_len t 1)) /\
  (forall t, span_in n t -> 2 <= send t - sstart t ->
     exists s, pulled_by (span_new_with_len (send t) 2) 2 = Some s /\ span_in n s /\
               sstart t <= sstart s /\ send s = send t /\ send s - sstart s = 2) /\
  (forall a b, span_in n a -> span_in n b -> send a <= sstart b ->
     exists s, span_new (sstart a) (send b) = Ok s /\ span_in n s).
Proof.
  exact (fun n => conj (hull_in_bounds n) (conj (with_len_1_in_bounds n) (conj (suffix_span_in_bounds n) (between_in_bounds n)))).
Qed.
Check C03_token_derived_in_bounds : forall n,
  (forall ts h, Forall (span_in n) ts -> hull ts = Some h -> span_in n h) /\
  (forall t, span_in n t -> sstart t < send t -> span_in n (with_len t 1)) /\
  (forall t, span_in n t -> 2 <= send t - sstart t ->
     exists s, pulled_by (span_new_with_len (send t) 2) 2 = Some s /\ span_in n s /\
               sstart t <= sstart s /\ send s = send t /\ send s - sstart s = 2) /\
  (forall a b, span_in n a -> span_in n b -> send a <= sstart b ->
     exists s, span_new (sstart a) (send b) = Ok s /\ span_in n s).
Print Assumptions C03_token_derived_in_bounds.

(* the tie for rule bodies: the table of every site in harper-core/src/linting/*.rs where a span is
   computed (rather than copied from a token or taken as a hull) is regenerated from the sources on
   every run; each site must fall under one of the schemas of C03_token_derived_in_bounds.  A new
   kind of span arithmetic in a rule makes this obligation fail. *)
Theorem C03_rule_span_sites_known :
  forallb (fun e => schema_known (snd e)) rule_span_sites = true /\ 40 <= rule_files_scanned.
Proof. exact rule_span_sites_known. Qed.
Check C03_rule_span_sites_known :
  forallb (fun e => schema_known (snd e)) rule_span_sites = true /\ 40 <= rule_files_scanned.
Print Assumptions C03_rule_span_sites_known.

(* non-vacuity: all three kinds on a concrete text, incl. the equal-length in-place path, a span
   touching the end, and the rejected case *)
Example C03_nonvacuous :
  apply (ReplaceWith [120; 121]%N) (mkspan 1 3) [97; 98; 99; 100]%N = Ok [97; 120; 121; 100]%N /\
  apply (ReplaceWith [120]%N) (mkspan 1 3) [97; 98; 99; 100]%N = Ok [97; 120; 100]%N /\
  apply (InsertAfter [44]%N) (mkspan 2 4) [97; 98; 99; 100]%N = Ok [97; 98; 99; 100; 44]%N /\
  apply Remove (mkspan 0 2) [97; 98; 99; 100]%N = Ok [99; 100]%N /\
  apply (InsertAfter [44]%N) (mkspan 2 5) [97; 98; 99; 100]%N = Panic PIndex.
Proof. vm_compute. repeat split. Qed.
